(* Model of /repo/src/lossy.rs: the lossy deb822 reader (FromStr for Deb822 / Paragraph),
   the printers (Display for Field / Paragraph / Deb822) and the list edits of Paragraph. *)
From V.model Require Import Base Deb822Lex.

Notation lfield := (str * str)%type.          (* Field { name, value } *)
Notation lpara := (list (str * str)).          (* Paragraph { fields } *)
Notation ldoc := (list (list (str * str))).    (* Deb822(Vec<Paragraph>) *)

(* ---------------- reader ---------------- *)
(* "for (k, t) in tokens.by_ref()" on the first line: VALUE replaces the value, NEWLINE ends
   the line, anything else is an error; running out of tokens ends the loop *)
Fixpoint first_line (ts : list token) (v : str) : res (str * list token) :=
  match ts with
  | [] => Ok (v, [])
  | (VALUE, t) :: r => first_line r t
  | (NEWLINE, _) :: r => Ok (v, r)
  | _ => Err 1%N
  end.

(* the inner loop after an INDENT token *)
Fixpoint cont_line (ts : list token) (v : str) : res (str * list token) :=
  match ts with
  | [] => Ok (v, [])
  | (VALUE, t) :: r => cont_line r (v ++ t)
  | (COMMENT, _) :: r => cont_line r v
  | (NEWLINE, _) :: r => Ok (v ++ [10%N], r)       (* value.push('\n') — fix 9998a8d *)
  | (KEY, _) :: _ => Ok (v, ts)
  | _ => Err 1%N
  end.

(* while the next token is INDENT *)
Fixpoint conts (fuel : nat) (ts : list token) (v : str) : res (str * list token) :=
  match ts with
  | (INDENT, _) :: r =>
    match fuel with
    | O => OutOfFuel
    | S f =>
      match cont_line r v with
      | Ok (v', r') => conts f r' v'
      | Err e => Err e | Panic n => Panic n | OutOfFuel => OutOfFuel
      end
    end
  | _ => Ok (v, ts)
  end.

Fixpoint skip_ws_tokens (ts : list token) : list token :=
  match ts with (WHITESPACE, _) :: r => skip_ws_tokens r | _ => ts end.

Fixpoint drop_line (ts : list token) : list token :=     (* "for (k, _) in tokens.by_ref() { if k == NEWLINE { break } }" *)
  match ts with [] => [] | (NEWLINE, _) :: r => r | _ :: r => drop_line r end.

(* if value.ends_with('\n') { value.pop() } *)
Definition strip_nl (v : str) : str :=
  match rev v with c :: r => if (c =? 10)%N then rev r else v | [] => v end.

(* the KEY arm: returns the finished field and the remaining tokens *)
Definition read_field (name : str) (ts : list token) : res (lfield * list token) :=
  match ts with
  | (COLON, _) :: r =>
    match first_line (skip_ws_tokens r) [] with
    | Ok (v, r1) =>
      match conts (length r1) r1 (v ++ [10%N]) with
      | Ok (v', r2) => Ok ((name, strip_nl v'), r2)
      | Err e => Err e | Panic n => Panic n | OutOfFuel => OutOfFuel
      end
    | Err e => Err e | Panic n => Panic n | OutOfFuel => OutOfFuel
    end
  | _ :: _ => Err 1%N          (* UnexpectedToken *)
  | [] => Err 2%N              (* UnexpectedEof *)
  end.

Definition push_para (cur : lpara) (ps : ldoc) : ldoc :=
  match cur with [] => ps | _ => ps ++ [cur] end.

Fixpoint read_go (fuel : nat) (ts : list token) (cur : lpara) (ps : ldoc) : res ldoc :=
  match ts with
  | [] => Ok (push_para cur ps)
  | (k, t) :: r =>
    match fuel with
    | O => OutOfFuel
    | S f =>
      match k with
      | EMPTY_LINE | PARAGRAPH | ROOT | ENTRY => Panic 3%N       (* unreachable!() *)
      | INDENT | COLON | ERROR | VALUE => Err 1%N
      | WHITESPACE => read_go f r cur ps
      | KEY =>
        match read_field t r with
        | Ok (fld, r') => read_go f r' (cur ++ [fld]) ps
        | Err e => Err e | Panic n => Panic n | OutOfFuel => OutOfFuel
        end
      | COMMENT => read_go f (drop_line r) cur ps
      | NEWLINE => read_go f r [] (push_para cur ps)
      end
    end
  end.

Definition read_tokens (ts : list token) : res ldoc := read_go (length ts) ts [] [].

(* <lossy::Deb822 as FromStr>::from_str *)
Definition lossy_from_str (s : str) : res ldoc :=
  match lex s with
  | Ok ts => read_tokens ts
  | Err e => Err e | Panic n => Panic n | OutOfFuel => OutOfFuel
  end.

(* <lossy::Paragraph as FromStr>::from_str: exactly one paragraph *)
Definition lossy_paragraph_from_str (s : str) : res lpara :=
  match lossy_from_str s with
  | Ok [] => Err 2%N
  | Ok [p] => Ok p
  | Ok _ => Err 3%N
  | Err _ => Err 3%N          (* map_err(|_| ExpectedEof) *)
  | Panic n => Panic n | OutOfFuel => OutOfFuel
  end.

(* ---------------- printers ---------------- *)
(* str::lines(): split after every '\n'; a piece that ended in "\n" also loses one "\r" before it *)
Definition strip_cr (l : str) : str :=
  match rev l with c :: r => if (c =? 13)%N then rev r else l | [] => l end.
Fixpoint lines_go (s acc : str) : list str :=
  match s with
  | [] => match acc with [] => [] | _ => [acc] end
  | c :: r => if (c =? 10)%N then strip_cr acc :: lines_go r [] else lines_go r (acc ++ [c])
  end.
Definition lines (s : str) : list str := lines_go s [].

Definition print_field (f : lfield) : str :=
  let '(name, value) := f in
  let ls := lines value in
  if Nat.ltb 1 (length ls)
  then name ++ [58%N] ++ flat_map (fun l => 32%N :: l ++ [10%N]) ls
  else name ++ [58%N; 32%N] ++ value ++ [10%N].
Definition print_para (p : lpara) : str := flat_map print_field p.
Fixpoint print_doc_from (i : nat) (d : ldoc) : str :=
  match d with
  | [] => []
  | p :: r => (match i with O => [] | _ => [10%N] end) ++ print_para p ++ print_doc_from (S i) r
  end.
Definition print_doc (d : ldoc) : str := print_doc_from 0 d.

(* ---------------- Paragraph edits ---------------- *)
Fixpoint l_get (p : lpara) (k : str) : option str :=
  match p with [] => None | (n, v) :: r => if str_eqb n k then Some v else l_get r k end.
Definition l_insert (p : lpara) (k v : str) : lpara := p ++ [(k, v)].
Fixpoint l_set_existing (p : lpara) (k v : str) : option lpara :=
  match p with
  | [] => None
  | (n, x) :: r => if str_eqb n k then Some ((n, v) :: r)
                   else match l_set_existing r k v with Some r' => Some ((n, x) :: r') | None => None end
  end.
Definition l_set (p : lpara) (k v : str) : lpara :=
  match l_set_existing p k v with Some p' => p' | None => l_insert p k v end.
Definition l_remove (p : lpara) (k : str) : lpara := filter (fun f => negb (str_eqb (fst f) k)) p.
