(* Model of the recursive-descent parser in /repo/src/lossless.rs (fn parse and its
   inner impl Parser), of the accessors used by the properties, and of the entry points
   from_str / from_str_relaxed.  The GreenNodeBuilder is modelled functionally: every
   routine returns the children it emitted into the current node, the remaining tokens
   and the number of errors it pushed. *)
From V.model Require Import Base Deb822Lex.

Notation tree := (elem kind).

Definition cur (ts : list token) : option kind :=
  match ts with [] => None | (k, _) :: _ => Some k end.

Definition is_ws_or_comment (k : kind) : bool :=
  match k with WHITESPACE | COMMENT => true | _ => false end.
Definition is_ws_or_value (k : kind) : bool :=
  match k with WHITESPACE | VALUE => true | _ => false end.

(* bump every leading token whose kind satisfies p *)
Fixpoint bump_while (p : kind -> bool) (ts : list token) : list tree * list token :=
  match ts with
  | (k, s) :: r => if p k then let '(e, r') := bump_while p r in (Tok k s :: e, r') else ([], ts)
  | [] => ([], [])
  end.

Definition skip_ws := bump_while is_ws_or_comment.

(* The "while self.current() == Some(COMMENT)" prologue of parse_entry.
   Returns (emitted, remaining, errors, returned_early). *)
Fixpoint pe_comments (ts : list token) : list tree * list token * nat * bool :=
  match ts with
  | (COMMENT, s) :: r =>
      match r with
      | [] => ([Tok COMMENT s], [], 0, true)
      | (NEWLINE, s') :: r' =>
          let '(e, rest, n, early) := pe_comments r' in
          (Tok COMMENT s :: Tok NEWLINE s' :: e, rest, n, early)
      | (g, s') :: r' =>
          let '(e, rest, n, early) := pe_comments r' in
          (Tok COMMENT s :: Node ERROR [Tok g s'] :: e, rest, S n, early)
      end
  | _ => ([], ts, 0, false)
  end.

(* "expect kind k": bump it and skip_ws, or emit an ERROR node holding (at most) one token *)
Definition pe_expect (k : kind) (ts : list token) : list tree * list token * nat :=
  match ts with
  | (k', s) :: r =>
      if kind_eqb k' k then let '(e, r') := skip_ws r in (Tok k' s :: e, r', 0)
      else ([Node ERROR [Tok k' s]], r, 1)
  | [] => ([Node ERROR []], [], 1)
  end.

(* the value-lines loop of parse_entry *)
Fixpoint pe_lines (fuel : nat) (ts : list token) : res (list tree * list token * nat) :=
  match fuel with
  | O => OutOfFuel
  | S f =>
    let '(e1, r1) := bump_while is_ws_or_value ts in
    match r1 with
    | [] => Ok (e1, [], 0)
    | (k, s) :: r2 =>
      let '(e2, n2) := match k with
                       | NEWLINE => ([Tok k s], 0)
                       | _ => ([Node ERROR [Tok k s]], 1)
                       end in
      match r2 with
      | (INDENT, si) :: r3 =>
          let '(e3, r4) := skip_ws r3 in
          match pe_lines f r4 with
          | Ok (e5, r5, n5) => Ok (e1 ++ e2 ++ Tok INDENT si :: e3 ++ e5, r5, n2 + n5)
          | Err x => Err x | Panic x => Panic x | OutOfFuel => OutOfFuel
          end
      | _ => Ok (e1 ++ e2, r2, n2)
      end
    end
  end.

Definition parse_entry (ts : list token) : res (list tree * list token * nat) :=
  let '(e0, r0, n0, early) := pe_comments ts in
  if early then Ok (e0, r0, n0) else
  (* comments may be the last thing in a paragraph: fix 68b9a7d *)
  match cur r0 with
  | None | Some NEWLINE => Ok (e0, r0, n0)
  | _ =>
  let '(e1, r1, n1) := pe_expect KEY r0 in
  let '(e2, r2, n2) := pe_expect COLON r1 in
  match pe_lines (S (length r2)) r2 with
  | Ok (e3, r3, n3) => Ok (e0 ++ [Node ENTRY (e1 ++ e2 ++ e3)], r3, n0 + n1 + n2 + n3)
  | Err x => Err x | Panic x => Panic x | OutOfFuel => OutOfFuel
  end
  end.

(* while current != NEWLINE && current.is_some() { parse_entry } *)
Fixpoint pp_entries (fuel : nat) (ts : list token) : res (list tree * list token * nat) :=
  match cur ts with
  | None | Some NEWLINE => Ok ([], ts, 0)
  | Some _ =>
    match fuel with
    | O => OutOfFuel
    | S f =>
      match parse_entry ts with
      | Ok (e1, r1, n1) =>
        match pp_entries f r1 with
        | Ok (e2, r2, n2) => Ok (e1 ++ e2, r2, n1 + n2)
        | Err x => Err x | Panic x => Panic x | OutOfFuel => OutOfFuel
        end
      | Err x => Err x | Panic x => Panic x | OutOfFuel => OutOfFuel
      end
    end
  end.

Definition parse_paragraph (ts : list token) : res (list tree * list token * nat) :=
  match pp_entries (length ts) ts with
  | Ok (e, r, n) => Ok ([Node PARAGRAPH e], r, n)
  | Err x => Err x | Panic x => Panic x | OutOfFuel => OutOfFuel
  end.

(* one EMPTY_LINE node: bump until NEWLINE (or end), then bump the NEWLINE *)
Fixpoint empty_line (ts : list token) : list tree * list token :=
  match ts with
  | [] => ([], [])
  | (NEWLINE, s) :: r => ([Tok NEWLINE s], r)
  | (k, s) :: r => let '(e, r') := empty_line r in (Tok k s :: e, r')
  end.

Definition starts_blank (ts : list token) : bool :=
  match cur ts with
  | Some WHITESPACE | Some COMMENT | Some NEWLINE => true
  | _ => false
  end.

Fixpoint skip_wsnl (fuel : nat) (ts : list token) : res (list tree * list token) :=
  if starts_blank ts then
    match fuel with
    | O => OutOfFuel
    | S f =>
      let '(e, r) := empty_line ts in
      match skip_wsnl f r with
      | Ok (e2, r2) => Ok (Node EMPTY_LINE e :: e2, r2)
      | Err x => Err x | Panic x => Panic x | OutOfFuel => OutOfFuel
      end
    end
  else Ok ([], ts).

(* while current.is_some() { skip_ws_and_newlines; if current.is_some() { parse_paragraph } } *)
Fixpoint parse_root (fuel : nat) (ts : list token) : res (list tree * nat) :=
  match ts with
  | [] => Ok ([], 0)
  | _ =>
    match fuel with
    | O => OutOfFuel
    | S f =>
      match skip_wsnl (length ts) ts with
      | Ok (e1, r1) =>
        match r1 with
        | [] => Ok (e1, 0)
        | _ =>
          match parse_paragraph r1 with
          | Ok (e2, r2, n2) =>
            match parse_root f r2 with
            | Ok (e3, n3) => Ok (e1 ++ e2 ++ e3, n2 + n3)
            | Err x => Err x | Panic x => Panic x | OutOfFuel => OutOfFuel
            end
          | Err x => Err x | Panic x => Panic x | OutOfFuel => OutOfFuel
          end
        end
      | Err x => Err x | Panic x => Panic x | OutOfFuel => OutOfFuel
      end
    end
  end.

(* fn parse(text) -> Parse { green_node, errors }: (tree, number of errors) *)
Definition parse_tokens (ts : list token) : res (tree * nat) :=
  match parse_root (length ts) ts with
  | Ok (e, n) => Ok (Node ROOT e, n)
  | Err x => Err x | Panic x => Panic x | OutOfFuel => OutOfFuel
  end.

Definition parse (s : str) : res (tree * nat) :=
  match lex s with
  | Ok ts => parse_tokens ts
  | Err x => Err x | Panic x => Panic x | OutOfFuel => OutOfFuel
  end.

(* Deb822::from_str_relaxed *)
Definition from_str_relaxed (s : str) : res (tree * nat) := parse s.
(* <Deb822 as FromStr>::from_str : Err 1 = ParseError *)
Definition from_str (s : str) : res tree :=
  match parse s with
  | Ok (t, n) => match n with O => Ok t | _ => Err 1%N end
  | Err x => Err x | Panic x => Panic x | OutOfFuel => OutOfFuel
  end.

(* Deb822::read / read_relaxed: read_to_string (the harness hands over valid UTF-8, so no I/O error),
   then from_str / from_str_relaxed of the WHOLE buffer, nothing stripped *)
Definition read (s : str) : res tree := from_str s.
Definition read_relaxed (s : str) : res (tree * nat) := from_str_relaxed s.

(* ---- accessors (Deb822::paragraphs, Paragraph::{entries,items,get,get_all,keys,contains_key},
        Entry::{key,value}) ---- *)
Definition is_kind (k : kind) (e : tree) : bool := kind_eqb (ekind e) k.
Definition node_children_of_kind (k : kind) (t : tree) : list tree :=
  filter (fun e => is_node e && is_kind k e) (children t).
Definition paragraphs (t : tree) : list tree := node_children_of_kind PARAGRAPH t.
Definition entries (p : tree) : list tree := node_children_of_kind ENTRY p.

Definition token_texts_of_kind (k : kind) (e : tree) : list str :=
  flat_map (fun c => match c with
                     | Tok k' s => if kind_eqb k' k then [s] else []
                     | Node _ _ => []
                     end) (children e).
Definition entry_key (e : tree) : option str :=
  match token_texts_of_kind KEY e with [] => None | s :: _ => Some s end.
Fixpoint join (sep : str) (l : list str) : str :=
  match l with
  | [] => []
  | [x] => x
  | x :: r => x ++ sep ++ join sep r
  end.
Definition entry_value (e : tree) : str := join [10%N] (token_texts_of_kind VALUE e).

Definition items (p : tree) : list (str * str) :=
  flat_map (fun e => match entry_key e with
                     | Some k => [(k, entry_value e)]
                     | None => []
                     end) (entries p).
Definition keys (p : tree) : list str :=
  flat_map (fun e => match entry_key e with Some k => [k] | None => [] end) (entries p).
Definition opt_str_eqb (a : option str) (b : str) : bool :=
  match a with Some x => str_eqb x b | None => false end.
Definition get (p : tree) (key : str) : option str :=
  match filter (fun e => opt_str_eqb (entry_key e) key) (entries p) with
  | [] => None
  | e :: _ => Some (entry_value e)
  end.
Definition get_all (p : tree) (key : str) : list str :=
  flat_map (fun kv => if str_eqb (fst kv) key then [snd kv] else []) (items p).
Definition contains_key (p : tree) (key : str) : bool :=
  match get p key with Some _ => true | None => false end.
Definition doc_items (t : tree) : list (list (str * str)) := map items (paragraphs t).

(* <Paragraph as FromStr>::from_str: the first paragraph of a strictly parsed document;
   Err 2 = "no paragraphs" *)
Definition paragraph_from_str (s : str) : res tree :=
  match from_str s with
  | Ok t => match paragraphs t with p :: _ => Ok p | [] => Err 2%N end
  | Err x => Err x | Panic x => Panic x | OutOfFuel => OutOfFuel
  end.
