(* C16: the "external" codecs SExt i / DExt i of model/Derive.v at the types of the shipped structs.

   Twelve of the sixteen numbered codecs are plain code of the workspace, modelled elsewhere:
     4 Priority, 5 MultiArch, 8 YesNoForce     keyword tables gen/Enums_gen.v (translate/enums.py), read by EnumTab.v
     6 License, 7 Signature, 9 Forwarded,
     10 AppliedUpstream, 16 DEP-3 Origin       model/Codecs.v (C18)
     11 ParsedVcs                              model/Vcs.v (C18)
     3 lossy Relations                         model/RelLossy.v (C14), parametrised by debversion's FromStr/Display
     12 buildinfo Environment, 13 sources Types: deserialize_env / serialize_env
                                               (debian-control/src/lossy/buildinfo.rs) and deserialize_types /
                                               serialize_types (apt-sources/src/lib.rs), transcribed below
   Four stay external (other crates): 1 debversion::Version ([vparse]/[vprint]), 2 url::Url,
   14 Vec<Url> (split_whitespace + Url), 15 chrono::NaiveDate with "%Y-%m-%d" ([xparse]/[xprint]).

   [cval] is the value type, [c_print] / [c_parse] instantiate Derive's ext_print / ext_parse.
   No proofs in this file. *)
From Coq Require Import ZArith.
From V.model Require Import Base Deb822Lex Deb822Parse Grammar Lossy CodecStr EnumTab Codecs Vcs RelLex RelLossy Derive.
From V.gen Require Import Enums_gen Structs_gen.

(* ------------------------------------------------------------------ String order and sort() *)
(* <str as Ord>::cmp: lexicographic on bytes = lexicographic on scalar values (UTF-8 keeps order) *)
Fixpoint str_leb (a b : str) : bool :=
  match a, b with
  | [], _ => true
  | _ :: _, [] => false
  | x :: a', y :: b' => if (x <? y)%N then true else if (y <? x)%N then false else str_leb a' b'
  end.
(* Vec<String>::sort(): any correct sort gives the same sequence for a total order in which equal
   elements are identical; written as an insertion sort *)
Section Sort.
  Variable A : Type.
  Variable key : A -> str.
  Fixpoint insert_by (x : A) (l : list A) : list A :=
    match l with
    | [] => [x]
    | y :: r => if str_leb (key x) (key y) then x :: l else y :: insert_by x r
    end.
  Fixpoint isort_by (l : list A) : list A :=
    match l with [] => [] | x :: r => insert_by x (isort_by r) end.
  Fixpoint sorted_by (l : list A) : bool :=
    match l with
    | x :: r => match r with y :: _ => str_leb (key x) (key y) && sorted_by r | [] => true end
    | [] => true
    end.
End Sort.
Arguments insert_by {A} key x l.
Arguments isort_by {A} key l.
Arguments sorted_by {A} key l.

Definition res_opt {A} (r : res A) : option A := match r with Ok a => Some a | _ => None end.
Definition res_str (r : res str) : str := match r with Ok s => s | _ => [] end.

(* ------------------------------------------------------------------ buildinfo Environment *)
(* HashMap<String, String>: an association list with distinct keys; the canonical representative
   of a map is the list sorted by its printed lines (HashMap equality ignores order).

   fn deserialize_env(s): for line in s.lines() { (key, value) = line.split_once("=") or
   return Err(..); env.insert(key, value) }                       (insert overwrites)
   fn serialize_env(env): lines = env.iter().map(|(k, v)| format!("{}={}", k, v)).collect();
   lines.sort(); lines.join("\n")                                 (since ae6834b) *)
Definition env_line (kv : str * str) : str := fst kv ++ 61%N :: snd kv.
Fixpoint env_pairs (ls : list str) (m : list (str * str)) : option (list (str * str)) :=
  match ls with
  | [] => Some m
  | l :: r => match split_once 61 l with
              | Some (k, v) => env_pairs r (map_insert k v m)
              | None => None
              end
  end.
Definition env_parse (s : str) : option (list (str * str)) :=
  match env_pairs (Lossy.lines s) [] with
  | Some m => Some (isort_by env_line m)
  | None => None
  end.
Definition env_print (m : list (str * str)) : str :=
  Deb822Parse.join [10%N] (isort_by (fun l => l) (map env_line m)).

(* ------------------------------------------------------------------ sources Types *)
(* HashSet<RepositoryType>: the canonical representative of a set is the list of its members in
   the order of their printed keywords.
   fn deserialize_types(text): text.split_whitespace().map(RepositoryType::from_str).collect::<Result<HashSet<_>, _>>()
   fn serialize_types(set): types = set.iter().map(to_string).collect(); types.sort(); types.join("\n")   (since 5238470) *)
Definition types_tab : enum_tab := RepositoryType_tab.
Definition types_kw (v : N) : str := res_str (enum_print types_tab v).
Definition types_order : list N := isort_by types_kw (enum_values types_tab).
Fixpoint types_read (ts : list str) : option (list N) :=
  match ts with
  | [] => Some []
  | t :: r => match enum_parse types_tab t, types_read r with
              | Ok v, Some l => Some (v :: l)
              | _, _ => None
              end
  end.
Definition types_parse (s : str) : option (list N) :=
  match types_read (Derive.split_ws s) with
  | Some l => Some (filter (fun v => existsb (N.eqb v) l) types_order)
  | None => None
  end.
Definition types_print (l : list N) : str := Deb822Parse.join [10%N] (isort_by (fun k => k) (map types_kw l)).
(* all sets, each in its canonical representation *)
Fixpoint sublists {A} (l : list A) : list (list A) :=
  match l with
  | [] => [[]]
  | x :: r => let s := sublists r in map (cons x) s ++ s
  end.
Definition types_values : list (list N) := sublists types_order.

(* ------------------------------------------------------------------ which Signature reader the tree has *)
(* translate/structs.py reads apt-sources/src/signature.rs: "strip" = the reader since 2e5530c *)
Definition sig_from_str (s : str) : res signature :=
  if sig_keyblock_strip then signature_from_str s else signature_from_str_unfixed s.

Section Shipped.
Variable V : Type.                         (* debversion::Version *)
Variable vparse : str -> option V.
Variable vprint : V -> str.
Variable X : Type.                         (* url::Url, Vec<Url>, chrono::NaiveDate *)
Variable xparse : N -> str -> option X.
Variable xprint : N -> X -> str.

Inductive cval : Type :=
| CVersion (v : V)
| CRelations (r : list (list (relation V)))
| CEnum (n : N)                            (* Priority / MultiArch / YesNoForce: index of the variant *)
| CLicense (l : license)
| CSignature (s : signature)
| CForwarded (f : forwarded)
| CApplied (c : commit_or)
| CVcs (p : parsed_vcs)
| COrigin (cat : option N) (o : commit_or) (* (Option<OriginCategory>, Origin) *)
| CEnv (m : list (str * str))
| CTypes (l : list N)
| COther (x : X).

(* the keyword table of an enumeration codec *)
Definition enum_of (i : N) : option enum_tab :=
  match i with
  | 4%N => Some Priority_tab
  | 5%N => Some MultiArch_tab
  | 8%N => Some YesNoForce_tab
  | _ => None
  end.

(* ToString / the named serialiser of codec i.  A value of another codec's type has no Rust
   counterpart (the struct would not compile); [] is returned for it and no theorem covers it. *)
Definition c_print (i : N) (c : cval) : str :=
  match c with
  | CVersion v => vprint v
  | CRelations r => print_relations vprint r
  | CEnum n => match enum_of i with Some t => res_str (enum_print t n) | None => [] end
  | CLicense l => license_to_string l
  | CSignature s => signature_to_string s
  | CForwarded f => forwarded_to_string f
  | CApplied a => applied_to_string a
  | CVcs p => parsed_vcs_to_string p
  | COrigin cat o => res_str (format_origin OriginCategory_tab parse_origin_tab cat o)
  | CEnv m => env_print m
  | CTypes l => types_print l
  | COther x => xprint i x
  end.

(* FromStr / the named deserialiser of codec i; None = Err(_) *)
Definition c_parse (i : N) (s : str) : option cval :=
  match i with
  | 1%N => option_map CVersion (vparse s)
  | 3%N => option_map CRelations (res_opt (relations_from_str vparse s))
  | 6%N => option_map CLicense (res_opt (license_from_str s))
  | 7%N => option_map CSignature (res_opt (sig_from_str s))
  | 9%N => option_map CForwarded (res_opt (forwarded_from_str s))
  | 10%N => option_map CApplied (res_opt (applied_from_str s))
  | 11%N => option_map CVcs (res_opt (parsed_vcs_from_str s))
  | 12%N => option_map CEnv (env_parse s)
  | 13%N => option_map CTypes (types_parse s)
  | 16%N => let '(cat, o) := parse_origin parse_origin_tab s in Some (COrigin cat o)
  | 2%N | 14%N | 15%N => option_map COther (xparse i s)
  | _ => match enum_of i with
         | Some t => option_map CEnum (res_opt (enum_parse t s))
         | None => None
         end
  end.
End Shipped.

Arguments CVersion {V X} v.
Arguments CRelations {V X} r.
Arguments CEnum {V X} n.
Arguments CLicense {V X} l.
Arguments CSignature {V X} s.
Arguments CForwarded {V X} f.
Arguments CApplied {V X} c.
Arguments CVcs {V X} p.
Arguments COrigin {V X} cat o.
Arguments CEnv {V X} m.
Arguments CTypes {V X} l.
Arguments COther {V X} x.

(* ------------------------------------------------------------------ runner instance *)
(* V := the model of debversion 0.4.4 of RelLossy.v (a modelled external, validated by C14's
   streams and by this cone's), X := text with the per-case table of Derive.v *)
Notation rval := (cval dversion str).
Definition r_print (i : N) (c : rval) : str := c_print dversion dv_print str table_print i c.
Definition r_parse (t : ext_table) (i : N) (s : str) : option rval := c_parse dversion dv_parse str (table_parse t) i s.

(* derive(PartialEq) of the field types *)
Definition opt_eqb {A} (e : A -> A -> bool) (a b : option A) : bool :=
  match a, b with Some x, Some y => e x y | None, None => true | _, _ => false end.
Definition dv_eqb (a b : dversion) : bool :=
  opt_eqb N.eqb (dv_epoch a) (dv_epoch b) && str_eqb (dv_upstream a) (dv_upstream b) &&
  opt_eqb str_eqb (dv_revision a) (dv_revision b).
Definition vc_eqb (a b : vconstraint) : bool :=
  match a, b with
  | VC_ge, VC_ge | VC_le, VC_le | VC_eq, VC_eq | VC_gt, VC_gt | VC_lt, VC_lt => true
  | _, _ => false
  end.
Definition bp_eqb (a b : bprofile) : bool :=
  match a, b with
  | RelLossy.Enabled x, RelLossy.Enabled y | RelLossy.Disabled x, RelLossy.Disabled y => str_eqb x y
  | _, _ => false
  end.
Definition rel_eqb (a b : relation dversion) : bool :=
  str_eqb (r_name a) (r_name b) && opt_eqb str_eqb (r_archqual a) (r_archqual b) &&
  opt_eqb (list_eqb str_eqb) (r_archs a) (r_archs b) &&
  opt_eqb (fun x y => vc_eqb (fst x) (fst y) && dv_eqb (snd x) (snd y)) (r_version a) (r_version b) &&
  list_eqb (list_eqb bp_eqb) (r_profiles a) (r_profiles b).
Definition co_eqb (a b : commit_or) : bool :=
  match a, b with Commit x, Commit y | Other x, Other y => str_eqb x y | _, _ => false end.
Definition rval_eqb (a b : rval) : bool :=
  match a, b with
  | CVersion x, CVersion y => dv_eqb x y
  | CRelations x, CRelations y => list_eqb (list_eqb rel_eqb) x y
  | CEnum x, CEnum y => (x =? y)%N
  | CLicense x, CLicense y =>
    match x, y with
    | LName n, LName m | LText n, LText m => str_eqb n m
    | LNamed n t, LNamed m u => str_eqb n m && str_eqb t u
    | _, _ => false
    end
  | CSignature x, CSignature y =>
    match x, y with KeyBlock t, KeyBlock u | KeyPath t, KeyPath u => str_eqb t u | _, _ => false end
  | CForwarded x, CForwarded y =>
    match x, y with FwNo, FwNo | FwNotNeeded, FwNotNeeded => true | FwYes s, FwYes t => str_eqb s t | _, _ => false end
  | CApplied x, CApplied y => co_eqb x y
  | CVcs x, CVcs y => str_eqb (repo_url x) (repo_url y) && opt_eqb str_eqb (branch x) (branch y) &&
                      opt_eqb str_eqb (subpath x) (subpath y)
  | COrigin c x, COrigin d y => opt_eqb N.eqb c d && co_eqb x y
  | CEnv x, CEnv y => list_eqb (fun p q => str_eqb (fst p) (fst q) && str_eqb (snd p) (snd q)) x y
  | CTypes x, CTypes y => list_eqb N.eqb x y
  | COther x, COther y => str_eqb x y
  | _, _ => false
  end.
Definition ruval_eqb (a b : uval rval) : bool :=
  match a, b with
  | VStr x, VStr y => str_eqb x y
  | VBool x, VBool y => Bool.eqb x y
  | VNum x, VNum y => (x =? y)%N
  | VInt x, VInt y => (x =? y)%Z
  | VList x, VList y => list_eqb str_eqb x y
  | VExt x, VExt y => rval_eqb x y
  | _, _ => false
  end.
Notation yval := (list (option (uval rval))).
Definition yval_eqb (a b : yval) : bool :=
  list_eqb (fun x y => match x, y with
                       | None, None => true
                       | Some u, Some w => ruval_eqb u w
                       | _, _ => false
                       end) a b.

(* entry points of the runner: the generic functions at the two back-ends with the instance above *)
Definition y_from_lossy (t : ext_table) (fs : list fieldspec) (p : list (str * str)) : dres yval :=
  from_paragraph rval (r_parse t) lossy_para_like fs p.
Definition y_from_ll (t : ext_table) (sk : ll_set_kind) (rk : ll_remove_kind) (fs : list fieldspec) (p : ll_para) : dres yval :=
  from_paragraph rval (r_parse t) (lossless_para_like sk rk) fs p.
Definition y_to_lossy (fs : list fieldspec) (v : yval) : option (list (str * str)) :=
  to_paragraph rval r_print lossy_para_like fs v.
Definition y_to_ll (sk : ll_set_kind) (rk : ll_remove_kind) (fs : list fieldspec) (v : yval) : option ll_para :=
  to_paragraph rval r_print (lossless_para_like sk rk) fs v.
Definition y_update_lossy (fs : list fieldspec) (v : yval) (p : list (str * str)) : option (list (str * str)) :=
  update_paragraph rval r_print lossy_para_like fs v p.
Definition y_update_ll (sk : ll_set_kind) (rk : ll_remove_kind) (fs : list fieldspec) (v : yval) (p : ll_para) : option ll_para :=
  update_paragraph rval r_print (lossless_para_like sk rk) fs v p.
