(* The abstract deb822 documents the "well-formed" properties (C03-C08) quantify over, with
   every layout choice explicit, their renderer, the token list and tree the reader is
   proved to produce for them, and their content.  This file is specification: short and
   meant to be read. *)
From V.model Require Import Base Deb822Lex Deb822Parse.

Record field := mk_field {
  f_name : str;               (* field name *)
  f_ws : str;                 (* whitespace between ':' and the first line: spaces/tabs, may be empty *)
  f_first : str;              (* text of the first line, may be empty *)
  f_cont : list (str * str);  (* continuation lines: (indentation, text) *)
  f_nl : bool                 (* is the last line of the field terminated by LF?  *)
}.
Inductive item := IField (f : field) | IComment (c : str) (nl : bool).   (* '#' ++ c *)
Inductive block :=
| BBlank                                   (* an empty line *)
| BComment (c : str) (nl : bool)           (* a comment line outside any paragraph *)
| BPara (f : field) (its : list item).     (* a paragraph: a field, then fields and comment lines *)
Notation doc := (list block).

Definition LF : N := 10%N.
Definition nl_text (b : bool) : str := if b then [LF] else [].

(* ---------------- rendering ---------------- *)
Definition cont_text (c : str * str) : str := LF :: fst c ++ snd c.
Definition field_text (f : field) : str :=
  f_name f ++ [58%N] ++ f_ws f ++ f_first f ++ flat_map cont_text (f_cont f) ++ nl_text (f_nl f).
Definition comment_text (c : str) (nl : bool) : str := 35%N :: c ++ nl_text nl.
Definition item_text (it : item) : str :=
  match it with IField f => field_text f | IComment c nl => comment_text c nl end.
Definition block_text (b : block) : str :=
  match b with
  | BBlank => [LF]
  | BComment c nl => comment_text c nl
  | BPara f its => field_text f ++ flat_map item_text its
  end.
Definition render (d : doc) : str := flat_map block_text d.

(* ---------------- well-formedness ---------------- *)
Definition no_eol (s : str) : bool := forallb (fun c => negb (is_newline c)) s.
Definition valid_name (s : str) : bool :=
  match s with
  | c :: w => is_valid_initial_key_char c && negb (c =? 35)%N && forallb is_valid_key_char w
  | [] => false
  end.
Definition ws_ok (s : str) : bool := forallb is_indent s.
Definition first_ok (s : str) : bool :=
  no_eol s && match s with c :: _ => negb (is_indent c) | [] => true end.
Definition cont_ok (c : str * str) : bool :=
  let '(i, t) := c in
  match i with [] => false | _ => ws_ok i end &&
  no_eol t && match t with x :: _ => negb (is_indent x) && negb (x =? 35)%N | [] => false end.

(* [more]: does any text follow this construct in the document?  Only the very last line of a
   document may lack its LF. *)
Definition wf_field (f : field) (more : bool) : bool :=
  valid_name (f_name f) && ws_ok (f_ws f) && first_ok (f_first f) && forallb cont_ok (f_cont f)
  && (f_nl f || negb more).
Definition wf_comment (c : str) (nl more : bool) : bool := no_eol c && (nl || negb more).
Fixpoint wf_items (its : list item) (more : bool) : bool :=
  match its with
  | [] => true
  | it :: r =>
    let m := match r with [] => more | _ => true end in
    match it with IField f => wf_field f m | IComment c nl => wf_comment c nl m end && wf_items r more
  end.
Fixpoint wf_doc (d : doc) : bool :=
  match d with
  | [] => true
  | b :: r =>
    let more := match r with [] => false | _ => true end in
    match b with
    | BBlank => true
    | BComment c nl => wf_comment c nl more
    | BPara f its =>
        wf_field f (match its with [] => more | _ => true end) && wf_items its more &&
        (* a paragraph ends at a blank line or at the end of the document *)
        match r with [] => true | BBlank :: _ => true | _ => false end
    end && wf_doc r
  end.

(* ---------------- the tokens and the tree the reader produces ---------------- *)
Definition nl_tok (b : bool) : list token := if b then [(NEWLINE, [LF])] else [].
Definition nl_elem (b : bool) : list tree := if b then [Tok NEWLINE [LF]] else [].
Definition opt_tok (k : kind) (s : str) : list token := match s with [] => [] | _ => [(k, s)] end.
Definition opt_elem (k : kind) (s : str) : list tree := match s with [] => [] | _ => [Tok k s] end.

Definition cont_toks (c : str * str) : list token :=
  [(NEWLINE, [LF]); (INDENT, fst c); (VALUE, snd c)].
Definition field_toks (f : field) : list token :=
  (KEY, f_name f) :: (COLON, [58%N]) :: opt_tok WHITESPACE (f_ws f) ++ opt_tok VALUE (f_first f)
  ++ flat_map cont_toks (f_cont f) ++ nl_tok (f_nl f).
Definition comment_toks (c : str) (nl : bool) : list token := (COMMENT, 35%N :: c) :: nl_tok nl.
Definition item_toks (it : item) : list token :=
  match it with IField f => field_toks f | IComment c nl => comment_toks c nl end.
Definition block_toks (b : block) : list token :=
  match b with
  | BBlank => [(NEWLINE, [LF])]
  | BComment c nl => comment_toks c nl
  | BPara f its => field_toks f ++ flat_map item_toks its
  end.
Definition doc_toks (d : doc) : list token := flat_map block_toks d.

Definition cont_elems (c : str * str) : list tree :=
  [Tok NEWLINE [LF]; Tok INDENT (fst c); Tok VALUE (snd c)].
Definition field_tree (f : field) : tree :=
  Node ENTRY (Tok KEY (f_name f) :: Tok COLON [58%N] :: opt_elem WHITESPACE (f_ws f)
              ++ opt_elem VALUE (f_first f) ++ flat_map cont_elems (f_cont f) ++ nl_elem (f_nl f)).
Definition comment_elems (c : str) (nl : bool) : list tree := Tok COMMENT (35%N :: c) :: nl_elem nl.
Definition item_elems (it : item) : list tree :=
  match it with IField f => [field_tree f] | IComment c nl => comment_elems c nl end.
Definition block_tree (b : block) : tree :=
  match b with
  | BBlank => Node EMPTY_LINE [Tok NEWLINE [LF]]
  | BComment c nl => Node EMPTY_LINE (comment_elems c nl)
  | BPara f its => Node PARAGRAPH (field_tree f :: flat_map item_elems its)
  end.
Definition tree_of (d : doc) : tree := Node ROOT (map block_tree d).

(* ---------------- content ---------------- *)
Definition field_value (f : field) : str :=
  join [LF] (match f_first f with [] => [] | s => [s] end ++ map snd (f_cont f)).
Definition field_pair (f : field) : str * str := (f_name f, field_value f).
Definition item_pairs (it : item) : list (str * str) :=
  match it with IField f => [field_pair f] | IComment _ _ => [] end.
Definition block_content (b : block) : list (list (str * str)) :=
  match b with
  | BPara f its => [field_pair f :: flat_map item_pairs its]
  | _ => []
  end.
Definition content (d : doc) : list (list (str * str)) := flat_map block_content d.

(* ---------------- the list reading of a paragraph (the specification of the lookups) ---------------- *)
Definition spec_keys (l : list (str * str)) : list str := map fst l.
Definition spec_get_all (l : list (str * str)) (k : str) : list str :=
  map snd (filter (fun kv => str_eqb (fst kv) k) l).
Definition spec_get (l : list (str * str)) (k : str) : option str :=
  match filter (fun kv => str_eqb (fst kv) k) l with [] => None | kv :: _ => Some (snd kv) end.
Definition spec_contains (l : list (str * str)) (k : str) : bool :=
  existsb (fun kv => str_eqb (fst kv) k) l.

(* ---------------- what the lossy reader reports for a well-formed document ---------------- *)
Definition lossy_value (f : field) : str :=
  f_first f ++ match f_cont f with [] => [] | cs => LF :: join [LF] (map snd cs) end.
Definition lossy_pair (f : field) : str * str := (f_name f, lossy_value f).
Definition lossy_item_pairs (it : item) : list (str * str) :=
  match it with IField f => [lossy_pair f] | IComment _ _ => [] end.
Definition lossy_block_content (b : block) : list (list (str * str)) :=
  match b with
  | BPara f its => [lossy_pair f :: flat_map lossy_item_pairs its]
  | _ => []
  end.
Definition lossy_content (d : doc) : list (list (str * str)) := flat_map lossy_block_content d.

(* the comparison of C06: non-blank lines of a value *)
Fixpoint split_lf_go (s acc : str) : list str :=
  match s with
  | [] => [acc]
  | c :: r => if (c =? 10)%N then acc :: split_lf_go r [] else split_lf_go r (acc ++ [c])
  end.
Definition split_lf (s : str) : list str := split_lf_go s [].
Definition blank_line (l : str) : bool := forallb is_indent l.
Definition nb_lines (v : str) : list str := filter (fun l => negb (blank_line l)) (split_lf v).
Definition nb_doc (d : list (list (str * str))) : list (list (str * list str)) :=
  map (map (fun kv => (fst kv, nb_lines (snd kv)))) d.
