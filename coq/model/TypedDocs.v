(* Model of the hand-written ASSEMBLY code of the lossy typed documents, on top of the derive
   macro's from_paragraph / to_paragraph (model/Derive.v, struct tables gen/Structs_gen.v), the
   lossless deb822 reader (model/Deb822Parse.v) and the lossy reader / printer (model/Lossy.v):

     control       debian-control/src/lossy/control.rs    <Control as FromStr>, Display
     copyright     debian-copyright/src/lossy.rs           <Copyright as FromStr>, Display
     release       debian-control/src/lossy/apt.rs         Release: only the derives; read like its
                                                           siblings (lossy::Paragraph::from_str), printed
                                                           by to_paragraph::<lossy::Paragraph>().to_string()
     aptsource     debian-control/src/lossy/apt.rs         <Source as FromStr>, Display
     aptpackage    debian-control/src/lossy/apt.rs         <Package as FromStr>, Display
     removal       debian-control/src/lossy/ftpmaster.rs   <Removal as FromStr>; printed through to_paragraph
     buildinfo     debian-control/src/lossy/buildinfo.rs   <Buildinfo as FromStr>; printed through to_paragraph
     dep3          dep3/src/lossy.rs                        <PatchHeader as FromStr> (From / Subject fallbacks), Display
     repositories  apt-sources/src/lib.rs                   <Repositories as FromStr>, ToString

   A struct value is Derive's [sval] (one optional universal value per field); external codecs are
   the Section variables of Derive.v.  Errors are values of [terr]: which structural rule or which
   field (the Rust code returns message strings).  None of the assembly functions has a panic site
   or a loop of its own; Panic / OutOfFuel can only come up from the deb822 readers.
   No proofs in this file. *)
From Coq Require Import ZArith.
From V.model Require Import Base Deb822Lex Deb822Parse Grammar Lossy LossySpec Derive.
From V.gen Require Import Structs_gen.

Definition k_Package : str := [80; 97; 99; 107; 97; 103; 101]%N.   (* "Package" *)
Definition k_Source : str := [83; 111; 117; 114; 99; 101]%N.   (* "Source" *)
Definition k_Files : str := [70; 105; 108; 101; 115]%N.   (* "Files" *)
Definition k_License : str := [76; 105; 99; 101; 110; 115; 101]%N.   (* "License" *)
Definition s_Format_colon : str := [70; 111; 114; 109; 97; 116; 58]%N.   (* "Format:" *)
Definition k_From : str := [70; 114; 111; 109]%N.   (* "From" *)
Definition k_Subject : str := [83; 117; 98; 106; 101; 99; 116]%N.   (* "Subject" *)
Definition k_Author : str := [65; 117; 116; 104; 111; 114]%N.   (* "Author" *)
Definition k_Description : str := [68; 101; 115; 99; 114; 105; 112; 116; 105; 111; 110]%N.   (* "Description" *)

(* the field tables of the structs involved (regenerated from the sources on every run) *)
Definition fs_control_source : list fieldspec := s_fields debian_control_lossy_Source.
Definition fs_control_binary : list fieldspec := s_fields debian_control_lossy_Binary.
Definition fs_header : list fieldspec := s_fields debian_copyright_lossy_Header.
Definition fs_files : list fieldspec := s_fields debian_copyright_lossy_FilesParagraph.
Definition fs_license : list fieldspec := s_fields debian_copyright_lossy_LicenseParagraph.
Definition fs_release : list fieldspec := s_fields debian_control_lossy_apt_Release.
Definition fs_apt_source : list fieldspec := s_fields debian_control_lossy_apt_Source.
Definition fs_apt_package : list fieldspec := s_fields debian_control_lossy_apt_Package.
Definition fs_removal : list fieldspec := s_fields debian_control_lossy_ftpmaster_Removal.
Definition fs_buildinfo : list fieldspec := s_fields debian_control_lossy_buildinfo_Buildinfo.
Definition fs_dep3 : list fieldspec := s_fields dep3_lossy_PatchHeader.
Definition fs_repository : list fieldspec := s_fields apt_sources_Repository.

(* ------------------------------------------------------------------ outcomes *)
Inductive terr : Type :=
| ESyntax                 (* the deb822 layer rejected the text ("parse error: ..", ParseError, lossy::Error) *)
| ENoParas                (* "no paragraphs" (lossless Paragraph::from_str) / "No paragraphs" (copyright) *)
| EField (e : derr)       (* from_paragraph: "missing field: K" / "parsing field K: .." *)
| ENoSource               (* "no source paragraph" *)
| EManySource             (* "more than one source paragraph" *)
| ENeither                (* "paragraph without Source or Package field" / "Paragraph is neither License nor Files" *)
| ENotMachineReadable.    (* "Not machine readable" *)
Inductive tres (A : Type) : Type :=
| TOk (a : A) | TErr (e : terr) | TPanic (site : N) | THang.
Arguments TOk {A} a.
Arguments TErr {A} e.
Arguments TPanic {A} site.
Arguments THang {A}.

Definition tbind {A B} (r : tres A) (k : A -> tres B) : tres B :=
  match r with TOk a => k a | TErr e => TErr e | TPanic n => TPanic n | THang => THang end.
(* .map_err(|e| ..)? on a result of the deb822 layer *)
Definition of_res {A B} (r : res A) (k : A -> tres B) : tres B :=
  match r with Ok a => k a | Err _ => TErr ESyntax | Panic n => TPanic n | OutOfFuel => THang end.
(* lossless Paragraph::from_str: Err 2 = "no paragraphs" *)
Definition of_res_para {A B} (r : res A) (k : A -> tres B) : tres B :=
  match r with
  | Ok a => k a
  | Err e => if (e =? 2)%N then TErr ENoParas else TErr ESyntax
  | Panic n => TPanic n | OutOfFuel => THang
  end.
Definition of_dres {A B} (r : dres A) (k : A -> tres B) : tres B :=
  match r with DOk v => k v | DErr e => TErr (EField e) end.

(* Option-collecting map: to_paragraph is partial in the model (ill-typed values have no Rust
   counterpart), so are the printers *)
Fixpoint map_opt {A B} (f : A -> option B) (l : list A) : option (list B) :=
  match l with
  | [] => Some []
  | x :: r => match f x, map_opt f r with Some y, Some ys => Some (y :: ys) | _, _ => None end
  end.

(* str::starts_with *)
Fixpoint starts_with (s p : str) : bool :=
  match p, s with
  | [], _ => true
  | c :: p', d :: s' => (c =? d)%N && starts_with s' p'
  | _ :: _, [] => false
  end.

Section Ext.
Variable E : Type.
Variable ext_print : N -> E -> str.
Variable ext_parse : N -> str -> option E.
Notation sval := (list (option (uval E))).

(* the lossless paragraph back-end as it is in the tree (variants read by the translator) *)
Definition LL : ParaLike := lossless_para_like ll_set_variant ll_remove_variant.
(* T::from_paragraph(&para) for a lossless::Paragraph handle [p] (a PARAGRAPH node) *)
Definition from_ll (fs : list fieldspec) (p : tree) : dres sval :=
  from_paragraph E ext_parse LL fs (children p).
Definition from_lossy (fs : list fieldspec) (p : lpara) : dres sval :=
  from_paragraph E ext_parse lossy_para_like fs p.
(* let para: lossy::Paragraph = self.to_paragraph() *)
Definition to_lossy (fs : list fieldspec) (v : sval) : option lpara :=
  to_paragraph E ext_print lossy_para_like fs v.
(* write!(f, "{}", para) *)
Definition print_struct (fs : list fieldspec) (v : sval) : option str :=
  match to_lossy fs v with Some p => Some (print_para p) | None => None end.

(* ------------------------------------------------------------------ control *)
Record control : Type := mk_control { c_source : sval; c_binaries : list sval }.

(* the for loop of <Control as FromStr>::from_str, with its two mutable variables *)
Fixpoint control_loop (ps : list tree) (source : option sval) (binaries : list sval) : tres control :=
  match ps with
  | [] => match source with
          | Some s => TOk (mk_control s binaries)
          | None => TErr ENoSource
          end
  | p :: r =>
    match get p k_Package with
    | Some _ => of_dres (from_ll fs_control_binary p) (fun b => control_loop r source (binaries ++ [b]))
    | None =>
      match get p k_Source with
      | Some _ =>
        match source with
        | Some _ => TErr EManySource
        | None => of_dres (from_ll fs_control_source p) (fun s => control_loop r (Some s) binaries)
        end
      | None => TErr ENeither
      end
    end
  end.
Definition parse_control (s : str) : tres control :=
  of_res (from_str s) (fun t => control_loop (paragraphs t) None []).
(* Display: the source, then "\n" and each binary *)
Definition print_control (c : control) : option str :=
  match print_struct fs_control_source (c_source c), map_opt (print_struct fs_control_binary) (c_binaries c) with
  | Some s, Some bs => Some (s ++ flat_map (fun b => 10%N :: b) bs)
  | _, _ => None
  end.

(* ------------------------------------------------------------------ copyright *)
Record copyright : Type := mk_copyright { cr_header : sval; cr_files : list sval; cr_licenses : list sval }.

(* while let Some(para) = paragraphs.next() *)
Fixpoint copyright_loop (ps : list tree) (files licenses : list sval) : tres (list sval * list sval) :=
  match ps with
  | [] => TOk (files, licenses)
  | p :: r =>
    match get p k_Files with
    | Some _ => of_dres (from_ll fs_files p) (fun f => copyright_loop r (files ++ [f]) licenses)
    | None =>
      match get p k_License with
      | Some _ => of_dres (from_ll fs_license p) (fun l => copyright_loop r files (licenses ++ [l]))
      | None => TErr ENeither
      end
    end
  end.
Definition parse_copyright (s : str) : tres copyright :=
  if negb (starts_with s s_Format_colon) then TErr ENotMachineReadable else
  of_res (from_str s) (fun t =>
    match paragraphs t with
    | [] => TErr ENoParas
    | first :: rest =>
      of_dres (from_ll fs_header first) (fun h =>
      tbind (copyright_loop rest [] []) (fun fl => TOk (mk_copyright h (fst fl) (snd fl))))
    end).
(* Display: header; for each Files paragraph "\n" + it; for each License paragraph "\n" + it *)
Definition print_copyright (c : copyright) : option str :=
  match print_struct fs_header (cr_header c),
        map_opt (print_struct fs_files) (cr_files c), map_opt (print_struct fs_license) (cr_licenses c) with
  | Some h, Some fl, Some ls => Some (h ++ flat_map (fun x => 10%N :: x) fl ++ flat_map (fun x => 10%N :: x) ls)
  | _, _, _ => None
  end.

(* ------------------------------------------------------------------ one-paragraph documents *)
(* lossy deb822 layer: s.parse::<lossy::Paragraph>().map_err(|e| e.to_string())?, then from_paragraph
   (apt Source, apt Package; Release through its derives) *)
Definition parse_lossy1 (fs : list fieldspec) (s : str) : tres sval :=
  of_res (lossy_paragraph_from_str s) (fun p => of_dres (from_lossy fs p) TOk).
(* lossless deb822 layer: lossless::Paragraph::from_str (first paragraph of a strictly parsed
   document), then from_paragraph (Removal, Buildinfo) *)
Definition parse_ll1 (fs : list fieldspec) (s : str) : tres sval :=
  of_res_para (paragraph_from_str s) (fun p => of_dres (from_ll fs p) TOk).

Definition parse_release := parse_lossy1 fs_release.
Definition print_release := print_struct fs_release.
Definition parse_apt_source := parse_lossy1 fs_apt_source.
Definition print_apt_source := print_struct fs_apt_source.
Definition parse_apt_package := parse_lossy1 fs_apt_package.
Definition print_apt_package := print_struct fs_apt_package.
Definition parse_removal := parse_ll1 fs_removal.
Definition print_removal := print_struct fs_removal.
Definition parse_buildinfo := parse_ll1 fs_buildinfo.
Definition print_buildinfo := print_struct fs_buildinfo.

(* ------------------------------------------------------------------ DEP-3 header *)
(* if header.FIELD.is_none() { header.FIELD = paragraph.get(ALT).map(|v| v.to_string()) }
   (FIELD is an Option<String>: author / description) *)
Fixpoint fallback (fs : list fieldspec) (v : sval) (target : str) (alt : option str) : sval :=
  match fs, v with
  | f :: r, x :: xs =>
    (if str_eqb (f_key f) target
     then match x with None => option_map (@VStr E) alt | Some _ => x end
     else x) :: fallback r xs target alt
  | _, _ => v
  end.
Definition parse_dep3 (s : str) : tres sval :=
  of_res_para (paragraph_from_str s) (fun p =>
    of_dres (from_ll fs_dep3 p) (fun h =>
      let h1 := fallback fs_dep3 h k_Author (get p k_From) in
      let h2 := fallback fs_dep3 h1 k_Description (get p k_Subject) in
      TOk h2)).
Definition print_dep3 := print_struct fs_dep3.

(* ------------------------------------------------------------------ APT sources list *)
(* deb822.paragraphs().map(|p| Repository::from_paragraph(&p)).collect::<Result<Vec<_>, _>>()? *)
Fixpoint collect_paras (fs : list fieldspec) (ps : list tree) : tres (list sval) :=
  match ps with
  | [] => TOk []
  | p :: r => of_dres (from_ll fs p) (fun v => tbind (collect_paras fs r) (fun vs => TOk (v :: vs)))
  end.
Definition parse_repositories (s : str) : tres (list sval) :=
  of_res (from_str s) (fun t => collect_paras fs_repository (paragraphs t)).
(* self.0.iter().map(|r| r.to_paragraph().to_string()).collect::<Vec<_>>().join("\n") *)
Definition print_repositories (rs : list sval) : option str :=
  match map_opt (print_struct fs_repository) rs with
  | Some ts => Some (join [10%N] ts)
  | None => None
  end.

End Ext.

Arguments mk_control {E} c_source c_binaries.
Arguments c_source {E} c.
Arguments c_binaries {E} c.
Arguments mk_copyright {E} cr_header cr_files cr_licenses.
Arguments cr_header {E} c.
Arguments cr_files {E} c.
Arguments cr_licenses {E} c.

(* ------------------------------------------------------------------ the specification side *)
(* what the lossless reader shows for a printed canonical value: an empty first line followed by
   continuation lines is not part of the value (Entry::value joins the VALUE tokens) *)
Definition ll_norm (y : str) : str :=
  match split_lf y with
  | [] => []
  | l1 :: rest => join [LF] (match l1 with [] => [] | _ => [l1] end ++ rest)
  end.
(* the values the lossless reader can hand out: canonical, and nothing for ll_norm to take off *)
Definition ll_dom (x : str) : bool := canon_value x && str_eqb (ll_norm x) x.

(* what the lossy reader can hand out and its printer gives back unchanged: like canonical values,
   but a continuation line may be EMPTY (a blank or comment-only continuation line in the text) as
   long as it is not the last one - a value ending in LF does not survive printing *)
Definition lcanon_cont (l : str) : bool :=
  no_eol l && match l with c :: _ => negb (is_indent c) && negb (c =? 35)%N | [] => true end.
Definition last_nonempty (rest : list str) : bool := match rev rest with [] :: _ => false | _ => true end.
Definition lcanon_value (v : str) : bool :=
  match split_lf v with
  | [] => false
  | l1 :: rest => canon_first l1 && forallb lcanon_cont rest && last_nonempty rest
  end.
Definition lcanon_field (f : str * str) : bool := valid_name (fst f) && lcanon_value (snd f).
Definition lcanon_para (p : list (str * str)) : bool := match p with [] => false | _ => forallb lcanon_field p end.
Definition ends_lf (v : str) : bool := match rev v with c :: _ => (c =? 10)%N | [] => false end.

(* codec pairs whose printed form of a READ value is canonical and reads back as the same value
   (the stability law, weaker than the round trip of C16: only values in the range of the
   deserialiser matter); external codecs pair with themselves - that is the assumed law *)
Definition stable_pair (s : ser_id) (d : de_id) : bool :=
  match s, d with
  | SStr, DStr | SBool, DBool | SYesNo, DYesNo | SJaNee, DJa
  | SJoinWs, DSplitWs | SJoinNl, DSplitNl | SJoinNl, DSplitNlE | SJoinNl, DLines => true
  | SNum, DNum _ | SInt, DInt _ => true
  | SExt i, DExt j => (i =? j)%N
  | _, _ => false
  end.
(* read by split_whitespace, printed one item per line: stable unless an item after the first
   starts with '#' (the line is then a comment to both readers) *)
Definition hash_pair (s : ser_id) (d : de_id) : bool :=
  match s, d with SJoinNl, DSplitWs => true | _, _ => false end.
Definition starts_hash (w : str) : bool := match w with c :: _ => (c =? 35)%N | [] => false end.
Definition hash_word_free (x : str) : bool :=
  forallb (fun w => negb (starts_hash w)) (tl (split_ws x)).

Definition ok_field_stable (f : fieldspec) : bool :=
  valid_name (f_key f) && (stable_pair (f_ser f) (f_de f) || hash_pair (f_ser f) (f_de f)).
Definition ok_struct_stable (fs : list fieldspec) : bool :=
  nodup_keys (map f_key fs) && forallb ok_field_stable fs.
(* the guard of the known class: the values of hash_pair fields as the reader hands them out *)
Definition hash_guard (fs : list fieldspec) (get : str -> option str) : bool :=
  forallb (fun f => negb (hash_pair (f_ser f) (f_de f)) ||
                    match get (f_key f) with Some x => hash_word_free x | None => true end) fs.
Definition has_key (fs : list fieldspec) (k : str) : bool := existsb (fun f => str_eqb (f_key f) k) fs.
Definition mandatory_key (fs : list fieldspec) (k : str) : bool :=
  existsb (fun f => str_eqb (f_key f) k && negb (f_opt f)) fs.
(* the external codecs a struct uses *)
Definition ext_ids (fs : list fieldspec) : list N :=
  flat_map (fun f => match f_de f with DExt i => [i] | _ => [] end) fs.

(* side conditions of the assembly code on the generated tables, closed by computation in the
   proofs: roles are told apart by keys the other role cannot print *)
Definition assembly_tables_ok : bool :=
  forallb ok_struct_stable
    [fs_control_source; fs_control_binary; fs_header; fs_files; fs_license; fs_release;
     fs_apt_source; fs_apt_package; fs_removal; fs_buildinfo; fs_dep3; fs_repository] &&
  (* control: a binary prints Package; a source prints Source and never Package *)
  mandatory_key fs_control_binary k_Package && mandatory_key fs_control_source k_Source &&
  negb (has_key fs_control_source k_Package) &&
  (* copyright: a Files paragraph prints Files; a License paragraph prints License, never Files;
     the header prints Format first *)
  mandatory_key fs_files k_Files && mandatory_key fs_license k_License && negb (has_key fs_license k_Files) &&
  match fs_header with f :: _ => str_eqb (f_key f ++ [58%N]) s_Format_colon && negb (f_opt f) | [] => false end &&
  (* every struct but the DEP-3 header has a mandatory field: its printed paragraph is not empty *)
  forallb (fun fs => existsb (fun f => negb (f_opt f)) fs)
    [fs_control_source; fs_control_binary; fs_header; fs_files; fs_license; fs_release;
     fs_apt_source; fs_apt_package; fs_removal; fs_buildinfo; fs_repository] &&
  (* DEP-3: the fallback targets are plain string fields, the alternatives are not fields *)
  existsb (fun f => str_eqb (f_key f) k_Author && match f_ser f, f_de f with SStr, DStr => f_opt f | _, _ => false end) fs_dep3 &&
  existsb (fun f => str_eqb (f_key f) k_Description && match f_ser f, f_de f with SStr, DStr => f_opt f | _, _ => false end) fs_dep3 &&
  negb (has_key fs_dep3 k_From) && negb (has_key fs_dep3 k_Subject).

(* ------------------------------------------------------------------ entry points of the runner *)
(* external codecs instantiated by the per-case table (Derive.table_parse / table_print), one
   function for all kinds: the paragraphs of the value (role letter, printed items), the values
   themselves and the printed document *)
Notation xval := (list (option (uval str))).
Record xout : Type := mk_xout { x_paras : list (N * lpara); x_vals : list xval; x_text : str }.

Definition x_para (role : N) (fs : list fieldspec) (v : xval) : option (N * lpara) :=
  match to_lossy str table_print fs v with Some p => Some (role, p) | None => None end.
(* TPanic 900: an ill-typed value (cannot come out of from_paragraph; kept visible) *)
Definition x_finish (paras : option (list (N * lpara))) (vals : list xval) (text : option str) : tres xout :=
  match paras, text with
  | Some ps, Some t => TOk (mk_xout ps vals t)
  | _, _ => TPanic 900%N
  end.
Definition x_one (role : N) (fs : list fieldspec) (text : option str) (v : xval) : tres xout :=
  x_finish (map_opt (x_para role fs) [v]) [v] text.

Definition x_run (kind : N) (t : ext_table) (s : str) : tres xout :=
  let pe := table_parse t in
  match kind with
  | 0%N => tbind (parse_control str pe s) (fun c =>
             x_finish (match x_para 83%N fs_control_source (c_source c), map_opt (x_para 66%N fs_control_binary) (c_binaries c) with
                       | Some a, Some b => Some (a :: b) | _, _ => None end)
                      (c_source c :: c_binaries c) (print_control str table_print c))
  | 1%N => tbind (parse_copyright str pe s) (fun c =>
             x_finish (match x_para 72%N fs_header (cr_header c), map_opt (x_para 70%N fs_files) (cr_files c),
                             map_opt (x_para 76%N fs_license) (cr_licenses c) with
                       | Some a, Some b, Some l => Some (a :: b ++ l) | _, _, _ => None end)
                      (cr_header c :: cr_files c ++ cr_licenses c) (print_copyright str table_print c))
  | 2%N => tbind (parse_release str pe s) (fun v => x_one 80%N fs_release (print_release str table_print v) v)
  | 3%N => tbind (parse_apt_source str pe s) (fun v => x_one 80%N fs_apt_source (print_apt_source str table_print v) v)
  | 4%N => tbind (parse_apt_package str pe s) (fun v => x_one 80%N fs_apt_package (print_apt_package str table_print v) v)
  | 5%N => tbind (parse_removal str pe s) (fun v => x_one 80%N fs_removal (print_removal str table_print v) v)
  | 6%N => tbind (parse_buildinfo str pe s) (fun v => x_one 80%N fs_buildinfo (print_buildinfo str table_print v) v)
  | 7%N => tbind (parse_dep3 str pe s) (fun v => x_one 80%N fs_dep3 (print_dep3 str table_print v) v)
  | 8%N => tbind (parse_repositories str pe s) (fun rs =>
             x_finish (map_opt (x_para 82%N fs_repository) rs) rs (print_repositories str table_print rs))
  | _ => TPanic 901%N
  end.
(* do the kind's structs derive PartialEq (values compared) or not (their prints compared)? *)
Definition x_has_eq (kind : N) : bool :=
  match kind with 1%N | 2%N | 3%N | 4%N | 7%N | 8%N => true | _ => false end.
