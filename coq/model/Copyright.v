(* Model of the lookup functions of /repo/debian-copyright:
     src/lib.rs       License, <License as FromStr>::from_str, License::{name,text}
     src/lossless.rs  Copyright::{iter_files, iter_licenses, find_files, find_license_by_name,
                      find_license_for_file, from_str, from_str_relaxed},
                      FilesParagraph::{files, matches, license}, LicenseParagraph::{name, text},
                      From<LicenseParagraph> for License
     src/lossy.rs     deserialize_file_list, deserialize_copyrights, the derived from_paragraph of
                      Header / FilesParagraph / LicenseParagraph (deb822-derive), Copyright::from_str,
                      FilesParagraph::matches, Copyright::{find_files, find_license_for_file,
                      find_license_by_name}
   over an abstract document: the list of paragraphs of the deb822 file, each paragraph the list
   of its (field name, value) pairs in file order, exactly what Deb822Parse.doc_items returns.
   Both readers of the crate go through the *lossless* deb822 parser (the lossy Copyright::from_str
   parses into deb822_lossless::Deb822 and converts paragraph by paragraph), so both see the same
   paragraphs; Paragraph::get is [pget] (first field of that name).

   The code violated property C17 in six places (all reproduced on the real code through the
   `copyright`/`glob` streams, see known_findings.jsonl and docs/cones/C17.md).  Each has a small
   fix; a [variant] says which of the fixes are applied.
   [shipped]   = the code before any of them (commit 128b4be and earlier),
   [committed] = the code with the four fixes that are in /repo (aa779ad 03f3b49 9fb8927 c9dae02),
   [fixed]     = [committed] + proposed_fixes/C17-invalid-glob-escape.patch + C17-non-utf8-path.patch.
   The theorems of props/C17.v are about [fixed] (and, with the hypothesis [doc_valid], about
   [committed]); the `_refuted` lemmas are about [shipped], [committed] and the variants that lack
   exactly one fix. *)
From V.model Require Import Base Deb822Lex Deb822Parse Glob.

Record variant : Type := mk_variant {
  v_dotall : bool;       (* glob.rs: pattern starts with "(?s)"                (aa779ad, C17-glob-newline) *)
  v_lossy_ws : bool;     (* lossy.rs: deserialize_file_list = split_whitespace  (03f3b49, C17-lossy-files-whitespace) *)
  v_lp_name : bool;      (* lossless.rs: LicenseParagraph::name() reads a name-only paragraph (9fb8927, C17-license-paragraph-name) *)
  v_skip_header : bool;  (* lossless.rs: iter_files/iter_licenses skip the header paragraph (c9dae02, C17-header-paragraph) *)
  v_lenient : bool;      (* glob.rs: matches() go through glob_matches(): an invalid pattern matches nothing
                            instead of panicking                               (C17-invalid-glob-escape) *)
  v_lossy_path : bool    (* glob.rs: glob_matches() reads the path with to_string_lossy() instead of
                            to_str().unwrap()                                  (C17-non-utf8-path) *)
}.
Definition fixed : variant := mk_variant true true true true true true.
Definition committed : variant := mk_variant true true true true false false.
Definition shipped : variant := mk_variant false false false false false false.

(* ---------------------------------------------------------------- constants *)
Module Lit.
  Import Coq.Strings.String Coq.Strings.Ascii.
  Fixpoint s2l (s : string) : str :=
    match s with EmptyString => [] | String a r => N_of_ascii a :: s2l r end.
  Definition k_Files : str := Eval compute in s2l "Files".
  Definition k_License : str := Eval compute in s2l "License".
  Definition k_Copyright : str := Eval compute in s2l "Copyright".
  Definition k_Comment : str := Eval compute in s2l "Comment".
  Definition k_Format : str := Eval compute in s2l "Format".
  Definition k_Files_Excluded : str := Eval compute in s2l "Files-Excluded".
  Definition k_Source : str := Eval compute in s2l "Source".
  Definition k_Upstream_Contact : str := Eval compute in s2l "Upstream-Contact".
  Definition s_Format_colon : str := Eval compute in s2l "Format:".
End Lit.
Export Lit.

(* ---------------------------------------------------------------- Rust std, as used here *)
(* char::is_whitespace: the Unicode White_Space property *)
Definition is_whitespace (c : char) : bool :=
  ((9 <=? c) && (c <=? 13) || (c =? 32) || (c =? 133) || (c =? 160) || (c =? 5760) ||
   (8192 <=? c) && (c <=? 8202) || (c =? 8232) || (c =? 8233) || (c =? 8239) || (c =? 8287) ||
   (c =? 12288))%N.

(* list reversal in linear time (Coq's List.rev is quadratic, which the extracted runner feels on
   a Files value of 10^5 characters); frev l = rev l (proofs/CopyrightP.v: frev_rev) *)
Definition frev (l : str) : str := rev_append l [].

(* str::split_whitespace: the maximal runs of non-whitespace characters. [acc] is the current run, reversed. *)
Fixpoint split_ws (acc : str) (s : str) : list str :=
  match s with
  | [] => match acc with [] => [] | _ :: _ => [frev acc] end
  | c :: r =>
    if is_whitespace c then
      match acc with [] => split_ws [] r | _ :: _ => frev acc :: split_ws [] r end
    else split_ws (c :: acc) r
  end.
Definition split_whitespace (s : str) : list str := split_ws [] s.

(* str::split('\n'): always at least one piece *)
Fixpoint split_lf_go (acc : str) (s : str) : list str :=
  match s with
  | [] => [frev acc]
  | c :: r => if (c =? 10)%N then frev acc :: split_lf_go [] r else split_lf_go (c :: acc) r
  end.
Definition split_lf (s : str) : list str := split_lf_go [] s.

(* str::split_once('\n') *)
Fixpoint split_once_lf (s : str) : option (str * str) :=
  match s with
  | [] => None
  | c :: r =>
    if (c =? 10)%N then Some ([], r)
    else match split_once_lf r with Some (a, b) => Some (c :: a, b) | None => None end
  end.

(* str::starts_with(&str) *)
Fixpoint starts_with (pre s : str) : bool :=
  match pre with
  | [] => true
  | c :: pre' => match s with x :: s' => (x =? c)%N && starts_with pre' s' | [] => false end
  end.

(* ---------------------------------------------------------------- documents *)
Notation para := (list (str * str)).
Notation doc := (list (list (str * str))).

(* Paragraph::get: the value of the first field with that name *)
Fixpoint pget (p : para) (key : str) : option str :=
  match p with
  | [] => None
  | (k, v) :: r => if str_eqb k key then Some v else pget r key
  end.
(* Paragraph::contains_key *)
Definition has (p : para) (key : str) : bool :=
  match pget p key with Some _ => true | None => false end.

(* ---------------------------------------------------------------- lib.rs: License *)
Inductive license : Type :=
| LName (name : str)
| LText (text : str)
| LNamed (name text : str).

(* <License as FromStr>::from_str; FilesParagraph::license and From<LicenseParagraph> for License
   in lossless.rs repeat the same three-way split *)
Definition license_of_str (v : str) : license :=
  match split_once_lf v with
  | Some (name, rest) => match name with [] => LText rest | _ :: _ => LNamed name rest end
  | None => LName v
  end.
Definition lic_name (l : license) : option str :=
  match l with LName n => Some n | LText _ => None | LNamed n _ => Some n end.
Definition lic_text (l : license) : option str :=
  match l with LName _ => None | LText t => Some t | LNamed _ t => Some t end.

(* ---------------------------------------------------------------- shared: any / filter-last *)
(* files.iter().any(|f| glob_to_regex(f).is_match(path)): left to right, stops at the first match;
   a pattern with an invalid escape panics when it is reached.
   With [lenient] (C17-invalid-glob-escape): files.iter().any(|f| glob_matches(f, path)) — such a
   pattern is skipped. *)
Fixpoint any_match (dotall lenient : bool) (fs : list str) (path : str) : res bool :=
  match fs with
  | [] => Ok false
  | f :: r =>
    if lenient then
      if glob_is_match dotall f path then Ok true else any_match dotall lenient r path
    else
      match glob_match dotall f path with
      | Ok true => Ok true
      | Ok false => any_match dotall lenient r path
      | Err e => Err e | Panic n => Panic n | OutOfFuel => OutOfFuel
      end
  end.

(* iter.filter(pred).last(): the predicate runs on every element in order; the answer is the
   last element (with its position, counted from [i]) on which it held *)
Fixpoint last_match {A} (pred : A -> res bool) (l : list A) (i : nat) (acc : option (nat * A))
  : res (option (nat * A)) :=
  match l with
  | [] => Ok acc
  | x :: r =>
    match pred x with
    | Ok true => last_match pred r (S i) (Some (i, x))
    | Ok false => last_match pred r (S i) acc
    | Err e => Err e | Panic n => Panic n | OutOfFuel => OutOfFuel
    end
  end.

(* ---------------------------------------------------------------- lossless.rs *)
(* Shipped: every paragraph, the header included, is a candidate.  Fixed: .skip(1). *)
Definition ll_body (v : variant) (d : doc) : doc := if v_skip_header v then tl d else d.

(* Copyright::iter_files *)
Definition ll_iter_files (v : variant) (d : doc) : doc :=
  filter (fun p => has p k_Files) (ll_body v d).
(* Copyright::iter_licenses *)
Definition ll_iter_licenses (v : variant) (d : doc) : doc :=
  filter (fun p => negb (has p k_Files) && has p k_License) (ll_body v d).

(* FilesParagraph::files: get("Files").unwrap().split_whitespace() — Panic 10 = that unwrap *)
Definition ll_files (p : para) : res (list str) :=
  match pget p k_Files with Some x => Ok (split_whitespace x) | None => Panic 10 end.
(* FilesParagraph::matches.  filename.to_str().unwrap() cannot fail here: a path in the model is
   a sequence of Unicode scalar values (see docs/cones/C17.md for non-UTF-8 paths). *)
Definition ll_matches (v : variant) (p : para) (path : str) : res bool :=
  bind (ll_files p) (fun fs => any_match (v_dotall v) (v_lenient v) fs path).
(* FilesParagraph::license *)
Definition ll_fp_license (p : para) : option license :=
  option_map license_of_str (pget p k_License).

(* Copyright::find_files: the position is the index in iter_files() *)
Definition ll_find_files (v : variant) (d : doc) (path : str) : res (option (nat * para)) :=
  last_match (fun p => ll_matches v p path) (ll_iter_files v d) 0 None.

(* LicenseParagraph::name.  Shipped: split_once('\n').map(|(name, _)| name) — None when the
   value has no second line.  Fixed: the first line, as License::name reads it. *)
Definition ll_lp_name (v : variant) (p : para) : option str :=
  match pget p k_License with
  | None => None
  | Some x =>
    match split_once_lf x with
    | Some (n, _) => if v_lp_name v then match n with [] => None | _ :: _ => Some n end else Some n
    | None => if v_lp_name v then Some x else None
    end
  end.
(* LicenseParagraph::text *)
Definition ll_lp_text (p : para) : option str :=
  match pget p k_License with
  | None => None
  | Some x => option_map snd (split_once_lf x)
  end.
(* From<LicenseParagraph> for License: get("License").unwrap() — Panic 11 *)
Definition ll_lp_license (p : para) : res license :=
  match pget p k_License with Some x => Ok (license_of_str x) | None => Panic 11 end.

(* Copyright::find_license_by_name *)
Definition ll_find_license_by_name (v : variant) (d : doc) (name : str) : res (option license) :=
  match find (fun p => opt_str_eqb (ll_lp_name v p) name) (ll_iter_licenses v d) with
  | None => Ok None
  | Some p => rmap Some (ll_lp_license p)
  end.

(* Copyright::find_license_for_file *)
Definition ll_find_license_for_file (v : variant) (d : doc) (path : str) : res (option license) :=
  bind (ll_find_files v d path) (fun r =>
    match r with
    | None => Ok None
    | Some (_, fp) =>
      match ll_fp_license fp with
      | None => Ok None
      | Some l =>
        match lic_text l with
        | Some _ => Ok (Some l)
        | None => match lic_name l with
                  | None => Ok None
                  | Some n => ll_find_license_by_name v d n
                  end
        end
      end
    end).

(* ---------------------------------------------------------------- lossy.rs *)
(* deserialize_file_list.  Shipped: text.split('\n').  Fixed: text.split_whitespace(). *)
Definition ly_file_list (v : variant) (text : str) : list str :=
  if v_lossy_ws v then split_whitespace text else split_lf text.

Record lheader : Type := mk_lheader {
  h_format : str; h_files_excluded : option (list str); h_source : option str;
  h_upstream_contact : option str }.
Record lfiles : Type := mk_lfiles {
  lf_files : list str; lf_license : license; lf_copyright : list str; lf_comment : option str }.
Record llicense : Type := mk_llicense { lp_license : license; lp_comment : option str }.
Record lcopyright : Type := mk_lcopyright {
  c_header : lheader; c_files : list lfiles; c_licenses : list llicense }.

(* derived from_paragraph: a required field that is missing is Err 3 ("missing field: ..");
   none of the field parsers used by these three structs can fail *)
Definition req (p : para) (key : str) : res str :=
  match pget p key with Some x => Ok x | None => Err 3%N end.

Definition ly_header (v : variant) (p : para) : res lheader :=
  bind (req p k_Format) (fun f =>
    Ok (mk_lheader f (option_map (ly_file_list v) (pget p k_Files_Excluded))
                   (pget p k_Source) (pget p k_Upstream_Contact))).
Definition ly_files_para (v : variant) (p : para) : res lfiles :=
  bind (req p k_Files) (fun fl =>
  bind (req p k_License) (fun li =>
  bind (req p k_Copyright) (fun co =>
    Ok (mk_lfiles (ly_file_list v fl) (license_of_str li) (split_lf co) (pget p k_Comment))))).
Definition ly_license_para (p : para) : res llicense :=
  bind (req p k_License) (fun li => Ok (mk_llicense (license_of_str li) (pget p k_Comment))).

(* the while-let loop of Copyright::from_str; Err 4 = "Paragraph is neither License nor Files" *)
Fixpoint ly_body (v : variant) (ps : doc) : res (list lfiles * list llicense) :=
  match ps with
  | [] => Ok ([], [])
  | p :: r =>
    match pget p k_Files with
    | Some _ =>
        bind (ly_files_para v p) (fun fp =>
        bind (ly_body v r) (fun fl => Ok (fp :: fst fl, snd fl)))
    | None =>
      match pget p k_License with
      | Some _ =>
          bind (ly_license_para p) (fun lp =>
          bind (ly_body v r) (fun fl => Ok (fst fl, lp :: snd fl)))
      | None => Err 4%N
      end
    end
  end.

(* Copyright::from_str after the deb822 parse; Err 5 = "No paragraphs" *)
Definition ly_of_doc (v : variant) (d : doc) : res lcopyright :=
  match d with
  | [] => Err 5%N
  | h :: r =>
    bind (ly_header v h) (fun hd =>
    bind (ly_body v r) (fun fl => Ok (mk_lcopyright hd (fst fl) (snd fl))))
  end.

(* lossy FilesParagraph::matches *)
Definition ly_matches (v : variant) (fp : lfiles) (path : str) : res bool :=
  any_match (v_dotall v) (v_lenient v) (lf_files fp) path.
(* lossy Copyright::find_files: the position is the index in self.files *)
Definition ly_find_files (v : variant) (c : lcopyright) (path : str) : res (option (nat * lfiles)) :=
  last_match (fun fp => ly_matches v fp path) (c_files c) 0 None.
(* lossy Copyright::find_license_by_name *)
Definition ly_find_license_by_name (c : lcopyright) (name : str) : option license :=
  option_map lp_license
    (find (fun p => opt_str_eqb (lic_name (lp_license p)) name) (c_licenses c)).
(* lossy Copyright::find_license_for_file; Panic 12 = files.license.name().unwrap() *)
Definition ly_find_license_for_file (v : variant) (c : lcopyright) (path : str) : res (option license) :=
  bind (ly_find_files v c path) (fun r =>
    match r with
    | None => Ok None
    | Some (_, fp) =>
      match lic_text (lf_license fp) with
      | Some _ => Ok (Some (lf_license fp))
      | None => match lic_name (lf_license fp) with
                | Some n => Ok (ly_find_license_by_name c n)
                | None => Panic 12
                end
      end
    end).

(* ---------------------------------------------------------------- text entry points *)
(* s.starts_with("Format:") *)
Definition format_gate (s : str) : bool := starts_with s_Format_colon s.

(* lossless <Copyright as FromStr>::from_str: Err 2 = Error::NotMachineReadable, Err 1 = ParseError *)
Definition ll_from_str (s : str) : res doc :=
  if negb (format_gate s) then Err 2%N else
  match Deb822Parse.from_str s with
  | Ok t => Ok (doc_items t)
  | Err _ => Err 1%N
  | Panic n => Panic n | OutOfFuel => OutOfFuel
  end.
(* lossless Copyright::from_str_relaxed: the document and the number of syntax errors *)
Definition ll_from_str_relaxed (s : str) : res (doc * nat) :=
  if negb (format_gate s) then Err 2%N else
  match Deb822Parse.from_str_relaxed s with
  | Ok (t, n) => Ok (doc_items t, n)
  | Err e => Err e | Panic n => Panic n | OutOfFuel => OutOfFuel
  end.
(* lossy <Copyright as FromStr>::from_str: Err 2 = "Not machine readable", Err 1 = parse error,
   Err 3/4/5 = conversion errors *)
Definition ly_from_str (v : variant) (s : str) : res lcopyright :=
  if negb (format_gate s) then Err 2%N else
  match Deb822Parse.from_str s with
  | Ok t => ly_of_doc v (doc_items t)
  | Err _ => Err 1%N
  | Panic n => Panic n | OutOfFuel => OutOfFuel
  end.

(* ---------------------------------------------------------------- paths that are not valid UTF-8 *)
(* Without C17-non-utf8-path both matches() functions evaluate, per pattern,
     glob_to_regex(f).is_match(filename.to_str().unwrap())          (shipped, committed)
     try_glob_to_regex(f).map_or(false, |r| r.is_match(path.to_str().unwrap()))   (lenient only)
   Path::to_str() is None when the path is not valid UTF-8 (possible on Unix), so the unwrap
   panics (Panic 13) as soon as there is a pattern to try whose translation succeeded.  Such a
   path is not a [str]; the functions above are about paths that are.  With [v_lossy_path] the
   path is read through Path::to_string_lossy(), i.e. the functions above are applied to the
   lossy conversion of the path (every maximal invalid sequence reads as U+FFFD) and nothing
   below is used.  The definitions below are what the `glob`/`copyright` streams compare, for a
   variant without [v_lossy_path], on paths written "!<hex bytes>" in a case file. *)
Fixpoint any_match_nonutf8 (lenient : bool) (fs : list str) : res bool :=
  match fs with
  | [] => Ok false
  | f :: r =>
    if lenient then
      match try_glob_to_regex f with
      | Ok _ => Panic 13
      | _ => any_match_nonutf8 lenient r
      end
    else bind (glob_to_regex f) (fun _ => Panic 13)
  end.
Definition ll_matches_nonutf8 (v : variant) (p : para) : res bool :=
  bind (ll_files p) (any_match_nonutf8 (v_lenient v)).
Definition ly_matches_nonutf8 (v : variant) (fp : lfiles) : res bool :=
  any_match_nonutf8 (v_lenient v) (lf_files fp).
Definition ll_find_files_nonutf8 (v : variant) (d : doc) : res (option (nat * para)) :=
  last_match (ll_matches_nonutf8 v) (ll_iter_files v d) 0 None.
Definition ly_find_files_nonutf8 (v : variant) (c : lcopyright) : res (option (nat * lfiles)) :=
  last_match (ly_matches_nonutf8 v) (c_files c) 0 None.
(* find_license_for_file starts with find_files(filename)?: nothing can have matched *)
Definition ll_find_license_for_file_nonutf8 (v : variant) (d : doc) : res (option license) :=
  bind (ll_find_files_nonutf8 v d) (fun _ => Ok None).
Definition ly_find_license_for_file_nonutf8 (v : variant) (c : lcopyright) : res (option license) :=
  bind (ly_find_files_nonutf8 v c) (fun _ => Ok None).
