(* Specification vocabulary for the control-file wrappers of C07 with the real relations branch:
   format_field with C13's model of Relations::wrap_and_sort in place of the parameter, and the
   control files the theorems speak about.  Definitions only. *)
From V.model Require Import Base Deb822Lex Deb822Parse Grammar Lossy LossySpec Deb822Edit LiveDoc Deb822Wrap WrapSpec WrapSpecInst.
From V.model Require RelGrammar RelWrap RelWrapSpec.

(* the relationship arm of format_field: Relations::parse_relaxed(value, true); with errors the
   value as it is (C07-22), else wrap_and_sort(), to_string(): RelWrap.ctl_rel, whose Panic 20 is
   "the parser reported errors" *)
Definition real_rel : str -> res str := rel_arm fixed (RelWrap.ctl_rel RelWrap.fixed).
(* format_field of debian-control/src/lossless/control.rs, no parameter left *)
Definition real_format_field : str -> str -> res str := format_field fixed real_rel.
(* Control::wrap_and_sort, Source::wrap_and_sort / Binary::wrap_and_sort *)
Definition real_control_ws (c : wcfg) (t : tree) : res tree :=
  control_ws fixed (RelWrap.ctl_rel RelWrap.fixed) (c_ind c) (c_iel c) (c_mll c) t.
Definition real_control_para_ws (c : wcfg) (p : tree) : res tree :=
  control_para_ws fixed (RelWrap.ctl_rel RelWrap.fixed) (c_ind c) (c_iel c) (c_mll c) p.

(* the formatter as a function (the empty text where format_field panics: never used on the
   control files below) *)
Definition ctl_total (name value : str) : str :=
  match real_format_field name value with Ok o => o | _ => [] end.

(* the text of a field's value as the formatter receives it *)
Definition field_input (f : field) : str := value_text (field_ws0 f) (f_first f) (map snd (f_cont f)).

(* The control files the theorems are about: every relationship field (the twelve names of
   format_field) holds a well-formed relationship field of C10's grammar (any layout of SP/TAB/LF
   in its whitespace slots -- the continuation-line breaks are among them --, substitution
   variables, empty entries, trailing comma ...) in C13's safe domain (no digit run above 2^31-1
   in a version); the Uploaders formatter's output is shaped on every Uploaders field (no empty
   piece between commas; a piece may start with '#': C07-21).  Every other field is arbitrary.
   (A relationship field the relations parser rejects is returned as it is -- C07-22,
   C07_control_unparsable_relation_kept --; it is not in this domain: that the parser rejects the
   re-laid-out value too is not a theorem of C13.) *)
Definition ctl_field_ok (f : field) : Prop :=
  if str_eqb (f_name f) Lit.k_Uploaders then shaped (fmt_uploaders_h (field_input f)) = true
  else if existsb (str_eqb (f_name f)) (Lit.relation_fields true) then
    exists rf, RelGrammar.wf_rfield true rf = true /\ RelWrapSpec.field_safe rf = true /\
               field_input f = RelGrammar.rrender rf
  else True.
Definition ctl_items_ok (its : list item) : Prop := forall f, In (IField f) its -> ctl_field_ok f.
Definition ctl_doc_ok (l : ldocl) : Prop := forall its, In (LPara its) l -> ctl_items_ok its.


(* ---------------------------------------------------------------- what is proved of every field of such a file; formatters that absorb the re-layout on a document *)
(* ---------------------------------------------------------------- format_field, branch by branch *)
Definition is_rel_field (name : str) : bool := existsb (str_eqb name) (Lit.relation_fields true).
Definition field_facts (c : wcfg) (f : field) : Prop :=
  real_format_field (f_name f) (field_input f) = Ok (ctl_total (f_name f) (field_input f)) /\
  fmt_shaped_on (Some ctl_total) f = true /\
  field_stable c (Some ctl_total) f /\ fmt_lexes (Some ctl_total) (a_ws_field c (Some ctl_total) f) /\
  real_format_field (f_name f) (field_input (a_ws_field c (Some ctl_total) f))
    = Ok (ctl_total (f_name f) (field_input (a_ws_field c (Some ctl_total) f))) /\
  (str_eqb (f_name f) Lit.k_Uploaders = false -> is_rel_field (f_name f) = false -> a_value (Some ctl_total) f = field_value f).
(* ---------------------------------------------------------------- (3) idempotence with any formatter: what it takes *)
(* The formatter absorbs the re-layout ON THIS DOCUMENT: on every field, its output does not start
   with a blank or a line break, and it gives the same output when that output comes back with
   blanks / line breaks in front (all the re-layout of a value adds).  Weaker than [absorbing]: a
   formatter may treat fields of different names differently (format_field does). *)
Definition absorbs_on (g : str -> str -> str) (l : ldocl) : Prop :=
  forall its f, In (LPara its) l -> In (IField f) its ->
    let o := g (f_name f) (field_input f) in
    (forall lead, forallb lead_char lead = true -> g (f_name f) (lead ++ o) = o) /\
    match o with [] => True | ch :: _ => lead_char ch = false end.
(* ... and it does take something: a formatter that appends "!" is shaped, and every application
   appends another one *)
Module WF.
  Import Coq.Strings.String.
  Local Open Scope string_scope.
  Definition bang (k v : str) : str := (v ++ Lit.s2l "!")%list.
  Definition d_bang : doc := [BPara (mk_field (Lit.s2l "A") (Lit.s2l " ") (Lit.s2l "b") [] true) []].
  Definition c2 : wcfg := mk_wcfg (Spaces 2) false None.
  Definition once : str := Lit.s2l "A: b!
".
  Definition twice : str := Lit.s2l "A: b!!
".
End WF.
