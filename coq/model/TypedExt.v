(* The codecs that model/Derive.v calls "external" are, for twelve of the sixteen, plain code of the
   workspace.  This file instantiates Derive's [E / ext_print / ext_parse] with the models the
   framework already has of them (C18: model/EnumTab.v + gen/Enums_gen.v, model/Codecs.v,
   model/Vcs.v) and with transcriptions of the three that had none (the environment map of
   lossy/buildinfo.rs, the repository-type set and the URI list of apt-sources/src/lib.rs).
   What stays external: debversion::Version (1), url::Url (2), lossy Relations (3, built on
   debversion), chrono::NaiveDate (15) - values of an arbitrary type [E0] with a printer [p0] and a
   parser [q0].

     4 Priority, 5 MultiArch, 8 YesNoForce   generated keyword tables (enum_parse / enum_print)
     6 License, 9 Forwarded, 10 AppliedUpstream, 7 Signature       Codecs.v
     16 Origin   deserialize_origin = Ok(parse_origin(s)), serialize_origin = format_origin     Codecs.v
     11 ParsedVcs                                                                            Vcs.v
     12 deserialize_env / serialize_env: lines(), split_once("="), HashMap insert; printed as the
        sorted "K=V" lines joined by LF.  A HashMap value is represented by what equality and the
        printer can see of it: its sorted "K=V" lines (keys distinct).
     13 deserialize_types / serialize_types: split_whitespace, RepositoryType::from_str, HashSet;
        printed as the sorted keywords joined by LF.  Represented by its sorted distinct keywords.
     14 deserialize_uris / serialize_uris: split_whitespace, Url::from_str each; as_str joined by " "
   No proofs in this file. *)
From Coq Require Import ZArith.
From V.model Require Import Base CodecStr EnumTab Codecs Vcs Deb822Lex Deb822Parse Grammar Lossy LossySpec Derive TypedDocs.
From V.gen Require Import Enums_gen Structs_gen.

(* ------------------------------------------------------------------ Vec<String>::sort(), HashSet / HashMap as normal forms *)
(* <str as Ord>: bytewise on UTF-8 = lexicographic on scalar values *)
Fixpoint str_leb (a b : str) : bool :=
  match a, b with
  | [], _ => true
  | _ :: _, [] => false
  | x :: a', y :: b' => if (x <? y)%N then true else if (x =? y)%N then str_leb a' b' else false
  end.
Fixpoint ins_sorted (x : str) (l : list str) : list str :=
  match l with
  | [] => [x]
  | y :: r => if str_leb x y then x :: l else y :: ins_sorted x r
  end.
Definition sort_str (l : list str) : list str := fold_right ins_sorted [] l.
(* keep the last of equal items (any choice gives the same result: equal items are identical) *)
Fixpoint dedup_str (l : list str) : list str :=
  match l with
  | [] => []
  | x :: r => if existsb (str_eqb x) r then dedup_str r else x :: dedup_str r
  end.

(* ------------------------------------------------------------------ 12: the environment map *)
Definition env_line (kv : str * str) : str := fst kv ++ 61%N :: snd kv.            (* format!("{}={}", key, value) *)
(* for line in s.lines() { split_once("=") else Err; env.insert(key, value) } *)
Fixpoint env_fold (ls : list str) (m : list (str * str)) : option (list (str * str)) :=
  match ls with
  | [] => Some m
  | l :: r => match split_once 61 l with
              | Some (k, v) => env_fold r (map_insert k v m)
              | None => None
              end
  end.
Definition env_parse (s : str) : option (list str) :=
  match env_fold (lines s) [] with
  | Some m => Some (sort_str (map env_line m))
  | None => None
  end.
Definition env_print (ls : list str) : str := join [10%N] ls.

(* ------------------------------------------------------------------ 13: the repository-type set *)
Definition enum_text (t : enum_tab) (v : N) : str := match enum_print t v with Ok s => s | _ => [] end.
Fixpoint parse_all {A} (f : str -> option A) (ws : list str) : option (list A) :=
  match ws with
  | [] => Some []
  | w :: r => match f w, parse_all f r with Some a, Some l => Some (a :: l) | _, _ => None end
  end.
Definition types_parse (s : str) : option (list str) :=
  match parse_all (fun w => match enum_parse RepositoryType_tab w with Ok v => Some (enum_text RepositoryType_tab v) | _ => None end)
                  (Derive.split_ws s) with
  | Some kws => Some (sort_str (dedup_str kws))
  | None => None
  end.
Definition types_print (kws : list str) : str := join [10%N] kws.

Section Ext0.
Variable E0 : Type.
Variable p0 : N -> E0 -> str.
Variable q0 : N -> str -> option E0.

Inductive xval : Type :=
| XExt (e : E0)                            (* 1 Version, 2 Url, 3 Relations, 15 NaiveDate *)
| XEnum (v : N)                            (* 4 Priority, 5 MultiArch, 8 YesNoForce: the variant's index *)
| XLicense (l : license)
| XSignature (s : signature)
| XForwarded (f : forwarded)
| XApplied (c : commit_or)
| XVcs (v : parsed_vcs)
| XEnv (lines : list str)
| XTypes (kws : list str)
| XUrls (us : list E0)
| XOrigin (c : option N) (o : commit_or).

Definition ok_opt {A} (r : res A) : option A := match r with Ok a => Some a | _ => None end.

Definition xparse (i : N) (s : str) : option xval :=
  match i with
  | 1%N | 2%N | 3%N | 15%N => option_map XExt (q0 i s)
  | 4%N => option_map XEnum (ok_opt (enum_parse Priority_tab s))
  | 5%N => option_map XEnum (ok_opt (enum_parse MultiArch_tab s))
  | 8%N => option_map XEnum (ok_opt (enum_parse YesNoForce_tab s))
  | 6%N => option_map XLicense (ok_opt (license_from_str s))
  | 7%N => option_map XSignature (ok_opt (signature_from_str s))
  | 9%N => option_map XForwarded (ok_opt (forwarded_from_str s))
  | 10%N => option_map XApplied (ok_opt (applied_from_str s))
  | 11%N => option_map XVcs (ok_opt (parsed_vcs_from_str s))
  | 12%N => option_map XEnv (env_parse s)
  | 13%N => option_map XTypes (types_parse s)
  | 14%N => option_map XUrls (parse_all (q0 2%N) (Derive.split_ws s))
  | 16%N => let '(c, o) := parse_origin parse_origin_tab s in Some (XOrigin c o)
  | _ => None
  end.

(* values of the wrong shape for the codec have no Rust counterpart: they print as "" *)
Definition xprint (i : N) (v : xval) : str :=
  match i, v with
  | (1%N | 2%N | 3%N | 15%N), XExt e => p0 i e
  | 4%N, XEnum v => enum_text Priority_tab v
  | 5%N, XEnum v => enum_text MultiArch_tab v
  | 8%N, XEnum v => enum_text YesNoForce_tab v
  | 6%N, XLicense l => license_to_string l
  | 7%N, XSignature s => signature_to_string s
  | 9%N, XForwarded f => forwarded_to_string f
  | 10%N, XApplied c => applied_to_string c
  | 11%N, XVcs v => parsed_vcs_to_string v
  | 12%N, XEnv ls => env_print ls
  | 13%N, XTypes kws => types_print kws
  | 14%N, XUrls us => join [32%N] (map (p0 2%N) us)
  | 16%N, XOrigin c o => match format_origin OriginCategory_tab parse_origin_tab c o with Ok s => s | _ => [] end
  | _, _ => []
  end.

End Ext0.

Arguments XExt {E0} e.
Arguments XEnum {E0} v.
Arguments XLicense {E0} l.
Arguments XSignature {E0} s.
Arguments XForwarded {E0} f.
Arguments XApplied {E0} c.
Arguments XVcs {E0} v.
Arguments XEnv {E0} lines.
Arguments XTypes {E0} kws.
Arguments XUrls {E0} us.
Arguments XOrigin {E0} c o.

(* ------------------------------------------------------------------ the guards of the known classes *)
(* values of the codecs above for which printing a parsed value is NOT stable: exactly these *)
(* 11 ParsedVcs: a second " [..]" group (the reader takes the first out, the printer puts it last).
   Values spanning several lines are left outside as well (the theorem is about one-line values; the
   stream finds multi-line ones stable too) *)
Definition vcs_one_group (x : str) : bool :=
  negb (contains_char 10 x) &&
  match re_find (trim x) with
  | Some (a, _, b) => match re_find (a ++ b) with None => true | Some _ => false end
  | None => true
  end.
(* 7 Signature: a key block (several lines) whose first line starts with '#': printed as "\n" + text,
   the first line becomes a continuation line, i.e. a comment *)
Definition sig_no_hash_block (x : str) : bool := negb (contains_char 10 x && starts_hash x).
(* 12 environment: a "K=V" line starting with '#' that is not the first of the sorted lines *)
Definition env_no_hash_line (x : str) : bool :=
  match env_parse x with
  | Some ls => forallb (fun l => negb (starts_hash l)) (tl ls)
  | None => true
  end.
Definition xguard (i : N) (x : str) : bool :=
  match i with
  | 7%N => sig_no_hash_block x
  | 11%N => vcs_one_group x
  | 12%N => env_no_hash_line x
  | _ => true
  end.

(* ------------------------------------------------------------------ entry points of the runner *)
(* the remaining externals through the per-case table; everything else computed by the models *)
Notation xv := (xval str).
Definition commit_or_eqb (a b : commit_or) : bool :=
  match a, b with
  | Commit x, Commit y | Other x, Other y => str_eqb x y
  | _, _ => false
  end.
Definition opt_str_eq (a b : option str) : bool :=
  match a, b with Some x, Some y => str_eqb x y | None, None => true | _, _ => false end.
Definition xval_eqb (a b : xv) : bool :=
  match a, b with
  | XExt x, XExt y => str_eqb x y
  | XEnum x, XEnum y => (x =? y)%N
  | XLicense (LName x), XLicense (LName y) | XLicense (LText x), XLicense (LText y) => str_eqb x y
  | XLicense (LNamed x1 x2), XLicense (LNamed y1 y2) => str_eqb x1 y1 && str_eqb x2 y2
  | XSignature (Codecs.KeyBlock x), XSignature (Codecs.KeyBlock y) | XSignature (Codecs.KeyPath x), XSignature (Codecs.KeyPath y) => str_eqb x y
  | XForwarded FwNo, XForwarded FwNo | XForwarded FwNotNeeded, XForwarded FwNotNeeded => true
  | XForwarded (FwYes x), XForwarded (FwYes y) => str_eqb x y
  | XApplied x, XApplied y => commit_or_eqb x y
  | XVcs x, XVcs y => str_eqb (repo_url x) (repo_url y) && opt_str_eq (branch x) (branch y) && opt_str_eq (subpath x) (subpath y)
  | XEnv x, XEnv y | XTypes x, XTypes y | XUrls x, XUrls y => list_eqb str_eqb x y
  | XOrigin c1 o1, XOrigin c2 o2 =>
      match c1, c2 with Some x, Some y => (x =? y)%N | None, None => true | _, _ => false end && commit_or_eqb o1 o2
  | _, _ => false
  end.
Definition xuval_eqb (a b : uval xv) : bool :=
  match a, b with
  | VStr x, VStr y => str_eqb x y
  | VBool x, VBool y => Bool.eqb x y
  | VNum x, VNum y => (x =? y)%N
  | VInt x, VInt y => (x =? y)%Z
  | VList x, VList y => list_eqb str_eqb x y
  | VExt x, VExt y => xval_eqb x y
  | _, _ => false
  end.
Definition xsval_eqb (a b : list (option (uval xv))) : bool :=
  list_eqb (fun x y => match x, y with
                       | None, None => true
                       | Some u, Some w => xuval_eqb u w
                       | _, _ => false
                       end) a b.

Notation xxval := (list (option (uval xv))).
Record yout : Type := mk_yout { y_paras : list (N * lpara); y_vals : list xxval; y_text : str }.

Definition y_para (role : N) (fs : list fieldspec) (v : xxval) : option (N * lpara) :=
  match to_lossy xv (xprint str table_print) fs v with Some p => Some (role, p) | None => None end.
Definition y_finish (paras : option (list (N * lpara))) (vals : list xxval) (text : option str) : tres yout :=
  match paras, text with
  | Some ps, Some t => TOk (mk_yout ps vals t)
  | _, _ => TPanic 900%N
  end.
Definition y_one (role : N) (fs : list fieldspec) (text : option str) (v : xxval) : tres yout :=
  y_finish (map_opt (y_para role fs) [v]) [v] text.

Definition y_run (kind : N) (t : ext_table) (s : str) : tres yout :=
  let pe := xparse str (table_parse t) in
  let pr := xprint str table_print in
  match kind with
  | 0%N => tbind (parse_control xv pe s) (fun c =>
             y_finish (match y_para 83%N fs_control_source (c_source c), map_opt (y_para 66%N fs_control_binary) (c_binaries c) with
                       | Some a, Some b => Some (a :: b) | _, _ => None end)
                      (c_source c :: c_binaries c) (print_control xv pr c))
  | 1%N => tbind (parse_copyright xv pe s) (fun c =>
             y_finish (match y_para 72%N fs_header (cr_header c), map_opt (y_para 70%N fs_files) (cr_files c),
                             map_opt (y_para 76%N fs_license) (cr_licenses c) with
                       | Some a, Some b, Some l => Some (a :: b ++ l) | _, _, _ => None end)
                      (cr_header c :: cr_files c ++ cr_licenses c) (print_copyright xv pr c))
  | 2%N => tbind (parse_release xv pe s) (fun v => y_one 80%N fs_release (print_release xv pr v) v)
  | 3%N => tbind (parse_apt_source xv pe s) (fun v => y_one 80%N fs_apt_source (print_apt_source xv pr v) v)
  | 4%N => tbind (parse_apt_package xv pe s) (fun v => y_one 80%N fs_apt_package (print_apt_package xv pr v) v)
  | 5%N => tbind (parse_removal xv pe s) (fun v => y_one 80%N fs_removal (print_removal xv pr v) v)
  | 6%N => tbind (parse_buildinfo xv pe s) (fun v => y_one 80%N fs_buildinfo (print_buildinfo xv pr v) v)
  | 7%N => tbind (parse_dep3 xv pe s) (fun v => y_one 80%N fs_dep3 (print_dep3 xv pr v) v)
  | 8%N => tbind (parse_repositories xv pe s) (fun rs =>
             y_finish (map_opt (y_para 82%N fs_repository) rs) rs (print_repositories xv pr rs))
  | _ => TPanic 901%N
  end.
