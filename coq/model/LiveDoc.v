(* The shapes a live (edited) lossless document can take, as abstract layouts: like
   Grammar.doc, except that a paragraph is any list of items (it may be empty, or start with
   comment lines, after fields were removed).  Specification side of C04/C05. *)
From V.model Require Import Base Deb822Lex Deb822Parse Grammar Lossy LossySpec Deb822Edit.

Inductive lblock :=
| LBlank
| LComment (c : str) (nl : bool)
| LPara (its : list item).
Notation ldocl := (list lblock).

Definition lblock_tree (b : lblock) : tree :=
  match b with
  | LBlank => Node EMPTY_LINE [Tok NEWLINE [LF]]
  | LComment c nl => Node EMPTY_LINE (comment_elems c nl)
  | LPara its => Node PARAGRAPH (flat_map item_elems its)
  end.
Definition ltree_of (d : ldocl) : tree := Node ROOT (map lblock_tree d).

(* how the text of a live document is read again: leading comments of a paragraph are
   comment lines outside it, an empty paragraph is nothing *)
Fixpoint norm_items (its : list item) : list block :=
  match its with
  | [] => []
  | IComment c nl :: r => BComment c nl :: norm_items r
  | IField f :: r => [BPara f r]
  end.
Definition norm_block (b : lblock) : list block :=
  match b with
  | LBlank => [BBlank]
  | LComment c nl => [BComment c nl]
  | LPara its => norm_items its
  end.
Definition norm (d : ldocl) : doc := flat_map norm_block d.

(* well-formed live documents: every line well-formed, only the very last line of the
   document may be unterminated, and a paragraph is followed by a blank line (or nothing) *)
Fixpoint lwf (d : ldocl) : bool :=
  match d with
  | [] => true
  | b :: r =>
    let more := match r with [] => false | _ => true end in
    match b with
    | LBlank => true
    | LComment c nl => wf_comment c nl more
    | LPara its => wf_items its more && match r with [] => true | LBlank :: _ => true | _ => false end
    end && lwf r
  end.

Definition lcontent (d : ldocl) : list (list (str * str)) :=
  flat_map (fun b => match b with LPara its => [flat_map item_pairs its] | _ => [] end) d.
Definition nonempty_paras (c : list (list (str * str))) : list (list (str * str)) :=
  filter (fun p => match p with [] => false | _ => true end) c.

(* ---- the abstract effect of the edits on a paragraph's items ---- *)
(* a new entry for a canonical (name, value): Entry::new lays it out like Display does *)
Definition new_field (k v : str) : field := layout_field (k, v).

Fixpoint terminate_last (its : list item) : list item :=
  match its with
  | [] => []
  | [IField f] => [IField (mk_field (f_name f) (f_ws f) (f_first f) (f_cont f) true)]
  | [IComment c _] => [IComment c true]
  | it :: r => it :: terminate_last r
  end.

Definition a_insert (its : list item) (k v : str) : list item := terminate_last its ++ [IField (new_field k v)].
Fixpoint a_replace_first (k : str) (g : field -> field) (its : list item) : option (list item) :=
  match its with
  | [] => None
  | IField f :: r => if str_eqb (f_name f) k then Some (IField (g f) :: r)
                     else match a_replace_first k g r with Some r' => Some (IField f :: r') | None => None end
  | it :: r => match a_replace_first k g r with Some r' => Some (it :: r') | None => None end
  end.
Definition a_set (its : list item) (k v : str) : list item :=
  match a_replace_first k (fun _ => new_field k v) its with Some r => r | None => a_insert its k v end.
Definition a_remove (its : list item) (k : str) : list item :=
  filter (fun it => match it with IField f => negb (str_eqb (f_name f) k) | IComment _ _ => true end) its.
Definition a_rename (its : list item) (old new : str) : list item :=
  match a_replace_first old (fun f => new_field new (field_value f)) its with Some r => r | None => its end.

(* apply to the n-th paragraph block *)
Fixpoint a_on_para (n : nat) (g : list item -> list item) (d : ldocl) : ldocl :=
  match d with
  | [] => []
  | LPara its :: r => match n with O => LPara (g its) :: r | S n' => LPara its :: a_on_para n' g r end
  | b :: r => b :: a_on_para n g r
  end.

(* the domain of C04: valid name, canonical value with a non-empty first line *)
Definition canon_kv (k v : str) : bool :=
  valid_name k && canon_value v && match v with [] => false | c :: _ => negb (c =? 10)%N end.

(* ---- the abstract effect of the paragraph operations (C05) ---- *)
Fixpoint terminate_doc (d : ldocl) : ldocl :=
  match d with
  | [] => []
  | [LBlank] => [LBlank]
  | [LComment c _] => [LComment c true]
  | [LPara its] => [LPara (terminate_last its)]
  | b :: r => b :: terminate_doc r
  end.

Definition a_add (d : ldocl) : ldocl :=
  match d with
  | [] => [LPara []]
  | _ => terminate_doc d ++ [LBlank; LPara []]
  end.

(* insert [new] in front of the n-th paragraph block; None if there is none *)
Fixpoint insert_before_para (n : nat) (new : ldocl) (d : ldocl) : option ldocl :=
  match d with
  | [] => None
  | LPara its :: r =>
      match n with
      | O => Some (new ++ LPara its :: r)
      | S n' => match insert_before_para n' new r with Some r' => Some (LPara its :: r') | None => None end
      end
  | b :: r => match insert_before_para n new r with Some r' => Some (b :: r') | None => None end
  end.

Definition a_insert_para (d : ldocl) (i : nat) : ldocl :=
  match d with
  | [] => [LPara []]
  | _ =>
    match i with
    | O => LPara [] :: LBlank :: d
    | _ => match insert_before_para i [LPara []; LBlank] d with Some d' => d' | None => a_add d end
    end
  end.

Definition is_empty_line_block (b : lblock) : bool := match b with LPara _ => false | _ => true end.
Fixpoint a_remove_para (d : ldocl) (i : nat) : ldocl :=
  match d with
  | [] => []
  | LPara its :: r =>
      match i with
      | O => match r with b :: r' => if is_empty_line_block b then r' else r | [] => [] end
      | S i' => LPara its :: a_remove_para r i'
      end
  | b :: r => b :: a_remove_para r i
  end.
