(* Debian version numbers.

   Two things live here (no proofs; see proofs/DebVersionP.v):

   (1) REFERENCE ordering [vcmp] — the dpkg / Policy §5.6.12 algorithm: compare epochs
       numerically; then upstream, then revision (an absent revision counts as "0"), each by
       splitting the string into alternating runs  non-digits, digits, non-digits, ...  and
       comparing run by run: non-digit runs character-wise with  '~' < end-of-run < letters <
       everything else,  digit runs by numeric value (unbounded), a missing run being
       empty / zero.

   (2) MODELLED EXTERNAL [parse_version], [ver_cmp] — a transcription of the `debversion`
       crate 0.4.4 (src/lib.rs: FromStr for Version, non_digit_cmp, version_cmp_part,
       Ord::cmp, PartialEq::eq), the version type debian-control uses.  It differs from (1)
       in one way: a digit run is read with `parse::<i32>().unwrap()`, which panics above
       2^31-1 (site 2).  proofs/DebVersionP.v shows [ver_cmp a b = Ok (vcmp a b)] whenever no
       digit run exceeds that bound.  Both are validated against the real crate by the
       `vercmp` correspondence stream.

   Domain: strings produced by [parse_version] are ASCII; the crate slices by char position,
   which is only meaningful for ASCII, and its public fields can hold other text — that is
   outside this model. *)
From V.model Require Import Base.
From Coq Require Import ZArith.

Record version := mk_version {
  epoch : option N;            (* Option<u32> *)
  upstream : str;              (* upstream_version *)
  revision : option str        (* debian_revision *)
}.

Definition is_digit (c : char) : bool := ((48 <=? c) && (c <=? 57))%N.     (* char::is_ascii_digit *)
Definition is_alpha (c : char) : bool :=
  ((65 <=? c) && (c <=? 90) || (97 <=? c) && (c <=? 122))%N.                (* 'A'..='Z' | 'a'..='z' *)
Definition not_digit (c : char) : bool := negb (is_digit c).

(* ------------------------------------------------------------------ generic: padded
   lexicographic comparison.  [lexfrom n a b] compares positions 0..n-1, reading [d] past the
   end of a list; [lexpad] runs it over the longer of the two lists. *)
Section Lex.
  Context {A : Type}.
  Variable c : A -> A -> comparison.
  Variable d : A.
  Fixpoint lexfrom (n : nat) (a b : list A) : comparison :=
    match n with
    | O => Eq
    | S n' => match c (hd d a) (hd d b) with
              | Eq => lexfrom n' (tl a) (tl b)
              | r => r
              end
    end.
  Definition lexpad (a b : list A) : comparison := lexfrom (Nat.max (length a) (length b)) a b.
End Lex.

(* ------------------------------------------------------------------ (1) reference *)

(* dpkg lib/dpkg/version.c order(): *)
Definition order (c : char) : Z :=
  if (c =? 126)%N then (-1)%Z
  else if is_digit c then 0%Z
  else if is_alpha c then Z.of_N c
  else (Z.of_N c + 256)%Z.

Fixpoint num_of_digits (acc : N) (ds : str) : N :=
  match ds with
  | [] => acc
  | x :: r => num_of_digits (acc * 10 + (x - 48))%N r
  end.

(* one run pair: the weights of a non-digit run, and the value of the digit run after it *)
Notation chunk := (list Z * N)%type.

Fixpoint chunks (fuel : nat) (s : str) : list chunk :=
  match s with
  | [] => []
  | _ :: _ =>
    match fuel with
    | O => []                                  (* never reached with fuel >= length s: DebVersionP.chunks_fuel *)
    | S f =>
      let '(nd, s1) := span not_digit s in
      let '(ds, s2) := span is_digit s1 in
      (map order nd, num_of_digits 0 ds) :: chunks f s2
    end
  end.

Definition nd_cmp (a b : list Z) : comparison := lexpad Z.compare 0%Z a b.
Definition chunk_cmp (x y : chunk) : comparison :=
  match nd_cmp (fst x) (fst y) with
  | Eq => N.compare (snd x) (snd y)
  | r => r
  end.
Definition chunk0 : chunk := ([], 0%N).

(* compare one component (upstream or revision) *)
Definition part_cmp (a b : str) : comparison :=
  lexpad chunk_cmp chunk0 (chunks (length a) a) (chunks (length b) b).

Definition zero_str : str := [48%N].           (* "0" *)
Definition epoch_of (v : version) : N := match epoch v with Some e => e | None => 0%N end.
Definition revision_of (v : version) : str := match revision v with Some r => r | None => zero_str end.

Definition vcmp (x y : version) : comparison :=
  match N.compare (epoch_of x) (epoch_of y) with
  | Eq => match part_cmp (upstream x) (upstream y) with
          | Eq => part_cmp (revision_of x) (revision_of y)
          | r => r
          end
  | r => r
  end.

Definition vle (x y : version) : bool := match vcmp x y with Gt => false | _ => true end.
Definition veq (x y : version) : bool := match vcmp x y with Eq => true | _ => false end.

(* ------------------------------------------------------------------ (2) debversion 0.4.4 *)

(* fn order inside non_digit_cmp; the digit arm is `unreachable!()` *)
Definition order_r (x : char) : res Z :=
  if (x =? 126)%N then Ok (-1)%Z
  else if is_digit x then Panic 1%N
  else if is_alpha x then Ok (Z.of_N x)
  else Ok (Z.of_N x + 256)%Z.

Fixpoint mapM {A B} (f : A -> res B) (l : list A) : res (list B) :=
  match l with
  | [] => Ok []
  | x :: r => bind (f x) (fun y => bind (mapM f r) (fun ys => Ok (y :: ys)))
  end.

(* the while loop of non_digit_cmp over the two collected weight vectors *)
Fixpoint nd_loop (la lb : list Z) : comparison :=
  match la with
  | [] => (fix rest (lb : list Z) : comparison :=
             match lb with
             | [] => Eq
             | b :: lb' => match (0 ?= b)%Z with Eq => rest lb' | r => r end
             end) lb
  | a :: la' =>
    match lb with
    | [] => match (a ?= 0)%Z with Eq => nd_loop la' [] | r => r end
    | b :: lb' => match (a ?= b)%Z with Eq => nd_loop la' lb' | r => r end
    end
  end.

Definition non_digit_cmp (va vb : str) : res comparison :=
  bind (mapM order_r va) (fun la => bind (mapM order_r vb) (fun lb => Ok (nd_loop la lb))).

Definition i32_max : N := 2147483647%N.
(* `digits.parse::<i32>().unwrap()` on a non-empty run of ASCII digits: fails only by overflow *)
Definition parse_i32 (ds : str) : res N :=
  let n := num_of_digits 0 ds in if (n <=? i32_max)%N then Ok n else Panic 2%N.
Definition digit_run_value (ds : str) : res N :=
  match ds with [] => Ok 0%N | _ => parse_i32 ds end.

Fixpoint version_cmp_part (fuel : nat) (a b : str) : res comparison :=
  match a, b with
  | [], [] => Ok Eq
  | _, _ =>
    match fuel with
    | O => OutOfFuel
    | S f =>
      let '(a_nd, a1) := span not_digit a in
      let '(b_nd, b1) := span not_digit b in
      match non_digit_cmp a_nd b_nd with
      | Ok Eq =>
        let '(a_d, a2) := span is_digit a1 in
        let '(b_d, b2) := span is_digit b1 in
        bind (digit_run_value a_d) (fun a_num =>
        bind (digit_run_value b_d) (fun b_num =>
          match N.compare a_num b_num with
          | Eq => version_cmp_part f a2 b2
          | r => Ok r
          end))
      | r => r
      end
    end
  end.

Definition part_fuel (a b : str) : nat := S (length a + length b).

(* <Version as Ord>::cmp, over explicit() *)
Definition ver_cmp (x y : version) : res comparison :=
  if negb (epoch_of x =? epoch_of y)%N then Ok (N.compare (epoch_of x) (epoch_of y))
  else
    match version_cmp_part (part_fuel (upstream x) (upstream y)) (upstream x) (upstream y) with
    | Ok Eq => version_cmp_part (part_fuel (revision_of x) (revision_of y)) (revision_of x) (revision_of y)
    | r => r
    end.

(* <Version as PartialEq>::eq : partial_cmp == Some(Equal) *)
Definition ver_eq (x y : version) : res bool :=
  rmap (fun c => match c with Eq => true | _ => false end) (ver_cmp x y).

(* ---- FromStr: the regex  ^(?:(\d+):)?([A-Za-z0-9.+:~-]+?)(?:-([A-Za-z0-9+.~]+))?$  ---- *)
Definition is_alnum (c : char) : bool := is_digit c || is_alpha c.
Definition is_upstream_char (c : char) : bool :=
  is_alnum c || (c =? 46)%N || (c =? 43)%N || (c =? 58)%N || (c =? 126)%N || (c =? 45)%N.
Definition is_revision_char (c : char) : bool :=
  is_alnum c || (c =? 43)%N || (c =? 46)%N || (c =? 126)%N.

(* The lazy upstream group stops at the first '-' after which only revision characters follow
   to the end: that can only be the last '-', it must not be the first character, and the
   tail must be non-empty. *)
Definition split_revision (rest : str) : str * option str :=
  let '(tail_rev, before_rev) := span (fun c => negb (c =? 45)%N) (rev rest) in
  match before_rev with
  | [] => (rest, None)
  | _ :: up_rev =>
    let tail := rev tail_rev in
    match up_rev, tail with
    | _ :: _, _ :: _ => if forallb is_revision_char tail then (rev up_rev, Some tail) else (rest, None)
    | _, _ => (rest, None)
    end
  end.

Definition u32_max : N := 4294967295%N.

Definition body_ok (s : str) : bool :=
  match s with [] => false | _ => forallb is_upstream_char s end.

Definition parse_version (text : str) : option version :=
  let '(ds, after) := span is_digit text in
  let with_epoch :=
    match ds, after with
    | _ :: _, colon :: rest => if (colon =? 58)%N && body_ok rest then Some rest else None
    | _, _ => None
    end in
  match with_epoch with
  | Some rest =>
      let e := num_of_digits 0 ds in
      if (e <=? u32_max)%N then
        let '(u, r) := split_revision rest in Some (mk_version (Some e) u r)
      else None                                   (* "Error parsing epoch" *)
  | None =>
      if body_ok text then
        let '(u, r) := split_revision text in Some (mk_version None u r)
      else None
  end.

(* i32-safe: no digit run in the string exceeds i32::MAX — the domain on which debversion's
   comparison agrees with the reference *)
Fixpoint runs_safe (fuel : nat) (s : str) : bool :=
  match s with
  | [] => true
  | _ :: _ =>
    match fuel with
    | O => false
    | S f =>
      let '(_, s1) := span not_digit s in
      let '(ds, s2) := span is_digit s1 in
      (num_of_digits 0 ds <=? i32_max)%N && runs_safe f s2
    end
  end.
Definition str_safe (s : str) : bool := runs_safe (length s) s.
Definition ver_safe (v : version) : bool := str_safe (upstream v) && str_safe (revision_of v).
