(* Statement vocabulary of C07 on Grammar.v's documents that is not in WrapSpec.v: the comparators on
   (name, value) lists the caller's closures agree with, what "shaped", "stable", "absorbing" mean
   for a formatter, the variants of the code lacking one repair, and the concrete documents of the
   refutations (modules W, WC).  Definitions only (moved here from the proof files: audit of
   cone-c07c). *)
From V.model Require Import Base Deb822Lex Deb822Parse Grammar Lossy LossySpec Deb822Edit LiveDoc Deb822Wrap WrapSpec.

(* ---------------------------------------------------------------- tokens and lines of a value *)
(* ---------------------------------------------------------------- Entry::wrap_and_sort on a field *)
(* the value tokens of (whitespace, first line, continuation lines) *)
Definition triple_toks (w first : str) (conts : list str) : list token :=
  opt_tok WHITESPACE w ++ opt_tok VALUE first ++ flat_map (fun t => [(NEWLINE, [LF]); (VALUE, t)]) conts.
Definition nonempty_line (t : str) : bool := negb (is_nil t).
(* the formatter's output lexes to the tokens of the value it is read as *)
Definition fmt_lexes (fmt : option (str -> str -> str)) (f : field) : Prop :=
  match fmt with
  | None => True
  | Some g =>
    let o := g (f_name f) (value_text (field_ws0 f) (f_first f) (map snd (f_cont f))) in
    let '(w, first, conts) := parse_value o in
    fmt_tokens fixed o = Ok (triple_toks w first conts) /\ forallb nonempty_line conts = true
  end.
Definition paras_of (l : ldocl) : list (list item) :=
  flat_map (fun b => match b with LPara its => [its] | _ => [] end) l.
Definition on_items (cmp : para_cmp) (a b : list item) : comparison :=
  cmp (flat_map item_pairs a) (flat_map item_pairs b).
Definition items_shaped (fmt : option (str -> str -> str)) (its : list item) : Prop :=
  forall f, In (IField f) its -> fmt_shaped_on fmt f = true.
(* what makes a second application of the field step a no-op, and the comparator see the same thing *)
Definition field_stable (c : wcfg) (fmt : option (str -> str -> str)) (f : field) : Prop :=
  a_ws_field c fmt (a_ws_field c fmt f) = a_ws_field c fmt f /\
  field_pair (a_ws_field c fmt f) = a_pair fmt f.
Definition doc_shaped (fmt : option (str -> str -> str)) (l : ldocl) : Prop :=
  forall its f, In (LPara its) l -> In (IField f) its -> fmt_shaped_on fmt f = true.

(* the premises of idempotence with a formatter: a second field step changes nothing; the
   comparators do not see what is being rewritten *)
Definition stable_on (c : wcfg) (fmt : option (str -> str -> str)) (l : ldocl) : Prop :=
  forall its f, In (LPara its) l -> In (IField f) its ->
    field_stable c fmt f /\ fmt_lexes fmt (a_ws_field c fmt f).
Definition ecmp_invariant_on (ecmp : option pair_cmp) (fmt : option (str -> str -> str)) (l : ldocl) : Prop :=
  forall its f g, In (LPara its) l -> In (IField f) its -> In (IField g) its ->
    match ecmp with Some e => e (a_pair fmt f) (a_pair fmt g) = e (field_pair f) (field_pair g) | None => True end.
Definition pcmp_invariant_on (pcmp : option para_cmp) (ecmp : option pair_cmp) (fmt : option (str -> str -> str)) (l : ldocl) : Prop :=
  forall a b, In (LPara a) l -> In (LPara b) l ->
    match pcmp with
    | Some p => p (spec_para ecmp fmt a) (spec_para ecmp fmt b) = p (flat_map item_pairs a) (flat_map item_pairs b)
    | None => True
    end.

(* ---------------------------------------------------------------- comparators, variants, witnesses, formatters *)
(* |a, b| a.key().cmp(&b.key()) *)
Definition name_cmp : pair_cmp := fun a b => str_cmp (fst a) (fst b).
(* by the value of the first field *)
Definition first_value_of (p : list (str * str)) : option str := match p with (_, v) :: _ => Some v | [] => None end.
Definition first_value_cmp : para_cmp := fun a b => opt_cmp (first_value_of a) (first_value_of b).
(* the order of Control::wrap_and_sort *)
Definition control_cmp : para_cmp := fun a b =>
  let a_is_source := is_some (spec_get a Lit.k_Source) in
  let b_is_source := is_some (spec_get b Lit.k_Source) in
  if a_is_source && negb b_is_source then Lt
  else if negb a_is_source && b_is_source then Gt
  else if a_is_source && b_is_source then opt_cmp (spec_get a Lit.k_Source) (spec_get b Lit.k_Source)
  else opt_cmp (spec_get a Lit.k_Package) (spec_get b Lit.k_Package).
(* ---------------------------------------------------------------- witnesses: the code before the repairs *)
Module W.
  Import Coq.Strings.String.
  Local Open Scope string_scope.
  Definition s := Lit.s2l.
  Definition c1 : wcfg := mk_wcfg (Spaces 1) false None.
  Definition c1e : wcfg := mk_wcfg (Spaces 1) true None.
  Definition fA := mk_field (s "A") (s " ") (s "b") [] true.
  Definition fB := mk_field (s "B") (s " ") (s "c") [] true.
  (* "A: b\n# c\nB: c\n" *)
  Definition d_comment : doc := [BPara fA [IComment (s " c") true; IField fB]].
  (* "# c\nA: b\n" *)
  Definition d_top_comment : doc := [BComment (s " c") true; BPara fA []].
  (* "A: #x\n b\n" *)
  Definition d_hash : doc := [BPara (mk_field (s "A") (s " ") (s "#x") [(s " ", s "b")] true) []].
  (* "B: z\n\nA: d"  (no final newline) *)
  Definition d_unterminated : doc :=
    [BPara (mk_field (s "B") (s " ") (s "z") [] true) []; BBlank; BPara (mk_field (s "A") (s " ") (s "d") [] false) []].
  (* "A: b;B: c\n" *)
  Definition d_semi : doc := [BPara (mk_field (s "A") (s " ") (s "b;B: c") [] true) []].
  Definition semi_lexed : list (list (str * str)) := [[(s "A", (s "b" ++ [10%N] ++ s "c")%list)]].
  Definition semi_lines : list (list (str * str)) := [[(s "A", (s "b" ++ [10%N] ++ s "B: c")%list)]].
  Definition bca : str := Eval compute in s "Build-Conflicts-Arch".
End W.
Definition no_para_nl : variant := mk_variant false true true true true true true true.
Definition no_doc_lines : variant := mk_variant true false true true true true true true.
Definition no_fmt_lines : variant := mk_variant true true false true true true true true.
Definition no_hash : variant := mk_variant true true true false true true true true.
Definition no_terminate : variant := mk_variant true true true true false true true true.
Definition no_typo : variant := mk_variant true true true true true false true true.
Definition no_upl_hash : variant := mk_variant true true true true true true false true.
Definition no_rel_keep : variant := mk_variant true true true true true true true false.
(* the printed result does not re-read to what the returned object reports *)
Definition reread_differs (V : variant) (c : wcfg) psort (d : doc) : Prop :=
  exists t1 t', std_ws V c psort None None (tree_of d) = Ok t1 /\ from_str (text t1) = Ok t' /\ doc_items t' <> doc_items t1.
(* a second application changes the result *)
Definition second_differs (V : variant) (c : wcfg) psort (d : doc) : Prop :=
  exists t1 t2, std_ws V c psort None None (tree_of d) = Ok t1 /\ std_ws V c psort None None t1 = Ok t2 /\ text t2 <> text t1.
(* new: a paragraph whose last line is unterminated is fused with the one it is moved in front of
   (here the paragraph function leaves the paragraphs as they are) *)
Definition sort_only (V : variant) (psort : option (tree -> tree -> comparison)) (t : tree) : res tree := doc_ws V psort None t.
(* row 28: the continuation lines of a formatter's output are lexed as field names: the returned
   object reports "b\nc" where the formatter returned "b\nB: c" (and the text re-reads as that) *)
Definition semi (k v : str) : str := map (fun ch => if (ch =? 59)%N then 10%N else ch) v.
Definition fmt_reports (V : variant) : res (list (list (str * str))) :=
  rmap doc_items (std_ws V W.c1 None None (Some (pure_fmt semi)) (tree_of W.d_semi)).
(* ---------------------------------------------------------------- the identity formatter *)
Definition fmt_id (k v : str) : str := v.
(* the control formatter, for a relations formatter that returns *)
Definition ctl_fmt (r : str -> str) (name value : str) : str :=
  if str_eqb name Lit.k_Uploaders then fmt_uploaders_h value
  else if existsb (str_eqb name) (Lit.relation_fields true) then r value
  else value.
(* a relationship field that the relations reader rejects makes it panic (format_field unwraps) *)
Module WC.
  Import Coq.Strings.String.
  Local Open Scope string_scope.
  Definition d_bad_relation : doc := [BPara (mk_field (Lit.s2l "Depends") (Lit.s2l " ") (Lit.s2l "a (= 1") [] true) []].
  (* "Uploaders: A <a@x>, #B <b@x>\n" *)
  Definition d_upl_hash : doc := [BPara (mk_field (Lit.s2l "Uploaders") (Lit.s2l " ") (Lit.s2l "A <a@x>, #B <b@x>") [] true) []].
  Definition upl_hash_reported : list (list (str * str)) := [[(Lit.s2l "Uploaders", (Lit.s2l "A <a@x>," ++ [10%N] ++ Lit.s2l "#B <b@x>")%list)]].
  Definition upl_hash_reread : list (list (str * str)) := [[(Lit.s2l "Uploaders", Lit.s2l "A <a@x>,")]].
  Definition upl_hash_kept : list (list (str * str)) := [[(Lit.s2l "Uploaders", Lit.s2l "A <a@x>, #B <b@x>")]].
End WC.
(* C07-21: without it the '#' piece becomes a comment line: the returned object reports two lines,
   the printed text re-reads to one; with it the piece stays on the line before it *)
Definition ctl_reports (V : variant) (d : doc) : res (list (list (str * str)) * res (list (list (str * str)))) :=
  match control_ws V (fun v => Ok v) (Spaces 2) false None (tree_of d) with
  | Ok t1 => Ok (doc_items t1, rmap doc_items (from_str (text t1)))
  | Err x => Err x | Panic x => Panic x | OutOfFuel => OutOfFuel
  end.
(* ---------------------------------------------------------------- formatters that absorb the re-layout *)
(* the formatter gives the same output when its own output comes back with a blank or a line break
   in front (which is all the re-layout of a value adds), and never starts its output with one *)
Definition lead_char (ch : N) : bool := is_indent ch || (ch =? 10)%N.
Definition absorbing (g : str -> str -> str) : Prop :=
  forall name v lead, forallb lead_char lead = true -> g name (lead ++ g name v) = g name v.
Definition no_lead (g : str -> str -> str) : Prop :=
  forall name v, match g name v with [] => True | ch :: _ => lead_char ch = false end.
