(* Specification side of C08: which lossy values are "canonical", and the layout their
   printed form has (as an abstract Grammar.doc). *)
From V.model Require Import Base Deb822Lex Deb822Parse Grammar Lossy.

(* a continuation line of a canonical value: non-empty, no LF/CR, no leading space/tab, and
   not starting with '#' (an indented '#' line is a comment to both readers) *)
Definition canon_cont (l : str) : bool :=
  no_eol l && match l with c :: _ => negb (is_indent c) && negb (c =? 35)%N | [] => false end.
(* the first line may be empty *)
Definition canon_first (l : str) : bool :=
  no_eol l && match l with c :: _ => negb (is_indent c) | [] => true end.
Definition canon_value (v : str) : bool :=
  match split_lf v with
  | [] => false
  | l1 :: rest => canon_first l1 && forallb canon_cont rest
  end.
Definition canon_field (f : str * str) : bool := valid_name (fst f) && canon_value (snd f).
Definition canon_para (p : list (str * str)) : bool :=
  match p with [] => false | _ => forallb canon_field p end.
Definition canon_doc (d : list (list (str * str))) : bool := forallb canon_para d.

(* the layout Display gives a canonical value *)
Definition layout_field (f : str * str) : field :=
  match split_lf (snd f) with
  | [] => mk_field (fst f) [32%N] [] [] true
  | l1 :: rest => mk_field (fst f) [32%N] l1 (map (fun l => ([32%N], l)) rest) true
  end.
Definition layout_para (p : list (str * str)) : list block :=
  match p with
  | [] => []
  | f :: r => [BPara (layout_field f) (map (fun g => IField (layout_field g)) r)]
  end.
Fixpoint layout_doc (d : list (list (str * str))) : doc :=
  match d with
  | [] => []
  | [p] => layout_para p
  | p :: r => layout_para p ++ BBlank :: layout_doc r
  end.
