(* Specification vocabulary of C11: the list-of-lists model of a relationship field, its
   operations, the canonical trees the constructors build, how an abstract operation is issued
   to the register machine of RelEdit.v, and the statement of the whole property.
   Definitions only. *)
From V.model Require Import Base RelLex RelParse RelEdit.
From V.model Require RelAcc.

(* ------------------------------------------------------------------ the list model *)
(* a field = entries of alternatives; an alternative is a [relrec] (RelEdit.v) *)
Notation lfield := (list (list relrec)).

Definition l_insert {A} (i : nat) (x : A) (l : list A) : list A := firstn i l ++ x :: skipn i l.
Definition l_replace {A} (i : nat) (x : A) (l : list A) : list A := firstn i l ++ x :: skipn (S i) l.
Definition l_remove {A} (i : nat) (l : list A) : list A := firstn i l ++ skipn (S i) l.
(* removing the only alternative of an entry removes the entry *)
Definition l_remove_relation {A} (i j : nat) (f : list (list A)) : list (list A) :=
  match nth_error f i with
  | Some e => match l_remove j e with
              | [] => l_remove i f
              | e' => l_replace i e' f
              end
  | None => f
  end.
Definition l_on_relation {A} (i j : nat) (g : A -> A) (f : list (list A)) : list (list A) :=
  upd_nth i (upd_nth j g) f.

Definition rr_set_version (v : verspec) (r : relrec) : relrec :=
  mk_relrec (rr_name r) (rr_qual r) v (rr_archs r) (rr_profs r).
Definition rr_set_qual (q : str) (r : relrec) : relrec :=
  mk_relrec (rr_name r) (Some q) (rr_ver r) (rr_archs r) (rr_profs r).
Definition rr_set_archs (a : list str) (r : relrec) : relrec :=
  mk_relrec (rr_name r) (rr_qual r) (rr_ver r) (Some a) (rr_profs r).
Definition rr_add_profile (g : list profile) (r : relrec) : relrec :=
  mk_relrec (rr_name r) (rr_qual r) (rr_ver r) (rr_archs r) (rr_profs r ++ [g]).

(* the editing operations, addressed by position *)
Inductive aop : Type :=
| APush (e : list relrec) | AInsert (i : nat) (e : list relrec) | AReplace (i : nat) (e : list relrec)
| ARemoveEntry (i : nat)
| AEPush (i : nat) (r : relrec) | AEReplace (i j : nat) (r : relrec) | ARemoveRelation (i j : nat)
| ASetVersion (i j : nat) (v : verspec) | ADropConstraint (i j : nat) | ASetArchqual (i j : nat) (q : str)
| ASetArchs (i j : nat) (a : list str) | AAddProfile (i j : nat) (g : list profile).

Definition astep (f : lfield) (o : aop) : lfield :=
  match o with
  | APush e => f ++ [e]
  | AInsert i e => l_insert i e f
  | AReplace i e => l_replace i e f
  | ARemoveEntry i => l_remove i f
  | AEPush i r => upd_nth i (fun e => e ++ [r]) f
  | AEReplace i j r => upd_nth i (l_replace j r) f
  | ARemoveRelation i j => l_remove_relation i j f
  | ASetVersion i j v => l_on_relation i j (rr_set_version v) f
  | ADropConstraint i j => l_on_relation i j (rr_set_version None) f
  | ASetArchqual i j q => l_on_relation i j (rr_set_qual q) f
  | ASetArchs i j a => l_on_relation i j (rr_set_archs a) f
  | AAddProfile i j g => l_on_relation i j (rr_add_profile g) f
  end.

(* what the accessors return for a field whose version texts are as written in [f]: every version
   goes through debversion (RelEdit.structure_d = field_display of RelEdit.structure, proofs/RelEditVersionP.v) *)
Definition rr_display (r : relrec) : res relrec :=
  match rr_ver r with
  | Some (vc, v) =>
      match RelAcc.debversion_roundtrip v with
      | Ok v' => Ok (mk_relrec (rr_name r) (rr_qual r) (Some (vc, v')) (rr_archs r) (rr_profs r))
      | _ => Panic 12
      end
  | None => Ok r
  end.
Definition field_display (f : lfield) : res lfield := mapM (mapM rr_display) f.

(* the positions an operation names exist (insert beyond the end appends) *)
Definition rel_in_range (f : lfield) (i j : nat) : bool :=
  match nth_error f i with Some e => j <? length e | None => false end.
Definition aop_in_range (f : lfield) (o : aop) : bool :=
  match o with
  | APush _ | AInsert _ _ => true
  | AReplace i _ | ARemoveEntry i | AEPush i _ => i <? length f
  | AEReplace i j _ | ARemoveRelation i j | ASetVersion i j _ | ADropConstraint i j
  | ASetArchqual i j _ | ASetArchs i j _ | AAddProfile i j _ => rel_in_range f i j
  end.
Fixpoint hist_in_range (f : lfield) (ops : list aop) : bool :=
  match ops with
  | [] => true
  | o :: r => aop_in_range f o && hist_in_range (astep f o) r
  end.

(* ------------------------------------------------------------------ canonical trees *)
(* what Relation::new builds, followed by set_archqual: name[:qual][ (op ver)] *)
(* (a version is never the empty text: debversion does not parse "") *)
Definition ver_ok (v : verspec) : bool := match v with Some (_, []) => false | _ => true end.
Definition plain (r : relrec) : bool :=
  match rr_archs r, rr_profs r with None, [] => ver_ok (rr_ver r) | _, _ => false end.
Definition crel_tree (r : relrec) : rtree :=
  Node RELATION (Tok IDENT (rr_name r) ::
     (match rr_qual r with Some q => [archqual_node q] | None => [] end) ++
     (match rr_ver r with Some (vc, ver) => [t_space; version_node vc ver] | None => [] end)).
(* Entry::from(vec![...]) *)
Definition centry_tree (e : list relrec) : rtree := entry_from_relations fixed (map crel_tree e).
(* Relations::from(vec![...]) *)
Definition cfield_tree (f : lfield) : rtree := relations_from_entries (map centry_tree f).

(* what RelationBuilder::build builds (Relation::new, then set_archqual, set_architectures,
   add_profile per group): name[:qual][ (op ver)][ [archs]]( <profile group>)* *)
Definition brel_tree (r : relrec) : rtree :=
  Node RELATION (Tok IDENT (rr_name r) ::
     (match rr_qual r with Some q => [archqual_node q] | None => [] end) ++
     (match rr_ver r with Some (vc, ver) => [t_space; version_node vc ver] | None => [] end) ++
     (match rr_archs r with Some a => [t_space; architectures_node a] | None => [] end) ++
     flat_map (fun g => [t_space; profiles_node g]) (rr_profs r)).
Definition bentry_tree (e : list relrec) : rtree := entry_from_relations fixed (map brel_tree e).

Definition plain_entry (e : list relrec) : bool := forallb plain e.
Definition plain_field (f : lfield) : bool := forallb plain_entry f.

(* ------------------------------------------------------------------ issuing operations *)
(* operands are built with the constructors; every edit below the root goes through handles
   obtained from the current root right before it (entry register 0, relation register 0) *)
Definition rel_spec (r : relrec) : relspec :=
  match rr_qual r, rr_archs r, rr_profs r with
  | None, None, [] => RSNew (rr_name r) (rr_ver r)
  | _, _, _ => RSBuild (rr_name r) (rr_ver r) (rr_qual r) (rr_archs r) (rr_profs r)
  end.
Definition entry_spec (e : list relrec) : entryspec := ESFromVec (map rel_spec e).
Definition compile (o : aop) : list op :=
  match o with
  | APush e => [ONewEntry 1 (entry_spec e); OPush 1]
  | AInsert i e => [ONewEntry 1 (entry_spec e); OInsert i 1]
  | AReplace i e => [ONewEntry 1 (entry_spec e); OReplace i 1]
  | ARemoveEntry i => [ORemoveEntry i]
  | AEPush i r => [ONewRel 1 (rel_spec r); OGetEntry 0 i; OEPush 0 1]
  | AEReplace i j r => [ONewRel 1 (rel_spec r); OGetEntry 0 i; OEReplace 0 j 1]
  | ARemoveRelation i j => [OGetEntry 0 i; OERemoveRel 0 j]
  | ASetVersion i j v => [OGetEntry 0 i; OGetRel 0 0 j; OSetVersion 0 v]
  | ADropConstraint i j => [OGetEntry 0 i; OGetRel 0 0 j; ODropConstraint 0]
  | ASetArchqual i j q => [OGetEntry 0 i; OGetRel 0 0 j; OSetArchqual 0 q]
  | ASetArchs i j a => [OGetEntry 0 i; OGetRel 0 0 j; OSetArchs 0 a]
  | AAddProfile i j g => [OGetEntry 0 i; OGetRel 0 0 j; OAddProfile 0 g]
  end.
Definition compile_all (ops : list aop) : list op := flat_map compile ops.

(* what Relation::new builds: no qualifier, no architecture list, no profiles *)
Definition new_only (r : relrec) : bool :=
  plain r && match rr_qual r with None => true | Some _ => false end.
(* the operations the constructor-level theorems cover: operands are Entry::from(vec![Relation::new(..), ..])
   and Relation::new(..) *)
Definition aop_plain (o : aop) : bool :=
  match o with
  | APush e | AInsert _ e | AReplace _ e => forallb new_only e
  | AEPush _ r | AEReplace _ _ r => new_only r
  | ASetVersion _ _ v => ver_ok v
  | ARemoveEntry _ | ARemoveRelation _ _ | ADropConstraint _ _ | ASetArchqual _ _ _ => true
  | _ => false
  end.

(* the text of a constructor-built field: "name[:qual][ (op ver)]" joined by " | " and ", " *)
Definition vc_text (v : vcn) : str :=
  match v with VGe => [62; 61] | VLe => [60; 61] | VEq => [61] | VGt => [62; 62] | VLt => [60; 60] end%N.
Definition render_rel (r : relrec) : str :=
  rr_name r ++
  (match rr_qual r with Some q => 58%N :: q | None => [] end) ++
  (match rr_ver r with Some (vc, ver) => [32; 40]%N ++ vc_text vc ++ [32%N] ++ ver ++ [41%N] | None => [] end).
Fixpoint join_with (sep : str) (l : list str) : str :=
  match l with
  | [] => []
  | [x] => x
  | x :: r => x ++ sep ++ join_with sep r
  end.
Definition render_entry (e : list relrec) : str := join_with [32; 124; 32]%N (map render_rel e).
Definition render_field (f : lfield) : str := join_with [44; 32]%N (map render_entry f).

(* a machine state whose root register holds the (mutable) root of tree T, with the five
   registers the compiled programs use *)
Definition state_with_root (st : state) (T : rtree) : Prop :=
  exists tid ri a b c d,
    regs st = [Some (mk_hnd tid []); a; b; c; d] /\
    nth_error (trees st) tid = Some (mk_slot true ri T).
Definition start_state (T : rtree) : state :=
  mk_state [mk_slot true 0 T] [Some (mk_hnd 0 []); None; None; None; None].

(* a whole run, observed at the root: Relations::to_string() after the last operation *)
Definition run_text (v : variant) (init : initspec) (ops : list op) : res str :=
  match init_state v init with
  | Ok st => match run_ops v ops st with
             | Ok st' => root_text st'
             | Err e => Err e | Panic n => Panic n | OutOfFuel => OutOfFuel
             end
  | Err e => Err e | Panic n => Panic n | OutOfFuel => OutOfFuel
  end.
(* does a text read back (strictly, substitution variables allowed) without error? *)
Definition reads_clean (s : str) : bool :=
  match parse_relaxed s true with Ok (_, O) => true | _ => false end.

(* ------------------------------------------------------------------ the whole property *)
(* Domain of BUILT operands (Relation::new, RelationBuilder, set_version, set_archqual,
   set_architectures, add_profile): the texts an operand is made of are non-empty runs of
   identifier characters [A-Za-z0-9.+~-] — package names, qualifiers, profile names, and also
   VERSIONS and ARCHITECTURE names.  So a version with an epoch ("1:2.0") and a negated
   architecture ("!armel") are OUTSIDE the theorems about built operands: the code writes such a
   text as ONE IDENT token ("1:2.0", "!armel"), which is not a token the lexer produces (it gives
   IDENT COLON IDENT, NOT IDENT), so the tree is not a live layout (RelLiveAll.lwf asks every
   part's tokens to be lexer tokens; the text and what the accessors read are nevertheless right:
   proofs/RelEditRefuteP.v built_epoch_version, built_negated_architecture, by evaluation; the
   rel-edit stream covers them).  Operands obtained by PARSING have no such restriction
   (model/RelLiveAllParsed.v).  An identifier text is a debversion::Version that prints as it is
   written (proofs/RelEditVersionP.ident_version_operand). *)
Definition ident_text (s : str) : bool :=
  match s with [] => false | _ => forallb is_ident_char s end.
Definition wf_profile (p : profile) : bool :=
  match p with PEnabled n | PDisabled n => ident_text n end.
Definition wf_relrec (r : relrec) : bool :=
  ident_text (rr_name r) &&
  match rr_qual r with Some q => ident_text q | None => true end &&
  match rr_ver r with Some (_, v) => ident_text v | None => true end &&
  match rr_archs r with Some a => negb (match a with [] => true | _ => false end) && forallb ident_text a | None => true end &&
  forallb (fun g => negb (match g with [] => true | _ => false end) && forallb wf_profile g) (rr_profs r).
Definition wf_operands (o : aop) : bool :=
  match o with
  | APush e | AInsert _ e | AReplace _ e => negb (match e with [] => true | _ => false end) && forallb wf_relrec e
  | AEPush _ r | AEReplace _ _ r => wf_relrec r
  | ASetVersion _ _ (Some (_, v)) => ident_text v
  | ASetArchqual _ _ q => ident_text q
  | ASetArchs _ _ a => negb (match a with [] => true | _ => false end) && forallb ident_text a
  | AAddProfile _ _ g => negb (match g with [] => true | _ => false end) && forallb wf_profile g
  | _ => true
  end.

(* the domain of the constructor-level theorems: an alternative is name[:qual][ (op version)]
   with identifier texts, an entry has at least one alternative *)
Definition has_more {A} (l : list A) : bool := match l with [] => false | _ => true end.
Definition relrec_ok (r : relrec) : bool :=
  plain r && ident_text (rr_name r)
  && match rr_qual r with Some q => ident_text q | None => true end
  && match rr_ver r with Some (_, v) => ident_text v | None => true end.
Definition entry_ok (e : list relrec) : bool := has_more e && forallb relrec_ok e.
Definition lfield_ok (f : lfield) : bool := forallb entry_ok f.
(* the ten operations, with operands Entry::from(vec![Relation::new(name, version), ..]) / Relation::new *)
Definition aop_ok (o : aop) : bool :=
  match o with
  | APush e | AInsert _ e | AReplace _ e => entry_ok e && forallb new_only e
  | AEPush _ r | AEReplace _ _ r => relrec_ok r && new_only r
  | ASetVersion _ _ (Some (_, v)) => ident_text v
  | ASetVersion _ _ None => true
  | ASetArchqual _ _ q => ident_text q
  | ARemoveEntry _ | ARemoveRelation _ _ | ADropConstraint _ _ => true
  | _ => false
  end.

(* the text between the entries' texts: what an edit may not touch except for separators *)
Definition substvar_texts (t : rtree) : list str := map text (filter (node_is SUBSTVAR) (children t)).

(* ------------------------------------------------------------------ separators *)
(* "separators are never duplicated, left dangling or fused with a name": the SLOTS of a field.  The
   commas among the root's children cut it into slots; a slot holds an entry, a substitution
   variable, or nothing (an empty slot: a leading, trailing or doubled separator).  [field_shape]:
   the root has only white space, commas, entries and substitution variables as children, and no
   slot holds two items (an item next to a separator-less neighbour).  What an operation does to
   the slots is part of the property ([sstep], [C11_full]): a new entry gets a slot of its own next
   to the entry it is inserted before; appended, it FILLS the last slot when that is empty ("a, "
   + z = "a, z") and gets a new one otherwise; a removed entry's slot goes, except that the last
   slot of a field with no item before it stays, empty; nothing else changes — so no empty slot
   is ever created by an insertion, and the count the oracle uses (commas beyond the items - 1
   needed) never grows ([n_empty_slots], proofs/RelSepsP.sstep_never_more). *)
Inductive fslot : Type := SEmpty | SEntry | SSubst.
Inductive ckind : Type := KComma | KItem (k : fslot) | KOther.
Definition ck (c : rtree) : ckind :=
  if kind_is COMMA c then KComma
  else if is_entry c then KItem SEntry
  else if node_is SUBSTVAR c then KItem SSubst
  else KOther.
Fixpoint slots_from (cur : fslot) (cs : list rtree) : list fslot :=
  match cs with
  | [] => [cur]
  | c :: r => match ck c with
              | KComma => cur :: slots_from SEmpty r
              | KItem k => slots_from k r
              | KOther => slots_from cur r
              end
  end.
Definition tree_slots (t : rtree) : list fslot := slots_from SEmpty (children t).
Definition is_sempty (s : fslot) : bool := match s with SEmpty => true | _ => false end.
Definition is_sentry (s : fslot) : bool := match s with SEntry => true | _ => false end.
Fixpoint sep_from (cur : fslot) (cs : list rtree) : bool :=
  match cs with
  | [] => true
  | c :: r => match ck c with
              | KComma => sep_from SEmpty r
              | KItem k => is_sempty cur && sep_from k r
              | KOther => ws_elem c && sep_from cur r
              end
  end.
Definition field_shape (t : rtree) : bool := sep_from SEmpty (children t).

Definition s_push (s : list fslot) : list fslot :=
  match rev s with
  | SEmpty :: r => rev (SEntry :: r)
  | _ => s ++ [SEntry]
  end.
Definition s_insert (i : nat) (s : list fslot) : list fslot :=
  match nth_index is_sentry i s with
  | Some p => firstn p s ++ SEntry :: skipn p s
  | None => s_push s
  end.
Definition s_remove (i : nat) (s : list fslot) : list fslot :=
  match nth_index is_sentry i s with
  | Some p => if (S p =? length s) && forallb is_sempty (firstn p s)
              then firstn p s ++ [SEmpty]
              else firstn p s ++ skipn (S p) s
  | None => s
  end.
(* [f] = the field before the operation (removing an entry's only alternative removes the entry);
   only the number of alternatives of its entries matters *)
Definition sstep {A : Type} (f : list (list A)) (s : list fslot) (o : aop) : list fslot :=
  match o with
  | APush _ => s_push s
  | AInsert i _ => s_insert i s
  | ARemoveEntry i => s_remove i s
  | ARemoveRelation i _ =>
      match nth_error f i with
      | Some [_] => s_remove i s
      | _ => s
      end
  | _ => s
  end.
Definition fs_step (fs : lfield * list fslot) (o : aop) : lfield * list fslot :=
  (astep (fst fs) o, sstep (fst fs) (snd fs) o).
Definition slots_after (ops : list aop) (f : lfield) (s : list fslot) : list fslot :=
  snd (fold_left fs_step ops (f, s)).
(* the oracle's count (vlib/props/c11.py empty_slots): commas beyond the (items - 1) needed *)
Definition n_empty_slots (s : list fslot) : nat :=
  (length s - 1) - (count_if (fun x => negb (is_sempty x)) s - 1).

(* C11, in full: from the empty field or any field that parses without error (substitution
   variables allowed) and whose accessors do not panic, after every operation of every in-range
   history the machine has not panicked, the root holds exactly the list model's field, the
   slots of the field are the slot model's (separators), its text parses again without error to
   that same field, and the substitution variables kept their text.  The field is read by the
   accessors, version texts through debversion (RelEdit.structure_d): `structure_d t0 = Ok f0` is
   the domain (no accessor panics: every operator is one of the five, every version text is a
   debversion::Version).  [v] is the variant of the code the statement is about.  Proved for
   [fixed] (the code as it is in /repo): props/C11.v, C11_full_theorem; refuted for the code
   without the separator fixes C11-02 / C11-07: C11_full_needs_append_sep, _first_substvar. *)
Definition C11_full (v : variant) : Prop :=
  forall (s : str) (t0 : rtree) (f0 : lfield) (ops : list aop),
    parse_relaxed s true = Ok (t0, 0) -> structure_d t0 = Ok f0 ->
    hist_in_range f0 ops = true -> forallb wf_operands ops = true ->
    exists st', run_ops v (compile_all ops) (start_state t0) = Ok st' /\
    exists t', root_tree st' = Ok t' /\
      structure_d t' = Ok (fold_left astep ops f0) /\
      substvar_texts t' = substvar_texts t0 /\
      field_shape t' = true /\ tree_slots t' = slots_after ops f0 (tree_slots t0) /\
      exists t'', parse_relaxed (text t') true = Ok (t'', 0) /\
                  structure_d t'' = Ok (fold_left astep ops f0).
(* the same with the version texts as written (RelEdit.structure: no debversion) *)
Definition C11_full_raw (v : variant) : Prop :=
  forall (s : str) (t0 : rtree) (f0 : lfield) (ops : list aop),
    parse_relaxed s true = Ok (t0, 0) -> structure t0 = Ok f0 ->
    hist_in_range f0 ops = true -> forallb wf_operands ops = true ->
    exists st', run_ops v (compile_all ops) (start_state t0) = Ok st' /\
    exists t', root_tree st' = Ok t' /\
      structure t' = Ok (fold_left astep ops f0) /\
      substvar_texts t' = substvar_texts t0 /\
      field_shape t' = true /\ tree_slots t' = slots_after ops f0 (tree_slots t0) /\
      exists t'', parse_relaxed (text t') true = Ok (t'', 0) /\
                  structure t'' = Ok (fold_left astep ops f0).
