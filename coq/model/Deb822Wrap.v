(* Model of the wrap-and-sort reformatting of /repo/src/lossless.rs over the tree model of
   Base.v: Entry::wrap_and_sort, rebuild_value, Paragraph::wrap_and_sort, Deb822::wrap_and_sort
   (and lex_inline of src/lex.rs, which is Deb822Lex.lex_inline), and of the control-file
   wrappers of /repo/debian-control/src/lossless/control.rs: format_field,
   Control/Source/Binary::wrap_and_sort.

   The shipped code violates C07 in several places (see docs/cones/C07.md).  Each repair is a
   flag of [variant]; [fixed] has all of them (the first six are in /repo, C07-21 / C07-22 are
   proposed), [shipped] none.  The theorems are about [fixed],
   the _refuted lemmas about [shipped]; the runner evaluates [fixed] unless
   VERIF_C07_MODEL=shipped.

   Transcription conventions: a GreenNodeBuilder is the list of children emitted so far;
   `inject` copies a tree, so it is the identity here; every `unwrap`, `unreachable!` and
   `assert!` is a Panic site (numbered below); `Vec::sort_by` is a stable insertion sort (for a
   comparator that is a total preorder every stable sort gives the same result); closures
   passed in by the caller (comparators, formatter, paragraph function) are parameters.
   Not modelled: the `as u32` truncation of the field-name length (names shorter than 4 GiB).

   Panic sites: 1 KEY child that is not a token (text.unwrap()); 2 unreachable!() child kind in an
   entry; 3 assert!(indentation > 0); 4 self.key().unwrap() with a formatter and no KEY;
   5 into_token().unwrap() on a node inside an entry; 6 as_node().unwrap() on a token of kind
   ENTRY / PARAGRAPH / EMPTY_LINE; 7 as_token().unwrap() on a node kept in `current`
   (an ERROR node). *)
From V.model Require Import Base Deb822Lex Deb822Parse Deb822Edit.

Record variant := mk_variant {
  v_para_nl : bool;     (* Paragraph::wrap_and_sort keeps the NEWLINE that ends a comment line      (C07-paragraph-comment-newline) *)
  v_doc_lines : bool;   (* Deb822::wrap_and_sort keeps comment lines as EMPTY_LINE nodes             (C07-document-comment-lines) *)
  v_fmt_lines : bool;   (* the formatter's output is lexed line by line                              (C07-formatter-lines) *)
  v_hash : bool;        (* rebuild_value keeps a '#' first line / a comment on the line kind it had  (C07-hash-lines) *)
  v_terminate : bool;   (* Deb822::wrap_and_sort terminates the last line of every paragraph and of the result (C07-terminate-paragraphs) *)
  v_typo : bool;        (* format_field: Build-Conflicts-Arch                                        (C07-build-conflicts-arch) *)
  v_upl_hash : bool;    (* format_field: an Uploaders piece that starts with '#' stays on the line before it (C07-21-uploaders-hash-piece) *)
  v_rel_keep : bool     (* format_field: a relationship field the relations parser rejects is left as it is  (C07-22-unparsable-relation-kept) *)
}.
Definition fixed : variant := mk_variant true true true true true true true true.
Definition shipped : variant := mk_variant false false false false false false false false.

Inductive indentation := FieldNameLength | Spaces (n : N).

(* ---------------------------------------------------------------- Rust std, as used here *)
Fixpoint drop_while {A} (p : A -> bool) (l : list A) : list A :=
  match l with x :: r => if p x then drop_while p r else l | [] => [] end.
Fixpoint take_while {A} (p : A -> bool) (l : list A) : list A :=
  match l with x :: r => if p x then x :: take_while p r else [] | [] => [] end.
(* " ".repeat(n) *)
Definition spaces (n : N) : str := repeat 32%N (N.to_nat n).

(* str::split_inclusive(is_newline): every piece but the last ends with the newline character
   it was split at; there is no empty last piece ("" gives no piece at all) *)
Fixpoint split_incl_go (acc : str) (s : str) : list str :=
  match s with
  | [] => match acc with [] => [] | _ => [rev acc] end
  | c :: r => if is_newline c then rev (c :: acc) :: split_incl_go [] r else split_incl_go (c :: acc) r
  end.
Definition split_inclusive_nl (s : str) : list str := split_incl_go [] s.

(* Ord for str (bytewise on UTF-8 = by scalar value) and for Option<String> (None first) *)
Fixpoint str_cmp (a b : str) : comparison :=
  match a, b with
  | [], [] => Eq
  | [], _ :: _ => Lt
  | _ :: _, [] => Gt
  | x :: a', y :: b' => match N.compare x y with Eq => str_cmp a' b' | c => c end
  end.
Definition opt_cmp (a b : option str) : comparison :=
  match a, b with
  | None, None => Eq
  | None, Some _ => Lt
  | Some _, None => Gt
  | Some x, Some y => str_cmp x y
  end.

(* Vec::sort_by: stable; [cmp x y = Gt] is the only answer that moves x behind y *)
Section Sort.
  Context {A : Type} (cmp : A -> A -> comparison).
  Definition gtb (x y : A) : bool := match cmp x y with Gt => true | _ => false end.
  Fixpoint insert_sorted (x : A) (l : list A) : list A :=
    match l with
    | [] => [x]
    | y :: r => if gtb x y then y :: insert_sorted x r else x :: l
    end.
  Fixpoint sort_by (l : list A) : list A :=
    match l with [] => [] | x :: r => insert_sorted x (sort_by r) end.
End Sort.
Definition sort_opt {A} (cmp : option (A -> A -> comparison)) (l : list A) : list A :=
  match cmp with Some c => sort_by c l | None => l end.

Fixpoint res_map {A B} (f : A -> res B) (l : list A) : res (list B) :=
  match l with
  | [] => Ok []
  | x :: r => bind (f x) (fun y => bind (res_map f r) (fun ys => Ok (y :: ys)))
  end.

(* ---------------------------------------------------------------- rebuild_value *)
Definition tok_elem (t : token) : tree := Tok (fst t) (snd t).
Definition is_nl_tok (t : token) : bool := kind_eqb (fst t) NEWLINE.
Definition is_nl_or_ws_tok (t : token) : bool := kind_eqb (fst t) NEWLINE || kind_eqb (fst t) WHITESPACE.

Definition first_line_len (toks : list token) (key_len : N) : N :=
  (fold_right (fun t a => utf8_size (snd t) + a) 0 (take_while (fun t => negb (is_nl_tok t)) toks) + key_len + 2)%N.
Definition has_newline (toks : list token) : bool := existsb is_nl_tok toks.

(* the `for (k, t) in tokens` loop of the multi-line branch; returns last_was_newline too *)
Fixpoint emit_indented (n : N) (lwn : bool) (toks : list token) : list tree * bool :=
  match toks with
  | [] => ([], lwn)
  | t :: r =>
    let '(e, l) := emit_indented n (is_nl_tok t) r in
    ((if lwn then [Tok INDENT (spaces n)] else []) ++ tok_elem t :: e, l)
  end.

Definition starts_with_hash (s : str) : bool := match s with c :: _ => (c =? 35)%N | [] => false end.

(* ---------------------------------------------------------------- constants and std functions of the control wrappers *)
Module Lit.
  Import Coq.Strings.String Coq.Strings.Ascii.
  Fixpoint s2l (s : string) : str :=
    match s with EmptyString => [] | String a r => N_of_ascii a :: s2l r end.
  Definition k_Uploaders : str := Eval compute in s2l "Uploaders".
  Definition k_Source : str := Eval compute in s2l "Source".
  Definition k_Package : str := Eval compute in s2l "Package".
  Definition relation_fields (typo_fixed : bool) : list str := Eval compute in
    [s2l "Build-Depends"; s2l "Build-Depends-Indep"; s2l "Build-Depends-Arch"; s2l "Build-Conflicts";
     s2l "Build-Conflicts-Indep"; if typo_fixed then s2l "Build-Conflicts-Arch" else s2l "Build-Conflics-Arch";
     s2l "Depends"; s2l "Recommends"; s2l "Suggests"; s2l "Enhances"; s2l "Pre-Depends"; s2l "Breaks"].
End Lit.
Import Lit.

(* char::is_whitespace (White_Space), str::trim, str::split(','), join(",\n") *)
Definition is_whitespace (c : char) : bool :=
  ((9 <=? c) && (c <=? 13) || (c =? 32) || (c =? 133) || (c =? 160) || (c =? 5760) ||
   (8192 <=? c) && (c <=? 8202) || (c =? 8232) || (c =? 8233) || (c =? 8239) || (c =? 8287) ||
   (c =? 12288))%N.
Definition trim (s : str) : str := rev (drop_while is_whitespace (rev (drop_while is_whitespace s))).
Fixpoint split_on_go (d : char) (acc : str) (s : str) : list str :=
  match s with
  | [] => [rev acc]
  | c :: r => if (c =? d)%N then rev acc :: split_on_go d [] r else split_on_go d (c :: acc) r
  end.
Definition split_on (d : char) (s : str) : list str := split_on_go d [] s.

(* the "Uploaders" arm of format_field *)
Definition fmt_uploaders (v : str) : str := join [44%N; 10%N] (map trim (split_on 44%N v)).
(* ... with C07-21: a piece that starts with '#' is joined with ", " (an indented line that starts
   with '#' is a comment line) *)
Definition upl_sep (next : str) : str := if starts_with_hash next then [44%N; 32%N] else [44%N; 10%N].
Fixpoint join_upl (l : list str) : str :=
  match l with
  | [] => []
  | x :: r => match r with [] => x | y :: _ => x ++ upl_sep y ++ join_upl r end
  end.
Definition fmt_uploaders_h (v : str) : str := join_upl (map trim (split_on 44%N v)).

Section Variant.
Variable V : variant.

(* C07-hash-lines: a first line that starts with '#' is not moved below the field's line (after
   an indent it would be read as a comment), and a comment is not moved onto the field's line
   (where it would be read as part of the value) *)
Definition keep_first (toks : list token) : bool :=
  v_hash V && match toks with (VALUE, s) :: _ => starts_with_hash s | _ => false end.
Definition comment_first (toks : list token) : bool :=
  v_hash V && match toks with (COMMENT, _) :: _ => true | _ => false end.

Definition rebuild_value (toks : list token) (key_len n : N) (iel : bool) (mll : option N) : list tree :=
  let fll := first_line_len toks key_len in
  let hn := has_newline toks in
  let '(body, lwn) :=
    if (match mll with Some m => (fll <=? m)%N | None => false end) && negb hn then
      (map tok_elem toks, false)
    else
      let toks' := drop_while is_nl_or_ws_tok toks in
      let down := (iel && hn && negb (keep_first toks')) || comment_first toks' in
      let '(e, l) := emit_indented n down toks' in
      ((if down then [Tok NEWLINE [10%N]] else [Tok WHITESPACE [32%N]]) ++ e, l) in
  body ++ (if lwn then [] else [Tok NEWLINE [10%N]]).

(* ---------------------------------------------------------------- Entry::wrap_and_sort *)
(* the loop over children_with_tokens(): (indentation, tokens given to the builder, content) *)
Fixpoint ews_scan (cs : list tree) (ind : indentation) (built content : list tree)
  : res (indentation * list tree * list tree) :=
  match cs with
  | [] => Ok (ind, built, content)
  | c :: r =>
    match ekind c with
    | KEY =>
      match c with
      | Tok _ s => ews_scan r (match ind with FieldNameLength => Spaces (utf8_size s) | _ => ind end)
                            (built ++ [Tok KEY s]) content
      | Node _ _ => Panic 1
      end
    | COLON => ews_scan r ind (built ++ [Tok COLON [58%N]]) content
    | INDENT => ews_scan r ind built content
    | ERROR | COMMENT | VALUE | WHITESPACE | NEWLINE => ews_scan r ind built (content ++ [c])
    | EMPTY_LINE | ENTRY | ROOT | PARAGRAPH => Panic 2
    end
  end.

Definition is_nl_or_ws (c : tree) : bool := kind_eqb (ekind c) NEWLINE || kind_eqb (ekind c) WHITESPACE.
Definition strip_trailing (content : list tree) : list tree := rev (drop_while is_nl_or_ws (rev content)).
Definition is_err_or_comment (c : tree) : bool := kind_eqb (ekind c) ERROR || kind_eqb (ekind c) COMMENT.
Definition token_text (c : tree) : str := match c with Tok _ s => s | Node _ _ => [] end.
Definition into_token (c : tree) : res token := match c with Tok k s => Ok (k, s) | Node _ _ => Panic 5 end.

(* the tokens of the formatter's output: lex_inline of the whole text (shipped), or of every
   line of it (C07-formatter-lines) *)
Definition fmt_tokens (o : str) : res (list token) :=
  if v_fmt_lines V then
    bind (res_map lex_inline (split_inclusive_nl o)) (fun l => Ok (concat l))
  else lex_inline o.

Definition entry_tokens (fmt : option (str -> str -> res str)) (e : tree) (content : list tree) : res (list token) :=
  match fmt with
  | Some f =>
    if existsb is_err_or_comment content then res_map into_token content
    else
      match entry_key e with
      | None => Panic 4
      | Some k => bind (f k (flat_map token_text content)) fmt_tokens
      end
  | None => res_map into_token content
  end.

Definition entry_ws (ind : indentation) (iel : bool) (mll : option N)
                    (fmt : option (str -> str -> res str)) (e : tree) : res tree :=
  bind (ews_scan (children e) ind [] []) (fun '(ind', built, content) =>
  let n := match ind' with Spaces i => i | FieldNameLength => 1%N end in
  if (n =? 0)%N then Panic 3 else
  bind (entry_tokens fmt e (strip_trailing content)) (fun toks =>
  let key_len := match entry_key e with Some k => utf8_size k | None => 0%N end in
  Ok (Node ENTRY (built ++ rebuild_value toks key_len n iel mll)))).

(* ---------------------------------------------------------------- Paragraph::wrap_and_sort *)
(* the loop over children_with_tokens(): (entries with what precedes them, trailing `current`) *)
Fixpoint pws_scan (cs : list tree) (cur : list tree) (acc : list (list tree * tree))
  : res (list (list tree * tree) * list tree) :=
  match cs with
  | [] => Ok (acc, cur)
  | c :: r =>
    match ekind c with
    | ENTRY => if is_node c then pws_scan r [] (acc ++ [(cur, c)]) else Panic 6
    | ERROR | COMMENT => pws_scan r (cur ++ [c]) acc
    | NEWLINE => if v_para_nl V then pws_scan r (cur ++ [c]) acc else pws_scan r cur acc
    | _ => pws_scan r cur acc
    end
  end.

(* builder.token(c.kind(), c.as_token().unwrap().text()) *)
Definition emit_token (c : tree) : res tree := match c with Tok k s => Ok (Tok k s) | Node _ _ => Panic 7 end.

Definition on_snd {A B} (cmp : B -> B -> comparison) (a b : A * B) : comparison := cmp (snd a) (snd b).

Definition para_ws (ind : indentation) (iel : bool) (mll : option N)
                   (esort : option (tree -> tree -> comparison))
                   (fmt : option (str -> str -> res str)) (p : tree) : res tree :=
  bind (pws_scan (children p) [] []) (fun '(ents, trailing) =>
  let ents := sort_opt (option_map on_snd esort) ents in
  bind (res_map (fun pe : list tree * tree =>
                   bind (res_map emit_token (fst pe)) (fun pre =>
                   bind (entry_ws ind iel mll fmt (snd pe)) (fun e' => Ok (pre ++ [e'])))) ents) (fun groups =>
  bind (res_map emit_token trailing) (fun tr =>
  Ok (Node PARAGRAPH (concat groups ++ tr))))).

(* ---------------------------------------------------------------- Deb822::wrap_and_sort *)
Definition is_blank_kind (c : tree) : bool :=
  match ekind c with EMPTY_LINE | NEWLINE | WHITESPACE => true | _ => false end.

Fixpoint dws_scan (cs : list tree) (cur : list tree) (acc : list (list tree * tree))
  : res (list (list tree * tree) * list tree) :=
  match cs with
  | [] => Ok (acc, cur)
  | c :: r =>
    match ekind c with
    | PARAGRAPH => if is_node c then dws_scan r [] (acc ++ [(cur, c)]) else Panic 6
    | COMMENT | ERROR => dws_scan r (cur ++ [c]) acc
    | EMPTY_LINE =>
      if is_node c then
        if v_doc_lines V then
          (* a comment line is kept whole, a blank line is dropped *)
          if existsb (fun x => negb (is_blank_kind x)) (children c) then dws_scan r (cur ++ [c]) acc
          else dws_scan r cur acc
        else dws_scan r (cur ++ drop_while is_blank_kind (children c)) acc
      else Panic 6
    | _ => dws_scan r cur acc
    end
  end.

(* what is kept in `current` is written back: token by token (shipped: a node panics), or as
   it is (C07-document-comment-lines: nodes are injected) *)
Definition emit_current (c : tree) : res tree := if v_doc_lines V then Ok c else emit_token c.

Definition blank_line : tree := Node EMPTY_LINE [Tok NEWLINE [10%N]].

Fixpoint dws_emit (pfun : option (tree -> res tree)) (first : bool) (ps : list (list tree * tree)) : res (list tree) :=
  match ps with
  | [] => Ok []
  | (pre, p) :: r =>
    bind (res_map emit_current pre) (fun pre' =>
    bind (match pfun with Some f => f p | None => Ok p end) (fun p' =>
    let p'' := if v_terminate V then ensure_nl p' else p' in
    bind (dws_emit pfun false r) (fun rest =>
    Ok ((if first then [] else [blank_line]) ++ pre' ++ p'' :: rest))))
  end.

Definition doc_ws (psort : option (tree -> tree -> comparison)) (pfun : option (tree -> res tree))
                  (t : tree) : res tree :=
  bind (dws_scan (children t) [] []) (fun '(ps, trailing) =>
  let ps := sort_opt (option_map on_snd psort) ps in
  bind (dws_emit pfun true ps) (fun body =>
  bind (res_map emit_current trailing) (fun tr =>
  let r := Node ROOT (body ++ tr) in
  Ok (if v_terminate V then ensure_nl r else r)))).

(* ---------------------------------------------------------------- debian-control wrappers *)
(* format_field; [rel v] stands for value.parse::<Relations>().unwrap().wrap_and_sort().to_string()
   (the relations cone's business: a parameter here; it panics when the value does not parse) *)
Definition format_field (rel : str -> res str) (name value : str) : res str :=
  if str_eqb name k_Uploaders then Ok (if v_upl_hash V then fmt_uploaders_h value else fmt_uploaders value)
  else if existsb (str_eqb name) (relation_fields (v_typo V)) then rel value
  else Ok value.
(* the relationship arm with C07-22: when the relations parser reports errors (Panic 20 of the
   [rel] parameter: assert!(errors.is_empty())) the value is returned as it is *)
Definition rel_arm (rel : str -> res str) (value : str) : res str :=
  if v_rel_keep V then
    match rel value with
    | Panic p => if (p =? 20)%N then Ok value else Panic p
    | r => r
    end
  else rel value.

Definition is_some {A} (o : option A) : bool := match o with Some _ => true | None => false end.
(* the sort_paragraphs closure of Control::wrap_and_sort *)
Definition control_order (a b : tree) : comparison :=
  let a_is_source := is_some (get a k_Source) in
  let b_is_source := is_some (get b k_Source) in
  if a_is_source && negb b_is_source then Lt
  else if negb a_is_source && b_is_source then Gt
  else if a_is_source && b_is_source then opt_cmp (get a k_Source) (get b k_Source)
  else opt_cmp (get a k_Package) (get b k_Package).

(* Source::wrap_and_sort / Binary::wrap_and_sort *)
Definition control_para_ws (rel : str -> res str) (ind : indentation) (iel : bool) (mll : option N) (p : tree) : res tree :=
  para_ws ind iel mll None (Some (format_field (rel_arm rel))) p.
(* Control::wrap_and_sort *)
Definition control_ws (rel : str -> res str) (ind : indentation) (iel : bool) (mll : option N) (t : tree) : res tree :=
  doc_ws (Some control_order) (Some (control_para_ws rel ind iel mll)) t.

End Variant.

(* ---------------------------------------------------------------- the callers' closures used by the streams *)
(* |a, b| a.key().cmp(&b.key()) *)
Definition by_name (a b : tree) : comparison := opt_cmp (entry_key a) (entry_key b).
(* |a, b| a.items().next().map(|(_, v)| v).cmp(&b.items().next().map(|(_, v)| v)) *)
Definition first_value (p : tree) : option str := match items p with (_, v) :: _ => Some v | [] => None end.
Definition by_first_value (a b : tree) : comparison := opt_cmp (first_value a) (first_value b).
(* test formatters: identity; ';' becomes a line break; the Uploaders formatter for every field *)
Definition fmt_identity (k v : str) : res str := Ok v.
Definition fmt_semi (k v : str) : res str := Ok (map (fun c => if (c =? 59)%N then 10%N else c) v).
Definition fmt_upl (k v : str) : res str := Ok (fmt_uploaders v).
