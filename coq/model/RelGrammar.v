(* The abstract relationship fields property C10 quantifies over (Debian Policy 7.1), with every
   whitespace slot explicit, their renderer, the token list and the tree the lossless reader is
   proved to produce for them, and their content.  This file is specification: meant to be read.

     field   ::= ws item ("," ws item)*                 an item may be empty: empty entries and a
                                                        trailing comma are allowed
     item    ::= rel ("|" ws rel)*  |  "${" seg (":" seg)* "}" ws  |  (nothing)
     rel     ::= name [ws ":" ws name] [ws "(" ws op ws [epoch ":" (piece ":")*] version ws ")"]
                 [ws "[" term+ ws "]"] (ws "<" term+ ws ">")* ws
     term    ::= ws ["!"] name                          (ws non-empty except before the first term)
     op      ::= ">=" | "<=" | "=" | ">>" | "<<"
     ws      ::= (SP | TAB | LF)*
     name, version, piece, seg ::= [A-Za-z0-9.+~-]+     epoch ::= canonical decimal <= u32::MAX
   (Policy 5.6.12: the upstream part of a version may contain colons only when there is an epoch.)

   The whitespace slots are those where the lossless reader skips whitespace; Policy itself only
   shows  name:qual  without spaces, which is the special case of two empty slots. *)
From V.model Require Import Base RelLex RelParse RelAcc.

Record term := mk_term { t_ws : str; t_neg : bool; t_name : str }.
Record group := mk_group {
  g_ws0 : str;             (* before the opening bracket *)
  g_terms : list term;
  g_ws1 : str              (* before the closing bracket *)
}.
Record vclause := mk_vclause {
  v_ws0 : str;             (* before "(" *)
  v_ws1 : str;             (* after "(" *)
  v_op : vop;
  v_ws2 : str;             (* between operator and version *)
  v_epoch : option str;
  v_ver : str;             (* the version, up to its first further colon *)
  v_more : list str;       (* the ":"-separated pieces after it (only with an epoch) *)
  v_ws3 : str              (* before ")" *)
}.
Record qual := mk_qual { q_ws0 : str; q_ws1 : str; q_name : str }.   (* ws ":" ws name *)
Record rel := mk_rel {
  r_name : str;
  r_qual : option qual;
  r_ver : option vclause;
  r_archs : option group;
  r_profs : list group;
  r_trail : str            (* whitespace after the relation, up to the next "|" / "," / the end *)
}.
Inductive item :=
| IEntry (r : rel) (alts : list (str * rel))          (* r ("|" ws r')* *)
| ISubst (seg : str) (segs : list str) (trail : str)   (* "${" seg (":" seg')* "}" trail *)
| IEmpty.
Record rfield := mk_rfield { f_lead : str; f_first : item; f_rest : list (str * item) }.

(* ---------------- rendering ---------------- *)
Definition opt_text {A} (f : A -> str) (o : option A) : str := match o with Some a => f a | None => [] end.
Definition neg_text (b : bool) : str := if b then [33%N] else [].
Definition term_text (t : term) : str := t_ws t ++ neg_text (t_neg t) ++ t_name t.
Definition group_body_text (o c : N) (g : group) : str :=
  o :: flat_map term_text (g_terms g) ++ g_ws1 g ++ [c].
Definition group_text (o c : N) (g : group) : str := g_ws0 g ++ group_body_text o c g.
Definition arch_text := group_text 91%N 93%N.          (* [ ] *)
Definition prof_text := group_text 60%N 62%N.          (* < > *)
Definition vtext (v : vclause) : str :=
  match v_epoch v with Some e => e ++ [58%N] | None => [] end ++ v_ver v ++ flat_map (fun p => 58%N :: p) (v_more v).
Definition vbody_text (v : vclause) : str :=
  40%N :: v_ws1 v ++ vop_text (v_op v) ++ v_ws2 v ++ vtext v ++ v_ws3 v ++ [41%N].
Definition vclause_text (v : vclause) : str := v_ws0 v ++ vbody_text v.
Definition qual_text (q : qual) : str := q_ws0 q ++ 58%N :: q_ws1 q ++ q_name q.
Definition rel_text (r : rel) : str :=
  r_name r ++ opt_text qual_text (r_qual r) ++ opt_text vclause_text (r_ver r)
  ++ opt_text arch_text (r_archs r) ++ flat_map prof_text (r_profs r) ++ r_trail r.
Fixpoint rels_text (r : rel) (alts : list (str * rel)) : str :=
  rel_text r ++ match alts with [] => [] | (w, r') :: alts' => 124%N :: w ++ rels_text r' alts' end.
Definition subst_text (seg : str) (segs : list str) : str :=
  36%N :: 123%N :: seg ++ flat_map (fun s => 58%N :: s) segs ++ [125%N].
Definition item_text (i : item) : str :=
  match i with
  | IEntry r alts => rels_text r alts
  | ISubst seg segs trail => subst_text seg segs ++ trail
  | IEmpty => []
  end.
Fixpoint items_text (i : item) (more : list (str * item)) : str :=
  item_text i ++ match more with [] => [] | (w, i') :: more' => 44%N :: w ++ items_text i' more' end.
Definition rrender (f : rfield) : str := f_lead f ++ items_text (f_first f) (f_rest f).

(* ---------------- well-formedness ---------------- *)
Definition is_fws (c : char) : bool := ((c =? 32) || (c =? 9) || (c =? 10))%N.
Definition ws_ok (s : str) : bool := forallb is_fws s.
Definition nonempty {A} (l : list A) : bool := match l with [] => false | _ => true end.
Definition is_nil {A} (l : list A) : bool := match l with [] => true | _ => false end.
Definition ident_ok (s : str) : bool := nonempty s && forallb is_ident_char s.
(* canonical decimal (what u32's Display prints), within u32 *)
Definition epoch_ok (e : str) : bool :=
  nonempty e && forallb is_digit e
  && match e with c :: _ :: _ => negb (c =? 48)%N | _ => true end
  && (N.of_uint (uint_of_digits e) <=? u32_max)%N.
Definition opt_ok {A} (f : A -> bool) (o : option A) : bool := match o with Some a => f a | None => true end.
Definition term_ok (first : bool) (t : term) : bool :=
  ws_ok (t_ws t) && (first || nonempty (t_ws t)) && ident_ok (t_name t).
Definition terms_ok (l : list term) : bool :=
  match l with [] => false | t :: r => term_ok true t && forallb (term_ok false) r end.
Definition group_ok (g : group) : bool := ws_ok (g_ws0 g) && terms_ok (g_terms g) && ws_ok (g_ws1 g).
Definition vclause_ok (v : vclause) : bool :=
  ws_ok (v_ws0 v) && ws_ok (v_ws1 v) && ws_ok (v_ws2 v) && ws_ok (v_ws3 v)
  && opt_ok epoch_ok (v_epoch v) && ident_ok (v_ver v)
  && forallb ident_ok (v_more v) && match v_epoch v with None => is_nil (v_more v) | Some _ => true end.
Definition qual_ok (q : qual) : bool := ws_ok (q_ws0 q) && ws_ok (q_ws1 q) && ident_ok (q_name q).
Definition wf_rel (r : rel) : bool :=
  ident_ok (r_name r) && opt_ok qual_ok (r_qual r) && opt_ok vclause_ok (r_ver r)
  && opt_ok group_ok (r_archs r) && forallb group_ok (r_profs r) && ws_ok (r_trail r).
Definition wf_alt (wr : str * rel) : bool := ws_ok (fst wr) && wf_rel (snd wr).
Definition wf_item (allow_substvar : bool) (i : item) : bool :=
  match i with
  | IEntry r alts => wf_rel r && forallb wf_alt alts
  | ISubst seg segs trail => allow_substvar && ident_ok seg && forallb ident_ok segs && ws_ok trail
  | IEmpty => true
  end.
Definition wf_more (allow_substvar : bool) (wi : str * item) : bool :=
  ws_ok (fst wi) && wf_item allow_substvar (snd wi).
Definition wf_rfield (allow_substvar : bool) (f : rfield) : bool :=
  ws_ok (f_lead f) && wf_item allow_substvar (f_first f) && forallb (wf_more allow_substvar) (f_rest f).

(* ---------------- the tokens the lexer produces ---------------- *)
(* a whitespace slot: every LF is a NEWLINE token, every maximal SP/TAB run a WHITESPACE token *)
Fixpoint ws_toks (s : str) : list rtoken :=
  match s with
  | [] => []
  | c :: r =>
    if (c =? 10)%N then (NEWLINE, [c]) :: ws_toks r
    else match ws_toks r with
         | (WHITESPACE, w) :: ts => (WHITESPACE, c :: w) :: ts
         | ts => (WHITESPACE, [c]) :: ts
         end
  end.
Definition neg_toks (b : bool) : list rtoken := if b then [(NOT, [33%N])] else [].
Definition term_toks (t : term) : list rtoken := ws_toks (t_ws t) ++ neg_toks (t_neg t) ++ [(IDENT, t_name t)].
Definition group_body_toks (ok ck : rkind) (o c : N) (g : group) : list rtoken :=
  (ok, [o]) :: flat_map term_toks (g_terms g) ++ ws_toks (g_ws1 g) ++ [(ck, [c])].
Definition arch_body_toks := group_body_toks L_BRACKET R_BRACKET 91%N 93%N.
Definition prof_body_toks := group_body_toks L_ANGLE R_ANGLE 60%N 62%N.
Definition arch_toks (g : group) : list rtoken := ws_toks (g_ws0 g) ++ arch_body_toks g.
Definition prof_toks (g : group) : list rtoken := ws_toks (g_ws0 g) ++ prof_body_toks g.
Definition vop_toks (o : vop) : list rtoken :=
  match o with
  | VGe => [(R_ANGLE, [62]); (EQUAL, [61])] | VLe => [(L_ANGLE, [60]); (EQUAL, [61])]
  | VEq => [(EQUAL, [61])] | VGt => [(R_ANGLE, [62]); (R_ANGLE, [62])] | VLt => [(L_ANGLE, [60]); (L_ANGLE, [60])]
  end%N.
Definition vtext_toks (v : vclause) : list rtoken :=
  match v_epoch v with Some e => [(IDENT, e); (COLON, [58%N])] | None => [] end ++ (IDENT, v_ver v)
  :: flat_map (fun p => [(COLON, [58%N]); (IDENT, p)]) (v_more v).
Definition vbody_toks (v : vclause) : list rtoken :=
  (L_PARENS, [40%N]) :: ws_toks (v_ws1 v) ++ vop_toks (v_op v) ++ ws_toks (v_ws2 v) ++ vtext_toks v
  ++ ws_toks (v_ws3 v) ++ [(R_PARENS, [41%N])].
Definition vclause_toks (v : vclause) : list rtoken := ws_toks (v_ws0 v) ++ vbody_toks v.
Definition qual_toks (q : qual) : list rtoken :=
  ws_toks (q_ws0 q) ++ (COLON, [58%N]) :: ws_toks (q_ws1 q) ++ [(IDENT, q_name q)].
Definition opt_toks {A} (f : A -> list rtoken) (o : option A) : list rtoken :=
  match o with Some a => f a | None => [] end.
(* the relation without its trailing whitespace *)
Definition rel_core_toks (r : rel) : list rtoken :=
  (IDENT, r_name r) :: opt_toks qual_toks (r_qual r) ++ opt_toks vclause_toks (r_ver r)
  ++ opt_toks arch_toks (r_archs r) ++ flat_map prof_toks (r_profs r).
Definition rel_toks (r : rel) : list rtoken := rel_core_toks r ++ ws_toks (r_trail r).
Fixpoint rels_toks (r : rel) (alts : list (str * rel)) : list rtoken :=
  rel_toks r ++ match alts with [] => [] | (w, r') :: alts' => (PIPE, [124%N]) :: ws_toks w ++ rels_toks r' alts' end.
Definition subst_inner_toks (seg : str) (segs : list str) : list rtoken :=
  (IDENT, seg) :: flat_map (fun s => [(COLON, [58%N]); (IDENT, s)]) segs.
Definition subst_toks (seg : str) (segs : list str) : list rtoken :=
  (DOLLAR, [36%N]) :: (L_CURLY, [123%N]) :: subst_inner_toks seg segs ++ [(R_CURLY, [125%N])].
Definition item_toks (i : item) : list rtoken :=
  match i with
  | IEntry r alts => rels_toks r alts
  | ISubst seg segs trail => subst_toks seg segs ++ ws_toks trail
  | IEmpty => []
  end.
Fixpoint items_toks (i : item) (more : list (str * item)) : list rtoken :=
  item_toks i ++ match more with [] => [] | (w, i') :: more' => (COMMA, [44%N]) :: ws_toks w ++ items_toks i' more' end.
Definition rtoks (f : rfield) : list rtoken := ws_toks (f_lead f) ++ items_toks (f_first f) (f_rest f).

(* ---------------- the tree the parser builds ---------------- *)
Definition tk (t : rtoken) : rtree := Tok (fst t) (snd t).
Definition elems (ts : list rtoken) : list rtree := map tk ts.
Definition ws_elems (s : str) : list rtree := elems (ws_toks s).

Definition group_node (k ok ck : rkind) (o c : N) (g : group) : rtree :=
  Node k (elems (group_body_toks ok ck o c g)).
Definition arch_node := group_node ARCHITECTURES L_BRACKET R_BRACKET 91%N 93%N.
Definition prof_node := group_node PROFILES L_ANGLE R_ANGLE 60%N 62%N.
Definition arch_elems (g : group) : list rtree := ws_elems (g_ws0 g) ++ [arch_node g].
Definition prof_elems (g : group) : list rtree := ws_elems (g_ws0 g) ++ [prof_node g].
Definition vnode (v : vclause) : rtree :=
  Node VERSION (Tok L_PARENS [40%N] :: ws_elems (v_ws1 v) ++ [Node CONSTRAINT (elems (vop_toks (v_op v)))]
                ++ ws_elems (v_ws2 v) ++ elems (vtext_toks v) ++ ws_elems (v_ws3 v) ++ [Tok R_PARENS [41%N]]).
Definition vclause_elems (v : vclause) : list rtree := ws_elems (v_ws0 v) ++ [vnode v].
Definition qual_node (q : qual) : rtree :=
  Node ARCHQUAL (Tok COLON [58%N] :: ws_elems (q_ws1 q) ++ [Tok IDENT (q_name q)]).
Definition qual_elems (q : qual) : list rtree := ws_elems (q_ws0 q) ++ [qual_node q].
Definition opt_elems {A} (f : A -> list rtree) (o : option A) : list rtree :=
  match o with Some a => f a | None => [] end.

(* Which node receives the whitespace after a relation depends on what the relation consists of
   and on what follows: the RELATION node takes it when the relation ends with its architecture
   qualifier, or consists of the name alone and is the very last thing in the field ([last]);
   otherwise the ENTRY node takes it in front of "|" or at the end of the field, and the ROOT
   node takes it in front of ",". *)
Definition owns_trail (r : rel) (last : bool) : bool :=
  match r_ver r, r_archs r, r_profs r with
  | None, None, [] => match r_qual r with Some _ => true | None => last end
  | _, _, _ => false
  end.
Definition rel_tree (r : rel) (last : bool) : rtree :=
  Node RELATION (Tok IDENT (r_name r) :: opt_elems qual_elems (r_qual r) ++ opt_elems vclause_elems (r_ver r)
                 ++ opt_elems arch_elems (r_archs r) ++ flat_map prof_elems (r_profs r)
                 ++ (if owns_trail r last then ws_elems (r_trail r) else [])).
(* the trailing whitespace a relation leaves to its parents *)
Definition rel_left (r : rel) (last : bool) : str := if owns_trail r last then [] else r_trail r.

Fixpoint rels_elems (r : rel) (alts : list (str * rel)) (last : bool) : list rtree :=
  match alts with
  | [] => rel_tree r last :: (if last then ws_elems (rel_left r last) else [])
  | (w, r') :: alts' =>
      rel_tree r false :: ws_elems (rel_left r false) ++ Tok PIPE [124%N] :: ws_elems w ++ rels_elems r' alts' last
  end.
Fixpoint rels_left (r : rel) (alts : list (str * rel)) (last : bool) : str :=
  match alts with
  | [] => if last then [] else rel_left r last
  | (_, r') :: alts' => rels_left r' alts' last
  end.
Definition subst_node (seg : str) (segs : list str) : rtree := Node SUBSTVAR (elems (subst_toks seg segs)).
Definition item_elems (i : item) (last : bool) : list rtree :=
  match i with
  | IEntry r alts => Node ENTRY (rels_elems r alts last) :: ws_elems (rels_left r alts last)
  | ISubst seg segs trail => subst_node seg segs :: ws_elems trail
  | IEmpty => []
  end.
Fixpoint items_elems (i : item) (more : list (str * item)) : list rtree :=
  item_elems i (is_nil more)
  ++ match more with [] => [] | (w, i') :: more' => Tok COMMA [44%N] :: ws_elems w ++ items_elems i' more' end.
Definition rtree_of (f : rfield) : rtree := Node ROOT (ws_elems (f_lead f) ++ items_elems (f_first f) (f_rest f)).

(* ---------------- content: what was written ---------------- *)
Record relx : Type := mk_relx {
  x_name : str;
  x_qual : option str;
  x_ver : option (vop * str);                  (* operator, version text with epoch *)
  x_archs : option (list (bool * str));        (* (negated?, architecture) *)
  x_profs : list (list bprofile)               (* restriction formula: groups of terms *)
}.
Definition term_arch (t : term) : bool * str := (t_neg t, t_name t).
Definition term_profile (t : term) : bprofile := if t_neg t then Disabled (t_name t) else Enabled (t_name t).
Definition rel_content (r : rel) : relx :=
  mk_relx (r_name r) (option_map q_name (r_qual r)) (option_map (fun v => (v_op v, vtext v)) (r_ver r))
          (option_map (fun g => map term_arch (g_terms g)) (r_archs r))
          (map (fun g => map term_profile (g_terms g)) (r_profs r)).
Definition item_entries (i : item) : list (list relx) :=
  match i with IEntry r alts => [rel_content r :: map (fun wr => rel_content (snd wr)) alts] | _ => [] end.
Definition item_substvars (i : item) : list str :=
  match i with ISubst seg segs _ => [subst_text seg segs] | _ => [] end.
Definition f_items (f : rfield) : list item := f_first f :: map snd (f_rest f).
Definition rcontent (f : rfield) : list (list relx) * list str :=
  (flat_map item_entries (f_items f), flat_map item_substvars (f_items f)).

(* The accessors return architectures as Strings, a negated one with "!" in front
   (Relation::architectures since /repo 541b0f5): [relx_acc] is the content in the accessors' own
   type, [relc_view] reads an accessor result back as content. *)
Definition arch_acc_text (a : bool * str) : str := neg_text (fst a) ++ snd a.
Definition arch_of_text (s : str) : bool * str :=
  match s with
  | c :: r => if (c =? 33)%N then (true, r) else (false, s)
  | [] => (false, [])
  end.
Definition relx_acc (x : relx) : relc :=
  mk_relc (x_name x) (x_qual x) (x_ver x) (option_map (map arch_acc_text) (x_archs x)) (x_profs x).
Definition relc_view (c : relc) : relx :=
  mk_relx (c_name c) (c_qual c) (c_ver c) (option_map (map arch_of_text) (c_archs c)) (c_profs c).
Definition rcontent_acc (f : rfield) : list (list relc) * list str :=
  (map (map relx_acc) (fst (rcontent f)), snd (rcontent f)).
Definition racc_view (a : list (list relc) * list str) : list (list relx) * list str :=
  (map (map relc_view) (fst a), snd a).

(* fields with a negated architecture (the former finding class arch-negation-dropped) *)
Definition rel_neg_arch (r : rel) : bool :=
  match r_archs r with Some g => existsb t_neg (g_terms g) | None => false end.
Definition item_neg_arch (i : item) : bool :=
  match i with IEntry r alts => rel_neg_arch r || existsb (fun wr => rel_neg_arch (snd wr)) alts | _ => false end.
Definition has_neg_arch (f : rfield) : bool := existsb item_neg_arch (f_items f).

(* ---------------- the domain of the lossy-reader clause ----------------
   no substitution variables (the lossy reader has none).  Nothing else: since the fix of the lossy
   reader for folded fields (proposed_fixes/C14-lossy-newlines.patch; before it a line break inside
   a relation and a blank after the ":" of a qualifier were rejected) every whitespace slot may hold
   any run of SP / TAB / LF. *)
Definition item_lossy_dom (i : item) : bool := match i with ISubst _ _ _ => false | _ => true end.
Definition lossy_dom (f : rfield) : bool := forallb item_lossy_dom (f_items f).
