(* Model of the relations lexer, /repo/debian-control/src/relations.rs (Lexer, lex). *)
From V.model Require Import Base.

Inductive rkind : Type :=
| IDENT | COLON | PIPE | COMMA | L_PARENS | R_PARENS | L_BRACKET | R_BRACKET | NOT
| L_ANGLE | R_ANGLE | EQUAL | WHITESPACE | NEWLINE | DOLLAR | L_CURLY | R_CURLY | ERROR
| ROOT | ENTRY | RELATION | ARCHQUAL | VERSION | CONSTRAINT | ARCHITECTURES | PROFILES | SUBSTVAR.

Definition rkind_code (k : rkind) : N :=
  match k with
  | IDENT => 0 | COLON => 1 | PIPE => 2 | COMMA => 3 | L_PARENS => 4 | R_PARENS => 5
  | L_BRACKET => 6 | R_BRACKET => 7 | NOT => 8 | L_ANGLE => 9 | R_ANGLE => 10 | EQUAL => 11
  | WHITESPACE => 12 | NEWLINE => 13 | DOLLAR => 14 | L_CURLY => 15 | R_CURLY => 16 | ERROR => 17
  | ROOT => 18 | ENTRY => 19 | RELATION => 20 | ARCHQUAL => 21 | VERSION => 22 | CONSTRAINT => 23
  | ARCHITECTURES => 24 | PROFILES => 25 | SUBSTVAR => 26
  end%N.
Definition rkind_eqb (a b : rkind) : bool := N.eqb (rkind_code a) (rkind_code b).

Notation rtoken := (rkind * str)%type.

Definition is_rel_ws (c : char) : bool := (c =? 32)%N || (c =? 9)%N || (c =? 13)%N.
Definition is_ascii_alnum (c : char) : bool :=
  ((48 <=? c) && (c <=? 57) || (65 <=? c) && (c <=? 90) || (97 <=? c) && (c <=? 122))%N.
Definition is_ident_char (c : char) : bool :=
  is_ascii_alnum c || (c =? 45)%N || (c =? 46)%N || (c =? 43)%N || (c =? 126)%N.

(* the single-character arms of next_token, in source order *)
Definition single_char_kind (c : char) : option rkind :=
  if (c =? 58)%N then Some COLON
  else if (c =? 124)%N then Some PIPE
  else if (c =? 44)%N then Some COMMA
  else if (c =? 40)%N then Some L_PARENS
  else if (c =? 41)%N then Some R_PARENS
  else if (c =? 91)%N then Some L_BRACKET
  else if (c =? 93)%N then Some R_BRACKET
  else if (c =? 33)%N then Some NOT
  else if (c =? 36)%N then Some DOLLAR
  else if (c =? 123)%N then Some L_CURLY
  else if (c =? 125)%N then Some R_CURLY
  else if (c =? 60)%N then Some L_ANGLE
  else if (c =? 62)%N then Some R_ANGLE
  else if (c =? 61)%N then Some EQUAL
  else if (c =? 10)%N then Some NEWLINE
  else None.

Definition rlex_step (c : char) (r : str) : rtoken * str :=
  match single_char_kind c with
  | Some k => ((k, [c]), r)
  | None =>
    if is_rel_ws c then let '(w, r') := span is_rel_ws r in ((WHITESPACE, c :: w), r')
    else if is_ident_char c then let '(w, r') := span is_ident_char r in ((IDENT, c :: w), r')
    else ((ERROR, [c]), r)
  end.

Fixpoint rlex_go (fuel : nat) (s : str) : res (list rtoken) :=
  match s with
  | [] => Ok []
  | c :: r =>
    match fuel with
    | O => OutOfFuel
    | S f =>
      let '(t, r') := rlex_step c r in
      match rlex_go f r' with
      | Ok ts => Ok (t :: ts)
      | Err e => Err e | Panic n => Panic n | OutOfFuel => OutOfFuel
      end
    end
  end.

Definition rlex (s : str) : res (list rtoken) := rlex_go (length s) s.
