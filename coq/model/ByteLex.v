(* Byte-level transcription of /repo/src/lex.rs `lex_`: the same closure as Deb822Lex.lex_step,
   but every arm performs the SLICE the source performs, at a BYTE offset, through the
   panicking primitives of Utf8.v (`&input[1..]`, `split_at(1)`, `split_at(find(..).unwrap_or(len))`,
   `split_at(c.len_utf8())`), and the state is the source's state (`colon_count`, `indent` =
   `whitespace.len()`, a byte length).  What the arms ARE is data: a list of [arm] records.
   `lex_arms` below is the hand transcription; translate/bytesites.py regenerates the same table
   from the source (coq/gen/ByteSites_gen.v: `lex_arms_src`) and proofs/ByteLexP.v proves them
   equal, so a changed slice constant, predicate, guard or arm order breaks an obligation.
   `blex_step` is the same closure written out as an if-chain (for the reader); it is proved
   equal to the interpreter `tstep lex_arms`.  No proofs in this file. *)
From V.model Require Import Base Utf8 Deb822Lex.

(* ------------------------------------------------------------------ the description of an arm *)
Inductive cls : Type := ClsIndent | ClsNewline | ClsKeyChar | ClsInitialKeyChar.
Definition cls_pred (k : cls) : char -> bool :=
  match k with
  | ClsIndent => is_indent | ClsNewline => is_newline
  | ClsKeyChar => is_valid_key_char | ClsInitialKeyChar => is_valid_initial_key_char
  end.

Inductive guard : Type :=
| GChar (c : N)          (* 'x' *)
| GCls (k : cls)         (* _ if common::k(c) *)
| GAny.                  (* _ *)
Inductive cond : Type :=
| CColon0                (* colon_count == 0 *)
| CIndent0               (* indent == 0 *)
| CSol                   (* start_of_line *)
| CNotSolOrIndent.       (* !start_of_line || indent > 0 *)
Inductive slice : Type :=
| SlFrom (k : nat) (lit : str)   (* input = &input[k..]; the token text is the literal lit *)
| SlSplit (k : nat)              (* input.split_at(k) *)
| SlSplitLenUtf8                 (* input.split_at(c.len_utf8()) *)
| SlSplitFind (neg : bool) (k : cls).
                                 (* input.split_at(input.find(P).unwrap_or(input.len())),
                                    P = common::k or |c| !common::k(c) *)
Inductive upd : Type :=
| UColonInc              (* colon_count += 1 *)
| UColon0                (* colon_count = 0 *)
| UIndent0               (* indent = 0 *)
| USol (b : bool).       (* start_of_line = b *)
Inductive emit : Type :=
| EKind (k : N)                  (* Some((SyntaxKind::K, text)) *)
| EIndentOrWs (k1 k2 : N).       (* if start_of_line { indent = text.len(); K1 } else { K2 } *)
Record arm : Type := mk_arm {
  a_guard : guard; a_conds : list cond; a_slice : slice; a_upds : list upd; a_emit : emit }.

(* ------------------------------------------------------------------ the closure state *)
Record bst : Type := mk_bst { b_sol : bool; b_colon : nat; b_indent : nat }.
Definition bst_init (start_of_line : bool) : bst :=
  mk_bst start_of_line (if start_of_line then 0 else 1) 0.

Definition kind_of_code (n : N) : kind :=
  match n with
  | 0 => KEY | 1 => VALUE | 2 => COLON | 3 => INDENT | 4 => NEWLINE | 5 => WHITESPACE
  | 6 => COMMENT | 7 => ERROR | 8 => ROOT | 9 => PARAGRAPH | 10 => ENTRY | _ => EMPTY_LINE
  end%N.

(* ------------------------------------------------------------------ the interpreter *)
Definition guard_holds (g : guard) (c : char) : bool :=
  match g with GChar x => (c =? x)%N | GCls k => cls_pred k c | GAny => true end.
Definition cond_holds (st : bst) (k : cond) : bool :=
  match k with
  | CColon0 => b_colon st =? 0
  | CIndent0 => b_indent st =? 0
  | CSol => b_sol st
  | CNotSolOrIndent => negb (b_sol st) || (0 <? b_indent st)
  end.
Definition find_pred (neg : bool) (k : cls) : char -> bool :=
  if neg then (fun c => negb (cls_pred k c)) else cls_pred k.
(* the slice of an arm: (token text, remaining input) *)
Definition do_slice (sl : slice) (input : str) (c : char) : res (str * str) :=
  match sl with
  | SlFrom k lit => rmap (fun rest => (lit, rest)) (slice_from_b input k)
  | SlSplit k => split_at_b input k
  | SlSplitLenUtf8 => split_at_b input (ulen c)
  | SlSplitFind neg k =>
      split_at_b input (match find_b (find_pred neg k) input with
                        | Some n => n
                        | None => len_b input
                        end)
  end.
Definition do_upd (st : bst) (u : upd) : bst :=
  match u with
  | UColonInc => mk_bst (b_sol st) (b_colon st + 1) (b_indent st)
  | UColon0 => mk_bst (b_sol st) 0 (b_indent st)
  | UIndent0 => mk_bst (b_sol st) (b_colon st) 0
  | USol b => mk_bst b (b_colon st) (b_indent st)
  end.
Definition do_emit (e : emit) (st : bst) (t : str) : token * bst :=
  match e with
  | EKind k => ((kind_of_code k, t), st)
  | EIndentOrWs k1 k2 =>
      if b_sol st then ((kind_of_code k1, t), mk_bst (b_sol st) (b_colon st) (len_b t))
      else ((kind_of_code k2, t), st)
  end.

Definition arm_fires (a : arm) (st : bst) (c : char) : bool :=
  guard_holds (a_guard a) c && forallb (cond_holds st) (a_conds a).
Definition run_arm (a : arm) (st : bst) (input : str) (c : char) : res (token * bst * str) :=
  match do_slice (a_slice a) input c with
  | Ok (t, rest) =>
      let '(tok, st') := do_emit (a_emit a) (fold_left do_upd (a_upds a) st) t in
      Ok (tok, st', rest)
  | Err e => Err e | Panic n => Panic n | OutOfFuel => OutOfFuel
  end.

Definition site_no_arm : N := 42.    (* a `match` without a catch-all arm: does not compile in Rust *)

(* one call of the closure on a non-empty input whose first character is c *)
Fixpoint tstep (arms : list arm) (st : bst) (input : str) (c : char) : res (token * bst * str) :=
  match arms with
  | [] => Panic site_no_arm
  | a :: more => if arm_fires a st c then run_arm a st input c else tstep more st input c
  end.

Fixpoint tlex_go (arms : list arm) (fuel : nat) (st : bst) (input : str) : res (list token) :=
  match input with                      (* input.chars().next() *)
  | [] => Ok []
  | c :: _ =>
    match fuel with
    | O => OutOfFuel
    | S f =>
      match tstep arms st input c with
      | Ok (t, st', rest) =>
          match tlex_go arms f st' rest with
          | Ok ts => Ok (t :: ts)
          | Err e => Err e | Panic n => Panic n | OutOfFuel => OutOfFuel
          end
      | Err e => Err e | Panic n => Panic n | OutOfFuel => OutOfFuel
      end
    end
  end.

(* ------------------------------------------------------------------ lex_ of src/lex.rs, as data *)
Definition lex_arms : list arm :=
  [ (* ':' if colon_count == 0 && indent == 0 => { colon_count += 1; input = &input[1..]; COLON ":" } *)
    mk_arm (GChar 58) [CColon0; CIndent0] (SlFrom 1 [58%N]) [UColonInc] (EKind 2);
    (* _ if is_newline(c) => { split_at(1); start_of_line = true; colon_count = 0; indent = 0; NEWLINE } *)
    mk_arm (GCls ClsNewline) [] (SlSplit 1) [USol true; UColon0; UIndent0] (EKind 4);
    (* _ if is_indent(c) => { split_at(find(|c| !is_indent(c)).unwrap_or(len));
                              if start_of_line { indent = whitespace.len(); INDENT } else { WHITESPACE } } *)
    mk_arm (GCls ClsIndent) [] (SlSplitFind true ClsIndent) [] (EIndentOrWs 3 5);
    (* '#' if start_of_line => { split_at(find(is_newline).unwrap_or(len)); start_of_line = true;
                                 colon_count = 0; COMMENT } *)
    mk_arm (GChar 35) [CSol] (SlSplitFind false ClsNewline) [USol true; UColon0] (EKind 6);
    (* _ if is_valid_initial_key_char(c) && start_of_line && indent == 0 =>
         { split_at(find(|c| !is_valid_key_char(c)).unwrap_or(len)); start_of_line = false; KEY } *)
    mk_arm (GCls ClsInitialKeyChar) [CSol; CIndent0] (SlSplitFind true ClsKeyChar) [USol false] (EKind 0);
    (* _ if !start_of_line || indent > 0 => { split_at(find(is_newline).unwrap_or(len)); VALUE } *)
    mk_arm GAny [CNotSolOrIndent] (SlSplitFind false ClsNewline) [] (EKind 1);
    (* _ => { split_at(c.len_utf8()); ERROR } *)
    mk_arm GAny [] SlSplitLenUtf8 [] (EKind 7) ].

Definition bytelex_ (start_of_line : bool) (s : str) : res (list token) :=
  tlex_go lex_arms (length s) (bst_init start_of_line) s.
Definition bytelex (s : str) := bytelex_ true s.
Definition bytelex_inline (s : str) := bytelex_ false s.

(* The lexer before fix d200b95: the ERROR arm split one BYTE off (`split_at(1)`). *)
Definition lex_arms_prefix : list arm :=
  firstn 6 lex_arms ++ [mk_arm GAny [] (SlSplit 1) [] (EKind 7)].
Definition bytelex_prefix (s : str) : res (list token) :=
  tlex_go lex_arms_prefix (length s) (bst_init true) s.

(* ------------------------------------------------------------------ the same closure, written out *)
Definition split_find (p : char -> bool) (input : str) : res (str * str) :=
  split_at_b input (match find_b p input with Some n => n | None => len_b input end).

Definition blex_step (st : bst) (input : str) (c : char) : res (token * bst * str) :=
  if (c =? 58)%N && ((b_colon st =? 0) && (b_indent st =? 0)) then
    bind (slice_from_b input 1) (fun rest =>
      Ok ((COLON, [58%N]), mk_bst (b_sol st) (b_colon st + 1) (b_indent st), rest))
  else if is_newline c then
    bind (split_at_b input 1) (fun '(nl, rest) => Ok ((NEWLINE, nl), mk_bst true 0 0, rest))
  else if is_indent c then
    bind (split_find (fun x => negb (is_indent x)) input) (fun '(w, rest) =>
      if b_sol st then Ok ((INDENT, w), mk_bst (b_sol st) (b_colon st) (len_b w), rest)
      else Ok ((WHITESPACE, w), st, rest))
  else if (c =? 35)%N && b_sol st then
    bind (split_find is_newline input) (fun '(w, rest) =>
      Ok ((COMMENT, w), mk_bst true 0 (b_indent st), rest))
  else if is_valid_initial_key_char c && (b_sol st && (b_indent st =? 0)) then
    bind (split_find (fun x => negb (is_valid_key_char x)) input) (fun '(w, rest) =>
      Ok ((KEY, w), mk_bst false (b_colon st) (b_indent st), rest))
  else if negb (b_sol st) || (0 <? b_indent st) then
    bind (split_find is_newline input) (fun '(w, rest) => Ok ((VALUE, w), st, rest))
  else
    bind (split_at_b input (ulen c)) (fun '(w, rest) => Ok ((ERROR, w), st, rest)).
