(* Model of /repo/debian-control/src/pgp.rs (strip_pgp_signature), property C19.

   Rust std functions used by the code are modelled externals with their own executable
   definitions (validated by the `lines=` part of the pgp-strip correspondence stream):
     str::lines()  = split_inclusive('\n') mapped through LinesMap, which removes one trailing
                     "\n" and then — only if a "\n" was removed — one trailing "\r"
                     (library/core/src/str/mod.rs; behaviour of current std, checked against the
                     toolchain in use by the stream).  Consequences that matter for C19:
                     a final piece without "\n" keeps a trailing "\r"; an empty input and an
                     input ending in "\n" yield no extra empty line.
   The three `loop { lines.next() ... }` loops consume the `Lines` iterator; the iterator is
   modelled as the list of the remaining lines, so each loop is structural recursion on that
   list (no fuel needed: a loop iteration always consumes one element).  The function has no
   panic site (no unwrap / slicing / indexing), hence no `Panic` outcome appears.
   No proofs in this file. *)
From V.model Require Import Base.

Definition LF : char := 10%N.
Definition CR : char := 13%N.
Definition DASH : char := 45%N.

(* ---------------------------------------------------------------- std externals *)

(* str::split_inclusive('\n'): pieces keep their terminator; no empty final piece *)
Fixpoint split_inclusive_lf (s : str) : list str :=
  match s with
  | [] => []
  | c :: r =>
    if (c =? LF)%N then [c] :: split_inclusive_lf r
    else match split_inclusive_lf r with
         | [] => [[c]]
         | p :: ps => (c :: p) :: ps
         end
  end.

(* str::strip_suffix(char) *)
Definition strip_suffix_char (c : char) (s : str) : option str :=
  match rev s with
  | x :: r => if (x =? c)%N then Some (rev r) else None
  | [] => None
  end.

(* LinesMap::call:
     let Some(line) = line.strip_suffix('\n') else { return line };
     let Some(line) = line.strip_suffix('\r') else { return line };
     line *)
Definition lines_map (line : str) : str :=
  match strip_suffix_char LF line with
  | None => line
  | Some l =>
    match strip_suffix_char CR l with
    | None => l
    | Some l' => l'
    end
  end.

(* str::lines(), collected *)
Definition lines (s : str) : list str := map lines_map (split_inclusive_lf s).

(* ---------------------------------------------------------------- pgp.rs *)

(* "-----BEGIN PGP SIGNED MESSAGE-----" *)
Definition BEGIN_SIGNED : str :=
  [45; 45; 45; 45; 45; 66; 69; 71; 73; 78; 32; 80; 71; 80; 32; 83; 73; 71; 78; 69; 68; 32;
   77; 69; 83; 83; 65; 71; 69; 45; 45; 45; 45; 45]%N.
(* "-----BEGIN PGP SIGNATURE-----" *)
Definition BEGIN_SIG : str :=
  [45; 45; 45; 45; 45; 66; 69; 71; 73; 78; 32; 80; 71; 80; 32; 83; 73; 71; 78; 65; 84; 85;
   82; 69; 45; 45; 45; 45; 45]%N.
(* "-----END PGP SIGNATURE-----" *)
Definition END_SIG : str :=
  [45; 45; 45; 45; 45; 69; 78; 68; 32; 80; 71; 80; 32; 83; 73; 71; 78; 65; 84; 85; 82; 69;
   45; 45; 45; 45; 45]%N.

(* enum Error, in declaration order *)
Definition E_MissingPgpSignature : N := 1%N.
Definition E_MissingPayload : N := 2%N.
Definition E_TruncatedPgpSignature : N := 3%N.
Definition E_JunkAfterPgpSignature : N := 4%N.

(* // Read the metadata
   loop { line = lines.next() else return Err(MissingPayload);
          if line.is_empty() { break } metadata.push_str(line); metadata.push('\n'); }
   Result: the metadata string and the iterator state after the loop. *)
Fixpoint read_metadata (ls : list str) (metadata : str) : res (str * list str) :=
  match ls with
  | [] => Err E_MissingPayload
  | line :: rest =>
    match line with
    | [] => Ok (metadata, rest)
    | _ :: _ => read_metadata rest (metadata ++ line ++ [LF])
    end
  end.

(* loop { line = lines.next() else return Err(MissingPgpSignature);
          if line == "-----BEGIN PGP SIGNATURE-----" { break }
          payload.push_str(line); payload.push('\n'); } *)
Fixpoint read_payload (ls : list str) (payload : str) : res (str * list str) :=
  match ls with
  | [] => Err E_MissingPgpSignature
  | line :: rest =>
    if str_eqb line BEGIN_SIG then Ok (payload, rest)
    else read_payload rest (payload ++ line ++ [LF])
  end.

(* loop { line = lines.next() else return Err(TruncatedPgpSignature);
          if line == "-----END PGP SIGNATURE-----" { break }
          signature.push_str(line); }            -- no '\n' pushed here *)
Fixpoint read_signature (ls : list str) (signature : str) : res (str * list str) :=
  match ls with
  | [] => Err E_TruncatedPgpSignature
  | line :: rest =>
    if str_eqb line END_SIG then Ok (signature, rest)
    else read_signature rest (signature ++ line)
  end.

(* the body of strip_pgp_signature once `input.lines()` is given *)
Definition strip_lines (input : str) (ls : list str) : res (str * option str) :=
  match ls with
  | [] => Ok (input, None)                               (* lines.next() == None *)
  | first_line :: ls0 =>
    if negb (str_eqb first_line BEGIN_SIGNED) then Ok (input, None)
    else
      bind (read_metadata ls0 []) (fun '(_metadata, ls1) =>
      bind (read_payload ls1 []) (fun '(payload, ls2) =>
      bind (read_signature ls2 []) (fun '(signature, ls3) =>
      match ls3 with
      | _ :: _ => Err E_JunkAfterPgpSignature
      | [] => Ok (payload, Some signature)
      end)))
  end.

Definition strip_pgp_signature (input : str) : res (str * option str) :=
  strip_lines input (lines input).

(* ---------------------------------------------------------------- specification-level
   objects the property quantifies over (also run by the pgp-wrap / pgp-cutc streams, where
   the harness and the generator build the same message independently) *)

(* every line followed by "\n" *)
Definition unlines (ls : list str) : str := flat_map (fun l => l ++ [LF]) ls.

(* the lines of the clear-signed message with armour headers hs, payload lines ps and
   signature lines ss *)
Definition wrap_lines (hs ps ss : list str) : list str :=
  BEGIN_SIGNED :: hs ++ [] :: ps ++ BEGIN_SIG :: ss ++ [END_SIG].

Definition wrap (hs ps ss : list str) : str := unlines (wrap_lines hs ps ss).

(* the message cut after its first k lines *)
Definition cut_lines (k : nat) (hs ps ss : list str) : str := unlines (firstn k (wrap_lines hs ps ss)).

(* what the property prescribes for the message cut after k complete lines, k < number of
   lines: nothing left -> unsigned empty text; cut before the blank line that ends the
   headers -> missing payload; before the signature marker -> missing signature; before the
   end marker -> truncated signature *)
Definition cut_result (k : nat) (hs ps : list str) : res (str * option str) :=
  match k with
  | O => Ok ([], None)
  | S _ =>
    if k <=? 1 + length hs then Err E_MissingPayload
    else if k <=? 2 + length hs + length ps then Err E_MissingPgpSignature
    else Err E_TruncatedPgpSignature
  end.

(* the message cut after its first n characters *)
Definition cut_chars (n : nat) (hs ps ss : list str) : str := firstn n (wrap hs ps ss).

(* ---- side conditions used by the C19 statements (specification-level) ---- *)
Definition no_lf (l : str) : Prop := ~ In LF l.               (* a line: no "\n" inside *)
Definition no_cr_end (l : str) : Prop := last l 0%N <> CR.    (* ... and not ending in "\r" *)
Definition no_dash_start (l : str) : Prop := hd 0%N l <> DASH.  (* needs no dash-escaping *)

(* what str::lines() makes of a line that was terminated by "\n": one trailing "\r" is dropped *)
Definition chomp_cr (l : str) : str :=
  match strip_suffix_char CR l with Some l' => l' | None => l end.

(* is_prefix p l: l starts with p *)
Fixpoint is_prefix (p l : str) : bool :=
  match p, l with
  | [], _ => true
  | a :: p', b :: l' => (a =? b)%N && is_prefix p' l'
  | _ :: _, [] => false
  end.

(* The domain of C19: header, payload and signature lines are lines (no "\n" inside) terminated
   by "\n" alone (none ends in "\r"); armour headers are non-empty (an empty one would be the
   separator); payload lines need no dash-escaping; no signature line is the end marker. *)
Definition pgp_dom (hs ps ss : list str) : Prop :=
  Forall no_lf (hs ++ ps ++ ss) /\ Forall no_cr_end (hs ++ ps ++ ss) /\
  Forall (fun l => l <> []) hs /\ Forall no_dash_start ps /\ Forall (fun l => l <> END_SIG) ss.

(* The wider domain on which the result is still determined: lines may end in "\r" (CRLF line
   ends); the side conditions then apply to the lines as lines() yields them. *)
Definition pgp_dom_cr (hs ps ss : list str) : Prop :=
  Forall no_lf (hs ++ ps ++ ss) /\
  Forall (fun l => chomp_cr l <> []) hs /\ Forall (fun l => chomp_cr l <> BEGIN_SIG) ps /\
  Forall (fun l => chomp_cr l <> END_SIG) ss.

(* s begins with the signed-message marker as a complete first line *)
Definition marker_first_line (s : str) : Prop :=
  s = BEGIN_SIGNED \/ (exists r, s = BEGIN_SIGNED ++ LF :: r) \/ (exists r, s = BEGIN_SIGNED ++ CR :: LF :: r).

(* what the property prescribes for the message cut inside line k (0-based), after the
   characters p of that line, q being the rest of the line (its "\n" not included):
   p empty: a cut at the line boundary; q empty: the whole line is there, only its "\n" is
   missing, which lines() does not need; otherwise the incomplete line is never a marker, so
   the cut counts as one made before line k - except in the very first line, where the text is
   not a signed message at all and is passed through *)
Definition cutc_result (x : str) (k : nat) (p q : str) (hs ps : list str) : res (str * option str) :=
  match p with
  | [] => cut_result k hs ps
  | _ :: _ =>
    match q with
    | [] => cut_result (S k) hs ps
    | _ :: _ => match k with O => Ok (x, None) | S _ => cut_result k hs ps end
    end
  end.

(* executable form of pgp_dom (proofs/PgpP.v: pgp_domb_ok), used to exhibit inhabitants *)
Definition line_okb (l : str) : bool :=
  forallb (fun c => negb (c =? LF)%N) l && negb (last l 0 =? CR)%N.
Definition pgp_domb (hs ps ss : list str) : bool :=
  forallb line_okb (hs ++ ps ++ ss) &&
  forallb (fun l => match l with [] => false | _ :: _ => true end) hs &&
  forallb (fun l => negb (hd 0 l =? DASH)%N) ps &&
  forallb (fun l => negb (str_eqb l END_SIG)) ss.
