(* Model of /repo/src/lex.rs (lex_, lex, lex_inline) and /repo/src/common.rs. *)
From V.model Require Import Base.

Inductive kind : Type :=
| KEY | VALUE | COLON | INDENT | NEWLINE | WHITESPACE | COMMENT | ERROR
| ROOT | PARAGRAPH | ENTRY | EMPTY_LINE.

Definition kind_code (k : kind) : N :=
  match k with
  | KEY => 0 | VALUE => 1 | COLON => 2 | INDENT => 3 | NEWLINE => 4 | WHITESPACE => 5
  | COMMENT => 6 | ERROR => 7 | ROOT => 8 | PARAGRAPH => 9 | ENTRY => 10 | EMPTY_LINE => 11
  end%N.
Definition kind_eqb (a b : kind) : bool := N.eqb (kind_code a) (kind_code b).

Notation token := (kind * str)%type.

(* src/common.rs *)
Definition is_indent (c : char) : bool := (c =? 32)%N || (c =? 9)%N.
Definition is_newline (c : char) : bool := (c =? 10)%N || (c =? 13)%N.
Definition is_ascii_graphic (c : char) : bool := (33 <=? c)%N && (c <=? 126)%N.
Definition is_valid_key_char (c : char) : bool :=
  is_ascii_graphic c && negb (c =? 58)%N && negb (c =? 32)%N.
Definition is_valid_initial_key_char (c : char) : bool :=
  negb (c =? 45)%N && is_valid_key_char c.

(* Lexer state of the closure in lex_: start_of_line, colon_count > 0, indent > 0.
   colon_count only ever takes the values 0 and 1; indent is only compared with 0. *)
Record lst := mk_lst { sol : bool; colon : bool; ind : bool }.

Definition lst_init (start_of_line : bool) : lst :=
  mk_lst start_of_line (negb start_of_line) false.

(* One step of the closure: the token produced, the new state, the remaining input.
   Defined for a non-empty input c :: r.  The arms are in source order. *)
Definition lex_step (st : lst) (c : char) (r : str) : res (token * lst * str) :=
  if (c =? 58)%N && negb (colon st) && negb (ind st) then
    Ok ((COLON, [c]), mk_lst (sol st) true (ind st), r)
  else if is_newline c then
    Ok ((NEWLINE, [c]), mk_lst true false false, r)
  else if is_indent c then
    let '(w, r') := span is_indent r in
    if sol st then Ok ((INDENT, c :: w), mk_lst (sol st) (colon st) true, r')
    else Ok ((WHITESPACE, c :: w), st, r')
  else if (c =? 35)%N && sol st then
    let '(w, r') := span (fun x => negb (is_newline x)) r in
    Ok ((COMMENT, c :: w), mk_lst true false (ind st), r')
  else if is_valid_initial_key_char c && sol st && negb (ind st) then
    let '(w, r') := span is_valid_key_char r in
    Ok ((KEY, c :: w), mk_lst false (colon st) (ind st), r')
  else if negb (sol st) || ind st then
    let '(w, r') := span (fun x => negb (is_newline x)) r in
    Ok ((VALUE, c :: w), st, r')
  else
    (* ERROR arm: input.split_at(c.len_utf8()) — exactly one character.
       (Before fix d200b95 this was split_at(1), a byte split that panicked on a
       multi-byte character; see known_findings.jsonl.) *)
    Ok ((ERROR, [c]), st, r).

Fixpoint lex_go (fuel : nat) (st : lst) (s : str) : res (list token) :=
  match s with
  | [] => Ok []
  | c :: r =>
    match fuel with
    | O => OutOfFuel
    | S f =>
      match lex_step st c r with
      | Ok (t, st', r') =>
          match lex_go f st' r' with
          | Ok ts => Ok (t :: ts)
          | Err e => Err e | Panic n => Panic n | OutOfFuel => OutOfFuel
          end
      | Err e => Err e | Panic n => Panic n | OutOfFuel => OutOfFuel
      end
    end
  end.

Definition lex_ (start_of_line : bool) (s : str) : res (list token) :=
  lex_go (length s) (lst_init start_of_line) s.
Definition lex (s : str) := lex_ true s.
Definition lex_inline (s : str) := lex_ false s.
