(* VCS locations (C18): debian-control/src/vcs.rs — ParsedVcs FromStr / Display and
   Vcs::from_field / to_field.  No proofs in this file. *)
From V.model Require Import Base CodecStr.

Record parsed_vcs : Type := { repo_url : str; branch : option str; subpath : option str }.

(* The pattern  ` \[([^] ]+)\]`  of ParsedVcs::from_str, matched by hand.
   [re_class] is the class [^] ] (any scalar value but ']' and ' ', newline included).
   [re_here s]: a match anchored at the head of s = Some (captured run, text after the match).
   The run is greedy; because the class excludes ']' a shorter run can never be followed by ']',
   so the greedy attempt is the only candidate at a given start. *)
Definition re_class (c : char) : bool := negb ((c =? 93)%N || (c =? 32)%N).
Definition re_here (s : str) : option (str * str) :=
  match s with
  | a :: b :: r =>
    if ((a =? 32) && (b =? 91))%N then
      let '(run, r') := span re_class r in
      match run, r' with
      | _ :: _, c :: r'' => if (c =? 93)%N then Some (run, r'') else None
      | _, _ => None
      end
    else None
  | _ => None
  end.
(* Regex::find: the leftmost match = Some (text before, captured run, text after) *)
Fixpoint re_find (s : str) : option (str * str * str) :=
  match re_here s with
  | Some (run, rest) => Some ([], run, rest)
  | None =>
    match s with
    | [] => None
    | c :: r => match re_find r with
                | Some (a, run, b) => Some (c :: a, run, b)
                | None => None
                end
    end
  end.

Definition lit_dash_b : str := [32; 45; 98; 32]%N.       (* " -b " *)

(* <ParsedVcs as FromStr>::from_str (never fails) *)
Definition parsed_vcs_from_str (s : str) : res parsed_vcs :=
  let s0 := trim s in
  let '(sub, s1) := match re_find s0 with
                    | Some (a, run, b) => (Some run, a ++ b)
                    | None => (None, s0)
                    end in
  match find_sub lit_dash_b s1 with
  | Some (url, br) => Ok {| repo_url := url; branch := Some (skipn 4 br); subpath := sub |}
  | None => Ok {| repo_url := s1; branch := None; subpath := sub |}
  end.

(* <ParsedVcs as Display>::fmt *)
Definition parsed_vcs_to_string (v : parsed_vcs) : str :=
  repo_url v ++
  match branch v with Some b => lit_dash_b ++ b | None => [] end ++
  match subpath v with Some p => [32; 91]%N ++ p ++ [93%N] | None => [] end.

Inductive vcs : Type :=
| Git (url : str) (br : option str) (sub : option str)
| Bzr (url : str) (sub : option str)
| Hg (url : str)
| Svn (url : str)
| Cvs (root : str) (module : option str).

Definition name_git : str := [71; 105; 116]%N.
Definition name_bzr : str := [66; 122; 114]%N.
Definition name_hg : str := [72; 103]%N.
Definition name_svn : str := [83; 118; 110]%N.
Definition name_cvs : str := [67; 118; 115]%N.

(* Vcs::from_field(name, value) *)
Definition vcs_from_field (name value : str) : res vcs :=
  if str_eqb name name_git then
    bind (parsed_vcs_from_str value) (fun p => Ok (Git (repo_url p) (branch p) (subpath p)))
  else if str_eqb name name_bzr then
    bind (parsed_vcs_from_str value) (fun p =>
      match branch p with
      | Some _ => Err 2
      | None => Ok (Bzr (repo_url p) (subpath p))
      end)
  else if str_eqb name name_hg then Ok (Hg value)
  else if str_eqb name name_svn then Ok (Svn value)
  else if str_eqb name name_cvs then
    match split_once 32 value with
    | Some (root, m) => Ok (Cvs root (Some m))
    | None => Ok (Cvs value None)
    end
  else Err 1.

(* Vcs::to_field *)
Definition vcs_to_field (v : vcs) : str * str :=
  match v with
  | Git u b p => (name_git, parsed_vcs_to_string {| repo_url := u; branch := b; subpath := p |})
  | Bzr u p => (name_bzr, match p with Some p => u ++ [32; 91]%N ++ p ++ [93%N] | None => u end)
  | Hg u => (name_hg, u)
  | Svn u => (name_svn, u)
  | Cvs r m => (name_cvs, match m with Some m => r ++ 32%N :: m | None => r end)
  end.
