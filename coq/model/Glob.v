(* Model of /repo/debian-copyright/src/glob.rs (fn glob_to_regex) together with the part of the
   `regex` crate it relies on, and the reference matcher written from the text of property C17.

   glob_to_regex builds the pattern text  "^" piece* "$"  where a piece is ".*" (for '*'),
   "." (for '?') or regex::escape(c) (for a literal c, or for an escaped '*', '?', '\').
   regex::escape(c) is c, preceded by a backslash when c is a regex metacharacter; the regex
   parser reads either form back as "the literal character c" (no flag such as (?x) or (?i) is
   set).  The compiled regex is therefore fully described by a list of atoms (type [regex]
   below), anchored at both ends; [rmatch] is the standard backtracking semantics of such a
   list and models  Regex::is_match  (modelled external, validated by the `glob` stream).

   [dotall] is the regex flag (?s).  Without it "." matches every character except LF (the
   regex crate's default): that is the code as shipped (defect 24 of DESIGN §5).  The proposed
   fix proposed_fixes/C17-glob-newline.patch starts the pattern with "(?s)"; the main theorems
   are about [dotall = true], the refutation lemmas about [dotall = false]. *)
From V.model Require Import Base.

Inductive ratom : Type :=
| RLit (c : char)      (* regex::escape(c): exactly the character c *)
| RAny                 (* "."  *)
| RAnyStar.            (* ".*" *)
Notation regex := (list ratom).

Definition is_glob_special (c : char) : bool := (c =? 63)%N || (c =? 42)%N || (c =? 92)%N.

Definition rcons (a : ratom) (r : res regex) : res regex := rmap (cons a) r.

(* Panic 1 = panic!("invalid escape sequence: \\{}", x); Panic 2 = panic!("invalid escape sequence: \\").
   The final  regex::Regex::new(r).unwrap()  is modelled as always succeeding: every piece is a
   well-formed regex; the only failure the crate can report for such a pattern is its compiled
   size limit (see docs/cones/C17.md, "modelled externals"). *)
Fixpoint glob_to_regex (g : str) : res regex :=
  match g with
  | [] => Ok []
  | c :: r =>
    if (c =? 42)%N then rcons RAnyStar (glob_to_regex r)            (* '*'  => ".*" *)
    else if (c =? 63)%N then rcons RAny (glob_to_regex r)           (* '?'  => "."  *)
    else if (c =? 92)%N then                                        (* '\\' => look at the next char *)
      match r with
      | x :: r' => if is_glob_special x then rcons (RLit x) (glob_to_regex r') else Panic 1
      | [] => Panic 2
      end
    else rcons (RLit c) (glob_to_regex r)
  end.

(* what "." accepts *)
Definition any_ok (dotall : bool) (x : char) : bool := dotall || negb (x =? 10)%N.

(* is_match of the anchored atom list on the whole path *)
Fixpoint rmatch (dotall : bool) (r : regex) (p : str) {struct r} : bool :=
  match r with
  | [] => match p with [] => true | _ :: _ => false end
  | RLit c :: r' => match p with x :: p' => (x =? c)%N && rmatch dotall r' p' | [] => false end
  | RAny :: r' => match p with x :: p' => any_ok dotall x && rmatch dotall r' p' | [] => false end
  | RAnyStar :: r' =>
      (fix star (p : str) : bool :=
         rmatch dotall r' p ||
         match p with x :: p' => any_ok dotall x && star p' | [] => false end) p
  end.

(* glob_to_regex(g).is_match(p) *)
Definition glob_match (dotall : bool) (g p : str) : res bool :=
  bind (glob_to_regex g) (fun r => Ok (rmatch dotall r p)).

(* proposed_fixes/C17-invalid-glob-escape.patch turns glob_to_regex into
     try_glob_to_regex(glob) -> Result<Regex, String>       (both panic! arms become Err, and
                                                             Regex::new(..).map_err(..) replaces the unwrap)
     glob_to_regex(glob) = try_glob_to_regex(glob).unwrap_or_else(|e| panic!(..))   (#[cfg(test)] only)
     glob_matches(glob, path) = try_glob_to_regex(glob).map_or(false, |r| r.is_match(path))
   so [glob_to_regex] above stays the model of the panicking function; Err 6 = the Err(String). *)
Definition try_glob_to_regex (g : str) : res regex :=
  match glob_to_regex g with
  | Ok r => Ok r
  | Panic _ => Err 6
  | Err e => Err e
  | OutOfFuel => OutOfFuel
  end.
(* glob::glob_matches of the patched code (named glob_is_match here: [glob_matches] below is the
   specification): a pattern that is not a valid glob matches nothing *)
Definition glob_is_match (dotall : bool) (g p : str) : bool :=
  match try_glob_to_regex g with
  | Ok r => rmatch dotall r p
  | _ => false
  end.

(* ------------------------------------------------------------------------------------------
   Specification (from the property text; nothing below is a transcription of code).
   "'*' matches any run of characters including '/', '?' matches exactly one character, a
   backslash makes the following '*', '?' or backslash literal, and every other character
   matches only itself"; a pattern matches the whole path. *)
Inductive glob_matches : str -> str -> Prop :=
| gm_end : glob_matches [] []
| gm_star : forall g run p, glob_matches g p -> glob_matches (42%N :: g) (run ++ p)
| gm_one : forall g x p, glob_matches g p -> glob_matches (63%N :: g) (x :: p)
| gm_esc : forall g c p, is_glob_special c = true -> glob_matches g p ->
                         glob_matches (92%N :: c :: g) (c :: p)
| gm_lit : forall g c p, is_glob_special c = false -> glob_matches g p ->
                         glob_matches (c :: g) (c :: p).

(* every backslash is followed by '*', '?' or a backslash (DEP-5: anything else is an error) *)
Fixpoint valid_escapes (g : str) : bool :=
  match g with
  | [] => true
  | c :: g' =>
    if (c =? 92)%N then
      match g' with
      | x :: g'' => is_glob_special x && valid_escapes g''
      | [] => false
      end
    else valid_escapes g'
  end.

(* the same specification as a program (used by the runner as a cross-check and mirrored by the
   Python oracle); meaningful on patterns with valid escapes only *)
Fixpoint spec_match (g : str) (p : str) {struct g} : bool :=
  match g with
  | [] => match p with [] => true | _ :: _ => false end
  | c :: g' =>
    if (c =? 42)%N then
      (fix star (p : str) : bool :=
         spec_match g' p || match p with _ :: p' => star p' | [] => false end) p
    else if (c =? 63)%N then match p with _ :: p' => spec_match g' p' | [] => false end
    else if (c =? 92)%N then
      match g' with
      | x :: g'' => match p with y :: p' => (y =? x)%N && spec_match g'' p' | [] => false end
      | [] => false
      end
    else match p with y :: p' => (y =? c)%N && spec_match g' p' | [] => false end
  end.
