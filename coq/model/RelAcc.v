(* Model of the read accessors of the lossless relationship-field reader,
   /repo/debian-control/src/lossless/relations.rs:
     Relations::entries, Relations::substvars, Entry::relations,
     Relation::name / archqual / version / architectures / profiles,
   and of the two small FromStr impls they use (debian-control/src/relations.rs:
   VersionConstraint, BuildProfile).  debversion::Version is an external crate: its
   parse-then-print round trip is modelled by [debversion_roundtrip] (what
   `s.parse::<Version>().unwrap().to_string()` yields), validated by the rel-acc stream.

   Relation::version is modelled as in the code since /repo 0eb8794 (it concatenates the IDENT
   and COLON tokens of the VERSION node); before that fix it took the first IDENT token only, so
   that the version of "a (>= 1:2.0)" -- had the parser accepted it -- would have been "1". *)
From V.model Require Import Base RelLex RelParse.

(* ---- crate::relations::VersionConstraint ---- *)
Inductive vop : Type := VGe | VLe | VEq | VGt | VLt.

Definition vop_text (o : vop) : str :=
  match o with
  | VGe => [62; 61] | VLe => [60; 61] | VEq => [61] | VGt => [62; 62] | VLt => [60; 60]
  end%N.

(* <VersionConstraint as FromStr>::from_str *)
Definition vop_of_text (s : str) : option vop :=
  if str_eqb s [62; 61]%N then Some VGe
  else if str_eqb s [60; 61]%N then Some VLe
  else if str_eqb s [61]%N then Some VEq
  else if str_eqb s [62; 62]%N then Some VGt
  else if str_eqb s [60; 60]%N then Some VLt
  else None.

(* ---- crate::relations::BuildProfile ---- *)
Inductive bprofile : Type := Enabled (s : str) | Disabled (s : str).

(* <BuildProfile as FromStr>::from_str: s.strip_prefix('!') *)
Definition bprofile_of_text (s : str) : bprofile :=
  match s with
  | c :: r => if (c =? 33)%N then Disabled r else Enabled s
  | [] => Enabled s
  end.

(* ---- debversion 0.4.4 (external): Version::from_str followed by Display ----
   from_str matches ^(?:(\d+):)?([A-Za-z0-9.+:~-]+?)(?:-([A-Za-z0-9+.~]+))?$ , parses the
   epoch as u32, and Display prints  [epoch ":"] upstream ["-" revision] : the text comes back
   unchanged except that the epoch is re-printed in canonical decimal.  Err 1: no match;
   Err 2: epoch does not fit u32. *)
Definition is_digit (c : char) : bool := ((48 <=? c) && (c <=? 57))%N.
Definition is_version_char (c : char) : bool :=
  is_ascii_alnum c || (c =? 46)%N || (c =? 43)%N || (c =? 58)%N || (c =? 126)%N || (c =? 45)%N.

Fixpoint uint_of_digits (s : str) : Decimal.uint :=
  match s with
  | [] => Decimal.Nil
  | c :: r =>
    let u := uint_of_digits r in
    match (c - 48)%N with
    | 0 => Decimal.D0 u | 1 => Decimal.D1 u | 2 => Decimal.D2 u | 3 => Decimal.D3 u
    | 4 => Decimal.D4 u | 5 => Decimal.D5 u | 6 => Decimal.D6 u | 7 => Decimal.D7 u
    | 8 => Decimal.D8 u | _ => Decimal.D9 u
    end%N
  end.
Fixpoint digits_of_uint (u : Decimal.uint) : str :=
  match u with
  | Decimal.Nil => []
  | Decimal.D0 u => 48 :: digits_of_uint u | Decimal.D1 u => 49 :: digits_of_uint u
  | Decimal.D2 u => 50 :: digits_of_uint u | Decimal.D3 u => 51 :: digits_of_uint u
  | Decimal.D4 u => 52 :: digits_of_uint u | Decimal.D5 u => 53 :: digits_of_uint u
  | Decimal.D6 u => 54 :: digits_of_uint u | Decimal.D7 u => 55 :: digits_of_uint u
  | Decimal.D8 u => 56 :: digits_of_uint u | Decimal.D9 u => 57 :: digits_of_uint u
  end%N.
Definition u32_max : N := 4294967295%N.

Definition debversion_roundtrip (s : str) : res str :=
  match s with
  | [] => Err 1%N
  | _ =>
    if negb (forallb is_version_char s) then Err 1%N else
    let '(d, r) := span is_digit s in
    match d, r with
    | _ :: _, c :: (_ :: _) as rest =>
      if (c =? 58)%N then
        let e := N.of_uint (uint_of_digits d) in
        if (e <=? u32_max)%N then Ok (digits_of_uint (N.to_uint e) ++ c :: rest) else Err 2%N
      else Ok s
    | _, _ => Ok s
    end
  end.

(* ---- tree helpers ---- *)
(* children_with_tokens().find_map(token of kind k) *)
Fixpoint first_tok_of_kind (k : rkind) (cs : list rtree) : option str :=
  match cs with
  | [] => None
  | Tok k' s :: r => if rkind_eqb k' k then Some s else first_tok_of_kind k r
  | Node _ _ :: r => first_tok_of_kind k r
  end.
(* children().find(node of kind k) *)
Fixpoint first_node_of_kind (k : rkind) (cs : list rtree) : option rtree :=
  match cs with
  | [] => None
  | Node k' l :: r => if rkind_eqb k' k then Some (Node k' l) else first_node_of_kind k r
  | Tok _ _ :: r => first_node_of_kind k r
  end.
Definition tok_texts_of_kind (k : rkind) (cs : list rtree) : list str :=
  flat_map (fun c => match c with Tok k' s => if rkind_eqb k' k then [s] else [] | Node _ _ => [] end) cs.

(* ---- Relations ---- *)
Definition relations_entries (t : rtree) : list rtree := r_entries t.
Definition relations_substvars (t : rtree) : list str := map text (rnodes_of_kind SUBSTVAR t).
(* ---- Entry ---- *)
Definition entry_relations (e : rtree) : list rtree := r_relations e.

(* ---- Relation ---- *)
(* name(): first IDENT token, .unwrap()  -- Panic 10 *)
Definition relation_name (r : rtree) : res str :=
  match first_tok_of_kind IDENT (children r) with Some s => Ok s | None => Panic 10%N end.

Definition relation_archqual (r : rtree) : option str :=
  match first_node_of_kind ARCHQUAL (children r) with
  | Some a => first_tok_of_kind IDENT (children a)
  | None => None
  end.

(* version(): text of the IDENT and COLON tokens of the VERSION node; the CONSTRAINT node's text
   through VersionConstraint::from_str(..).unwrap() -- Panic 11; the version text through
   Version::from_str(..).unwrap() -- Panic 12 *)
Definition version_text_of (cs : list rtree) : str :=
  flat_map (fun c => match c with
                     | Tok k s => if rkind_eqb k IDENT || rkind_eqb k COLON then s else []
                     | Node _ _ => []
                     end) cs.
Definition relation_version (r : rtree) : res (option (vop * str)) :=
  match first_node_of_kind VERSION (children r) with
  | None => Ok None
  | Some vc =>
    match first_node_of_kind CONSTRAINT (children vc) with
    | None => Ok None
    | Some c =>
      match version_text_of (children vc) with
      | [] => Ok None
      | v =>
        match vop_of_text (text c) with
        | None => Panic 11%N
        | Some o =>
          match debversion_roundtrip v with
          | Ok v' => Ok (Some (o, v'))
          | _ => Panic 12%N
          end
        end
      end
    end
  end.

(* architectures() (as of /repo 541b0f5): a NOT token sets a flag, the next IDENT token is returned
   with "!" in front when the flag is set and clears it; every other element is skipped and
   leaves the flag alone ("[! a]" -> "!a", "[!!a]" -> "!a", "[!]" -> nothing).
   Before 541b0f5 only the IDENT tokens were returned and the negation was lost
   (RelParsePre.relation_architectures_pre). *)
Fixpoint arch_fold (cs : list rtree) (negated : bool) : list str :=
  match cs with
  | [] => []
  | Tok k s :: r =>
      if rkind_eqb k NOT then arch_fold r true
      else if rkind_eqb k IDENT then ((if negated then [33%N] else []) ++ s) :: arch_fold r false
      else arch_fold r negated
  | Node _ _ :: r => arch_fold r negated
  end.
Definition relation_architectures (r : rtree) : option (list str) :=
  match first_node_of_kind ARCHITECTURES (children r) with
  | Some a => Some (arch_fold (children a) false)
  | None => None
  end.

(* profiles(): per PROFILES node, the elements between whitespace are concatenated and parsed *)
Definition is_angle (k : rkind) : bool := match k with L_ANGLE | R_ANGLE => true | _ => false end.
Fixpoint profile_fold (cs : list rtree) (cur : list str) (ret : list bprofile) : list bprofile :=
  match cs with
  | [] => match cur with [] => ret | _ => ret ++ [bprofile_of_text (concat cur)] end
  | c :: r =>
    if is_ws_kind (ekind c) then
      match cur with
      | [] => profile_fold r [] ret
      | _ => profile_fold r [] (ret ++ [bprofile_of_text (concat cur)])
      end
    else if is_angle (ekind c) then profile_fold r cur ret
    else profile_fold r (cur ++ [text c]) ret
  end.
Definition relation_profiles (r : rtree) : list (list bprofile) :=
  map (fun p => profile_fold (children p) [] []) (rnodes_of_kind PROFILES r).

(* ---- everything the accessors report, bundled ---- *)
Record relc : Type := mk_relc {
  c_name : str;
  c_qual : option str;
  c_ver : option (vop * str);
  c_archs : option (list str);
  c_profs : list (list bprofile)
}.

Definition relation_acc (r : rtree) : res relc :=
  match relation_name r with
  | Ok n =>
    match relation_version r with
    | Ok v => Ok (mk_relc n (relation_archqual r) v (relation_architectures r) (relation_profiles r))
    | Err e => Err e | Panic p => Panic p | OutOfFuel => OutOfFuel
    end
  | Err e => Err e | Panic p => Panic p | OutOfFuel => OutOfFuel
  end.

Fixpoint res_all {A B} (f : A -> res B) (l : list A) : res (list B) :=
  match l with
  | [] => Ok []
  | x :: r =>
    match f x with
    | Ok y => match res_all f r with Ok ys => Ok (y :: ys) | Err e => Err e | Panic p => Panic p | OutOfFuel => OutOfFuel end
    | Err e => Err e | Panic p => Panic p | OutOfFuel => OutOfFuel
    end
  end.

Definition entry_acc (e : rtree) : res (list relc) := res_all relation_acc (entry_relations e).

(* (entries with their relations, substvars) *)
Definition racc (t : rtree) : res (list (list relc) * list str) :=
  match res_all entry_acc (relations_entries t) with
  | Ok es => Ok (es, relations_substvars t)
  | Err e => Err e | Panic p => Panic p | OutOfFuel => OutOfFuel
  end.
