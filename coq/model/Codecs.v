(* Typed field values and their text form (C18): hand transcription of the FromStr / Display
   pairs of the record and open types.  Enumerations come from gen/Enums_gen.v (see EnumTab.v);
   the functions that embed an enumeration take its table as a parameter.

     debian-control/src/fields.rs           Md5/Sha1/Sha256/Sha512Checksum, PackageListEntry
     debian-control/src/lossless/changes.rs File
     debian-control/src/relations.rs        BuildProfile
     debian-control/src/lib.rs              parse_identity
     dep3/src/fields.rs                     Forwarded, Origin, AppliedUpstream, parse_origin, format_origin
     debian-copyright/src/lib.rs            License
     apt-sources/src/signature.rs           Signature
   (ParsedVcs / Vcs are in Vcs.v.)  No proofs in this file. *)
From V.model Require Import Base CodecStr EnumTab.

(* ------------------------------------------------------------------ checksum records
   The four FromStr bodies are the same text up to the field name:
       let mut parts = s.split_whitespace();
       let h = parts.next().ok_or(..)?;
       let size = parts.next().ok_or(..)?.parse().map_err(..)?;
       let filename = parts.next().ok_or(..)?.to_string();
   Tokens after the third are ignored.  Display: "{} {} {}". *)
Inductive ck_kind : Type := Md5 | Sha1 | Sha256 | Sha512.
Record cksum : Type := { ck_hash : str; ck_size : N; ck_file : str }.

Definition cksum_from_str (k : ck_kind) (s : str) : res cksum :=
  match split_ws s with
  | [] => Err 1
  | h :: r1 =>
    match r1 with
    | [] => Err 2
    | sz :: r2 =>
      bind (parse_usize sz) (fun n =>
        match r2 with
        | [] => Err 3
        | f :: _ => Ok {| ck_hash := h; ck_size := n; ck_file := f |}
        end)
    end
  end.
Definition cksum_to_string (k : ck_kind) (v : cksum) : str :=
  join_sp [ck_hash v; print_usize (ck_size v); ck_file v].

(* ------------------------------------------------------------------ changes::File
   md5sum size section priority filename *)
Record cfile : Type := { cf_md5 : str; cf_size : N; cf_section : str; cf_priority : N; cf_file : str }.

Definition file_from_str (prio : enum_tab) (s : str) : res cfile :=
  match split_ws s with
  | [] => Err 1
  | m :: r1 =>
    match r1 with
    | [] => Err 2
    | sz :: r2 =>
      bind (parse_usize sz) (fun n =>
        match r2 with
        | [] => Err 3
        | sec :: r3 =>
          match r3 with
          | [] => Err 4
          | p :: r4 =>
            bind (enum_parse prio p) (fun pv =>
              match r4 with
              | [] => Err 5
              | f :: _ => Ok {| cf_md5 := m; cf_size := n; cf_section := sec; cf_priority := pv; cf_file := f |}
              end)
          end
        end)
    end
  end.
Definition file_to_string (prio : enum_tab) (v : cfile) : res str :=
  bind (enum_print prio (cf_priority v)) (fun p =>
    Ok (join_sp [cf_md5 v; print_usize (cf_size v); cf_section v; p; cf_file v])).

(* ------------------------------------------------------------------ PackageListEntry
   package type section priority [key=value ...].  `extra` is a HashMap: modelled as an
   association list with distinct keys in insertion order; HashMap::insert overwrites the value
   of an existing key.  Display iterates the map in an arbitrary order: [ple_to_string] takes
   the iteration order as the list it is given ([pl_extra v] or any permutation of it). *)
Record ple : Type := { pl_package : str; pl_type : str; pl_section : str; pl_priority : N;
                       pl_extra : list (str * str) }.

Fixpoint map_insert (k v : str) (m : list (str * str)) : list (str * str) :=
  match m with
  | [] => [(k, v)]
  | (k', v') :: r => if str_eqb k k' then (k, v) :: r else (k', v') :: map_insert k v r
  end.

(* for part in parts { let mut kv = part.split('='); k = kv.next()?; v = kv.next()?; insert } *)
Fixpoint ple_extras (parts : list str) (m : list (str * str)) : res (list (str * str)) :=
  match parts with
  | [] => Ok m
  | p :: r =>
    match split_char 61 p with
    | k :: v :: _ => ple_extras r (map_insert k v m)
    | [_] => Err 6                 (* "Missing value" *)
    | [] => Err 7                  (* "Missing key": unreachable, split yields at least one piece *)
    end
  end.

Definition ple_from_str (prio : enum_tab) (s : str) : res ple :=
  match split_ws s with
  | [] => Err 1
  | pk :: r1 =>
    match r1 with
    | [] => Err 2
    | ty :: r2 =>
      match r2 with
      | [] => Err 3
      | sec :: r3 =>
        match r3 with
        | [] => Err 4
        | p :: r4 =>
          bind (enum_parse prio p) (fun pv =>
          bind (ple_extras r4 []) (fun ex =>
            Ok {| pl_package := pk; pl_type := ty; pl_section := sec; pl_priority := pv; pl_extra := ex |}))
        end
      end
    end
  end.

Definition ple_extra_text (order : list (str * str)) : str :=
  flat_map (fun kv => 32%N :: fst kv ++ 61%N :: snd kv) order.
Definition ple_to_string (prio : enum_tab) (v : ple) (order : list (str * str)) : res str :=
  bind (enum_print prio (pl_priority v)) (fun p =>
    Ok (join_sp [pl_package v; pl_type v; pl_section v; p] ++ ple_extra_text order)).

(* ------------------------------------------------------------------ BuildProfile *)
Inductive build_profile : Type := Enabled (s : str) | Disabled (s : str).
Definition profile_from_str (s : str) : res build_profile :=
  match strip_prefix [33%N] s with          (* s.strip_prefix('!') *)
  | Some r => Ok (Disabled r)
  | None => Ok (Enabled s)
  end.
Definition profile_to_string (v : build_profile) : str :=
  match v with
  | Enabled s => s
  | Disabled s => 33%N :: s
  end.

(* ------------------------------------------------------------------ DEP-3 Forwarded *)
Inductive forwarded : Type := FwNo | FwNotNeeded | FwYes (s : str).
Definition lit_no : str := [110; 111]%N.                                        (* "no" *)
Definition lit_not_needed : str := [110; 111; 116; 45; 110; 101; 101; 100; 101; 100]%N.   (* "not-needed" *)
Definition forwarded_from_str (s : str) : res forwarded :=
  if str_eqb s lit_no then Ok FwNo
  else if str_eqb s lit_not_needed then Ok FwNotNeeded
  else Ok (FwYes s).
Definition forwarded_to_string (v : forwarded) : str :=
  match v with FwNo => lit_no | FwNotNeeded => lit_not_needed | FwYes s => s end.

(* ------------------------------------------------------------------ DEP-3 Origin, AppliedUpstream
   Two Rust types with the same shape and the same code. *)
Inductive commit_or : Type := Commit (s : str) | Other (s : str).
Definition lit_commit : str := [99; 111; 109; 109; 105; 116; 58]%N.            (* "commit:" *)
Definition origin_from_str (s : str) : res commit_or :=
  match strip_prefix lit_commit s with
  | Some r => Ok (Commit r)
  | None => Ok (Other s)
  end.
Definition origin_to_string (v : commit_or) : str :=
  match v with Commit s => lit_commit ++ s | Other s => s end.
Definition applied_from_str (s : str) : res commit_or :=
  match strip_prefix lit_commit s with
  | Some r => Ok (Commit r)
  | None => Ok (Other s)
  end.
Definition applied_to_string (v : commit_or) : str :=
  match v with Commit s => lit_commit ++ s | Other s => s end.

(* parse_origin: `s.splitn(2, sep)`; if the first piece is a category keyword the category is
   set and the remainder (or "" when there is no separator) is the origin text, otherwise the
   whole string is.  format_origin: category.to_string() + sep, then the origin. *)
Definition parse_origin (o : origin_tab) (s : str) : option N * commit_or :=
  let '(first, rest) := match split_once_str (ot_sep_parse o) s with
                        | Some (a, b) => (a, b)
                        | None => (s, [])
                        end in
  let '(cat, body) := match assoc_s first (ot_arms o) with
                      | Some c => (Some c, rest)
                      | None => (None, s)
                      end in
  match strip_prefix lit_commit body with
  | Some r => (cat, Commit r)
  | None => (cat, Other body)
  end.
Definition format_origin (cat : enum_tab) (o : origin_tab) (c : option N) (v : commit_or) : res str :=
  match c with
  | None => Ok (origin_to_string v)
  | Some c => bind (enum_print cat c) (fun k => Ok (k ++ ot_sep_print o ++ origin_to_string v))
  end.

(* ------------------------------------------------------------------ License *)
Inductive license : Type := LName (n : str) | LText (t : str) | LNamed (n t : str).
Definition license_from_str (s : str) : res license :=
  match split_once 10 s with
  | Some (name, rest) => if is_empty name then Ok (LText rest) else Ok (LNamed name rest)
  | None => Ok (LName s)
  end.
Definition license_to_string (v : license) : str :=
  match v with
  | LName n => n
  | LText t => 10%N :: t
  | LNamed n t => n ++ 10%N :: t
  end.

(* ------------------------------------------------------------------ apt-sources Signature
   Display writes KeyBlock(t) as "\n" ++ t and KeyPath(p) as p.

   [signature_from_str] is the reader WITH the proposed fix
   (proposed_fixes/C18-signature-keyblock.patch): one leading "\n" — the one Display writes —
   is taken off before the text is stored in KeyBlock.

   [signature_from_str_unfixed] is the reader as it is in the tree at the time of writing
   (apt-sources/src/signature.rs): any text containing "\n" is stored whole, so the text form of
   KeyBlock(t) reads back as KeyBlock("\n" ++ t) (CodecsP.signature_unfixed_refuted). *)
Inductive signature : Type := KeyBlock (t : str) | KeyPath (p : str).
Definition signature_from_str (s : str) : res signature :=
  match strip_prefix [10%N] s with           (* text.strip_prefix('\n') *)
  | Some r => Ok (KeyBlock r)
  | None => if contains_char 10 s then Ok (KeyBlock s) else Ok (KeyPath s)
  end.
Definition signature_from_str_unfixed (s : str) : res signature :=
  if contains_char 10 s then Ok (KeyBlock s) else Ok (KeyPath s).
Definition signature_to_string (v : signature) : str :=
  match v with
  | KeyBlock t => 10%N :: t
  | KeyPath p => p
  end.

(* ------------------------------------------------------------------ parse_identity
   "Name <email>" or a bare address containing "@". *)
Definition parse_identity (s : str) : res (str * str) :=
  match split_once 60 s with
  | Some (name, email) =>
    match strip_suffix_char 62 email with
    | Some e => Ok (trim name, trim e)
    | None => Err 1
    end
  | None => if contains_char 64 s then Ok ([], trim s) else Err 1
  end.
