(* Model of the editing API of /repo/debian-control/src/lossless/relations.rs over rowan 0.16.1
   mutable trees:

     Relations::{new, get_entry, insert, push, replace, remove_entry}, From<Vec<Entry>>,
     Entry::{new, get_relation, push, replace, remove_relation, remove}, From<Vec<Relation>>,
     Relation::{new, simple, remove, set_version, drop_constraint, set_archqual,
                set_architectures, add_profile, build}, RelationBuilder::build,
     From<lossy::Relation> for Relation, the three FromStr impls (as handles INTO the parsed tree),
     and the accessors name/archqual/version/architectures/profiles/entries/relations.

   rowan, as the code experiences it.  The red layer is modelled by a STORE of trees and HANDLES
   (tree id, path from the root of that tree); every live handle sits in a register and is
   re-based by every mutation, which is what gives handles the identity semantics of
   rowan::SyntaxNode.  The behaviours the code depends on (all read off cursor.rs):
    (i)   children()/children_with_tokens() find the next sibling through the node they yielded
          last; detaching that node ends the iteration.  Hence
    (ii)  splice_children(lo..hi, new) detaches only child [lo] of a non-empty range [m_splice];
    (iii) `self.0 = SyntaxNode::new_root_mut(..)` allocates a new tree: other handles keep
          pointing into the old one [alloc + set_reg];
    (iv)  index() of a detached node is stale: the index cell of a root is kept in its slot
          [s_ridx], set at detach time, and read by `parent.children_with_tokens().nth(self.0.index())`;
    (v)   node.replace_with(green) on a non-root node returns the green of the whole tree's root
          with that node replaced [replace_with];
    (vi)  attach_child first detaches the child, and detach asserts that the tree is mutable:
          splicing a SyntaxNode::new_root(..) (immutable) into a parent panics [Panic 30].
   Green-level functions (GreenNodeData::splice_children, replace_child, GreenNodeBuilder) are
   pure list operations on [rtree].

   The record [variant] says which of the proposed fixes (proposed_fixes/C11-*.patch) are
   applied; [shipped] is the code as it was in /repo at c2fa7c8, before this cone's patches (it
   already had new_root_mut in set_architectures/add_profile, add_profile appending after the
   last PROFILES node, and the builder writing an architecture list only when one was given),
   [fixed] the code with all the patches = the code as it is in /repo now (the eight patches
   C11-01..08 are commits 40d0dc3 .. 12709db, C11-10 in-place splices is 5517d72).

   Panic sites:  30 detach in an immutable tree ("immutable tree")   31 attach into/of an immutable tree
     32 attach beyond the end (Vec::splice range)   33 splice_children on an immutable tree
     40 Relations::replace: get_entry(idx).unwrap()    41 remove_entry: get_entry(idx).unwrap()
     42 Entry::remove: "Unexpected node"               43 Relation::remove: "Unexpected node"
     44/45 `.nth(self.0.index()).unwrap().into_node().unwrap()` after re-rooting
     46 Entry::replace: get_relation(idx).unwrap()     47 usize underflow in Entry::replace
     48 Entry::remove_relation: get_relation(idx).unwrap()
     50 name(): no IDENT token   51 version(): VersionConstraint::from_str(..).unwrap()
   Err codes 90-97 mark states the model itself does not cover (never produced by the streams);
   Err 1-5 are the FromStr errors of RelParse.v.
   No proofs in this file. *)
From V.model Require Import Base RelLex RelParse.
From V.model Require RelAcc.

(* ------------------------------------------------------------------ fixes *)
Record variant := mk_variant {
  fx_insert_first : bool;   (* insert(idx, e) in front of an existing entry always adds ", " *)
  fx_append_sep : bool;     (* appending looks at the last significant child for the separator *)
  fx_pipe : bool;           (* From<Vec<Relation>> emits '|' under kind PIPE *)
  fx_entry_push : bool;     (* Entry::push re-roots onto the new ENTRY, not onto a copy of the ROOT *)
  fx_version_pos : bool;    (* set_version inserts after the architecture qualifier *)
  fx_remove_last : bool;    (* Relation::remove of the only alternative removes the entry *)
  fx_first_substvar : bool; (* Entry::remove: a substitution variable in front counts as an item *)
  fx_replace_ws : bool;     (* Entry::replace strips the new relation's white space token by token *)
  fx_in_place : bool        (* insert/push, Entry::push, set_version, set_architectures, add_profile splice
                               in place (proposed_fixes/C11-10) instead of re-building and re-rooting *)
}.
Definition shipped : variant := mk_variant false false false false false false false false false.
Definition fixed : variant := mk_variant true true true true true true true true true.

(* ------------------------------------------------------------------ lists *)
Definition insert_at {A} (i : nat) (new l : list A) : list A := firstn i l ++ new ++ skipn i l.
Definition remove_nth {A} (i : nat) (l : list A) : list A := firstn i l ++ skipn (S i) l.
Fixpoint upd_nth {A} (i : nat) (f : A -> A) (l : list A) : list A :=
  match l, i with
  | [], _ => []
  | x :: r, O => f x :: r
  | x :: r, S i' => x :: upd_nth i' f r
  end.
Definition set_nth {A} (i : nat) (x : A) (l : list A) : list A := upd_nth i (fun _ => x) l.

Fixpoint split_last {A} (l : list A) : option (list A * A) :=
  match l with
  | [] => None
  | x :: r => match split_last r with
              | Some (p, y) => Some (x :: p, y)
              | None => Some ([], x)
              end
  end.
Fixpoint strip_prefix (p q : list nat) : option (list nat) :=
  match p, q with
  | [], _ => Some q
  | a :: p', b :: q' => if a =? b then strip_prefix p' q' else None
  | _ :: _, [] => None
  end.

Fixpoint find_index {A} (p : A -> bool) (l : list A) : option nat :=
  match l with
  | [] => None
  | x :: r => if p x then Some 0 else option_map S (find_index p r)
  end.
(* position of the n-th element satisfying p: `iter.filter(p).nth(n)` *)
Fixpoint nth_index {A} (p : A -> bool) (n : nat) (l : list A) : option nat :=
  match l with
  | [] => None
  | x :: r => if p x then match n with
                          | O => Some 0
                          | S n' => option_map S (nth_index p n' r)
                          end
              else option_map S (nth_index p n r)
  end.
(* position of the last element satisfying p: `iter.filter(p).last()` *)
Fixpoint last_index {A} (p : A -> bool) (l : list A) : option nat :=
  match l with
  | [] => None
  | x :: r => match last_index p r with
              | Some j => Some (S j)
              | None => if p x then Some 0 else None
              end
  end.
Definition count_if {A} (p : A -> bool) (l : list A) : nat := length (filter p l).

(* ------------------------------------------------------------------ kinds *)
Definition kind_is (k : rkind) (e : rtree) : bool := rkind_eqb (ekind e) k.
Definition node_is (k : rkind) (e : rtree) : bool := is_node e && kind_is k e.
Definition tok_is (k : rkind) (e : rtree) : bool := negb (is_node e) && kind_is k e.
Definition ws_elem (e : rtree) : bool := is_ws_kind (ekind e).
Fixpoint ws_prefix_len (l : list rtree) : nat :=
  match l with
  | c :: r => if ws_elem c then S (ws_prefix_len r) else 0
  | [] => 0
  end.

Definition t_comma : rtree := Tok COMMA [44%N].
Definition t_space : rtree := Tok WHITESPACE [32%N].
Definition t_pipe : rtree := Tok PIPE [124%N].

(* ------------------------------------------------------------------ paths in a tree *)
Fixpoint get_path (t : rtree) (p : list nat) : option rtree :=
  match p with
  | [] => Some t
  | i :: r => match nth_error (children t) i with
              | Some c => get_path c r
              | None => None
              end
  end.
Fixpoint upd_path (t : rtree) (p : list nat) (f : rtree -> rtree) : rtree :=
  match p with
  | [] => f t
  | i :: r => match t with
              | Node k cs => Node k (upd_nth i (fun c => upd_path c r f) cs)
              | Tok _ _ => t
              end
  end.
Definition set_children (cs : list rtree) (n : rtree) : rtree := Node (ekind n) cs.

(* ------------------------------------------------------------------ the store *)
Record hnd := mk_hnd { h_tid : nat; h_path : list nat }.
Record slot := mk_slot {
  s_mut : bool;        (* SyntaxNode::new_root_mut vs new_root *)
  s_ridx : nat;        (* the index cell of the root node: 0, or stale after a detach *)
  s_tree : rtree }.
Record state := mk_state { trees : list slot; regs : list (option hnd) }.
Definition dead_slot : slot := mk_slot true 0 (Tok ERROR []).
(* the register machine starts with its five working registers empty: 0 the root Relations,
   1/3 entry registers 0/1, 2/4 relation registers 0/1 (more are added on demand) *)
Definition empty_state : state := mk_state [] [None; None; None; None; None].

Definition M (A : Type) : Type := state -> res (A * state).
Definition ret {A} (a : A) : M A := fun s => Ok (a, s).
Definition mbind {A B} (m : M A) (f : A -> M B) : M B :=
  fun s => match m s with
           | Ok (a, s') => f a s'
           | Err e => Err e | Panic n => Panic n | OutOfFuel => OutOfFuel
           end.
Definition mpanic {A} (n : N) : M A := fun _ => Panic n.
Definition merr {A} (n : N) : M A := fun _ => Err n.
Notation "x <- c1 ;; c2" := (mbind c1 (fun x => c2)) (at level 61, c1 at next level, right associativity).
Notation "' pat <- c1 ;; c2" := (mbind c1 (fun x => match x with pat => c2 end))
  (at level 61, pat pattern, c1 at next level, right associativity).
Notation "c1 ;; c2" := (mbind c1 (fun _ => c2)) (at level 61, right associativity).

Fixpoint m_repeat (n : nat) (m : M unit) : M unit :=
  match n with O => ret tt | S n' => m ;; m_repeat n' m end.

(* registers *)
Fixpoint set_reg_l (r : nat) (o : option hnd) (l : list (option hnd)) : list (option hnd) :=
  match r, l with
  | O, [] => [o]
  | O, _ :: t => o :: t
  | S r', [] => None :: set_reg_l r' o []
  | S r', x :: t => x :: set_reg_l r' o t
  end.
Definition reg_opt (r : nat) : M (option hnd) :=
  fun s => Ok (match nth_error (regs s) r with Some o => o | None => None end, s).
Definition get_reg (r : nat) : M hnd :=
  o <- reg_opt r ;; match o with Some h => ret h | None => merr 90 end.
Definition set_reg (r : nat) (o : option hnd) : M unit :=
  fun s => Ok (tt, mk_state (trees s) (set_reg_l r o (regs s))).
(* a temporary register for a handle that has to survive a mutation *)
Definition push_tmp (h : hnd) : M nat :=
  fun s => Ok (length (regs s), mk_state (trees s) (regs s ++ [Some h])).
Fixpoint push_tmps (hs : list hnd) : M (list nat) :=
  match hs with
  | [] => ret []
  | h :: r => k <- push_tmp h ;; ks <- push_tmps r ;; ret (k :: ks)
  end.
Definition scoped {A} (m : M A) : M A :=
  fun s => match m s with
           | Ok (a, s') => Ok (a, mk_state (trees s') (firstn (length (regs s)) (regs s')))
           | Err e => Err e | Panic n => Panic n | OutOfFuel => OutOfFuel
           end.

(* trees *)
Definition get_slot (tid : nat) : M slot :=
  fun s => match nth_error (trees s) tid with Some sl => Ok (sl, s) | None => Err 91%N end.
Definition node_of (h : hnd) : M rtree :=
  sl <- get_slot (h_tid h) ;;
  match get_path (s_tree sl) (h_path h) with Some t => ret t | None => merr 92 end.
Definition node_of_reg (r : nat) : M rtree := h <- get_reg r ;; node_of h.
Definition children_of (h : hnd) : M (list rtree) := n <- node_of h ;; ret (children n).
Definition alloc (m : bool) (t : rtree) : M hnd :=
  fun s => Ok (mk_hnd (length (trees s)) [], mk_state (trees s ++ [mk_slot m 0 t]) (regs s)).
Definition child_h (h : hnd) (i : nat) : hnd := mk_hnd (h_tid h) (h_path h ++ [i]).
(* SyntaxNode::parent together with the node's position in it *)
Definition parent_h (h : hnd) : option (hnd * nat) :=
  match split_last (h_path h) with
  | Some (pp, i) => Some (mk_hnd (h_tid h) pp, i)
  | None => None
  end.
(* SyntaxNode::index: the position in the parent, or the stale cell of a root (iv) *)
Definition index_of (h : hnd) : M nat :=
  match parent_h h with
  | Some (_, i) => ret i
  | None => sl <- get_slot (h_tid h) ;; ret (s_ridx sl)
  end.
(* SyntaxNode::replace_with (v): the green of the whole tree with this node replaced *)
Definition replace_with (h : hnd) (g : rtree) : M rtree :=
  sl <- get_slot (h_tid h) ;; ret (upd_path (s_tree sl) (h_path h) (fun _ => g)).

Definition rebase_detach (tid : nat) (pp : list nat) (i newtid : nat) (g : hnd) : hnd :=
  if h_tid g =? tid then
    match strip_prefix pp (h_path g) with
    | Some (j :: rest) =>
        if j =? i then mk_hnd newtid rest
        else if i <? j then mk_hnd tid (pp ++ (j - 1) :: rest)
        else g
    | _ => g
    end
  else g.
Definition rebase_attach (ptid : nat) (pp : list nat) (idx ctid : nat) (g : hnd) : hnd :=
  if h_tid g =? ctid then mk_hnd ptid (pp ++ idx :: h_path g)
  else if h_tid g =? ptid then
    match strip_prefix pp (h_path g) with
    | Some (j :: rest) => if idx <=? j then mk_hnd ptid (pp ++ S j :: rest) else g
    | _ => g
    end
  else g.

(* SyntaxNode::detach / SyntaxToken::detach.  Returns the handle of the detached node, now
   the root of a tree of its own. *)
Definition detach_h (h : hnd) : M hnd :=
  sl <- get_slot (h_tid h) ;;
  if negb (s_mut sl) then mpanic 30 else
  match parent_h h with
  | None => ret h
  | Some (ph, i) =>
    n <- node_of h ;;
    fun s =>
      let newtid := length (trees s) in
      let t' := upd_path (s_tree sl) (h_path ph) (fun p => set_children (remove_nth i (children p)) p) in
      Ok (mk_hnd newtid [],
          mk_state (set_nth (h_tid h) (mk_slot true (s_ridx sl) t') (trees s) ++ [mk_slot true i n])
                   (map (option_map (rebase_detach (h_tid h) (h_path ph) i newtid)) (regs s)))
  end.
Definition m_detach (r : nat) : M unit := h <- get_reg r ;; _ <- detach_h h ;; ret tt.

(* NodeData::attach_child of a parentless child *)
Definition attach_h (ph : hnd) (idx : nat) (ch : hnd) : M unit :=
  psl <- get_slot (h_tid ph) ;;
  csl <- get_slot (h_tid ch) ;;
  if negb (s_mut psl && s_mut csl) then mpanic 31 else
  match h_path ch with
  | _ :: _ => merr 93
  | [] =>
    if h_tid ph =? h_tid ch then merr 97 else
    pn <- node_of ph ;;
    if negb (is_node pn) then merr 94 else
    if length (children pn) <? idx then mpanic 32 else
    fun s =>
      let t' := upd_path (s_tree psl) (h_path ph)
                  (fun p => set_children (insert_at idx [s_tree csl] (children p)) p) in
      Ok (tt, mk_state (set_nth (h_tid ch) dead_slot
                          (set_nth (h_tid ph) (mk_slot true (s_ridx psl) t') (trees s)))
                       (map (option_map (rebase_attach (h_tid ph) (h_path ph) idx (h_tid ch))) (regs s)))
  end.
(* SyntaxNode::attach_child(index, child): child.detach() first (vi) *)
Definition m_attach_child (pr idx cr : nat) : M unit :=
  ch <- get_reg cr ;; _ <- detach_h ch ;;
  ph <- get_reg pr ;; ch' <- get_reg cr ;; attach_h ph idx ch'.
Fixpoint m_attach_all (pr idx : nat) (crs : list nat) : M unit :=
  match crs with
  | [] => ret tt
  | cr :: rest => m_attach_child pr idx cr ;; m_attach_all pr (S idx) rest
  end.
(* SyntaxNode::splice_children(lo..hi, new) on a mutable tree (i, ii) *)
Definition m_splice (pr lo hi : nat) (crs : list nat) : M unit :=
  ph <- get_reg pr ;;
  psl <- get_slot (h_tid ph) ;;
  if negb (s_mut psl) then mpanic 33 else
  cs <- children_of ph ;;
  (if (lo <? hi) && (lo <? length cs) then _ <- detach_h (child_h ph lo) ;; ret tt else ret tt) ;;
  m_attach_all pr lo crs.

(* splice_children(idx..idx, new) with freshly built elements (proposed_fixes/C11-10): every
   maximal run of tokens is made by one call of detached_tokens — the children of a throw-away
   node, collected before the splice, which detaches them one by one —, every node is the root of
   a new tree (a fresh copy for an operand: detached_copy) *)
Fixpoint token_run (l : list rtree) : list rtree * list rtree :=
  match l with
  | Tok k s :: r => let '(a, b) := token_run r in (Tok k s :: a, b)
  | _ => ([], l)
  end.
Fixpoint alloc_fresh (fuel : nat) (new : list rtree) : M (list nat) :=
  match fuel with
  | O => ret []
  | S f =>
    match new with
    | [] => ret []
    | Node k cs :: rest =>
        h <- alloc true (Node k cs) ;; rn <- push_tmp h ;; rs <- alloc_fresh f rest ;; ret (rn :: rs)
    | Tok _ _ :: _ =>
        let '(toks, rest) := token_run new in
        h <- alloc true (Node ROOT toks) ;;
        rt <- push_tmps (map (child_h h) (seq 0 (length toks))) ;;
        rs <- alloc_fresh f rest ;; ret (rt ++ rs)
    end
  end.
Definition m_insert_fresh (r idx : nat) (new : list rtree) : M unit :=
  scoped (regs <- alloc_fresh (length new) new ;; m_splice r idx idx regs).

(* detach the sibling right after / right before the node in register r *)
Definition m_detach_next (r : nat) : M unit :=
  h <- get_reg r ;;
  match parent_h h with
  | Some (ph, i) => _ <- detach_h (child_h ph (S i)) ;; ret tt
  | None => merr 95
  end.
Definition m_detach_prev (r : nat) : M unit :=
  h <- get_reg r ;;
  match parent_h h with
  | Some (ph, S i) => _ <- detach_h (child_h ph i) ;; ret tt
  | _ => merr 95
  end.

(* ------------------------------------------------------------------ pure parts: constructors *)
Inductive vcn : Type := VGe | VLe | VEq | VGt | VLt.
Definition vc_toks (v : vcn) : list rtree :=
  match v with
  | VGe => [Tok R_ANGLE [62]; Tok EQUAL [61]]
  | VLe => [Tok L_ANGLE [60]; Tok EQUAL [61]]
  | VEq => [Tok EQUAL [61]]
  | VGt => [Tok R_ANGLE [62]; Tok R_ANGLE [62]]
  | VLt => [Tok L_ANGLE [60]; Tok L_ANGLE [60]]
  end%N.
Notation verspec := (option (vcn * str)).
(* the VERSION node that Relation::new and set_version build; the version text is what
   debversion's Display prints (modelled external: the text the value was read from) *)
Definition version_node (vc : vcn) (ver : str) : rtree :=
  Node VERSION [Tok L_PARENS [40%N]; Node CONSTRAINT (vc_toks vc); t_space; Tok IDENT ver; Tok R_PARENS [41%N]].
(* Relation::new *)
Definition relation_new (name : str) (v : verspec) : rtree :=
  Node RELATION (Tok IDENT name ::
                 match v with Some (vc, ver) => [t_space; version_node vc ver] | None => [] end).
Definition archqual_node (q : str) : rtree := Node ARCHQUAL [Tok COLON [58%N]; Tok IDENT q].
Fixpoint sep_by {A} (sep : list A) (f : A -> list A) (l : list A) : list A :=
  match l with
  | [] => []
  | [x] => f x
  | x :: r => f x ++ sep ++ sep_by sep f r
  end.
Fixpoint arch_toks (i : nat) (l : list str) : list rtree :=
  match l with
  | [] => []
  | a :: r => (match i with O => [] | S _ => [t_space] end) ++ Tok IDENT a :: arch_toks (S i) r
  end.
Definition architectures_node (archs : list str) : rtree :=
  Node ARCHITECTURES (Tok L_BRACKET [91%N] :: arch_toks 0 archs ++ [Tok R_BRACKET [93%N]]).
Inductive profile : Type := PEnabled (n : str) | PDisabled (n : str).
Fixpoint profile_toks (i : nat) (l : list profile) : list rtree :=
  match l with
  | [] => []
  | p :: r => (match i with O => [] | S _ => [t_space] end) ++
              (match p with
               | PDisabled n => [Tok NOT [33%N]; Tok IDENT n]
               | PEnabled n => [Tok IDENT n]
               end) ++ profile_toks (S i) r
  end.
Definition profiles_node (g : list profile) : rtree :=
  Node PROFILES (Tok L_ANGLE [60%N] :: profile_toks 0 g ++ [Tok R_ANGLE [62%N]]).

(* From<Vec<Relation>> for Entry (inject copies the subtrees) *)
Fixpoint join_relations (v : variant) (i : nat) (rs : list rtree) : list rtree :=
  match rs with
  | [] => []
  | r :: rest => (match i with
                  | O => []
                  | S _ => [t_space; Tok (if fx_pipe v then PIPE else COMMA) [124%N]; t_space]
                  end) ++ r :: join_relations v (S i) rest
  end.
Definition entry_from_relations (v : variant) (rs : list rtree) : rtree := Node ENTRY (join_relations v 0 rs).
(* From<Vec<Entry>> for Relations *)
Fixpoint join_entries (i : nat) (es : list rtree) : list rtree :=
  match es with
  | [] => []
  | e :: rest => (match i with O => [] | S _ => [t_comma; t_space] end) ++ e :: join_entries (S i) rest
  end.
Definition relations_from_entries (es : list rtree) : rtree := Node ROOT (join_entries 0 es).

(* ------------------------------------------------------------------ pure parts: green splices *)
Definition is_entry (e : rtree) : bool := node_is ENTRY e.
Definition is_relation (e : rtree) : bool := node_is RELATION e.
Definition has_kind (k : rkind) (cs : list rtree) : bool := existsb (kind_is k) cs.

(* the last child that is not WHITESPACE/NEWLINE, with the number of such children after it *)
Definition last_significant (cs : list rtree) : option rtree * nat :=
  let n := ws_prefix_len (rev cs) in (hd_error (skipn n (rev cs)), n).

(* Relations::insert: position and new children of the green splice *)
Definition insert_plan (v : variant) (cs : list rtree) (idx : nat) (eg : rtree) : nat * list rtree :=
  let is_empty := negb (has_kind COMMA cs) in
  match nth_index is_entry idx cs with
  | Some ci =>
      (ci, if negb (fx_insert_first v) && (idx =? 0) && is_empty then [eg] else [eg; t_comma; t_space])
  | None =>
      (length cs,
       if fx_append_sep v then
         match last_significant cs with
         | (None, _) => [eg]
         | (Some c, n) => if kind_is COMMA c then (match n with O => [t_space; eg] | S _ => [eg] end)
                          else [t_comma; t_space; eg]
         end
       else if idx =? 0 then [eg] else [t_comma; t_space; eg])
  end.
Definition relations_insert_green (v : variant) (t : rtree) (idx : nat) (eg : rtree) : rtree :=
  let '(pos, new) := insert_plan v (children t) idx eg in
  set_children (insert_at pos new (children t)) t.

(* Entry::push: position and new children *)
Definition entry_push_plan (cs : list rtree) (rg : rtree) : nat * list rtree :=
  let is_empty := negb (existsb (fun c => kind_is PIPE c || kind_is RELATION c) cs) in
  match last_index is_relation cs with
  | Some ci => (S ci, if is_empty then [rg] else [t_space; t_pipe; t_space; rg])
  | None => (length cs, if is_empty then [rg] else [t_pipe; t_space; rg])
  end.
Definition entry_push_green (t : rtree) (rg : rtree) : rtree :=
  let '(pos, new) := entry_push_plan (children t) rg in
  set_children (insert_at pos new (children t)) t.

(* where set_version / set_archqual put a new node: right after the name (index 0 without one) *)
Definition after_name (cs : list rtree) : nat :=
  match find_index (kind_is IDENT) cs with Some i => S i | None => 0 end.
Definition version_pos (v : variant) (cs : list rtree) : nat :=
  if fx_version_pos v then
    match find_index (node_is ARCHQUAL) cs with Some i => S i | None => after_name cs end
  else after_name cs.
Definition architectures_pos (cs : list rtree) : nat :=
  match find_index (node_is PROFILES) cs with Some i => i | None => length cs end.

(* ------------------------------------------------------------------ pure parts: cleanup scans *)
(* Entry::remove, first loop: whitespace after the entry, then a comma; anything else panics.
   Returns how many siblings are detached and whether a comma was among them. *)
Definition entry_remove_scan_next (post : list rtree) : res (nat * bool) :=
  let n := ws_prefix_len post in
  match skipn n post with
  | [] => Ok (n, false)
  | c :: _ => if kind_is COMMA c then Ok (S n, true) else Panic 42
  end.
(* second loop (not the first entry): whitespace before the entry, then a comma unless one was
   removed already *)
Definition entry_remove_scan_prev (removed_comma : bool) (pre : list rtree) : nat :=
  let rp := rev pre in
  let n := ws_prefix_len rp in
  match skipn n rp with
  | c :: _ => if negb removed_comma && kind_is COMMA c then S n else n
  | [] => n
  end.
(* Relation::remove, not first: whitespace, a pipe, whitespace — backwards *)
Definition relation_remove_scan_prev (pre : list rtree) : nat :=
  let rp := rev pre in
  let n := ws_prefix_len rp in
  match skipn n rp with
  | c :: r => if kind_is PIPE c then S n + ws_prefix_len r else n
  | [] => n
  end.
(* first: whitespace, a pipe (anything else panics), whitespace — forwards *)
Definition relation_remove_scan_next (post : list rtree) : res nat :=
  let n := ws_prefix_len post in
  match skipn n post with
  | [] => Ok n
  | c :: r => if kind_is PIPE c then Ok (S n + ws_prefix_len r) else Panic 43
  end.

(* ------------------------------------------------------------------ operations on the store *)
(* Relations::get_entry / Entry::get_relation: the idx-th node child of the kind *)
Definition nth_child_handle (p : rtree -> bool) (r idx : nat) : M (option hnd) :=
  h <- get_reg r ;; cs <- children_of h ;;
  ret (option_map (child_h h) (nth_index p idx cs)).
Definition get_entry (dst src idx : nat) : M bool :=
  o <- nth_child_handle is_entry src idx ;; set_reg dst o ;;
  ret (match o with Some _ => true | None => false end).
Definition get_relation (dst src idx : nat) : M bool :=
  o <- nth_child_handle is_relation src idx ;; set_reg dst o ;;
  ret (match o with Some _ => true | None => false end).

(* `self.0 = SyntaxNode::new_root_mut(green)` *)
Definition reroot_self (r : nat) (mutable : bool) (g : rtree) : M unit :=
  nh <- alloc mutable g ;; set_reg r (Some nh).

(* Relations::insert *)
Definition relations_insert (v : variant) (r idx re : nat) : M unit :=
  h <- get_reg r ;; t <- node_of h ;; eg <- node_of_reg re ;;
  if fx_in_place v then
    let '(pos, new) := insert_plan v (children t) idx eg in
    m_insert_fresh r pos new ;; set_reg re None
  else
    whole <- replace_with h (relations_insert_green v t idx eg) ;;
    reroot_self r true whole ;; set_reg re None.
(* Relations::push *)
Definition relations_push (v : variant) (r re : nat) : M unit :=
  h <- get_reg r ;; cs <- children_of h ;;
  relations_insert v r (count_if is_entry cs) re.
(* Relations::replace *)
Definition relations_replace (r idx re : nat) : M unit :=
  h <- get_reg r ;; cs <- children_of h ;;
  match nth_index is_entry idx cs with
  | None => mpanic 40
  | Some ci => m_splice r ci (S ci) [re] ;; set_reg re None
  end.

(* Entry::remove *)
Definition entry_remove (v : variant) (r : nat) : M unit :=
  h <- get_reg r ;;
  match parent_h h with
  | None => m_detach r
  | Some (ph, i) =>
    pcs <- children_of ph ;;
    let pre := firstn i pcs in
    let post := skipn (S i) pcs in
    let is_first := negb (existsb (fun c => is_entry c || (fx_first_substvar v && node_is SUBSTVAR c)) pre) in
    match entry_remove_scan_next post with
    | Ok (k1, removed_comma) =>
        m_repeat k1 (m_detach_next r) ;;
        (if is_first then m_repeat (ws_prefix_len (skipn k1 post)) (m_detach_next r)
         else m_repeat (entry_remove_scan_prev removed_comma pre) (m_detach_prev r)) ;;
        m_detach r
    | Panic n =>
        (* the whitespace before the unexpected node is detached first *)
        m_repeat (ws_prefix_len post) (m_detach_next r) ;; mpanic n
    | Err e => merr e
    | OutOfFuel => merr 96
    end
  end.
(* Relations::remove_entry; returns the text of the removed entry *)
Definition relations_remove_entry (v : variant) (r idx : nat) : M str :=
  scoped (
    o <- nth_child_handle is_entry r idx ;;
    match o with
    | None => mpanic 41
    | Some eh => re <- push_tmp eh ;; entry_remove v re ;; n <- node_of_reg re ;; ret (text n)
    end).

(* Relation::remove *)
Definition relation_remove (v : variant) (r : nat) : M unit :=
  h <- get_reg r ;;
  match parent_h h with
  | None => m_detach r
  | Some (ph, i) =>
    scoped (
      pcs <- children_of ph ;;
      let pre := firstn i pcs in
      let post := skipn (S i) pcs in
      let is_first := negb (existsb is_relation pre) in
      (if is_first then
         match relation_remove_scan_next post with
         | Ok k => m_repeat k (m_detach_next r)
         | Panic n => m_repeat (ws_prefix_len post) (m_detach_next r) ;; mpanic n
         | Err e => merr e
         | OutOfFuel => merr 96
         end
       else m_repeat (relation_remove_scan_prev pre) (m_detach_prev r)) ;;
      pn <- node_of ph ;;
      if kind_is ENTRY pn then
        rp <- push_tmp ph ;;
        if fx_remove_last v then
          m_detach r ;;
          pcs' <- (ph' <- get_reg rp ;; children_of ph') ;;
          if count_if is_relation pcs' =? 0 then entry_remove v rp else ret tt
        else
          pcs' <- (ph' <- get_reg rp ;; children_of ph') ;;
          if count_if is_relation pcs' =? 0 then entry_remove v rp else m_detach r
      else m_detach r)
  end.
(* Entry::remove_relation; returns the text of the removed relation *)
Definition entry_remove_relation (v : variant) (r idx : nat) : M str :=
  scoped (
    o <- nth_child_handle is_relation r idx ;;
    match o with
    | None => mpanic 48
    | Some rh => rr <- push_tmp rh ;; relation_remove v rr ;; n <- node_of_reg rr ;; ret (text n)
    end).

(* the common tail of Entry::push, set_version, set_architectures, add_profile:
     let new_root = SyntaxNode::new_root[_mut](green);
     if let Some(parent) = self.0.parent() {
         parent.splice_children(self.0.index()..self.0.index() + 1, vec![new_root.into()]);
         self.0 = parent.children_with_tokens().nth(self.0.index()).unwrap().clone().into_node().unwrap();
     } else { self.0 = new_root; }                                                        *)
Definition reroot (r : nat) (mutable : bool) (g : rtree) : M unit :=
  h <- get_reg r ;;
  match parent_h h with
  | None => reroot_self r mutable g
  | Some (ph, si) =>
    nh <- scoped (
      nh <- alloc mutable g ;;
      rn <- push_tmp nh ;; rp <- push_tmp ph ;;
      m_splice rp si (S si) [rn] ;;
      (* self is detached now; its index cell still says si *)
      h' <- get_reg r ;; stale <- index_of h' ;;
      ph' <- get_reg rp ;; pcs <- children_of ph' ;;
      match nth_error pcs stale with
      | None => mpanic 44
      | Some c => if is_node c then ret (child_h ph' stale) else mpanic 45
      end) ;;
    set_reg r (Some nh)
  end.

(* Entry::push *)
Definition entry_push (v : variant) (r rr : nat) : M unit :=
  h <- get_reg r ;; t <- node_of h ;; rg <- node_of_reg rr ;;
  if fx_in_place v then
    let '(pos, new) := entry_push_plan (children t) rg in
    m_insert_fresh r pos new ;; set_reg rr None
  else
    let g := entry_push_green t rg in
    whole <- (if fx_entry_push v then ret g else replace_with h g) ;;
    reroot r true whole ;; set_reg rr None.

(* Entry::replace *)
(* detach the first / the last child of the node in register r *)
Definition m_detach_first (r : nat) : M unit :=
  h <- get_reg r ;; _ <- detach_h (child_h h 0) ;; ret tt.
Definition m_detach_last (r : nat) : M unit :=
  h <- get_reg r ;; cs <- children_of h ;; _ <- detach_h (child_h h (length cs - 1)) ;; ret tt.
(* handles of the leading white space children of a node, and of the trailing ones from the end
   backwards (last_child_or_token, then prev_sibling_or_token) *)
Definition ws_head_handles (h : hnd) (cs : list rtree) : list hnd :=
  map (child_h h) (seq 0 (ws_prefix_len cs)).
Definition ws_tail_handles (h : hnd) (cs : list rtree) : list hnd :=
  map (fun k => child_h h (length cs - 1 - k)) (seq 0 (ws_prefix_len (rev cs))).

Definition entry_replace_shipped (r idx rr : nat) : M unit :=
  scoped (
    h <- get_reg r ;; cs <- children_of h ;;
    match nth_index is_relation idx cs with
    | None => mpanic 46
    | Some oi =>
      let oh := child_h h oi in
      ro <- push_tmp oh ;;
      ncs <- (nh <- get_reg rr ;; children_of nh) ;;
      ocs <- children_of oh ;;
      let new_head_len := ws_prefix_len ncs in
      let new_tail_len := ws_prefix_len (rev ncs) in
      heads <- push_tmps (ws_head_handles oh ocs) ;;
      tails <- push_tmps (ws_tail_handles oh ocs) ;;
      m_splice rr 0 new_head_len heads ;;
      ncs' <- (nh <- get_reg rr ;; children_of nh) ;;
      if length ncs' <? new_tail_len then mpanic 47 else
      let tail_pos := length ncs' - new_tail_len in
      if tail_pos <? new_tail_len then mpanic 47 else
      m_splice rr (tail_pos - new_tail_len) tail_pos (rev tails) ;;
      index <- (oh' <- get_reg ro ;; index_of oh') ;;
      m_splice r index (S index) [rr]
    end) ;;
  set_reg rr None.
(* with proposed_fixes/C11-11: the new relation's white space is detached token by token *)
Definition entry_replace_fixed (r idx rr : nat) : M unit :=
  scoped (
    h <- get_reg r ;; cs <- children_of h ;;
    match nth_index is_relation idx cs with
    | None => mpanic 46
    | Some oi =>
      ro <- push_tmp (child_h h oi) ;;
      ncs <- (nh <- get_reg rr ;; children_of nh) ;;
      m_repeat (ws_prefix_len ncs) (m_detach_first rr) ;;
      m_repeat (ws_prefix_len (rev (skipn (ws_prefix_len ncs) ncs))) (m_detach_last rr) ;;
      oh <- get_reg ro ;; ocs <- children_of oh ;;
      heads <- push_tmps (ws_head_handles oh ocs) ;;
      tails <- push_tmps (ws_tail_handles oh ocs) ;;
      m_splice rr 0 0 heads ;;
      ncs' <- (nh <- get_reg rr ;; children_of nh) ;;
      m_splice rr (length ncs') (length ncs') (rev tails) ;;
      index <- (oh' <- get_reg ro ;; index_of oh') ;;
      m_splice r index (S index) [rr]
    end) ;;
  set_reg rr None.
Definition entry_replace (v : variant) (r idx rr : nat) : M unit :=
  if fx_replace_ws v then entry_replace_fixed r idx rr else entry_replace_shipped r idx rr.

(* Relation::drop_constraint (and set_version(None)) *)
Definition relation_drop_constraint (r : nat) : M bool :=
  h <- get_reg r ;; cs <- children_of h ;;
  match find_index (node_is VERSION) cs with
  | None => ret false
  | Some vi =>
    scoped (
      rv <- push_tmp (child_h h vi) ;;
      m_repeat (ws_prefix_len (rev (firstn vi cs))) (m_detach_prev rv) ;;
      m_detach rv) ;;
    ret true
  end.

(* splice a freshly built (mutable) node over child [lo, hi) of self *)
Definition splice_new (r lo hi : nat) (n : rtree) : M unit :=
  scoped (nh <- alloc true n ;; rn <- push_tmp nh ;; m_splice r lo hi [rn]).

(* Relation::set_archqual *)
Definition relation_set_archqual (r : nat) (q : str) : M unit :=
  h <- get_reg r ;; cs <- children_of h ;;
  match find_index (node_is ARCHQUAL) cs with
  | Some i => splice_new r i (S i) (archqual_node q)
  | None => let idx := after_name cs in splice_new r idx idx (archqual_node q)
  end.

(* Relation::set_version *)
Definition relation_set_version (v : variant) (r : nat) (ver : verspec) : M unit :=
  match ver with
  | None => _ <- relation_drop_constraint r ;; ret tt
  | Some (vc, vs) =>
    h <- get_reg r ;; t <- node_of h ;;
    let cs := children t in
    match find_index (node_is VERSION) cs with
    | Some i => splice_new r i (S i) (version_node vc vs)
    | None =>
      let idx := version_pos v cs in
      if fx_in_place v then m_insert_fresh r idx [t_space; version_node vc vs]
      else reroot r true (set_children (insert_at idx [t_space; version_node vc vs] cs) t)
    end
  end.

(* Relation::set_architectures *)
Definition relation_set_architectures_v (v : variant) (r : nat) (archs : list str) : M unit :=
  h <- get_reg r ;; t <- node_of h ;;
  let cs := children t in
  match find_index (node_is ARCHITECTURES) cs with
  | Some i => splice_new r i (S i) (architectures_node archs)
  | None =>
    let idx := architectures_pos cs in
    if fx_in_place v then m_insert_fresh r idx [t_space; architectures_node archs]
    else reroot r true (set_children (insert_at idx [t_space; architectures_node archs] cs) t)
  end.

(* Relation::add_profile: the new group goes after the last PROFILES node, else at the end *)
Definition relation_add_profile_v (v : variant) (r : nat) (g : list profile) : M unit :=
  h <- get_reg r ;; t <- node_of h ;;
  let cs := children t in
  let idx := match last_index (node_is PROFILES) cs with Some i => S i | None => length cs end in
  if fx_in_place v then m_insert_fresh r idx [t_space; profiles_node g]
  else reroot r true (set_children (insert_at idx [t_space; profiles_node g] cs) t).

(* ------------------------------------------------------------------ building operands *)
Inductive relspec : Type :=
| RSParse (s : str)                                   (* s.parse::<Relation>() *)
| RSSimple (name : str)                               (* Relation::simple *)
| RSNew (name : str) (v : verspec)                    (* Relation::new *)
| RSBuild (name : str) (v : verspec) (q : option str) (archs : option (list str)) (profs : list (list profile))
| RSLossy (name : str) (v : verspec) (q : option str) (archs : option (list str)) (profs : list (list profile)).
Inductive entryspec : Type :=
| ESParse (s : str)                                   (* s.parse::<Entry>() *)
| ESFromVec (l : list relspec)                        (* Entry::from(vec![..]) *)
| ESNewPush (l : list relspec)                        (* Entry::new() and push *)
| ESFromLossy (l : list relspec).                     (* Entry::from(Vec<lossy::Relation>) *)
Inductive initspec : Type :=
| INew | IRelaxed (s : str) | IStrict (s : str) | IFromVec (l : list entryspec).

Definition lift {A} (r : res A) : M A :=
  fun s => match r with Ok a => Ok (a, s) | Err e => Err e | Panic n => Panic n | OutOfFuel => OutOfFuel end.

(* <Relations as FromStr>::from_str: the register holds the root of a new mutable tree *)
Definition relations_parse (dst : nat) (s : str) : M unit :=
  t <- lift (relations_from_str s) ;; h <- alloc true t ;; set_reg dst (Some h).
(* <Entry as FromStr>::from_str: a handle INTO the parsed tree *)
Definition entry_parse (dst : nat) (s : str) : M unit :=
  t <- lift (relations_from_str s) ;;
  match nth_index is_entry 0 (children t), nth_index is_entry 1 (children t) with
  | None, _ => merr 2
  | Some _, Some _ => merr 3
  | Some i, None => h <- alloc true t ;; set_reg dst (Some (child_h h i))
  end.
(* <Relation as FromStr>::from_str *)
Definition relation_parse (dst : nat) (s : str) : M unit :=
  t <- lift (relations_from_str s) ;;
  match nth_index is_entry 0 (children t), nth_index is_entry 1 (children t) with
  | None, _ => merr 2
  | Some _, Some _ => merr 3
  | Some i, None =>
    match nth_error (children t) i with
    | None => merr 92
    | Some e =>
      match nth_index is_relation 0 (children e), nth_index is_relation 1 (children e) with
      | None, _ => merr 4
      | Some _, Some _ => merr 5
      | Some j, None => h <- alloc true t ;; set_reg dst (Some (child_h (child_h h i) j))
      end
    end
  end.

Fixpoint add_profiles_v (v : variant) (r : nat) (gs : list (list profile)) : M unit :=
  match gs with
  | [] => ret tt
  | g :: rest => relation_add_profile_v v r g ;; add_profiles_v v r rest
  end.
(* RelationBuilder::build: the architecture list is written only when .architectures() was called *)
Definition builder_build_v (v : variant) (dst : nat) (name : str) (ver : verspec) (q : option str)
           (archs : option (list str)) (profs : list (list profile)) : M unit :=
  h <- alloc true (relation_new name ver) ;; set_reg dst (Some h) ;;
  (match q with Some q => relation_set_archqual dst q | None => ret tt end) ;;
  (match archs with Some a => relation_set_architectures_v v dst a | None => ret tt end) ;;
  add_profiles_v v dst profs.
Definition build_relation (v : variant) (dst : nat) (sp : relspec) : M unit :=
  match sp with
  | RSParse s => relation_parse dst s
  | RSSimple n => h <- alloc true (relation_new n None) ;; set_reg dst (Some h)
  | RSNew n ver => h <- alloc true (relation_new n ver) ;; set_reg dst (Some h)
  | RSBuild n ver q archs profs => builder_build_v v dst n ver q archs profs
  | RSLossy n ver q archs profs => builder_build_v v dst n ver q archs profs
  end.

(* build the relations one after the other into temporaries; the greens in order *)
Fixpoint build_relation_greens (v : variant) (l : list relspec) : M (list rtree) :=
  match l with
  | [] => ret []
  | sp :: rest =>
      g <- scoped (k <- push_tmp (mk_hnd 0 []) ;; build_relation v k sp ;; node_of_reg k) ;;
      gs <- build_relation_greens v rest ;; ret (g :: gs)
  end.
Fixpoint push_relations (v : variant) (dst : nat) (l : list relspec) : M unit :=
  match l with
  | [] => ret tt
  | sp :: rest =>
      scoped (k <- push_tmp (mk_hnd 0 []) ;; build_relation v k sp ;; entry_push v dst k) ;;
      push_relations v dst rest
  end.
Definition build_entry (v : variant) (dst : nat) (sp : entryspec) : M unit :=
  match sp with
  | ESParse s => entry_parse dst s
  | ESFromVec l | ESFromLossy l =>
      gs <- build_relation_greens v l ;;
      h <- alloc true (entry_from_relations v gs) ;; set_reg dst (Some h)
  | ESNewPush l =>
      h <- alloc true (Node ENTRY []) ;; set_reg dst (Some h) ;; push_relations v dst l
  end.
Fixpoint build_entry_greens (v : variant) (l : list entryspec) : M (list rtree) :=
  match l with
  | [] => ret []
  | sp :: rest =>
      g <- scoped (k <- push_tmp (mk_hnd 0 []) ;; build_entry v k sp ;; node_of_reg k) ;;
      gs <- build_entry_greens v rest ;; ret (g :: gs)
  end.
Definition build_init (v : variant) (sp : initspec) : M unit :=
  match sp with
  | INew => h <- alloc true (relations_from_entries []) ;; set_reg 0 (Some h)
  | IRelaxed s => '(t, _) <- lift (parse_relaxed s true) ;; h <- alloc true t ;; set_reg 0 (Some h)
  | IStrict s => relations_parse 0 s
  | IFromVec l =>
      gs <- build_entry_greens v l ;;
      h <- alloc true (relations_from_entries gs) ;; set_reg 0 (Some h)
  end.

(* ------------------------------------------------------------------ the register machine *)
(* register 0 is the root Relations; entry register k is 1+2k, relation register k is 2+2k *)
Definition ereg (k : nat) : nat := S (2 * k).
Definition rreg (k : nat) : nat := S (S (2 * k)).

Inductive op : Type :=
| OGetEntry (k i : nat) | OGetRel (k m j : nat)
| ONewEntry (k : nat) (e : entryspec) | ONewRel (k : nat) (r : relspec)
| OPush (k : nat) | OInsert (i k : nat) | OReplace (i k : nat) | ORemoveEntry (i : nat)
| OEPush (k m : nat) | OEReplace (k j m : nat) | OERemoveRel (k j : nat) | OERemove (k : nat)
| ORRemove (m : nat) | OSetVersion (m : nat) (v : verspec) | ODropConstraint (m : nat)
| OSetArchqual (m : nat) (q : str) | OSetArchs (m : nat) (l : list str) | OAddProfile (m : nat) (g : list profile).

(* outcome codes: 0 ok  1 skip  2 g1  3 g0  4 n1  5 n0  6 ok1  7 ok0 *)
Definition has_reg (r : nat) : M bool := o <- reg_opt r ;; ret (match o with Some _ => true | None => false end).
Definition reg_text (r : nat) : M (option str) := n <- node_of_reg r ;; ret (Some (text n)).
(* building an operand: an Err leaves the state as it was and clears the register *)
Definition try_build (dst : nat) (m : M unit) : M (N * option str) :=
  fun s => match m s with
           | Ok (_, s') => (t <- reg_text dst ;; ret (4%N, t)) s'
           | Err _ => (set_reg dst None ;; ret (5%N, None)) s
           | Panic n => Panic n
           | OutOfFuel => OutOfFuel
           end.
Definition with_reg (r : nat) (m : M (N * option str)) : M (N * option str) :=
  b <- has_reg r ;; if b then m else ret (1%N, None).
Definition through (r : nat) (m : M unit) : M (N * option str) :=
  with_reg r (m ;; t <- reg_text r ;; ret (0%N, t)).

Definition run_op (v : variant) (o : op) : M (N * option str) :=
  match o with
  | OGetEntry k i => b <- get_entry (ereg k) 0 i ;; ret (if b then 2%N else 3%N, None)
  | OGetRel k m j =>
      b <- has_reg (ereg m) ;;
      if b then b' <- get_relation (rreg k) (ereg m) j ;; ret (if b' then 2%N else 3%N, None)
      else set_reg (rreg k) None ;; ret (3%N, None)
  | ONewEntry k e => try_build (ereg k) (build_entry v (ereg k) e)
  | ONewRel k r => try_build (rreg k) (build_relation v (rreg k) r)
  | OPush k => with_reg (ereg k) (relations_push v 0 (ereg k) ;; ret (0%N, None))
  | OInsert i k => with_reg (ereg k) (relations_insert v 0 i (ereg k) ;; ret (0%N, None))
  | OReplace i k => with_reg (ereg k) (relations_replace 0 i (ereg k) ;; ret (0%N, None))
  | ORemoveEntry i => t <- relations_remove_entry v 0 i ;; ret (0%N, Some t)
  | OEPush k m =>
      with_reg (rreg m) (
        b <- has_reg (ereg k) ;;
        if b then entry_push v (ereg k) (rreg m) ;; t <- reg_text (ereg k) ;; ret (0%N, t)
        else set_reg (rreg m) None ;; ret (1%N, None))
  | OEReplace k j m =>
      with_reg (rreg m) (
        b <- has_reg (ereg k) ;;
        if b then entry_replace v (ereg k) j (rreg m) ;; t <- reg_text (ereg k) ;; ret (0%N, t)
        else set_reg (rreg m) None ;; ret (1%N, None))
  | OERemoveRel k j => through (ereg k) (_ <- entry_remove_relation v (ereg k) j ;; ret tt)
  | OERemove k => through (ereg k) (entry_remove v (ereg k))
  | ORRemove m => through (rreg m) (relation_remove v (rreg m))
  | OSetVersion m ver => through (rreg m) (relation_set_version v (rreg m) ver)
  | ODropConstraint m =>
      with_reg (rreg m) (b <- relation_drop_constraint (rreg m) ;; t <- reg_text (rreg m) ;;
                         ret (if b then 6%N else 7%N, t))
  | OSetArchqual m q => through (rreg m) (relation_set_archqual (rreg m) q)
  | OSetArchs m l => through (rreg m) (relation_set_architectures_v v (rreg m) l)
  | OAddProfile m g => through (rreg m) (relation_add_profile_v v (rreg m) g)
  end.

(* the root's text: Relations::to_string() *)
Definition root_text (s : state) : res str :=
  match node_of_reg 0 s with
  | Ok (n, _) => Ok (text n)
  | Err e => Err e | Panic n => Panic n | OutOfFuel => OutOfFuel
  end.
Definition root_tree (s : state) : res rtree :=
  match node_of_reg 0 s with
  | Ok (n, _) => Ok n
  | Err e => Err e | Panic n => Panic n | OutOfFuel => OutOfFuel
  end.
Definition init_state (v : variant) (sp : initspec) : res state :=
  match build_init v sp empty_state with
  | Ok (_, s) => Ok s
  | Err e => Err e | Panic n => Panic n | OutOfFuel => OutOfFuel
  end.
Fixpoint run_ops (v : variant) (ops : list op) (s : state) : res state :=
  match ops with
  | [] => Ok s
  | o :: rest => match run_op v o s with
                 | Ok (_, s') => run_ops v rest s'
                 | Err e => Err e | Panic n => Panic n | OutOfFuel => OutOfFuel
                 end
  end.

(* ------------------------------------------------------------------ accessors *)
Definition entries (t : rtree) : list rtree := filter is_entry (children t).
Definition relations (e : rtree) : list rtree := filter is_relation (children e).
Definition first_tok_text (k : rkind) (cs : list rtree) : option str :=
  match find (tok_is k) cs with Some c => Some (text c) | None => None end.
(* Relation::name *)
Definition rel_name (r : rtree) : res str :=
  match first_tok_text IDENT (children r) with Some s => Ok s | None => Panic 50 end.
(* Relation::archqual *)
Definition rel_archqual (r : rtree) : option str :=
  match find (node_is ARCHQUAL) (children r) with
  | Some a => first_tok_text IDENT (children a)
  | None => None
  end.
Definition parse_vc (s : str) : option vcn :=
  if str_eqb s [62; 61]%N then Some VGe
  else if str_eqb s [60; 61]%N then Some VLe
  else if str_eqb s [61]%N then Some VEq
  else if str_eqb s [62; 62]%N then Some VGt
  else if str_eqb s [60; 60]%N then Some VLt
  else None.
(* Relation::version: the IDENT and COLON tokens of the VERSION node joined (an epoch is lexed
   IDENT COLON IDENT); None without a CONSTRAINT node or without version text *)
Definition version_text_of (cs : list rtree) : str :=
  flat_map (fun c => if tok_is IDENT c || tok_is COLON c then text c else []) cs.
Definition rel_version (r : rtree) : res verspec :=
  match find (node_is VERSION) (children r) with
  | None => Ok None
  | Some vn =>
    match find (node_is CONSTRAINT) (children vn), version_text_of (children vn) with
    | None, _ => Ok None
    | Some _, [] => Ok None
    | Some c, ver => match parse_vc (text c) with
                     | Some vc => Ok (Some (vc, ver))
                     | None => Panic 51
                     end
    end
  end.
(* Relation::architectures: the IDENT tokens of the first ARCHITECTURES node, "!" in front of
   one that follows a NOT token *)
Fixpoint arch_names (cs : list rtree) (negated : bool) : list str :=
  match cs with
  | [] => []
  | c :: r =>
    if tok_is NOT c then arch_names r true
    else if tok_is IDENT c then (if negated then 33%N :: text c else text c) :: arch_names r false
    else arch_names r negated
  end.
Definition rel_architectures (r : rtree) : option (list str) :=
  match find (node_is ARCHITECTURES) (children r) with
  | Some a => Some (arch_names (children a) false)
  | None => None
  end.
(* Relation::profiles: the pieces between whitespace inside every PROFILES node *)
Definition profile_of_text (s : str) : profile :=
  match s with
  | c :: r => if (c =? 33)%N then PDisabled r else PEnabled s
  | [] => PEnabled s
  end.
Fixpoint profile_group (cs : list rtree) (cur : str) (has : bool) : list profile :=
  match cs with
  | [] => if has then [profile_of_text cur] else []
  | c :: r =>
    if ws_elem c then (if has then profile_of_text cur :: profile_group r [] false else profile_group r [] false)
    else if kind_is L_ANGLE c || kind_is R_ANGLE c then profile_group r cur has
    else profile_group r (cur ++ text c) true
  end.
Definition rel_profiles (r : rtree) : list (list profile) :=
  map (fun p => profile_group (children p) [] false) (filter (node_is PROFILES) (children r)).

Record relrec := mk_relrec {
  rr_name : str; rr_qual : option str; rr_ver : verspec;
  rr_archs : option (list str); rr_profs : list (list profile) }.
Definition relrec_of (r : rtree) : res relrec :=
  match rel_name r, rel_version r with
  | Ok n, Ok v => Ok (mk_relrec n (rel_archqual r) v (rel_architectures r) (rel_profiles r))
  | Panic n, _ => Panic n
  | _, Panic n => Panic n
  | _, _ => Err 96
  end.
Fixpoint mapM {A B} (f : A -> res B) (l : list A) : res (list B) :=
  match l with
  | [] => Ok []
  | x :: r => match f x with
              | Ok y => match mapM f r with
                        | Ok ys => Ok (y :: ys)
                        | Err e => Err e | Panic n => Panic n | OutOfFuel => OutOfFuel
                        end
              | Err e => Err e | Panic n => Panic n | OutOfFuel => OutOfFuel
              end
  end.
(* the list-of-lists view of a field: entries of alternatives *)
Definition structure (t : rtree) : res (list (list relrec)) :=
  mapM (fun e => mapM relrec_of (relations e)) (entries t).

(* Relation::version() hands the version text to debversion: `version.parse::<Version>().unwrap()`.
   What the caller holds is a Version, i.e. (for all this API and its callers can observe) its
   Display text: RelAcc.debversion_roundtrip — the text again, the epoch re-printed in canonical
   decimal; Panic 12 when the text is not a version ("1_2", an epoch above u32::MAX).  [structure]
   above reads the version text AS WRITTEN (no parse: it never panics on it); [structure_d] is what
   the accessors return, with that parse.  A version OPERAND (set_version, Relation::new, the
   builder) is a Version too: the text an operation is given is the Display of one
   ([version_operand] = the text a caller's `text.parse::<Version>()` gives, Err when it is none). *)
Definition version_operand (s : str) : res str := RelAcc.debversion_roundtrip s.
Definition rel_version_d (r : rtree) : res verspec :=
  match rel_version r with
  | Ok (Some (vc, ver)) =>
      match RelAcc.debversion_roundtrip ver with
      | Ok v' => Ok (Some (vc, v'))
      | _ => Panic 12
      end
  | x => x
  end.
Definition relrec_of_d (r : rtree) : res relrec :=
  match rel_name r, rel_version_d r with
  | Ok n, Ok v => Ok (mk_relrec n (rel_archqual r) v (rel_architectures r) (rel_profiles r))
  | Panic n, _ => Panic n
  | _, Panic n => Panic n
  | _, _ => Err 96
  end.
Definition structure_d (t : rtree) : res (list (list relrec)) :=
  mapM (fun e => mapM relrec_of_d (relations e)) (entries t).
