(* Dependency satisfaction (C12).  Transcription of

     debian-control/src/lib.rs               trait VersionLookup and its three impls
     debian-control/src/relations.rs         VersionConstraint (FromStr, Display)
     debian-control/src/lossy/relations.rs   Relation::satisfied_by, Relations::satisfied_by
     debian-control/src/lossless/relations.rs
         Relations::satisfied_by, Entry::satisfied_by, Relation::name, Relation::version,
         Relations::entries, Entry::relations; the constructors Relation::new / simple,
         From<Vec<Relation>> for Entry, From<Vec<Entry>> for Relations and the edits
         Relation::set_version(Some(..)) / set_archqual are those of the C11 cone
         (RelEdit.v, RelEditTree.v: the code as of /repo 5517d72), re-used here with the version
         text supplied by [vshow]

   over an abstract version type: the section takes the version type [V], its comparison
   [vcmp] (<V as Ord>::cmp, which may panic: debversion's does, see DebVersion.v), its reader
   [vparse] (FromStr) and printer [vshow] (Display).  All of `>=, <=, ==, >, <` on
   debversion::Version go through Ord::cmp (PartialOrd::partial_cmp = Some(cmp), and
   PartialEq::eq = (partial_cmp == Some(Equal))), so one comparison function is the whole
   interface.  `Iterator::all` / `Iterator::any` short-circuit, so a panicking alternative
   is only reached if everything before it let the iteration continue: [iter_all] and
   [iter_any] keep that order.

   WHICH LOOKUP FORM CAN BE PASSED WHERE.  `lossy::Relation::satisfied_by(&self, impl VersionLookup)`
   takes any of the three implementations.  The three field/entry-level evaluators
   (`lossy::Relations::satisfied_by`, lossless `Relations::satisfied_by`, `Entry::satisfied_by`)
   take `impl VersionLookup + Copy`; `HashMap<String, Version>` and `(String, Version)` are not
   Copy, so only a closure (or a caller's own Copy type, which is again just a function
   `&str -> Option<Version>`) type-checks there.  The types below say the same: the three
   field/entry-level functions take a function [str -> option V]; only
   [lossy_relation_satisfied_by] takes a [lookup].  [by_relation] is the all/any nesting a caller
   has to write by hand to use a map or a pair on a whole field (the harness does).
   No proofs in this file. *)
From V.model Require Import Base RelLex RelParse DebVersion.
From V.model Require RelEdit RelEditTree.

(* VersionConstraint, in the arm order of the satisfied_by match *)
Inductive vop : Type := OpGe | OpLe | OpEq | OpGt | OpLt.

(* <VersionConstraint as FromStr>::from_str *)
Definition parse_vop (s : str) : option vop :=
  if str_eqb s [62; 61]%N then Some OpGe            (* ">=" *)
  else if str_eqb s [60; 61]%N then Some OpLe       (* "<=" *)
  else if str_eqb s [61]%N then Some OpEq           (* "=" *)
  else if str_eqb s [62; 62]%N then Some OpGt       (* ">>" *)
  else if str_eqb s [60; 60]%N then Some OpLt       (* "<<" *)
  else None.
(* <VersionConstraint as Display>::fmt *)
Definition show_vop (o : vop) : str :=
  match o with
  | OpGe => [62; 61] | OpLe => [60; 61] | OpEq => [61] | OpGt => [62; 62] | OpLt => [60; 60]
  end%N.

(* Iterator::all / Iterator::any over a closure that may panic *)
Fixpoint iter_all {A} (p : A -> res bool) (l : list A) : res bool :=
  match l with
  | [] => Ok true
  | x :: r => match p x with
              | Ok true => iter_all p r
              | other => other
              end
  end.
Fixpoint iter_any {A} (p : A -> res bool) (l : list A) : res bool :=
  match l with
  | [] => Ok false
  | x :: r => match p x with
              | Ok false => iter_any p r
              | other => other
              end
  end.

Definition is_some {A} (o : option A) : bool := match o with Some _ => true | None => false end.

Section Sat.
  Variable V : Type.
  Variable vcmp : V -> V -> res comparison.     (* <V as Ord>::cmp *)
  Variable vparse : str -> option V.            (* <V as FromStr>::from_str; None = Err *)
  Variable vshow : V -> str.                    (* <V as Display>::to_string *)

  (* PartialOrd's provided methods ge/le/gt/lt and debversion's eq, all through cmp *)
  Definition v_ge (a b : V) : res bool := rmap (fun c => match c with Lt => false | _ => true end) (vcmp a b).
  Definition v_le (a b : V) : res bool := rmap (fun c => match c with Gt => false | _ => true end) (vcmp a b).
  Definition v_eq (a b : V) : res bool := rmap (fun c => match c with Eq => true | _ => false end) (vcmp a b).
  Definition v_gt (a b : V) : res bool := rmap (fun c => match c with Gt => true | _ => false end) (vcmp a b).
  Definition v_lt (a b : V) : res bool := rmap (fun c => match c with Lt => true | _ => false end) (vcmp a b).

  (* the five-arm match of both satisfied_by functions *)
  Definition op_test (vc : vop) (actual version : V) : res bool :=
    match vc with
    | OpGe => v_ge actual version
    | OpLe => v_le actual version
    | OpEq => v_eq actual version
    | OpGt => v_gt actual version
    | OpLt => v_lt actual version
    end.

  (* what both evaluators look at in one alternative *)
  Record rel : Type := mk_rel { r_name : str; r_ver : option (vop * V) }.
  Notation field := (list (list rel)).

  (* ---------------- VersionLookup ---------------- *)
  (* HashMap<String, Version>: an association list with unique keys, built by insert *)
  Notation hashmap := (list (str * V)).
  Fixpoint hm_get (m : hashmap) (k : str) : option V :=
    match m with
    | [] => None
    | (k', v) :: r => if str_eqb k k' then Some v else hm_get r k
    end.
  Fixpoint hm_remove (m : hashmap) (k : str) : hashmap :=
    match m with
    | [] => []
    | (k', v) :: r => if str_eqb k k' then hm_remove r k else (k', v) :: hm_remove r k
    end.
  Definition hm_insert (m : hashmap) (k : str) (v : V) : hashmap := (k, v) :: hm_remove m k.
  Definition hm_of_list (l : list (str * V)) : hashmap :=
    fold_left (fun m kv => hm_insert m (fst kv) (snd kv)) l [].

  Inductive lookup : Type :=
  | LMap (m : hashmap)                   (* impl VersionLookup for HashMap<String, Version> *)
  | LFn (f : str -> option V)            (* impl<F: Fn(&str) -> Option<Version>> VersionLookup for F *)
  | LPair (n : str) (v : V).             (* impl VersionLookup for (String, Version) *)

  Definition lookup_version (l : lookup) (name : str) : option V :=
    match l with
    | LMap m => hm_get m name
    | LFn f => f name
    | LPair n v => if str_eqb name n then Some v else None
    end.

  (* ---------------- lossy ---------------- *)
  (* lossy::Relation::satisfied_by *)
  Definition lossy_relation_satisfied_by (r : rel) (pv : lookup) : res bool :=
    let actual := lookup_version pv (r_name r) in
    match r_ver r with
    | Some (vc, version) =>
        match actual with
        | Some actual => op_test vc actual version
        | None => Ok false
        end
    | None => Ok (is_some actual)
    end.
  (* lossy::Relations::satisfied_by(&self, impl VersionLookup + Copy): a closure *)
  Definition lossy_relations_satisfied_by (f : field) (g : str -> option V) : res bool :=
    iter_all (fun e => iter_any (fun r => lossy_relation_satisfied_by r (LFn g)) e) f.
  (* not in the crate: `f.0.iter().all(|e| e.iter().any(|r| r.satisfied_by(pv.clone())))`, the
     only way to evaluate a field against a map or a pair *)
  Definition by_relation (f : field) (pv : lookup) : res bool :=
    iter_all (fun e => iter_any (fun r => lossy_relation_satisfied_by r pv) e) f.

  (* ---------------- lossless, on the syntax tree ---------------- *)
  Definition is_tok_of (k : rkind) (e : rtree) : bool :=
    match e with Tok k' _ => rkind_eqb k' k | Node _ _ => false end.
  Definition is_node_of (k : rkind) (e : rtree) : bool :=
    match e with Node k' _ => rkind_eqb k' k | Tok _ _ => false end.
  (* children_with_tokens().find_map(Token of kind IDENT) *)
  Definition first_ident (e : rtree) : option str :=
    match find (is_tok_of IDENT) (children e) with Some t => Some (text t) | None => None end.

  (* Relation::name : .unwrap() on the IDENT token *)
  Definition ll_name (r : rtree) : res str :=
    match first_ident r with Some s => Ok s | None => Panic 10%N end.

  (* the version text of a VERSION node: its IDENT and COLON tokens joined ("1:2.0" is lexed as
     IDENT COLON IDENT); None when there is none *)
  Definition version_string (vn : rtree) : option str :=
    match concat (map text (filter (fun e => is_tok_of IDENT e || is_tok_of COLON e) (children vn))) with
    | [] => None
    | s => Some s
    end.

  (* Relation::version : two unwrap()s *)
  Definition ll_version (r : rtree) : res (option (vop * V)) :=
    match find (is_node_of VERSION) (children r) with
    | None => Ok None
    | Some vn =>
      match find (is_node_of CONSTRAINT) (children vn), version_string vn with
      | Some cn, Some vt =>
          match parse_vop (text cn) with
          | None => Panic 11%N                      (* constraint.to_string().parse().unwrap() *)
          | Some vc =>
            match vparse vt with
            | None => Panic 12%N                    (* version text .parse().unwrap() *)
            | Some v => Ok (Some (vc, v))
            end
          end
      | _, _ => Ok None
      end
    end.

  (* the closure inside Entry::satisfied_by *)
  Definition ll_relation_satisfied_by (r : rtree) (g : str -> option V) : res bool :=
    bind (ll_name r) (fun name =>
      let actual := lookup_version (LFn g) name in
      bind (ll_version r) (fun ver =>
        match ver with
        | Some (vc, version) =>
            match actual with
            | Some actual => op_test vc actual version
            | None => Ok false
            end
        | None => Ok (is_some actual)
        end)).
  (* Entry::satisfied_by(&self, impl VersionLookup + Copy) *)
  Definition ll_entry_satisfied_by (e : rtree) (g : str -> option V) : res bool :=
    iter_any (fun r => ll_relation_satisfied_by r g) (r_relations e).
  (* Relations::satisfied_by(&self, impl VersionLookup + Copy) *)
  Definition ll_relations_satisfied_by (t : rtree) (g : str -> option V) : res bool :=
    iter_all (fun e => ll_entry_satisfied_by e g) (r_entries t).

  (* what name()/version() report for every alternative of a tree; an error as soon as one of
     them would panic (the evaluator itself may not get that far) *)
  Definition tree_rel (r : rtree) : res rel :=
    bind (ll_name r) (fun n => bind (ll_version r) (fun v => Ok (mk_rel n v))).
  Definition tree_entry (e : rtree) : res (list rel) := mapM tree_rel (r_relations e).
  Definition tree_field (t : rtree) : res field := mapM tree_entry (r_entries t).

  (* ---------------- lossless constructors and edits: those of RelEdit.v ---------------- *)
  Definition vcn_of (o : vop) : RelEdit.vcn :=
    match o with
    | OpGe => RelEdit.VGe | OpLe => RelEdit.VLe | OpEq => RelEdit.VEq | OpGt => RelEdit.VGt | OpLt => RelEdit.VLt
    end.
  Definition verspec_of (vc : option (vop * V)) : option (RelEdit.vcn * str) :=
    match vc with Some (o, v) => Some (vcn_of o, vshow v) | None => None end.
  (* Relation::new(name, version_constraint); Relation::simple(name) = new(name, None) *)
  Definition relation_new (name : str) (vc : option (vop * V)) : rtree :=
    RelEdit.relation_new name (verspec_of vc).
  (* From<Vec<Relation>> for Entry ("|" under kind PIPE since /repo 40d0dc3) *)
  Definition entry_from (rs : list rtree) : rtree := RelEdit.entry_from_relations RelEdit.fixed rs.
  (* From<Vec<Entry>> for Relations *)
  Definition relations_from (es : list rtree) : rtree := RelEdit.relations_from_entries es.

  Definition build_entry (e : list rel) : rtree :=
    entry_from (map (fun r => relation_new (r_name r) (r_ver r)) e).
  Definition build_field (f : field) : rtree := relations_from (map build_entry f).

  (* Relation::set_version(Some((vc, v))): the VERSION child is replaced, or " (op v)" is inserted
     after the architecture qualifier if there is one, else after the name (since /repo 198f3cc;
     RelEditTree.set_version_cs, shown in proofs/RelEditTreeP.v to be what the in-place splice of
     RelEdit.relation_set_version computes) *)
  Definition set_version_some (r : rtree) (vc : vop) (v : V) : rtree :=
    match r with
    | Tok _ _ => r
    | Node k cs => Node k (RelEditTree.set_version_cs (Some (vcn_of vc, vshow v)) cs)
    end.
  (* Relation::set_archqual(q) *)
  Definition set_archqual (r : rtree) (q : str) : rtree :=
    match r with
    | Tok _ _ => r
    | Node k cs => Node k (RelEditTree.set_archqual_cs q cs)
    end.

  (* The harness gives every versioned alternative its constraint through set_version, starting
     from a relation chosen by the alternative's position in its entry (mod 4):
       0  Relation::simple(name)                                   insert after the name
       1  Relation::new(name, (=, v))                              replace the constraint
       2  Relation::simple(name) + set_archqual("any")             insert after the qualifier
       3  "name:any [amd64] <!nocheck>".parse::<Relation>()        the same, on a parsed relation *)
  Definition any_str : str := [97; 110; 121]%N.
  Definition decorated (name : str) : str :=
    name ++ [58; 97; 110; 121; 32; 91; 97; 109; 100; 54; 52; 93; 32; 60; 33; 110; 111; 99; 104; 101; 99; 107; 62]%N.
  Definition sv_start (mode : nat) (name : str) (v : V) : res rtree :=
    match mode with
    | 0 => Ok (relation_new name None)
    | 1 => Ok (relation_new name (Some (OpEq, v)))
    | 2 => Ok (set_archqual (relation_new name None) any_str)
    | _ => relation_from_str (decorated name)
    end.
  Definition sv_relation (mode : nat) (r : rel) : res rtree :=
    match r_ver r with
    | None => Ok (relation_new (r_name r) None)
    | Some (vc, v) => rmap (fun t => set_version_some t vc v) (sv_start mode (r_name r) v)
    end.
  Fixpoint sv_relations (mode : nat) (e : list rel) : res (list rtree) :=
    match e with
    | [] => Ok []
    | r :: e' => bind (sv_relation mode r) (fun t =>
                 bind (sv_relations (match mode with 3 => 0 | m => S m end) e') (fun ts => Ok (t :: ts)))
    end.
  Definition sv_field (f : field) : res rtree :=
    rmap relations_from (mapM (fun e => rmap entry_from (sv_relations 0 e)) f).

  (* ---------------- the specification (Policy §7.1), for a total comparison [cmp] -------- *)
  Definition op_holds (o : vop) (c : comparison) : bool :=
    match o, c with
    | OpLt, Lt => true                              (* <<  strictly earlier *)
    | OpLe, Lt | OpLe, Eq => true                   (* <=  earlier or equal *)
    | OpEq, Eq => true                              (* =   exactly equal *)
    | OpGe, Gt | OpGe, Eq => true                   (* >=  later or equal *)
    | OpGt, Gt => true                              (* >>  strictly later *)
    | _, _ => false
    end.
  Definition rel_ok (cmp : V -> V -> comparison) (installed : str -> option V) (r : rel) : bool :=
    match installed (r_name r) with
    | None => false
    | Some v => match r_ver r with
                | None => true
                | Some (o, w) => op_holds o (cmp v w)
                end
    end.
  Definition satisfied_spec (cmp : V -> V -> comparison) (installed : str -> option V) (f : field) : bool :=
    forallb (existsb (rel_ok cmp installed)) f.

  (* ---------------- reading a structured case ---------------- *)
  (* (name, Some (operator text, version text)) as the generators write it *)
  Notation srel := (str * option (str * str))%type.
  Definition type_rel (s : srel) : option rel :=
    match snd s with
    | None => Some (mk_rel (fst s) None)
    | Some (o, v) =>
      match parse_vop o, vparse v with
      | Some vc, Some ver => Some (mk_rel (fst s) (Some (vc, ver)))
      | _, _ => None
      end
    end.
  Fixpoint opt_all {A B} (f : A -> option B) (l : list A) : option (list B) :=
    match l with
    | [] => Some []
    | x :: r => match f x, opt_all f r with Some y, Some ys => Some (y :: ys) | _, _ => None end
    end.
  Definition type_field (s : list (list srel)) : option field := opt_all (opt_all type_rel) s.
  Definition type_assignment (a : list (str * str)) : option (list (str * V)) :=
    opt_all (fun kv => match vparse (snd kv) with Some v => Some (fst kv, v) | None => None end) a.

  (* the closure the harness passes: scan the assignment, later bindings win *)
  Fixpoint find_last (l : list (str * V)) (n : str) : option V :=
    match l with
    | [] => None
    | (k, v) :: r => match find_last r n with Some w => Some w | None => if str_eqb n k then Some v else None end
    end.
End Sat.

Arguments mk_rel {V}.
Arguments r_name {V}.
Arguments r_ver {V}.
Arguments LMap {V}.
Arguments LFn {V}.
Arguments LPair {V}.
Arguments lookup_version {V}.
Arguments hm_get {V}.
Arguments hm_of_list {V}.
Arguments find_last {V}.
Arguments rel_ok {V}.
Arguments satisfied_spec {V}.

(* ---------------- Display for debversion::Version (used by Relation::new) ---------------- *)
Fixpoint dec_digits (fuel : nat) (n : N) (acc : str) : str :=
  match fuel with
  | O => acc
  | S f => let acc' := (48 + N.modulo n 10)%N :: acc in
           if (n <? 10)%N then acc' else dec_digits f (N.div n 10) acc'
  end.
Definition show_dec (n : N) : str := dec_digits (S (N.to_nat (N.log2 n))) n [].
Definition show_version (v : version) : str :=
  (match epoch v with Some e => show_dec e ++ [58%N] | None => [] end)
  ++ upstream v
  ++ (match revision v with Some r => 45%N :: r | None => [] end).

(* ---------------- instances for debversion::Version, called by the runner ---------------- *)
Notation drel := (rel version).
Definition deb_type_field := type_field version parse_version.
Definition deb_type_assignment := type_assignment version parse_version.
Definition deb_lossy_sat := lossy_relations_satisfied_by version ver_cmp.
Definition deb_lossy_rel_sat := lossy_relation_satisfied_by version ver_cmp.
Definition deb_ll_sat := ll_relations_satisfied_by version ver_cmp parse_version.
Definition deb_ll_entry_sat := ll_entry_satisfied_by version ver_cmp parse_version.
Definition deb_build_field := build_field version show_version.
Definition deb_sv_field := sv_field version show_version.
Definition deb_by_relation := by_relation version ver_cmp.
Definition deb_spec := @satisfied_spec version vcmp.
