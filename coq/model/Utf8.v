(* Byte level of Rust `&str`: a string stays a list of Unicode scalar values (Base.str); the byte
   level is represented by BYTE OFFSETS into it.  An offset is a character boundary when it is the
   sum of the UTF-8 lengths of a prefix of the string; slicing (`&s[a..]`, `&s[..b]`, `&s[a..b]`,
   `split_at`) at any other offset, or beyond the end, panics — exactly the semantics of
   core::str (`is_char_boundary`, `slice_error_fail`).  `enc` materialises the bytes and
   `is_char_boundary_bytes` is the test core::str performs on them; proofs/Utf8P.v shows that it
   agrees with `is_boundary`.  No proofs in this file. *)
From V.model Require Import Base.

(* char::len_utf8 *)
Definition ulen (c : char) : nat :=
  if (c <? 128)%N then 1 else if (c <? 2048)%N then 2 else if (c <? 65536)%N then 3 else 4.

(* str::len: the length in bytes *)
Fixpoint len_b (s : str) : nat :=
  match s with
  | [] => 0
  | c :: r => ulen c + len_b r
  end.

(* the UTF-8 encoding (scalar values below 0x110000) *)
Definition enc1 (c : char) : list N :=
  (if c <? 128 then [c]
   else if c <? 2048 then [192 + c / 64; 128 + c mod 64]
   else if c <? 65536 then [224 + c / 4096; 128 + (c / 64) mod 64; 128 + c mod 64]
   else [240 + c / 262144; 128 + (c / 4096) mod 64; 128 + (c / 64) mod 64; 128 + c mod 64])%N.
Definition enc (s : str) : list N := flat_map enc1 s.

(* str::is_char_boundary as core::str computes it on the bytes: index 0, index len, or a byte
   that is not a continuation byte 10xxxxxx *)
Definition is_char_boundary_bytes (bytes : list N) (off : nat) : bool :=
  match off with
  | O => true
  | _ => match nth_error bytes off with
         | Some b => (b <? 128)%N || (192 <=? b)%N
         | None => Nat.eqb off (length bytes)
         end
  end.

(* the same on the scalar-value representation: off is the byte length of a prefix *)
Fixpoint is_boundary (s : str) (off : nat) {struct s} : bool :=
  match off with
  | O => true
  | _ => match s with
         | [] => false
         | c :: r => if ulen c <=? off then is_boundary r (off - ulen c) else false
         end
  end.

(* Panic sites of slicing *)
Definition site_not_boundary : N := 40.   (* "byte index N is not a char boundary" *)
Definition site_out_of_range : N := 41.   (* "byte index N is out of bounds" / begin > end *)

(* str::split_at(off) *)
Fixpoint split_at_b (s : str) (off : nat) {struct s} : res (str * str) :=
  match off with
  | O => Ok ([], s)
  | _ => match s with
         | [] => Panic site_out_of_range
         | c :: r =>
           if ulen c <=? off then
             match split_at_b r (off - ulen c) with
             | Ok (a, b) => Ok (c :: a, b)
             | Err e => Err e | Panic n => Panic n | OutOfFuel => OutOfFuel
             end
           else Panic site_not_boundary
         end
  end.

(* &s[off..] , &s[..off] , &s[a..b] *)
Definition slice_from_b (s : str) (off : nat) : res str := rmap snd (split_at_b s off).
Definition slice_to_b (s : str) (off : nat) : res str := rmap fst (split_at_b s off).
Definition slice_b (s : str) (a b : nat) : res str :=
  if b <? a then Panic site_out_of_range
  else bind (slice_to_b s b) (fun p => slice_from_b p a).

(* str::find(|c| p c): byte offset of the first character satisfying p *)
Fixpoint find_b (p : char -> bool) (s : str) : option nat :=
  match s with
  | [] => None
  | c :: r => if p c then Some 0
              else match find_b p r with Some n => Some (ulen c + n) | None => None end
  end.

(* str::find(&str): byte offset of the first occurrence of pat *)
Fixpoint prefix_b (pat s : str) : bool :=
  match pat, s with
  | [], _ => true
  | _ :: _, [] => false
  | a :: p', b :: s' => (a =? b)%N && prefix_b p' s'
  end.
Fixpoint find_str_b (pat s : str) : option nat :=
  if prefix_b pat s then Some 0
  else match s with
       | [] => None
       | c :: r => match find_str_b pat r with Some n => Some (ulen c + n) | None => None end
       end.
