(* Specification side of C04H: what a history issued through HANDLES amounts to in the pure model
   of C04/C05 (Deb822Edit.v, tstep2 of LiveParaP.v).

   The abstract state is the document tree, the paragraphs that are not (or no longer) part of it
   — removed by remove_paragraph, or built free-standing — and, for every paragraph register, what
   its handle denotes: the paragraph that is CURRENTLY the n-th paragraph of the document
   ([Live n]), or one of the detached paragraphs ([Dead j]).  [hstep] says how every instruction
   of the register machine of Deb822Store.v changes this: an edit through [Live n] is the pure
   model's edit of paragraph n; an edit through [Dead j] edits that detached paragraph and nothing
   else (it is observable through the handles of that paragraph only, never in the document);
   inserting and removing paragraphs shifts the positions the handles denote
   ([shift_insert], [shift_remove]), the handle of a removed paragraph becomes [Dead].
   proofs/Deb822HandlesP.v proves that the store machine refines this. *)
From V.model Require Import Base Deb822Lex Deb822Parse Deb822Edit Deb822Store.
From V.proofs Require Import LiveDocP LiveParaP.

Inductive href : Type := Live (n : nat) | Dead (j : nat).
Record astate := mk_astate { a_doc : tree; a_dead : list tree; a_regs : list (option href) }.

Definition npara (t : tree) : nat := length (paragraphs t).
Fixpoint set_opt {A} (r : nat) (o : option A) (l : list (option A)) : list (option A) :=
  match r, l with
  | O, [] => [o]
  | O, _ :: t => o :: t
  | S r', [] => None :: set_opt r' o []
  | S r', x :: t => x :: set_opt r' o t
  end.
(* a paragraph operation on a detached paragraph *)
Definition pmap (f : list tree -> list tree) (P : tree) : tree := Node (ekind P) (f (children P)).

Definition shift_insert (p : nat) (h : href) : href :=
  match h with Live n => Live (if p <=? n then S n else n) | Dead j => Dead j end.
Definition shift_remove (i newdead : nat) (h : href) : href :=
  match h with
  | Live n => if n =? i then Dead newdead else Live (if i <? n then n - 1 else n)
  | Dead j => Dead j
  end.

(* an edit through paragraph register k *)
Definition on_reg (a : astate) (k : nat) (o : nat -> fop) (f : list tree -> list tree) : astate :=
  match nth_error (a_regs a) k with
  | Some (Some (Live n)) => mk_astate (tstep2 (a_doc a) (DF (o n))) (a_dead a) (a_regs a)
  | Some (Some (Dead j)) => mk_astate (a_doc a) (upd_nth j (pmap f) (a_dead a)) (a_regs a)
  | _ => a
  end.

Definition hstep (o : hop) (a : astate) : astate :=
  match o with
  | HPara dst i =>
      mk_astate (a_doc a) (a_dead a)
                (set_opt dst (if i <? npara (a_doc a) then Some (Live i) else None) (a_regs a))
  | HNewPara dst l =>
      mk_astate (a_doc a) (a_dead a ++ [paragraph_of_pairs l]) (set_opt dst (Some (Dead (length (a_dead a)))) (a_regs a))
  | HSet k key v => on_reg a k (fun n => OSet n key v) (fun cs => para_set cs key v)
  | HInsert k key v => on_reg a k (fun n => OInsert n key v) (fun cs => para_insert cs key v)
  | HRemove k key => on_reg a k (fun n => ORemove n key) (fun cs => para_remove cs key)
  | HRename k old new => on_reg a k (fun n => ORename n old new) (fun cs => fst (para_rename cs old new))
  | HAdd dst =>
      mk_astate (tstep2 (a_doc a) DAdd) (a_dead a) (set_opt dst (Some (Live (npara (a_doc a)))) (a_regs a))
  | HInsertP dst i =>
      let p := Nat.min i (npara (a_doc a)) in
      mk_astate (tstep2 (a_doc a) (DInsert i)) (a_dead a)
                (set_opt dst (Some (Live p)) (map (option_map (shift_insert p)) (a_regs a)))
  | HRemoveP i =>
      match nth_error (paragraphs (a_doc a)) i with
      | Some P => mk_astate (tstep2 (a_doc a) (DRemove i)) (a_dead a ++ [P])
                            (map (option_map (shift_remove i (length (a_dead a)))) (a_regs a))
      | None => a
      end
  end.
Definition hsteps (ops : list hop) (a : astate) : astate := fold_left (fun a o => hstep o a) ops a.

(* the operations of the pure model that the document undergoes *)
Definition htrace1 (o : hop) (a : astate) : list dop :=
  let through k (mk : nat -> fop) :=
    match nth_error (a_regs a) k with Some (Some (Live n)) => [DF (mk n)] | _ => [] end in
  match o with
  | HPara _ _ | HNewPara _ _ => []
  | HSet k key v => through k (fun n => OSet n key v)
  | HInsert k key v => through k (fun n => OInsert n key v)
  | HRemove k key => through k (fun n => ORemove n key)
  | HRename k old new => through k (fun n => ORename n old new)
  | HAdd _ => [DAdd]
  | HInsertP _ i => [DInsert i]
  | HRemoveP i => match nth_error (paragraphs (a_doc a)) i with Some _ => [DRemove i] | None => [] end
  end.
Fixpoint htrace (ops : list hop) (a : astate) : list dop :=
  match ops with
  | [] => []
  | o :: rest => htrace1 o a ++ htrace rest (hstep o a)
  end.

(* the start: a document, no detached paragraph, nregs empty paragraph registers *)
Definition astart (t : tree) (nregs : nat) : astate := mk_astate t [] (repeat None nregs).

(* documents whose root has only nodes as children: every parsed document, every document built
   by the constructors, every live document *)
Definition doc_ok (t : tree) : Prop := exists rs, t = Node ROOT rs /\ forallb is_node rs = true.
