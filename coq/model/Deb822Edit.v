(* Model of the editing API of /repo/src/lossless.rs over the tree model of Base.v:
   Entry::new, Paragraph::{new, set, insert, remove, rename, FromIterator},
   Deb822::{new, add_paragraph, insert_paragraph, remove_paragraph, FromIterator},
   and the helper ensure_trailing_newline.

   rowan: the document is ONE mutable tree; a Paragraph handle is a node of that tree, so an
   edit through any handle is an edit of the tree (modelled as a pure update of the root at the
   paragraph's position).  The three rowan behaviours the code depends on are modelled as the
   code experiences them: (i) detaching the node an iteration is standing on ends the
   iteration; (ii) splice_children(i..i+1, new) therefore replaces exactly child i, and
   splice_children(i..i, new) inserts at i; (iii) a node spliced into a tree becomes part of it
   (the handle returned by add/insert_paragraph edits the document). *)
From V.model Require Import Base Deb822Lex Deb822Parse Grammar.

(* ---------------- Entry::new ---------------- *)
Fixpoint value_line_elems (i : nat) (ls : list str) : list tree :=
  match ls with
  | [] => []
  | l :: r => (match i with O => [] | S _ => [Tok INDENT [32%N]] end)
              ++ [Tok VALUE l; Tok NEWLINE [10%N]] ++ value_line_elems (S i) r
  end.
Definition entry_new (k v : str) : tree :=
  Node ENTRY (Tok KEY k :: Tok COLON [58%N] :: Tok WHITESPACE [32%N] :: value_line_elems 0 (split_lf v)).

(* impl FromIterator<(K, V)> for Paragraph / Paragraph::new *)
Definition paragraph_of_pairs (l : list (str * str)) : tree :=
  Node PARAGRAPH (map (fun kv => entry_new (fst kv) (snd kv)) l).
(* ---------------- ensure_trailing_newline ---------------- *)
(* node.last_token(): the last child's last token, recursively; None when the last child is a
   node without tokens.  If it is not a NEWLINE, a NEWLINE "\n" is inserted right after it. *)
Fixpoint ensure_nl (t : tree) : tree :=
  match t with
  | Tok _ _ => t
  | Node k cs =>
    Node k ((fix go (l : list tree) : list tree :=
               match l with
               | [] => []
               | [x] => match x with
                        | Tok NEWLINE _ => [x]
                        | Tok _ _ => [x; Tok NEWLINE [10%N]]
                        | Node _ _ => [ensure_nl x]
                        end
               | x :: r => x :: go r
               end) cs)
  end.
Definition ensure_nl_list (cs : list tree) : list tree := children (ensure_nl (Node ROOT cs)).

(* impl FromIterator<Paragraph> for Deb822 / Deb822::new.  Every paragraph that is followed by another
   one is terminated first (fix 316b0fc; before it a parsed paragraph without final line end was
   fused with the next: "A: 1" ++ blank line ++ "B: 2" printed "A: 1\nB: 2"). *)
Definition blank_line_node : tree := Node EMPTY_LINE [Tok NEWLINE [10%N]].
Fixpoint join_paras (i : nat) (ps : list tree) : list tree :=
  match ps with
  | [] => []
  | p :: r => (match i with O => [] | S _ => [blank_line_node] end)
              ++ (match r with [] => p | _ => ensure_nl p end) :: join_paras (S i) r
  end.
Definition deb822_of_paragraphs (ps : list tree) : tree := Node ROOT (join_paras 0 ps).
(* the code before fix 316b0fc *)
Fixpoint join_paras_before_fix (i : nat) (ps : list tree) : list tree :=
  match ps with
  | [] => []
  | p :: r => (match i with O => [] | S _ => [blank_line_node] end) ++ p :: join_paras_before_fix (S i) r
  end.

(* ---------------- Paragraph edits (on the PARAGRAPH node's children) ---------------- *)
Definition entry_has_key (k : str) (e : tree) : bool :=
  is_node e && is_kind ENTRY e && opt_str_eqb (entry_key e) k.

(* replace the first element satisfying p *)
Fixpoint replace_first (p : tree -> bool) (f : tree -> tree) (cs : list tree) : option (list tree) :=
  match cs with
  | [] => None
  | x :: r => if p x then Some (f x :: r)
              else match replace_first p f r with Some r' => Some (x :: r') | None => None end
  end.

Definition para_insert (cs : list tree) (k v : str) : list tree := ensure_nl_list cs ++ [entry_new k v].
Definition para_set (cs : list tree) (k v : str) : list tree :=
  match replace_first (entry_has_key k) (fun _ => entry_new k v) cs with
  | Some cs' => cs'
  | None => para_insert cs k v
  end.
Definition para_remove (cs : list tree) (k : str) : list tree :=
  filter (fun e => negb (entry_has_key k e)) cs.
Definition para_rename (cs : list tree) (old new : str) : list tree * bool :=
  match replace_first (entry_has_key old) (fun e => entry_new new (entry_value e)) cs with
  | Some cs' => (cs', true)
  | None => (cs, false)
  end.

(* ---------------- applying an edit to the i-th paragraph of the document ---------------- *)
Definition is_paragraph (e : tree) : bool := is_node e && is_kind PARAGRAPH e.
(* apply f to the children of the n-th PARAGRAPH child of the root's children rs *)
Fixpoint map_nth_para (n : nat) (f : list tree -> list tree) (rs : list tree) : list tree :=
  match rs with
  | [] => []
  | x :: r =>
    if is_paragraph x then
      match n with
      | O => Node PARAGRAPH (f (children x)) :: r
      | S n' => x :: map_nth_para n' f r
      end
    else x :: map_nth_para n f r
  end.
Definition on_para (t : tree) (n : nat) (f : list tree -> list tree) : tree :=
  Node ROOT (map_nth_para n f (children t)).

(* ---------------- Deb822 paragraph operations (on the ROOT's children) ---------------- *)
(* slot (index among all children) of the n-th PARAGRAPH *)
Fixpoint para_slot (n : nat) (rs : list tree) (i : nat) : option nat :=
  match rs with
  | [] => None
  | x :: r => if is_paragraph x then match n with O => Some i | S n' => para_slot n' r (S i) end
              else para_slot n r (S i)
  end.
Definition convert_index (rs : list tree) (index : nat) : option nat :=
  match index with O => Some 0 | _ => para_slot index rs 0 end.

Fixpoint insert_at {A} (i : nat) (new : list A) (l : list A) : list A :=
  match i, l with
  | O, _ => new ++ l
  | S i', x :: r => x :: insert_at i' new r
  | S _, [] => new          (* attach beyond the end: rowan appends *)
  end.
Fixpoint delete_at {A} (i : nat) (l : list A) : list A :=
  match i, l with
  | _, [] => []
  | O, _ :: r => r
  | S i', x :: r => x :: delete_at i' r
  end.

Definition count_nodes (rs : list tree) : nat := length (filter is_node rs).

Definition insert_empty_paragraph (rs : list tree) (index : option nat) : list tree :=
  let rs := match index with None => ensure_nl_list rs | Some _ => rs end in
  let p := Node PARAGRAPH [] in
  let has := match count_nodes rs with O => false | _ => true end in
  match index with
  | Some i => insert_at i (if has then [p; blank_line_node] else [p]) rs
  | None => insert_at (count_nodes rs) (if has then [blank_line_node; p] else [p]) rs
  end.

Definition add_paragraph (t : tree) : tree := Node ROOT (insert_empty_paragraph (children t) None).
Definition insert_paragraph (t : tree) (index : nat) : tree :=
  Node ROOT (insert_empty_paragraph (children t) (convert_index (children t) index)).

(* delete_trailing_space(start): removes the child at [start] if it is an EMPTY_LINE (the loop
   detaches the node it stands on, which ends it: one blank line at most) *)
Definition delete_trailing_space (rs : list tree) (start : nat) : list tree :=
  match nth_error rs start with
  | Some x => if kind_eqb (ekind x) EMPTY_LINE then delete_at start rs else rs
  | None => rs
  end.
Definition remove_paragraph (t : tree) (index : nat) : tree :=
  match para_slot index (children t) 0 with
  | Some slot => Node ROOT (delete_trailing_space (delete_at slot (children t)) slot)
  | None => t
  end.
