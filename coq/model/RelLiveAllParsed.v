(* Operands obtained by PARSING, on the liberal live layouts of RelLiveAll.v (the mirror of the last
   part of RelLive.v): Entry::from_str / Relation::from_str of ANY text they accept — a text read
   (strictly) without error that holds exactly one entry (for a relation: with exactly one relation).
   Such a text is: white space, any number of EMPTY items "," ws, the entry r ("|" ws r')*, any
   number of empty items "," ws  (proofs/RelLiveAllParsedP.entry_text_cover: every accepted text is
   the rendering of one of these layouts).  The operand handle points INTO the parsed tree; an edit
   that attaches it detaches it from there first.  The white space after the entry's last relation
   goes with that relation, with the entry or stays outside exactly as the parser decides
   (RelLiveAll.lentry_of / lrel_of with last = "no item follows"), and Entry::replace strips it from
   the new relation again (RelLiveAll.a_ereplace).  Specification side.  Definitions only. *)
From V.model Require Import Base RelLex RelParse RelAcc RelGrammar RelGrammarAll.
From V.model Require Import RelEdit RelEditSpec RelEditTree RelLiveAll.

(* the layout of a text with exactly one entry: [pre] = the white space after each "," before the
   entry, [post] = the white space after each "," after it *)
Definition emp (w : list rtoken) : list rtoken * aitem := (w, AEmpty).
Fixpoint place (w : list rtoken) (pre : list (list rtoken)) (e : aitem) (post : list (list rtoken * aitem))
  : list (list rtoken * aitem) :=
  match pre with
  | [] => (w, e) :: post
  | w' :: pre' => (w, AEmpty) :: place w' pre' e post
  end.
Definition entry_afield (lead : list rtoken) (pre : list (list rtoken)) (r : arel) (alts : list (list rtoken * arel))
           (post : list (list rtoken)) : afield :=
  match pre with
  | [] => mk_afield lead (AEntry r alts) (map emp post)
  | w :: pre' => mk_afield lead AEmpty (place w pre' (AEntry r alts) (map emp post))
  end.
Definition entry_text lead pre r alts post : str := arender (entry_afield lead pre r alts post).
(* where the parser puts the entry *)
Definition comma_w (w : list rtoken) : list rtoken := (COMMA, [44%N]) :: w.
Definition pre_toks (lead : list rtoken) (pre : list (list rtoken)) : list rtoken := lead ++ flat_map comma_w pre.
Definition entry_at (lead : list rtoken) (pre : list (list rtoken)) : nat := length (pre_toks lead pre).

Record ptext := mk_ptext { p_lead : list rtoken; p_pre : list (list rtoken); p_post : list (list rtoken) }.
Definition p_last (x : ptext) : bool := is_nil (p_post x).
Inductive pop : Type :=
| PPush (x : ptext) (r : arel) (alts : list (list rtoken * arel))
| PInsert (i : nat) (x : ptext) (r : arel) (alts : list (list rtoken * arel))
| PReplace (i : nat) (x : ptext) (r : arel) (alts : list (list rtoken * arel))
| PEPush (i : nat) (x : ptext) (r : arel)
| PEReplace (i j : nat) (x : ptext) (r : arel).
Definition ptext_field (x : ptext) r alts : afield := entry_afield (p_lead x) (p_pre x) r alts (p_post x).
Definition ptext_text (x : ptext) r alts : str := arender (ptext_field x r alts).
Definition pcompile (o : pop) : list op :=
  match o with
  | PPush x r alts => [ONewEntry 1 (ESParse (ptext_text x r alts)); OPush 1]
  | PInsert i x r alts => [ONewEntry 1 (ESParse (ptext_text x r alts)); OInsert i 1]
  | PReplace i x r alts => [ONewEntry 1 (ESParse (ptext_text x r alts)); OReplace i 1]
  | PEPush i x r => [ONewRel 1 (RSParse (ptext_text x r [])); OGetEntry 0 i; OEPush 0 1]
  | PEReplace i j x r => [ONewRel 1 (RSParse (ptext_text x r [])); OGetEntry 0 i; OEReplace 0 j 1]
  end.
(* the nodes the handles point at *)
Definition ptop (o : pop) : top :=
  match o with
  | PPush x r alts => TPush (Node ENTRY (arels_elems r alts (p_last x)))
  | PInsert i x r alts => TInsert i (Node ENTRY (arels_elems r alts (p_last x)))
  | PReplace i x r alts => TReplace i (Node ENTRY (arels_elems r alts (p_last x)))
  | PEPush i x r => TEPush i (arel_tree r (p_last x))
  | PEReplace i j x r => TEReplace i j (arel_tree r (p_last x))
  end.
Definition a_pop (o : pop) (l : lroot) : option lroot :=
  match o with
  | PPush x r alts => Some (a_push l (lentry_of r alts (p_last x)))
  | PInsert i x r alts => Some (a_insert l i (lentry_of r alts (p_last x)))
  | PReplace i x r alts => a_replace l i (lentry_of r alts (p_last x))
  | PEPush i x r => a_on_entry l i (fun e => a_epush e (lrel_of r (p_last x)))
  | PEReplace i j x r =>
      match nth_entry l i with
      | Some (ci, e) => if j <? n_rels e then Some (replace_at ci (RE (a_ereplace e j (lrel_of r (p_last x)))) l) else None
      | None => None
      end
  end.
(* what the accessors read from a parsed relation *)
Definition arel_content (r : arel) : relrec :=
  mk_relrec (a_name r) (option_map aq_name (a_qual r))
            (match a_ver r with Some v => ver_content v | None => None end)
            (option_map (fun g => arch_names (children (agroup_node g)) false) (a_archs r))
            (map (fun g => profile_group (children (pgroup_node g)) [] false) (a_profs r)).
Definition entry_content (r : arel) (alts : list (list rtoken * arel)) : list relrec :=
  arel_content r :: map (fun wr => arel_content (snd wr)) alts.
Definition pxstep (f : lfield) (o : pop) : lfield :=
  match o with
  | PPush _ r alts => f ++ [entry_content r alts]
  | PInsert i _ r alts => l_insert i (entry_content r alts) f
  | PReplace i _ r alts => l_replace i (entry_content r alts) f
  | PEPush i _ r => upd_nth i (fun e => e ++ [arel_content r]) f
  | PEReplace i j _ r => upd_nth i (l_replace j (arel_content r)) f
  end.
Definition p_in_range (f : lfield) (o : pop) : bool :=
  match o with
  | PPush _ _ _ | PInsert _ _ _ _ => true
  | PReplace i _ _ _ | PEPush i _ _ => i <? length f
  | PEReplace i j _ _ => match nth_error f i with Some e => j <? length e | None => false end
  end.
(* the operand's text is read (strictly) without error, and its version operators are among the
   five the accessors read *)
Definition arel_readable (r : arel) : bool :=
  match a_ver r with Some v => match parse_vc (av_op v) with Some _ => true | None => false end | None => true end.
Definition poperands_ok (o : pop) : bool :=
  match o with
  | PPush x r alts | PInsert _ x r alts | PReplace _ x r alts =>
      awf false (ptext_field x r alts) && arel_readable r && forallb (fun wr => arel_readable (snd wr)) alts
  | PEPush _ x r | PEReplace _ _ x r => awf false (ptext_field x r []) && arel_readable r
  end.

(* histories mixing all kinds of operands *)
Inductive gop : Type := GA (o : aop) | GP (o : pop).
Definition gcompile (o : gop) : list op := match o with GA o => compile o | GP o => pcompile o end.
Definition g_op (o : gop) (l : lroot) : option lroot := match o with GA o => a_op o l | GP o => a_pop o l end.
Definition gxstep (f : lfield) (o : gop) : lfield := match o with GA o => xstep f o | GP o => pxstep f o end.
Definition g_in_range (f : lfield) (o : gop) : bool := match o with GA o => x_in_range f o | GP o => p_in_range f o end.
Definition goperands_ok (o : gop) : bool := match o with GA o => operands_ok o | GP o => poperands_ok o end.
Fixpoint g_ops (ops : list gop) (l : lroot) : option lroot :=
  match ops with
  | [] => Some l
  | o :: rest => match g_op o l with Some l' => g_ops rest l' | None => None end
  end.
Fixpoint gsteps_in_range (c : lfield) (ops : list gop) : bool :=
  match ops with
  | [] => true
  | o :: r => g_in_range c o && gsteps_in_range (gxstep c o) r
  end.
Definition gcompile_all (ops : list gop) : list op := flat_map gcompile ops.

(* separators (RelEditSpec.sstep) for operands of either kind *)
Definition psstep (s : list fslot) (o : pop) : list fslot :=
  match o with
  | PPush _ _ _ => s_push s
  | PInsert i _ _ _ => s_insert i s
  | _ => s
  end.
Definition gsstep (f : lfield) (s : list fslot) (o : gop) : list fslot :=
  match o with GA o => sstep f s o | GP o => psstep s o end.
Definition gfs_step (fs : lfield * list fslot) (o : gop) : lfield * list fslot :=
  (gxstep (fst fs) o, gsstep (fst fs) (snd fs) o).
Definition gslots_after (ops : list gop) (f : lfield) (s : list fslot) : list fslot :=
  snd (fold_left gfs_step ops (f, s)).
