(* Operands obtained by PARSING, on the liberal live layouts of RelLiveAll.v (the mirror of the last
   part of RelLive.v): Entry::from_str / Relation::from_str of ANY text that is read without error
   as one entry — lead r ("|" ws r')* — (as a relation: no alternatives).  The operand handle
   points INTO the parsed tree; an edit that attaches it detaches it from there first.  The text is
   the rendering of the liberal layout [entry_afield lead r alts]; its white space at the end goes
   with the last relation or with the entry exactly as the parser decides (RelLiveAll.lentry_of /
   lrel_of with last = true), and Entry::replace strips it from the new relation again
   (RelLiveAll.a_ereplace).  Specification side.  Definitions only. *)
From V.model Require Import Base RelLex RelParse RelAcc RelGrammar RelGrammarAll.
From V.model Require Import RelEdit RelEditSpec RelEditTree RelLiveAll.

Inductive pop : Type :=
| PPush (lead : list rtoken) (r : arel) (alts : list (list rtoken * arel))
| PInsert (i : nat) (lead : list rtoken) (r : arel) (alts : list (list rtoken * arel))
| PReplace (i : nat) (lead : list rtoken) (r : arel) (alts : list (list rtoken * arel))
| PEPush (i : nat) (lead : list rtoken) (r : arel)
| PEReplace (i j : nat) (lead : list rtoken) (r : arel).
Definition entry_afield (lead : list rtoken) (r : arel) (alts : list (list rtoken * arel)) : afield :=
  mk_afield lead (AEntry r alts) [].
Definition entry_text (lead : list rtoken) (r : arel) (alts : list (list rtoken * arel)) : str :=
  arender (entry_afield lead r alts).
Definition pcompile (o : pop) : list op :=
  match o with
  | PPush lead r alts => [ONewEntry 1 (ESParse (entry_text lead r alts)); OPush 1]
  | PInsert i lead r alts => [ONewEntry 1 (ESParse (entry_text lead r alts)); OInsert i 1]
  | PReplace i lead r alts => [ONewEntry 1 (ESParse (entry_text lead r alts)); OReplace i 1]
  | PEPush i lead r => [ONewRel 1 (RSParse (entry_text lead r [])); OGetEntry 0 i; OEPush 0 1]
  | PEReplace i j lead r => [ONewRel 1 (RSParse (entry_text lead r [])); OGetEntry 0 i; OEReplace 0 j 1]
  end.
(* the nodes the handles point at *)
Definition ptop (o : pop) : top :=
  match o with
  | PPush _ r alts => TPush (Node ENTRY (arels_elems r alts true))
  | PInsert i _ r alts => TInsert i (Node ENTRY (arels_elems r alts true))
  | PReplace i _ r alts => TReplace i (Node ENTRY (arels_elems r alts true))
  | PEPush i _ r => TEPush i (arel_tree r true)
  | PEReplace i j _ r => TEReplace i j (arel_tree r true)
  end.
Definition a_pop (o : pop) (l : lroot) : option lroot :=
  match o with
  | PPush _ r alts => Some (a_push l (lentry_of r alts true))
  | PInsert i _ r alts => Some (a_insert l i (lentry_of r alts true))
  | PReplace i _ r alts => a_replace l i (lentry_of r alts true)
  | PEPush i _ r => a_on_entry l i (fun e => a_epush e (lrel_of r true))
  | PEReplace i j _ r =>
      match nth_entry l i with
      | Some (ci, e) => if j <? n_rels e then Some (replace_at ci (RE (a_ereplace e j (lrel_of r true))) l) else None
      | None => None
      end
  end.
(* what the accessors read from a parsed relation *)
Definition arel_content (r : arel) : relrec :=
  mk_relrec (a_name r) (option_map aq_name (a_qual r))
            (match a_ver r with Some v => ver_content v | None => None end)
            (option_map (fun g => arch_names (children (agroup_node g)) false) (a_archs r))
            (map (fun g => profile_group (children (pgroup_node g)) [] false) (a_profs r)).
Definition entry_content (r : arel) (alts : list (list rtoken * arel)) : list relrec :=
  arel_content r :: map (fun wr => arel_content (snd wr)) alts.
Definition pxstep (f : lfield) (o : pop) : lfield :=
  match o with
  | PPush _ r alts => f ++ [entry_content r alts]
  | PInsert i _ r alts => l_insert i (entry_content r alts) f
  | PReplace i _ r alts => l_replace i (entry_content r alts) f
  | PEPush i _ r => upd_nth i (fun e => e ++ [arel_content r]) f
  | PEReplace i j _ r => upd_nth i (l_replace j (arel_content r)) f
  end.
Definition p_in_range (f : lfield) (o : pop) : bool :=
  match o with
  | PPush _ _ _ | PInsert _ _ _ _ => true
  | PReplace i _ _ _ | PEPush i _ _ => i <? length f
  | PEReplace i j _ _ => match nth_error f i with Some e => j <? length e | None => false end
  end.
(* the operand's text is read (strictly) without error, and its version operators are among the
   five the accessors read *)
Definition arel_readable (r : arel) : bool :=
  match a_ver r with Some v => match parse_vc (av_op v) with Some _ => true | None => false end | None => true end.
Definition poperands_ok (o : pop) : bool :=
  match o with
  | PPush lead r alts | PInsert _ lead r alts | PReplace _ lead r alts =>
      awf false (entry_afield lead r alts) && arel_readable r && forallb (fun wr => arel_readable (snd wr)) alts
  | PEPush _ lead r | PEReplace _ _ lead r => awf false (entry_afield lead r []) && arel_readable r
  end.

(* histories mixing all kinds of operands *)
Inductive gop : Type := GA (o : aop) | GP (o : pop).
Definition gcompile (o : gop) : list op := match o with GA o => compile o | GP o => pcompile o end.
Definition g_op (o : gop) (l : lroot) : option lroot := match o with GA o => a_op o l | GP o => a_pop o l end.
Definition gxstep (f : lfield) (o : gop) : lfield := match o with GA o => xstep f o | GP o => pxstep f o end.
Definition g_in_range (f : lfield) (o : gop) : bool := match o with GA o => x_in_range f o | GP o => p_in_range f o end.
Definition goperands_ok (o : gop) : bool := match o with GA o => operands_ok o | GP o => poperands_ok o end.
Fixpoint g_ops (ops : list gop) (l : lroot) : option lroot :=
  match ops with
  | [] => Some l
  | o :: rest => match g_op o l with Some l' => g_ops rest l' | None => None end
  end.
Fixpoint gsteps_in_range (c : lfield) (ops : list gop) : bool :=
  match ops with
  | [] => true
  | o :: r => g_in_range c o && gsteps_in_range (gxstep c o) r
  end.
Definition gcompile_all (ops : list gop) : list op := flat_map gcompile ops.
