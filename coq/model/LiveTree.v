(* When is a tree "the tree of a live layout"?  Specification side of C04 (4).

   Entry::new(key, value) writes one VALUE token per line of value.split('\n'); for the empty
   value that is ONE VALUE token with empty text ("K: " VALUE"" NEWLINE).  The reader never
   produces an empty token (for "K: \n" it gives KEY COLON WHITESPACE NEWLINE), so after
   Paragraph::rename of a field whose value is empty the live tree is not literally
   [ltree_of] of a layout: it is that tree plus empty VALUE tokens.  Such tokens print nothing
   and add nothing to Entry::value.  [live_tree t d]: t, its empty VALUE tokens dropped, is the
   tree of the layout d. *)
From V.model Require Import Base Deb822Lex Deb822Parse Grammar Deb822Edit LiveDoc.

Definition is_empty_value (e : tree) : bool :=
  match e with Tok VALUE [] => true | _ => false end.

Fixpoint drop_empty_values (t : tree) : tree :=
  match t with
  | Tok _ _ => t
  | Node k cs =>
    Node k ((fix go (l : list tree) : list tree :=
               match l with
               | [] => []
               | x :: r => if is_empty_value x then go r else drop_empty_values x :: go r
               end) cs)
  end.

Definition live_tree (t : tree) (d : ldocl) : Prop := drop_empty_values t = ltree_of d.
