(* What is said about the layout of a reformatted error-free document (XGrammar.v): the width of
   the continuation-line indentation, the canonical look of a rebuilt field, and the separation of
   paragraphs by exactly one empty line -- WrapSpec.v's doc_indented / single_blanks for the
   layouts of ALL error-free documents.  Specification: no proofs. *)
From V.model Require Import Base Deb822Lex Deb822Parse Grammar XGrammar Deb822Edit Deb822Wrap WrapSpec.

(* the indentation width Entry::wrap_and_sort uses for a field *)
Definition xn (ind : indentation) (f : xfield) : N :=
  match ind with Spaces i => i | FieldNameLength => utf8_size (x_name f) end.

(* a rebuilt field: every continuation line is indented by exactly [n] spaces, nothing stands
   between the name and the colon, the last line ends with LF *)
Definition xfield_canon (n : N) (f : xfield) : bool :=
  forallb (fun c => str_eqb (xc_ind c) (spaces n)) (x_cont f) && is_nil (x_w0 f) &&
  match x_nl f with Some c => (c =? 10)%N | None => false end.
Definition items_canon (ind : indentation) (I : list xitem) : bool :=
  forallb (fun it => match it with XField f => xfield_canon (xn ind f) f | XComment _ _ => true end) I.
Definition xdoc_canon (ind : indentation) (d : xdoc) : bool :=
  forallb (fun b => match b with XPara f its => xfield_canon (xn ind f) f && items_canon ind its | _ => true end) d.

(* comment lines, a paragraph; then, repeatedly, ONE empty line (LF), comment lines, a paragraph;
   nothing after the last paragraph (comment lines that follow it belong to it) *)
Fixpoint xsingle_blanks (st : sep_state) (l : xdoc) : bool :=
  match l with
  | [] => match st with SepAfterBlank => false | _ => true end
  | XBlank nl :: r => match st with SepAfterPara => (nl =? 10)%N && xsingle_blanks SepAfterBlank r | _ => false end
  | XBComment _ _ :: r =>
    match st with
    | SepStart => xsingle_blanks SepStart r
    | SepAfterBlank => xsingle_blanks SepAfterBlank r
    | SepAfterPara | SepTrailing => false
    end
  | XPara _ _ :: r =>
    match st with
    | SepStart | SepAfterBlank => xsingle_blanks SepAfterPara r
    | _ => false
    end
  end.
(* every line of the document ends with a newline character *)
Definition xitem_terminated (it : xitem) : bool :=
  match it with XField f => match x_nl f with Some _ => true | None => false end | XComment _ nl => match nl with Some _ => true | None => false end end.
Definition xdoc_terminated (d : xdoc) : bool :=
  forallb (fun b => match b with
                    | XBlank _ => true
                    | XBComment _ nl => match nl with Some _ => true | None => false end
                    | XPara f its => forallb xitem_terminated (XField f :: its)
                    end) d.
