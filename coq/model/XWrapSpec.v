(* What is said about the layout of a reformatted error-free document (XGrammar.v): the width of
   the continuation-line indentation, the canonical look of a rebuilt field, and the separation of
   paragraphs by exactly one empty line -- WrapSpec.v's doc_indented / single_blanks for the
   layouts of ALL error-free documents.  Specification: no proofs. *)
From V.model Require Import Base Deb822Lex Deb822Parse Grammar XGrammar Deb822Edit Deb822Wrap WrapSpec.

(* the indentation width Entry::wrap_and_sort uses for a field *)
Definition xn (ind : indentation) (f : xfield) : N :=
  match ind with Spaces i => i | FieldNameLength => utf8_size (x_name f) end.

(* ---------------------------------------------------------------- the field step *)
(* What Entry::wrap_and_sort makes of ANY field the reader accepts, written down from the
   documentation of the reformatting and the layouts of XGrammar.v -- independently of
   Deb822Wrap.rebuild_value, which is proved to print exactly this (C07_error_free_field):
   trailing empty continuation lines are dropped; if the rest is one line that fits the limit:
   the name, the colon, the blanks that stood around the colon, the line; otherwise the first line
   that holds something and the lines after it, each with its own newline character and its
   payload (text, comment or nothing), indented by n spaces -- the first of them behind "name: ",
   or below "name:" when immediate_empty_line asks for it (and it is not a text that starts with
   '#') or when it is a comment. *)
Definition is_pnone (p : xpay) : bool := match p with PNone => true | _ => false end.
Definition blank_cont (c : xcont) : bool := is_pnone (xc_pay c).
(* trailing empty continuation lines are dropped *)
Definition strip_conts (cs : list xcont) : list xcont := rev (drop_while blank_cont (rev cs)).
(* ... and leading empty lines: the first line that holds something, and the lines after it *)
Fixpoint drop_blank (p : xpay) (cs : list xcont) : xpay * list xcont :=
  match p, cs with
  | PNone, c :: r => drop_blank (xc_pay c) r
  | _, _ => (p, cs)
  end.
Definition head_pay (f : xfield) : xpay := match x_first f with [] => PNone | s => PVal s end.
Definition reindent (n : N) (c : xcont) : xcont := mk_xcont (xc_nl c) (spaces n) (xc_pay c).
Definition pay_hash (p : xpay) : bool := match p with PVal s => starts_with_hash s | _ => false end.
Definition is_pcom (p : xpay) : bool := match p with PCom _ => true | _ => false end.

Definition x_ws_field (n : N) (iel : bool) (mll : option N) (f : xfield) : xfield :=
  let cs := strip_conts (x_cont f) in
  let empty := is_pnone (head_pay f) && is_nil cs in
  let fll := (if empty then utf8_size (x_name f) + 2
              else utf8_size (x_w0 f) + utf8_size (x_w1 f) + utf8_size (x_first f) + utf8_size (x_name f) + 2)%N in
  if (match mll with Some m => (fll <=? m)%N | None => false end) && is_nil cs then
    if empty then mk_xfield (x_name f) [] [] [] [] (Some LF)
    else mk_xfield (x_name f) [] (x_w0 f ++ x_w1 f) (x_first f) [] (Some LF)
  else
    let '(p1, rest) := drop_blank (head_pay f) cs in
    let down := (iel && negb (is_nil cs) && negb (pay_hash p1)) || is_pcom p1 in
    if down then mk_xfield (x_name f) [] [] [] (mk_xcont LF (spaces n) p1 :: map (reindent n) rest) (Some LF)
    else mk_xfield (x_name f) [] [32%N] (match p1 with PVal v => v | _ => [] end) (map (reindent n) rest) (Some LF).


(* a rebuilt field: every continuation line is indented by exactly [n] spaces, nothing stands
   between the name and the colon, the last line ends with LF *)
Definition xfield_canon (n : N) (f : xfield) : bool :=
  forallb (fun c => str_eqb (xc_ind c) (spaces n)) (x_cont f) && is_nil (x_w0 f) &&
  match x_nl f with Some c => (c =? 10)%N | None => false end.
Definition items_canon (ind : indentation) (I : list xitem) : bool :=
  forallb (fun it => match it with XField f => xfield_canon (xn ind f) f | XComment _ _ => true end) I.
Definition xdoc_canon (ind : indentation) (d : xdoc) : bool :=
  forallb (fun b => match b with XPara f its => xfield_canon (xn ind f) f && items_canon ind its | _ => true end) d.

(* comment lines, a paragraph; then, repeatedly, ONE empty line (LF), comment lines, a paragraph;
   nothing after the last paragraph (comment lines that follow it belong to it) *)
Fixpoint xsingle_blanks (st : sep_state) (l : xdoc) : bool :=
  match l with
  | [] => match st with SepAfterBlank => false | _ => true end
  | XBlank nl :: r => match st with SepAfterPara => (nl =? 10)%N && xsingle_blanks SepAfterBlank r | _ => false end
  | XBComment _ _ :: r =>
    match st with
    | SepStart => xsingle_blanks SepStart r
    | SepAfterBlank => xsingle_blanks SepAfterBlank r
    | SepAfterPara | SepTrailing => false
    end
  | XPara _ _ :: r =>
    match st with
    | SepStart | SepAfterBlank => xsingle_blanks SepAfterPara r
    | _ => false
    end
  end.
(* every line of the document ends with a newline character *)
Definition xitem_terminated (it : xitem) : bool :=
  match it with XField f => match x_nl f with Some _ => true | None => false end | XComment _ nl => match nl with Some _ => true | None => false end end.
Definition xdoc_terminated (d : xdoc) : bool :=
  forallb (fun b => match b with
                    | XBlank _ => true
                    | XBComment _ nl => match nl with Some _ => true | None => false end
                    | XPara f its => forallb xitem_terminated (XField f :: its)
                    end) d.
