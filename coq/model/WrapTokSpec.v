(* The vocabulary of C07's theorems about EVERY error-free document (props/C07.v, sections 11-14),
   at the level of tokens, without Grammar.v.  Definitions only.

   Read this before the theorems: the three parts are of different standing.

   PART A is independent vocabulary: which tokens there are, how the children of a paragraph /
   of the root are grouped (every entry with the comment lines in front of it; every paragraph
   with the comment lines in front of it, blank lines dropped), how groups are written back.
   Nothing here refers to Deb822Wrap.rebuild_value.

   PART B is THE MODEL RESTATED on such trees: entry_out calls Deb822Wrap.rebuild_value fixed;
   e_out, p_out, pp_out, d_out compose it with the grouping of part A.  A theorem of the form
   "wrap_and_sort t = Ok (d_out ...)" (C07_tokens_*, the first clause of C07_error_free) says: no
   panic, and the result is this closed form of the model.  It is NOT a comparison with an
   independent specification of the entry step.  The independent statements about the result are:
   its reported content (C07_error_free_content, C07_error_free_paragraph: epair / p_groups /
   d_groups only), its text as a well-formed layout that re-reads to that content, indentation,
   empty lines, termination (C07_error_free_reread: XGrammar.v / XWrapSpec.v), the field step
   against XWrapSpec.x_ws_field (C07_error_free_field), and the second application (a statement
   about the model function itself).

   PART C: the documents the theorems are about (token_doc: what every error-free document is,
   C07_error_free_is_token_doc) and the premises on the caller's comparators (esort_ok / psort_ok:
   they answer consistently and do not see the re-layout -- stated with part B, because "the
   re-layout" is what the code does). *)
From V.model Require Import Base Deb822Lex Deb822Parse Deb822Edit Deb822Wrap WrapSpec.

(* ================================================================ PART A: independent vocabulary *)
(* ---------------------------------------------------------------- token lists *)
Definition ckind (k : kind) : bool := match k with WHITESPACE | VALUE | NEWLINE | COMMENT => true | _ => false end.
Definition is_ctok (t : token) : bool := ckind (fst t).
Definition elems (T : list token) : list tree := map tok_elem T.
Definition strippable (t : token) : bool := is_nl_or_ws_tok t.
(* nothing to strip at the end *)
Definition stripped (T : list token) : Prop := match rev T with [] => True | t :: _ => strippable t = false end.
Definition stripT (T : list token) : list token := rev (drop_while is_nl_or_ws_tok (rev T)).
(* ---------------------------------------------------------------- rebuild_value, on any stripped token list *)
Definition cfilt (c : tree) : bool := ckind (ekind c).
(* ---------------------------------------------------------------- Entry::wrap_and_sort on a token entry *)
Definition tkind (k : kind) : bool := match k with KEY | COLON | INDENT => true | _ => ckind k end.
Definition is_tok_elem (c : tree) : bool := match c with Tok k _ => tkind k | Node _ _ => false end.
(* an ENTRY node all of whose children are tokens: KEY, COLON, WHITESPACE, VALUE, NEWLINE, INDENT,
   COMMENT in any arrangement (every entry of a document read without errors is like that) *)
Definition token_entry (e : tree) : bool :=
  match e with Node ENTRY cs => forallb is_tok_elem cs | _ => false end.
Definition built_of (cs : list tree) : list tree :=
  flat_map (fun c => match c with Tok KEY s => [Tok KEY s] | Tok COLON _ => [Tok COLON [58%N]] | _ => [] end) cs.
Fixpoint ind_after (ind : indentation) (cs : list tree) : indentation :=
  match cs with
  | [] => ind
  | Tok KEY s :: r => ind_after (match ind with FieldNameLength => Spaces (utf8_size s) | _ => ind end) r
  | _ :: r => ind_after ind r
  end.
Definition toks_of (cs : list tree) : list token :=
  flat_map (fun c => match c with Tok k s => [(k, s)] | Node _ _ => [] end) cs.
(* the indentation width Entry::wrap_and_sort ends up with, the tokens of the value, the key length *)
Definition entry_n (ind : indentation) (cs : list tree) : N :=
  match ind_after ind cs with Spaces i => i | FieldNameLength => 1%N end.
Definition entry_T (cs : list tree) : list token := stripT (toks_of (filter cfilt cs)).
Definition entry_kl (cs : list tree) : N := match entry_key (Node ENTRY cs) with Some k => utf8_size k | None => 0%N end.
(* ---- the shape of what rebuild_value emits ---- *)
Definition out_elem (n : N) (c : tree) : bool :=
  match c with
  | Tok INDENT s => str_eqb s (spaces n)
  | Tok k _ => ckind k
  | Node _ _ => false
  end.
(* ---- the lines of the value and the comment lines inside it are kept, in order ---- *)
Definition vk (k : kind) : bool := match k with VALUE | COMMENT => true | _ => false end.
Definition ktx (k : kind) (cs : list tree) : list str := token_texts_of_kind k (Node ENTRY cs).
(* ---------------------------------------------------------------- Paragraph::wrap_and_sort on a token paragraph *)
(* the children of a paragraph read without errors: entries (of tokens), and comment lines -- a
   COMMENT token and the NEWLINE token that ends it *)
Definition loose (c : tree) : bool := match c with Tok COMMENT _ | Tok NEWLINE _ => true | _ => false end.
(* every entry with the loose tokens in front of it; the loose tokens after the last entry *)
Fixpoint p_groups (cs : list tree) (cur : list tree) : list (list tree * tree) * list tree :=
  match cs with
  | [] => ([], cur)
  | c :: r => if loose c then p_groups r (cur ++ [c])
              else let '(gs, tr) := p_groups r [] in ((cur, c) :: gs, tr)
  end.
Definition p_ungroup (gs : list (list tree * tree)) (tr : list tree) : list tree :=
  concat (map (fun g => fst g ++ [snd g]) gs) ++ tr.
(* ---------------------------------------------------------------- Deb822::wrap_and_sort on a token document *)
(* the children of the root of a document read without errors: paragraphs (as above) and
   EMPTY_LINE nodes made of tokens (a blank line; a comment line) *)
Definition is_token (c : tree) : bool := match c with Tok _ _ => true | Node _ _ => false end.
Definition is_para_node (c : tree) : bool := match c with Node PARAGRAPH _ => true | _ => false end.
Definition comment_line (c : tree) : bool := existsb (fun x => negb (is_blank_kind x)) (children c).
(* every paragraph with the comment lines in front of it (blank lines dropped); those after the last *)
Fixpoint d_groups (rs : list tree) (cur : list tree) : list (list tree * tree) * list tree :=
  match rs with
  | [] => ([], cur)
  | c :: r => if is_para_node c then let '(gs, tr) := d_groups r [] in ((cur, c) :: gs, tr)
              else d_groups r (if comment_line c then cur ++ [c] else cur)
  end.
Fixpoint d_emit (first : bool) (gs : list (list tree * tree)) : list tree :=
  match gs with
  | [] => []
  | g :: r => (if first then [] else [blank_line]) ++ fst g ++ snd g :: d_emit false r
  end.
(* ---------------------------------------------------------------- the document: a second application changes nothing *)
(* a comment line kept by Deb822::wrap_and_sort: an EMPTY_LINE node of tokens with something else than blanks *)
Definition cline (c : tree) : bool :=
  match c with Node EMPTY_LINE ts => forallb is_token ts && comment_line c | _ => false end.
(* a field as the object reports it: (name, value), none without a KEY token *)
Definition epair (e : tree) : list (str * str) := match entry_key e with Some k => [(k, entry_value e)] | None => [] end.
(* an indentation of at least one column *)
Definition ind_pos (ind : indentation) : Prop := match ind with Spaces n => (n =? 0)%N = false | FieldNameLength => True end.

(* ================================================================ PART B: the model restated *)
(* ... and the entry it returns *)
Definition entry_out (ind : indentation) (iel : bool) (mll : option N) (cs : list tree) : tree :=
  Node ENTRY (built_of cs ++ rebuild_value fixed (entry_T cs) (entry_kl cs) (entry_n ind cs) iel mll).
Definition e_out (ind : indentation) (iel : bool) (mll : option N) (e : tree) : tree := entry_out ind iel mll (children e).
(* what Paragraph::wrap_and_sort makes of the children: groups sorted stably as units, entries rebuilt *)
Definition p_out (ind : indentation) (iel : bool) (mll : option N) (esort : option (tree -> tree -> comparison)) (cs : list tree) : list tree :=
  p_ungroup (map (fun g => (fst g, e_out ind iel mll (snd g))) (sort_opt (option_map on_snd esort) (fst (p_groups cs [])))) (snd (p_groups cs [])).
Definition pp_out (ind : indentation) (iel : bool) (mll : option N) (esort : option (tree -> tree -> comparison)) (p : tree) : tree :=
  ensure_nl (Node PARAGRAPH (p_out ind iel mll esort (children p))).
(* what Deb822::wrap_and_sort returns: groups sorted stably as units, every paragraph reformatted
   and terminated, one blank line between them, the result terminated *)
Definition d_out (ind : indentation) (iel : bool) (mll : option N) (psort esort : option (tree -> tree -> comparison)) (rs : list tree) : tree :=
  ensure_nl (Node ROOT (d_emit true (map (fun g => (fst g, pp_out ind iel mll esort (snd g)))
                                         (sort_opt (option_map on_snd psort) (fst (d_groups rs []))))
                        ++ snd (d_groups rs []))).

(* ================================================================ PART C: the documents; the premises on the comparators *)
Definition entry_ok (ind : indentation) (c : tree) : bool :=
  token_entry c && negb (entry_n ind (children c) =? 0)%N.
Definition pchild_ok (ind : indentation) (c : tree) : bool := loose c || entry_ok ind c.
Definition esort_ok (ind : indentation) (iel : bool) (mll : option N) (esort : option (tree -> tree -> comparison)) : Prop :=
  match esort with
  | Some e => cmp_consistent e /\
              (forall a b, entry_ok ind a = true -> entry_ok ind b = true -> e (e_out ind iel mll a) (e_out ind iel mll b) = e a b)
  | None => True
  end.
Definition rchild_ok (ind : indentation) (c : tree) : bool :=
  match c with
  | Node PARAGRAPH ps => forallb (pchild_ok ind) ps
  | Node EMPTY_LINE ts => forallb is_token ts
  | _ => false
  end.
Definition para_ok (ind : indentation) (c : tree) : bool :=
  match c with Node PARAGRAPH ps => forallb (pchild_ok ind) ps | _ => false end.
Definition psort_ok (ind : indentation) (iel : bool) (mll : option N) (psort esort : option (tree -> tree -> comparison)) : Prop :=
  match psort with
  | Some p => cmp_consistent p /\
              (forall a b, para_ok ind a = true -> para_ok ind b = true ->
                 p (pp_out ind iel mll esort a) (pp_out ind iel mll esort b) = p a b)
  | None => True
  end.
(* ---------------------------------------------------------------- summary statements *)
(* the document read without errors, as far as these theorems need it *)
Definition token_doc (ind : indentation) (t : tree) : bool :=
  match t with Node ROOT rs => forallb (rchild_ok ind) rs | _ => false end.
