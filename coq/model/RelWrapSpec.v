(* Specification side of property C13 (wrap-and-sort of relationship fields).  Meant to be read:
   the canonical single-line printer of the statement, the order the result is sorted by, the
   sorted content, the safe domain, and the canonical field (a RelGrammar.rfield, so that C10's
   theorems say what the strict reader makes of the result).  No proofs. *)
From Coq Require Import Permutation.
From V.model Require Import Base RelLex RelParse RelAcc RelGrammar RelWrap.
From V.model Require DebVersion Sat.

(* ---------------------------------------------------------------- the canonical text
   entries joined by ", ", alternatives by " | ", a relation written
       name[:archqual] (op version) [arch ...] <profile ...> ...
   with single spaces; substitution variables after the entries *)
Fixpoint join (sep : str) (l : list str) : str :=
  match l with
  | [] => []
  | [x] => x
  | x :: r => x ++ sep ++ join sep r
  end.
Definition profile_text (p : bprofile) : str :=
  match p with Enabled n => n | Disabled n => 33%N :: n end.
Definition canon_rel (c : relc) : str :=
  c_name c
  ++ match c_qual c with Some q => 58%N :: q | None => [] end
  ++ match c_ver c with Some (o, v) => [32; 40]%N ++ vop_text o ++ [32%N] ++ v ++ [41%N] | None => [] end
  ++ match c_archs c with Some l => [32; 91]%N ++ join [32%N] l ++ [93%N] | None => [] end
  ++ flat_map (fun g => [32; 60]%N ++ join [32%N] (map profile_text g) ++ [62%N]) (c_profs c).
Definition canon_entry (e : list relc) : str := join [32; 124; 32]%N (map canon_rel e).
Definition canon_text (es : list (list relc)) (svs : list str) : str :=
  join [44; 32]%N (map canon_entry es ++ svs).

(* ---------------------------------------------------------------- content with Version values *)
(* what the accessors report for a whole field: entries() x relations(), Version values *)
Definition entry_wacc (e : rtree) : res (list wrel) := res_map relation_wacc (entry_relations e).
Definition wacc (t : rtree) : res (list (list wrel)) := res_map entry_wacc (relations_entries t).
(* the same content in the accessors' printed form (RelAcc.relc: the version as Display prints it) *)
Definition wrel_c (w : wrel) : relc :=
  mk_relc (w_name w) (w_qual w)
          (option_map (fun ov => (fst ov, Sat.show_version (snd ov))) (w_ver w))
          (w_archs w) (w_profs w).

(* ---------------------------------------------------------------- the order
   impl Ord for Relation: the name as a String; then no constraint < constraint; then the
   operator in the order << <= = >> >=; then the version in Debian order.  impl Ord for Entry
   (fixed): lexicographic over the alternatives, a proper prefix first.  Architecture qualifier,
   architecture list and profiles do not take part. *)
Definition wrel_cmp (a b : wrel) : comparison :=
  match str_cmp (w_name a) (w_name b) with
  | Eq =>
    match w_ver a, w_ver b with
    | Some (oa, xa), Some (ob, xb) =>
      match vop_cmp oa ob with Eq => DebVersion.vcmp xa xb | c => c end
    | Some _, None => Gt
    | None, Some _ => Lt
    | None, None => Eq
    end
  | c => c
  end.
Fixpoint lex_cmp {A} (cmp : A -> A -> comparison) (a b : list A) : comparison :=
  match a, b with
  | [], [] => Eq
  | [], _ :: _ => Lt
  | _ :: _, [] => Gt
  | x :: a', y :: b' => match cmp x y with Eq => lex_cmp cmp a' b' | c => c end
  end.
Definition wentry_cmp : list wrel -> list wrel -> comparison := lex_cmp wrel_cmp.
Definition cmp_le {A} (cmp : A -> A -> comparison) (a b : A) : Prop := cmp a b <> Gt.

(* the sorted content: alternatives sorted inside every entry, then the entries
   (RelWrap.psort is a stable sort; RelWrapP.stable_sort_unique: THE stable sort) *)
Definition sorted_content (es : list (list wrel)) : list (list wrel) :=
  psort wentry_cmp (map (psort wrel_cmp) es).

(* ---------------------------------------------------------------- the safe domain
   debversion 0.4.4 reads every digit run with parse::<i32>().unwrap(): its comparison panics on
   a run above 2^31-1 (finding c12-debversion-i32-digit-run); sort() compares versions *)
Definition wrel_safe (w : wrel) : bool :=
  match w_ver w with Some (_, v) => DebVersion.ver_safe v | None => true end.
Definition content_safe (es : list (list wrel)) : bool := forallb (forallb wrel_safe) es.

(* ---------------------------------------------------------------- on well-formed fields *)
(* the entries of an abstract field, each a non-empty list of relations *)
Definition item_rels (i : item) : list (list rel) :=
  match i with IEntry r alts => [r :: map snd alts] | _ => [] end.
Definition field_rels (f : rfield) : list (list rel) := flat_map item_rels (f_items f).
Definition item_subst (i : item) : list (str * list str) :=
  match i with ISubst seg segs _ => [(seg, segs)] | _ => [] end.
Definition field_substs (f : rfield) : list (str * list str) := flat_map item_subst (f_items f).

(* the Version value of a written constraint *)
Definition wver_of (v : vclause) : option (vop * DebVersion.version) :=
  match DebVersion.parse_version (vtext v) with
  | Some pv => Some (v_op v, pv)
  | None => None
  end.
Definition wrel_of (r : rel) : wrel :=
  mk_wrel (r_name r) (option_map q_name (r_qual r))
          (match r_ver r with Some v => wver_of v | None => None end)
          (option_map (fun g => map (fun t => arch_acc_text (term_arch t)) (g_terms g)) (r_archs r))
          (map (fun g => map term_profile (g_terms g)) (r_profs r)).
Definition field_wcontent (f : rfield) : list (list wrel) := map (map wrel_of) (field_rels f).
Definition field_safe (f : rfield) : bool := content_safe (field_wcontent f).

(* the same relation with every whitespace slot in its canonical state: nothing around ":",
   " (op version)", " [a b]", " <p q>", terms separated by one space *)
Fixpoint canon_terms (first : bool) (l : list term) : list term :=
  match l with
  | [] => []
  | t :: r => mk_term (if first then [] else [32%N]) (t_neg t) (t_name t) :: canon_terms false r
  end.
Definition canon_group (g : group) : group := mk_group [32%N] (canon_terms true (g_terms g)) [].
Definition canon_vclause (v : vclause) : vclause :=
  mk_vclause [32%N] [] (v_op v) [32%N] (v_epoch v) (v_ver v) (v_more v) [].
Definition canon_qual (q : qual) : qual := mk_qual [] [] (q_name q).
Definition canon_r (trail : str) (r : rel) : rel :=
  mk_rel (r_name r) (option_map canon_qual (r_qual r)) (option_map canon_vclause (r_ver r))
         (option_map canon_group (r_archs r)) (map canon_group (r_profs r)) trail.
(* an entry: " | " between the alternatives *)
Fixpoint canon_alts (l : list rel) : list (str * rel) :=
  match l with
  | [] => []
  | [r] => [([32%N], canon_r [] r)]
  | r :: l' => ([32%N], canon_r [32%N] r) :: canon_alts l'
  end.
Definition canon_item (e : list rel) : item :=
  match e with
  | [] => IEmpty
  | [r] => IEntry (canon_r [] r) []
  | r :: l => IEntry (canon_r [32%N] r) (canon_alts l)
  end.
(* ", " between the items *)
Definition mk_field (items : list item) : rfield :=
  match items with
  | [] => mk_rfield [] IEmpty []
  | i :: r => mk_rfield [] i (map (fun x => ([32%N], x)) r)
  end.

(* sorting relations / entries of the abstract field by the order of their content *)
Definition rel_cmp (a b : rel) : comparison := wrel_cmp (wrel_of a) (wrel_of b).
Definition rels_cmp (a b : list rel) : comparison := wentry_cmp (map wrel_of a) (map wrel_of b).
Definition subst_text_of (s : str * list str) : str := subst_text (fst s) (snd s).     (* "${seg:seg}" *)
Definition subst_node_of (s : str * list str) : rtree := subst_node (fst s) (snd s).
Definition subst_cmp (a b : str * list str) : comparison := str_cmp (subst_text_of a) (subst_text_of b).
Definition sorted_rels (f : rfield) : list (list rel) :=
  psort rels_cmp (map (psort rel_cmp) (field_rels f)).
Definition sorted_substs (f : rfield) : list (str * list str) := psort subst_cmp (field_substs f).
(* THE canonical field of f: what wrap_and_sort turns f into *)
Definition canon_field (f : rfield) : rfield :=
  mk_field (map canon_item (sorted_rels f)
            ++ map (fun s => ISubst (fst s) (snd s) []) (sorted_substs f)).

(* ---------------------------------------------------------------- same dependencies
   the same multiset of entries, each the same multiset of alternatives; the same multiset of
   substitution variables *)
Definition perm2 {A} (a b : list (list A)) : Prop :=
  exists a', Forall2 (@Permutation A) a a' /\ Permutation a' b.
Definition same_content (a b : list (list relx) * list str) : Prop :=
  perm2 (fst a) (fst b) /\ Permutation (snd a) (snd b).
