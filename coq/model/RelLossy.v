(* Model of /repo/debian-control/src/lossy/relations.rs:
     <lossy::Relation as FromStr>::from_str   (the hand-written reader over the tokens of
                                               debian-control/src/relations.rs::lex, RelLex.rlex)
     <lossy::Relations as FromStr>::from_str  (split(',') / trim / split('|') / trim / parse)
     Display for lossy::Relation and lossy::Relations, Display/FromStr of VersionConstraint and
     Display of BuildProfile (debian-control/src/relations.rs).
   satisfied_by is not in scope (C12).

   THE MAIN DEFINITIONS TRANSCRIBE THE CODE OF /repo 5517d72 *WITH* proposed_fixes/C14-lossy-newlines.patch
   APPLIED (audit A4): NEWLINE is white space for the token reader wherever WHITESPACE is
   (eat_whitespace, the end of the version, inside [...] and <...>), and blanks are skipped between
   ':' and the architecture qualifier — a folded field ("a\n (>= 1)") is read like the lossless
   reader reads it.  Two earlier generations of the reader are kept, transcribed just as carefully,
   so that the defects are theorems about faithful models and can be replayed on an unpatched tree:
     [oldnl_*]  the reader of /repo 5517d72, before that patch (C14_old_newline_refuted; streams
                rel-lossy-oldnl / rel-lossy-text-oldnl, C14_MODEL=oldnl);
     [old_*]    reader and printer of /repo 2e5530c, before a2c6991 (negated architectures: `[!amd64]`
                was rejected), 7cd890b (one loop per `<...>` with blanks as separator: `<a b>` was read
                as two groups, `< x >` as two EMPTY groups; Display wrote ", " between terms) and 3e262bf
                (blanks before ')'); proofs/RelLossyP.v: [old_*_refuted]; streams rel-lossy-old /
                rel-lossy-text-old, C14_MODEL=old.

   `debversion::Version` is an external crate.  The reader and the printers are parametrised by
   its FromStr / Display ([vparse], [vprint], section variables), and the theorems hold for every
   such pair that round-trips on the version at hand.  To make the model executable for the
   correspondence streams there is also a concrete model [dv_parse]/[dv_print] of debversion 0.4.4
   (a modelled external, validated by the streams rel-lossy* and debversion).

   No proofs in this file. *)
From V.model Require Import Base RelLex.

(* ------------------------------------------------------------------ values *)
Inductive vconstraint : Type := VC_ge | VC_le | VC_eq | VC_gt | VC_lt.
Inductive bprofile : Type := Enabled (s : str) | Disabled (s : str).

(* lossy::Relation { name, archqual, architectures, version, profiles } *)
Record relation (V : Type) : Type := mkRel {
  r_name : str;
  r_archqual : option str;
  r_archs : option (list str);
  r_version : option (vconstraint * V);
  r_profiles : list (list bprofile) }.
Arguments mkRel {V} _ _ _ _ _.
Arguments r_name {V} _.
Arguments r_archqual {V} _.
Arguments r_archs {V} _.
Arguments r_version {V} _.
Arguments r_profiles {V} _.

(* ------------------------------------------------------------------ std string functions *)
(* char::is_whitespace = the Unicode White_Space property *)
Definition is_unicode_ws (c : char) : bool :=
  ((9 <=? c) && (c <=? 13) || (c =? 32) || (c =? 133) || (c =? 160) || (c =? 5760)
   || (8192 <=? c) && (c <=? 8202) || (c =? 8232) || (c =? 8233) || (c =? 8239) || (c =? 8287)
   || (c =? 12288))%N.

Fixpoint trim_start (s : str) : str :=
  match s with c :: r => if is_unicode_ws c then trim_start r else s | [] => [] end.
Definition trim_end (s : str) : str := rev (trim_start (rev s)).
Definition trim (s : str) : str := trim_end (trim_start s).        (* str::trim *)

(* str::split(char): always at least one piece; "a,".split(',') = ["a", ""] *)
Fixpoint split_on_go (sep : char) (s acc : str) : list str :=
  match s with
  | [] => [acc]
  | c :: r => if (c =? sep)%N then acc :: split_on_go sep r [] else split_on_go sep r (acc ++ [c])
  end.
Definition split_on (sep : char) (s : str) : list str := split_on_go sep s [].

(* [T]::join(sep) / the "if i > 0 { write sep }" loops of the Display impls *)
Fixpoint join (sep : str) (l : list str) : str :=
  match l with
  | [] => []
  | [x] => x
  | x :: r => x ++ sep ++ join sep r
  end.

(* ------------------------------------------------------------------ relations.rs: small impls *)
(* <VersionConstraint as FromStr>::from_str: exact match on the five spellings *)
Definition vc_of_str (s : str) : option vconstraint :=
  if str_eqb s [62; 61]%N then Some VC_ge            (* ">=" *)
  else if str_eqb s [60; 61]%N then Some VC_le       (* "<=" *)
  else if str_eqb s [61]%N then Some VC_eq           (* "="  *)
  else if str_eqb s [62; 62]%N then Some VC_gt       (* ">>" *)
  else if str_eqb s [60; 60]%N then Some VC_lt       (* "<<" *)
  else None.

(* Display for VersionConstraint *)
Definition vc_print (c : vconstraint) : str :=
  match c with
  | VC_ge => [62; 61] | VC_le => [60; 61] | VC_eq => [61] | VC_gt => [62; 62] | VC_lt => [60; 60]
  end%N.

(* Display for BuildProfile *)
Definition profile_print (p : bprofile) : str :=
  match p with Enabled s => s | Disabled s => 33%N :: s end.

Notation toks := (list (rkind * str)).

(* fn eat_whitespace: while let Some((WHITESPACE | NEWLINE, _)) = tokens.peek() { tokens.next(); }
   [patched, proposed_fixes/C14-lossy-newlines.patch: a folded field has line breaks wherever blanks may be] *)
Fixpoint eat_whitespace (ts : toks) : toks :=
  match ts with
  | (WHITESPACE, _) :: r => eat_whitespace r
  | (NEWLINE, _) :: r => eat_whitespace r
  | _ => ts
  end.

(* error codes (the streams print ERR for all of them; kept apart for readability):
   1 package name  2 architecture qualifier  3 version constraint  4 token inside the version
   5 debversion parse error  6 missing ')'  7 architecture name  8 profile name  9 trailing token
   10 empty relation (Relations::from_str) *)

Section Reader.
  Variable V : Type.
  Variable vparse : str -> option V.   (* <debversion::Version as FromStr>::from_str; None = Err *)

  (* let name = match tokens.next() { Some((IDENT, name)) => name, _ => return Err(..) }; *)
  Definition read_name (ts : toks) : res (str * toks) :=
    match ts with (IDENT, n) :: r => Ok (n, r) | _ => Err 1%N end.

  (* let archqual = if let Some((COLON, _)) = tokens.peek() { tokens.next(); match tokens.next() {..} } *)
  Definition read_archqual (ts : toks) : res (option str * toks) :=
    match ts with
    | (COLON, _) :: r =>                                       (* [patched] eat_whitespace after the ':' *)
      match eat_whitespace r with (IDENT, s) :: r' => Ok (Some s, r') | _ => Err 2%N end
    | _ => Ok (None, ts)
    end.

  (* while let Some((kind, t)) = tokens.peek() { match kind { EQUAL | L_ANGLE | R_ANGLE => push, next; _ => break } } *)
  Fixpoint read_constraint (ts : toks) (acc : str) : str * toks :=
    match ts with
    | (EQUAL, t) :: r => read_constraint r (acc ++ t)
    | (L_ANGLE, t) :: r => read_constraint r (acc ++ t)
    | (R_ANGLE, t) :: r => read_constraint r (acc ++ t)
    | _ => (acc, ts)
    end.

  (* while let Some((kind, s)) = tokens.peek() { match kind { R_PARENS | WHITESPACE => break,
       IDENT | COLON => version_string.push_str(s), n => return Err(..) } tokens.next(); }
     (WHITESPACE since /repo 3e262bf: "a (>= 1 )" is accepted; the blanks are eaten by the
     eat_whitespace that follows the loop) *)
  Fixpoint read_version_string (ts : toks) (acc : str) : res (str * toks) :=
    match ts with
    | [] => Ok (acc, [])
    | (R_PARENS, _) :: _ => Ok (acc, ts)
    | (WHITESPACE, _) :: _ => Ok (acc, ts)
    | (NEWLINE, _) :: _ => Ok (acc, ts)                          (* [patched] R_PARENS | WHITESPACE | NEWLINE => break *)
    | (IDENT, s) :: r => read_version_string r (acc ++ s)
    | (COLON, s) :: r => read_version_string r (acc ++ s)
    | _ => Err 4%N
    end.

  (* let version = if let Some((L_PARENS, _)) = tokens.peek() { ... Some((constraint, version)) } else { None }; *)
  Definition read_version (ts : toks) : res (option (vconstraint * V) * toks) :=
    match ts with
    | (L_PARENS, _) :: r =>
      let '(c, r1) := read_constraint (eat_whitespace r) [] in
      match vc_of_str c with                                   (* constraint.parse()? *)
      | None => Err 3%N
      | Some vc =>
        match read_version_string (eat_whitespace r1) [] with
        | Ok (vs, r2) =>
          match vparse vs with                                 (* version_string.parse().map_err(..)? *)
          | None => Err 5%N
          | Some v =>
            match eat_whitespace r2 with                       (* if let Some((R_PARENS, _)) = tokens.next() *)
            | (R_PARENS, _) :: r3 => Ok (Some (vc, v), r3)
            | _ => Err 6%N
            end
          end
        | Err e => Err e | Panic n => Panic n | OutOfFuel => OutOfFuel
        end
      end
    | _ => Ok (None, ts)
    end.

  (* [patched] loop { match tokens.next() {
       Some((NOT, _)) => match tokens.next() { Some((IDENT, s)) => archs.push(format!("!{}", s)), _ => return Err(..) },
       Some((IDENT, s)) => archs.push(s), Some((WHITESPACE, _)) => {}, Some((R_BRACKET, _)) => break,
       _ => return Err(..) } } *)
  Fixpoint read_archs (ts : toks) (acc : list str) : res (list str * toks) :=
    match ts with
    | (NOT, _) :: (IDENT, s) :: r => read_archs r (acc ++ [33%N :: s])
    | (IDENT, s) :: r => read_archs r (acc ++ [s])
    | (WHITESPACE, _) :: r => read_archs r acc
    | (NEWLINE, _) :: r => read_archs r acc                      (* [patched] Some((WHITESPACE | NEWLINE, _)) => {} *)
    | (R_BRACKET, _) :: r => Ok (acc, r)
    | _ => Err 7%N
    end.

  Definition read_architectures (ts : toks) : res (option (list str) * toks) :=
    match ts with
    | (L_BRACKET, _) :: r =>
      match read_archs r [] with
      | Ok (a, r') => Ok (Some a, r')
      | Err e => Err e | Panic n => Panic n | OutOfFuel => OutOfFuel
      end
    | _ => Ok (None, ts)
    end.

  (* [patched] the body of one <...> group: loop { match tokens.next() {
       Some((NOT, _)) => { IDENT expected; push Disabled }, Some((IDENT, s)) => push Enabled,
       Some((WHITESPACE, _)) => {}, Some((R_ANGLE, _)) => break, _ => return Err(..) } } *)
  Fixpoint read_profile_group (ts : toks) (acc : list bprofile) : res (list bprofile * toks) :=
    match ts with
    | (NOT, _) :: (IDENT, s) :: r => read_profile_group r (acc ++ [Disabled s])
    | (IDENT, s) :: r => read_profile_group r (acc ++ [Enabled s])
    | (WHITESPACE, _) :: r => read_profile_group r acc
    | (NEWLINE, _) :: r => read_profile_group r acc              (* [patched] *)
    | (R_ANGLE, _) :: r => Ok (acc, r)
    | _ => Err 8%N
    end.

  (* while let Some((L_ANGLE, _)) = tokens.peek() { tokens.next(); <group>; profiles.push(profile);
       eat_whitespace(&mut tokens); }      — a loop whose body returns the iterator: fuel *)
  Fixpoint read_profiles (fuel : nat) (ts : toks) (acc : list (list bprofile))
    : res (list (list bprofile) * toks) :=
    match ts with
    | (L_ANGLE, _) :: r =>
      match fuel with
      | O => OutOfFuel
      | S f =>
        match read_profile_group r [] with
        | Ok (g, r') => read_profiles f (eat_whitespace r') (acc ++ [g])
        | Err e => Err e | Panic n => Panic n | OutOfFuel => OutOfFuel
        end
      end
    | _ => Ok (acc, ts)
    end.

  (* the body of <lossy::Relation as FromStr>::from_str after lex(s) *)
  Definition relation_from_tokens (ts : toks) : res (relation V) :=
    bind (read_name ts) (fun '(name, t1) =>
    bind (read_archqual (eat_whitespace t1)) (fun '(aq, t2) =>
    bind (read_version (eat_whitespace t2)) (fun '(ver, t3) =>
    bind (read_architectures (eat_whitespace t3)) (fun '(archs, t4) =>
    bind (read_profiles (S (length t4)) (eat_whitespace t4) []) (fun '(profs, t5) =>
    match eat_whitespace t5 with
    | [] => Ok (mkRel name aq archs ver profs)
    | _ :: _ => Err 9%N                                        (* Unexpected token *)
    end))))).

  (* <lossy::Relation as FromStr>::from_str *)
  Definition relation_from_str (s : str) : res (relation V) :=
    bind (rlex s) relation_from_tokens.

  (* entry.split('|').map(|relation| { let relation = relation.trim(); if relation.is_empty()
       { return Err("Empty relation") } relation.parse() }).collect::<Result<Vec<_>, _>>()
     — lazy: stops at the first error *)
  Fixpoint read_alternatives (ps : list str) : res (list (relation V)) :=
    match ps with
    | [] => Ok []
    | p :: rest =>
      let p' := trim p in
      match p' with
      | [] => Err 10%N
      | _ :: _ =>
        bind (relation_from_str p') (fun r =>
        bind (read_alternatives rest) (fun rs => Ok (r :: rs)))
      end
    end.

  (* for entry in s.split(',') { let entry = entry.trim(); if entry.is_empty() { continue; } ...
       relations.push(entry_relations.collect::<Result<Vec<_>, _>>()?); } *)
  Fixpoint read_entries (es : list str) : res (list (list (relation V))) :=
    match es with
    | [] => Ok []
    | e :: rest =>
      let e' := trim e in
      match e' with
      | [] => read_entries rest
      | _ :: _ =>
        bind (read_alternatives (split_on 124%N e')) (fun alts =>
        bind (read_entries rest) (fun ents => Ok (alts :: ents)))
      end
    end.

  (* <lossy::Relations as FromStr>::from_str *)
  Definition relations_from_str (s : str) : res (list (list (relation V))) :=
    match s with
    | [] => Ok []                                              (* if s.is_empty() *)
    | _ :: _ => read_entries (split_on 44%N s)
    end.
End Reader.

Section Printer.
  Variable V : Type.
  Variable vprint : V -> str.          (* Display for debversion::Version *)

  (* [patched] Display for lossy::Relation: the terms of a profile group are separated by " " *)
  Definition print_relation (r : relation V) : str :=
    r_name r
    ++ match r_archqual r with Some q => 58%N :: q | None => [] end
    ++ match r_version r with
       | Some (c, v) => [32; 40]%N ++ vc_print c ++ [32%N] ++ vprint v ++ [41%N]
       | None => []
       end
    ++ match r_archs r with
       | Some a => [32; 91]%N ++ join [32%N] a ++ [93%N]
       | None => []
       end
    ++ flat_map (fun g => [32; 60]%N ++ join [32%N] (map profile_print g) ++ [62%N]) (r_profiles r).

  (* Display for lossy::Relations *)
  Definition print_entry (e : list (relation V)) : str := join [32; 124; 32]%N (map print_relation e).
  Definition print_relations (rs : list (list (relation V))) : str :=
    join [44; 32]%N (map print_entry rs).
End Printer.

Arguments read_version {V} vparse ts.
Arguments relation_from_tokens {V} vparse ts.
Arguments relation_from_str {V} vparse s.
Arguments read_alternatives {V} vparse ps.
Arguments read_entries {V} vparse es.
Arguments relations_from_str {V} vparse s.
Arguments print_relation {V} vprint r.
Arguments print_entry {V} vprint e.
Arguments print_relations {V} vprint rs.

(* ------------------------------------------------------------------ the code before the newline fix *)
(* The reader as it is in /repo 5517d72, BEFORE proposed_fixes/C14-lossy-newlines.patch: white space
   is the WHITESPACE token only, so a line break inside a relation ("a\n (>= 1)", "a [\n b]") is
   rejected, and nothing may stand between ':' and the architecture qualifier.  The streams
   rel-lossy-oldnl / rel-lossy-text-oldnl compare these definitions with an unpatched tree. *)
Fixpoint oldnl_eat_whitespace (ts : toks) : toks :=
  match ts with (WHITESPACE, _) :: r => oldnl_eat_whitespace r | _ => ts end.

Section OldNlReader.
  Variable V : Type.
  Variable vparse : str -> option V.   (* <debversion::Version as FromStr>::from_str; None = Err *)

  (* let archqual = if let Some((COLON, _)) = tokens.peek() { tokens.next(); match tokens.next() {..} } *)
  Definition oldnl_read_archqual (ts : toks) : res (option str * toks) :=
    match ts with
    | (COLON, _) :: r =>
      match r with (IDENT, s) :: r' => Ok (Some s, r') | _ => Err 2%N end
    | _ => Ok (None, ts)
    end.

  (* while let Some((kind, s)) = tokens.peek() { match kind { R_PARENS | WHITESPACE => break,
       IDENT | COLON => version_string.push_str(s), n => return Err(..) } tokens.next(); }
     (WHITESPACE since /repo 3e262bf: "a (>= 1 )" is accepted; the blanks are eaten by the
     oldnl_eat_whitespace that follows the loop) *)
  Fixpoint oldnl_read_version_string (ts : toks) (acc : str) : res (str * toks) :=
    match ts with
    | [] => Ok (acc, [])
    | (R_PARENS, _) :: _ => Ok (acc, ts)
    | (WHITESPACE, _) :: _ => Ok (acc, ts)
    | (IDENT, s) :: r => oldnl_read_version_string r (acc ++ s)
    | (COLON, s) :: r => oldnl_read_version_string r (acc ++ s)
    | _ => Err 4%N
    end.

  (* let version = if let Some((L_PARENS, _)) = tokens.peek() { ... Some((constraint, version)) } else { None }; *)
  Definition oldnl_read_version (ts : toks) : res (option (vconstraint * V) * toks) :=
    match ts with
    | (L_PARENS, _) :: r =>
      let '(c, r1) := read_constraint (oldnl_eat_whitespace r) [] in
      match vc_of_str c with                                   (* constraint.parse()? *)
      | None => Err 3%N
      | Some vc =>
        match oldnl_read_version_string (oldnl_eat_whitespace r1) [] with
        | Ok (vs, r2) =>
          match vparse vs with                                 (* version_string.parse().map_err(..)? *)
          | None => Err 5%N
          | Some v =>
            match oldnl_eat_whitespace r2 with                       (* if let Some((R_PARENS, _)) = tokens.next() *)
            | (R_PARENS, _) :: r3 => Ok (Some (vc, v), r3)
            | _ => Err 6%N
            end
          end
        | Err e => Err e | Panic n => Panic n | OutOfFuel => OutOfFuel
        end
      end
    | _ => Ok (None, ts)
    end.

  (* [patched] loop { match tokens.next() {
       Some((NOT, _)) => match tokens.next() { Some((IDENT, s)) => archs.push(format!("!{}", s)), _ => return Err(..) },
       Some((IDENT, s)) => archs.push(s), Some((WHITESPACE, _)) => {}, Some((R_BRACKET, _)) => break,
       _ => return Err(..) } } *)
  Fixpoint oldnl_read_archs (ts : toks) (acc : list str) : res (list str * toks) :=
    match ts with
    | (NOT, _) :: (IDENT, s) :: r => oldnl_read_archs r (acc ++ [33%N :: s])
    | (IDENT, s) :: r => oldnl_read_archs r (acc ++ [s])
    | (WHITESPACE, _) :: r => oldnl_read_archs r acc
    | (R_BRACKET, _) :: r => Ok (acc, r)
    | _ => Err 7%N
    end.

  Definition oldnl_read_architectures (ts : toks) : res (option (list str) * toks) :=
    match ts with
    | (L_BRACKET, _) :: r =>
      match oldnl_read_archs r [] with
      | Ok (a, r') => Ok (Some a, r')
      | Err e => Err e | Panic n => Panic n | OutOfFuel => OutOfFuel
      end
    | _ => Ok (None, ts)
    end.

  (* [patched] the body of one <...> group: loop { match tokens.next() {
       Some((NOT, _)) => { IDENT expected; push Disabled }, Some((IDENT, s)) => push Enabled,
       Some((WHITESPACE, _)) => {}, Some((R_ANGLE, _)) => break, _ => return Err(..) } } *)
  Fixpoint oldnl_read_profile_group (ts : toks) (acc : list bprofile) : res (list bprofile * toks) :=
    match ts with
    | (NOT, _) :: (IDENT, s) :: r => oldnl_read_profile_group r (acc ++ [Disabled s])
    | (IDENT, s) :: r => oldnl_read_profile_group r (acc ++ [Enabled s])
    | (WHITESPACE, _) :: r => oldnl_read_profile_group r acc
    | (R_ANGLE, _) :: r => Ok (acc, r)
    | _ => Err 8%N
    end.

  (* while let Some((L_ANGLE, _)) = tokens.peek() { tokens.next(); <group>; profiles.push(profile);
       oldnl_eat_whitespace(&mut tokens); }      — a loop whose body returns the iterator: fuel *)
  Fixpoint oldnl_read_profiles (fuel : nat) (ts : toks) (acc : list (list bprofile))
    : res (list (list bprofile) * toks) :=
    match ts with
    | (L_ANGLE, _) :: r =>
      match fuel with
      | O => OutOfFuel
      | S f =>
        match oldnl_read_profile_group r [] with
        | Ok (g, r') => oldnl_read_profiles f (oldnl_eat_whitespace r') (acc ++ [g])
        | Err e => Err e | Panic n => Panic n | OutOfFuel => OutOfFuel
        end
      end
    | _ => Ok (acc, ts)
    end.

  (* the body of <lossy::Relation as FromStr>::from_str after lex(s) *)
  Definition oldnl_relation_from_tokens (ts : toks) : res (relation V) :=
    bind (read_name ts) (fun '(name, t1) =>
    bind (oldnl_read_archqual (oldnl_eat_whitespace t1)) (fun '(aq, t2) =>
    bind (oldnl_read_version (oldnl_eat_whitespace t2)) (fun '(ver, t3) =>
    bind (oldnl_read_architectures (oldnl_eat_whitespace t3)) (fun '(archs, t4) =>
    bind (oldnl_read_profiles (S (length t4)) (oldnl_eat_whitespace t4) []) (fun '(profs, t5) =>
    match oldnl_eat_whitespace t5 with
    | [] => Ok (mkRel name aq archs ver profs)
    | _ :: _ => Err 9%N                                        (* Unexpected token *)
    end))))).

  (* <lossy::Relation as FromStr>::from_str *)
  Definition oldnl_relation_from_str (s : str) : res (relation V) :=
    bind (rlex s) oldnl_relation_from_tokens.

  (* entry.split('|').map(|relation| { let relation = relation.trim(); if relation.is_empty()
       { return Err("Empty relation") } relation.parse() }).collect::<Result<Vec<_>, _>>()
     — lazy: stops at the first error *)
  Fixpoint oldnl_read_alternatives (ps : list str) : res (list (relation V)) :=
    match ps with
    | [] => Ok []
    | p :: rest =>
      let p' := trim p in
      match p' with
      | [] => Err 10%N
      | _ :: _ =>
        bind (oldnl_relation_from_str p') (fun r =>
        bind (oldnl_read_alternatives rest) (fun rs => Ok (r :: rs)))
      end
    end.

  (* for entry in s.split(',') { let entry = entry.trim(); if entry.is_empty() { continue; } ...
       relations.push(entry_relations.collect::<Result<Vec<_>, _>>()?); } *)
  Fixpoint oldnl_read_entries (es : list str) : res (list (list (relation V))) :=
    match es with
    | [] => Ok []
    | e :: rest =>
      let e' := trim e in
      match e' with
      | [] => oldnl_read_entries rest
      | _ :: _ =>
        bind (oldnl_read_alternatives (split_on 124%N e')) (fun alts =>
        bind (oldnl_read_entries rest) (fun ents => Ok (alts :: ents)))
      end
    end.

  (* <lossy::Relations as FromStr>::from_str *)
  Definition oldnl_relations_from_str (s : str) : res (list (list (relation V))) :=
    match s with
    | [] => Ok []                                              (* if s.is_empty() *)
    | _ :: _ => oldnl_read_entries (split_on 44%N s)
    end.
End OldNlReader.

Arguments oldnl_read_version {V} vparse ts.
Arguments oldnl_relation_from_tokens {V} vparse ts.
Arguments oldnl_relation_from_str {V} vparse s.
Arguments oldnl_read_alternatives {V} vparse ps.
Arguments oldnl_read_entries {V} vparse es.
Arguments oldnl_relations_from_str {V} vparse s.

(* ------------------------------------------------------------------ pre-fix code *)
(* The reader and the printer as they are in /repo BEFORE proposed_fixes/C14-lossy-relations.patch.
   Only the places that the fixes touch differ (a2c6991 negated architectures, 7cd890b restriction
   lists and Display, 3e262bf whitespace before ')'). *)
Section OldReader.
  Variable V : Type.
  Variable vparse : str -> option V.

  (* the version loop before /repo 3e262bf: only R_PARENS ends it, whitespace is an error *)
  Fixpoint old_read_version_string (ts : toks) (acc : str) : res (str * toks) :=
    match ts with
    | [] => Ok (acc, [])
    | (R_PARENS, _) :: _ => Ok (acc, ts)
    | (IDENT, s) :: r => old_read_version_string r (acc ++ s)
    | (COLON, s) :: r => old_read_version_string r (acc ++ s)
    | _ => Err 4%N
    end.

  Definition old_read_version (ts : toks) : res (option (vconstraint * V) * toks) :=
    match ts with
    | (L_PARENS, _) :: r =>
      let '(c, r1) := read_constraint (oldnl_eat_whitespace r) [] in
      match vc_of_str c with
      | None => Err 3%N
      | Some vc =>
        match old_read_version_string (oldnl_eat_whitespace r1) [] with
        | Ok (vs, r2) =>
          match vparse vs with
          | None => Err 5%N
          | Some v =>
            match oldnl_eat_whitespace r2 with
            | (R_PARENS, _) :: r3 => Ok (Some (vc, v), r3)
            | _ => Err 6%N
            end
          end
        | Err e => Err e | Panic n => Panic n | OutOfFuel => OutOfFuel
        end
      end
    | _ => Ok (None, ts)
    end.

  (* loop { match tokens.next() { Some((IDENT, s)) => archs.push(s), Some((WHITESPACE, _)) => {},
       Some((R_BRACKET, _)) => break, _ => return Err(..) } } *)
  Fixpoint old_read_archs (ts : toks) (acc : list str) : res (list str * toks) :=
    match ts with
    | (IDENT, s) :: r => old_read_archs r (acc ++ [s])
    | (WHITESPACE, _) :: r => old_read_archs r acc
    | (R_BRACKET, _) :: r => Ok (acc, r)
    | _ => Err 7%N
    end.

  Definition old_read_architectures (ts : toks) : res (option (list str) * toks) :=
    match ts with
    | (L_BRACKET, _) :: r =>
      match old_read_archs r [] with
      | Ok (a, r') => Ok (Some a, r')
      | Err e => Err e | Panic n => Panic n | OutOfFuel => OutOfFuel
      end
    | _ => Ok (None, ts)
    end.

  (* innermost loop: loop { match tokens.next() { NOT => {IDENT expected; push Disabled},
       IDENT => push Enabled, WHITESPACE => {}, _ => return Err }
       if let Some((COMMA, _)) = tokens.peek() { tokens.next(); } else { break; } } *)
  Fixpoint old_profile_terms (ts : toks) (acc : list bprofile) : res (list bprofile * toks) :=
    match ts with
    | (NOT, _) :: (IDENT, s) :: r =>
      match r with
      | (COMMA, _) :: r' => old_profile_terms r' (acc ++ [Disabled s])
      | _ => Ok (acc ++ [Disabled s], r)
      end
    | (IDENT, s) :: r =>
      match r with
      | (COMMA, _) :: r' => old_profile_terms r' (acc ++ [Enabled s])
      | _ => Ok (acc ++ [Enabled s], r)
      end
    | (WHITESPACE, _) :: r =>
      match r with
      | (COMMA, _) :: r' => old_profile_terms r' acc
      | _ => Ok (acc, r)
      end
    | _ => Err 8%N
    end.

  (* middle loop: loop { let mut profile = Vec::new(); <innermost loop>; profiles.push(profile);
       if let Some((R_ANGLE, _)) = tokens.next() { oldnl_eat_whitespace(&mut tokens); break; } }
     — when the token after the terms is not R_ANGLE it is consumed and the loop goes round *)
  Fixpoint old_profile_groups (fuel : nat) (ts : toks) (acc : list (list bprofile))
    : res (list (list bprofile) * toks) :=
    match fuel with
    | O => OutOfFuel
    | S f =>
      match old_profile_terms ts [] with
      | Ok (g, r) =>
        match r with
        | (R_ANGLE, _) :: r' => Ok (acc ++ [g], oldnl_eat_whitespace r')
        | _ :: r' => old_profile_groups f r' (acc ++ [g])
        | [] => old_profile_groups f [] (acc ++ [g])
        end
      | Err e => Err e | Panic n => Panic n | OutOfFuel => OutOfFuel
      end
    end.

  (* outer loop: while let Some((L_ANGLE, _)) = tokens.peek() { tokens.next(); <middle loop> } *)
  Fixpoint old_read_profiles (fuel : nat) (ts : toks) (acc : list (list bprofile))
    : res (list (list bprofile) * toks) :=
    match ts with
    | (L_ANGLE, _) :: r =>
      match fuel with
      | O => OutOfFuel
      | S f =>
        match old_profile_groups (S (length r)) r acc with
        | Ok (acc', r') => old_read_profiles f r' acc'
        | Err e => Err e | Panic n => Panic n | OutOfFuel => OutOfFuel
        end
      end
    | _ => Ok (acc, ts)
    end.

  Definition old_relation_from_tokens (ts : toks) : res (relation V) :=
    bind (read_name ts) (fun '(name, t1) =>
    bind (oldnl_read_archqual (oldnl_eat_whitespace t1)) (fun '(aq, t2) =>
    bind (old_read_version (oldnl_eat_whitespace t2)) (fun '(ver, t3) =>
    bind (old_read_architectures (oldnl_eat_whitespace t3)) (fun '(archs, t4) =>
    bind (old_read_profiles (S (length t4)) (oldnl_eat_whitespace t4) []) (fun '(profs, t5) =>
    match oldnl_eat_whitespace t5 with
    | [] => Ok (mkRel name aq archs ver profs)
    | _ :: _ => Err 9%N
    end))))).

  Definition old_relation_from_str (s : str) : res (relation V) :=
    bind (rlex s) old_relation_from_tokens.

  Fixpoint old_read_alternatives (ps : list str) : res (list (relation V)) :=
    match ps with
    | [] => Ok []
    | p :: rest =>
      let p' := trim p in
      match p' with
      | [] => Err 10%N
      | _ :: _ =>
        bind (old_relation_from_str p') (fun r =>
        bind (old_read_alternatives rest) (fun rs => Ok (r :: rs)))
      end
    end.

  Fixpoint old_read_entries (es : list str) : res (list (list (relation V))) :=
    match es with
    | [] => Ok []
    | e :: rest =>
      let e' := trim e in
      match e' with
      | [] => old_read_entries rest
      | _ :: _ =>
        bind (old_read_alternatives (split_on 124%N e')) (fun alts =>
        bind (old_read_entries rest) (fun ents => Ok (alts :: ents)))
      end
    end.

  Definition old_relations_from_str (s : str) : res (list (list (relation V))) :=
    match s with
    | [] => Ok []
    | _ :: _ => old_read_entries (split_on 44%N s)
    end.
End OldReader.

Section OldPrinter.
  Variable V : Type.
  Variable vprint : V -> str.
  (* for (i, profile) in profile.iter().enumerate() { if i > 0 { write!(f, ", ")?; } write!(f, "{}", profile)?; } *)
  Definition old_print_relation (r : relation V) : str :=
    r_name r
    ++ match r_archqual r with Some q => 58%N :: q | None => [] end
    ++ match r_version r with
       | Some (c, v) => [32; 40]%N ++ vc_print c ++ [32%N] ++ vprint v ++ [41%N]
       | None => []
       end
    ++ match r_archs r with
       | Some a => [32; 91]%N ++ join [32%N] a ++ [93%N]
       | None => []
       end
    ++ flat_map (fun g => [32; 60]%N ++ join [44; 32]%N (map profile_print g) ++ [62%N]) (r_profiles r).
  Definition old_print_entry (e : list (relation V)) : str :=
    join [32; 124; 32]%N (map old_print_relation e).
  Definition old_print_relations (rs : list (list (relation V))) : str :=
    join [44; 32]%N (map old_print_entry rs).
End OldPrinter.

Arguments old_read_version {V} vparse ts.
Arguments old_relation_from_tokens {V} vparse ts.
Arguments old_relation_from_str {V} vparse s.
Arguments old_read_alternatives {V} vparse ps.
Arguments old_read_entries {V} vparse es.
Arguments old_relations_from_str {V} vparse s.
Arguments old_print_relation {V} vprint r.
Arguments old_print_entry {V} vprint e.
Arguments old_print_relations {V} vprint rs.

(* ------------------------------------------------------------------ debversion 0.4.4 (modelled external) *)
(* pub struct Version { epoch: Option<u32>, upstream_version: String, debian_revision: Option<String> } *)
Record dversion : Type := mkDv { dv_epoch : option N; dv_upstream : str; dv_revision : option str }.

Definition is_digit (c : char) : bool := ((48 <=? c) && (c <=? 57))%N.
(* [A-Za-z0-9.+:~-] and [A-Za-z0-9+.~] *)
Definition is_upstream_char (c : char) : bool :=
  is_ascii_alnum c || (c =? 46)%N || (c =? 43)%N || (c =? 58)%N || (c =? 126)%N || (c =? 45)%N.
Definition is_revision_char (c : char) : bool :=
  is_ascii_alnum c || (c =? 43)%N || (c =? 46)%N || (c =? 126)%N.

(* <u32 as FromStr> on a non-empty run of ASCII digits: None on overflow *)
Definition dec_value (ds : str) : N := fold_left (fun a c => (a * 10 + (c - 48))%N) ds 0%N.
Definition parse_u32 (ds : str) : option N :=
  let n := dec_value ds in if (n <=? 4294967295)%N then Some n else None.

(* ([A-Za-z0-9.+:~-]+?)(?:-([A-Za-z0-9+.~]+))?$ on a text all of whose characters are in the first
   class: the lazy `+?` with the greedy-preferred optional group stops at the LAST '-' provided
   something precedes it and what follows is a non-empty run of the second class; otherwise the
   whole text is the upstream version *)
Definition split_revision (body : str) : str * option str :=
  let '(rsuf, rpre) := span (fun c => negb (c =? 45)%N) (rev body) in
  match rpre with
  | _ :: rp =>                                   (* the '-' itself, then the reversed prefix *)
    match rp, rsuf with
    | _ :: _, _ :: _ => if forallb is_revision_char rsuf then (rev rp, Some (rev rsuf)) else (body, None)
    | _, _ => (body, None)
    end
  | [] => (body, None)
  end.

(* <Version as FromStr>::from_str with the pattern ^(?:(\d+):)?([A-Za-z0-9.+:~-]+?)(?:-([A-Za-z0-9+.~]+))?$
   A character outside the upstream class makes the match fail, or (a non-ASCII \d inside the
   epoch) makes epoch.parse::<u32>() fail: an error either way. *)
Definition dv_parse (s : str) : option dversion :=
  if negb (forallb is_upstream_char s) then None
  else
    let '(ds, rest) := span is_digit s in
    let plain :=
      match s with
      | [] => None
      | _ :: _ => let '(u, r) := split_revision s in Some (mkDv None u r)
      end in
    match ds, rest with
    | _ :: _, c :: body =>
      if (c =? 58)%N then
        match body with
        | [] => plain                              (* "12:" — the epoch group gives way *)
        | _ :: _ =>
          match parse_u32 ds with
          | Some e => let '(u, r) := split_revision body in Some (mkDv (Some e) u r)
          | None => None
          end
        end
      else plain
    | _, _ => plain
    end.

(* decimal printing of u32 ("{}") *)
Fixpoint dec_digits_go (fuel : nat) (n : N) (acc : str) : str :=
  match fuel with
  | O => acc
  | S f =>
    let acc' := (48 + n mod 10)%N :: acc in
    if (n <? 10)%N then acc' else dec_digits_go f (n / 10)%N acc'
  end.
Definition dec_digits (n : N) : str := dec_digits_go (S (N.to_nat (N.log2 n))) n [].

(* Display for Version *)
Definition dv_print (v : dversion) : str :=
  match dv_epoch v with Some e => dec_digits e ++ [58%N] | None => [] end
  ++ dv_upstream v
  ++ match dv_revision v with Some r => 45%N :: r | None => [] end.

(* ------------------------------------------------------------------ specification: the domain of C14 *)
(* "valid components": names, qualifiers, architecture and profile names are non-empty runs of
   identifier characters ([A-Za-z0-9.+~-], Lexer::is_valid_ident_char); an architecture may be
   negated ("!name"); a version is valid when its printed form consists of identifier characters
   and ':' and the external parser reads that form back as the same version. *)
Definition ident_ok (s : str) : bool :=
  match s with [] => false | _ :: _ => forallb is_ident_char s end.
Definition arch_ok (s : str) : bool :=
  match s with
  | c :: r => if (c =? 33)%N then ident_ok r else ident_ok s
  | [] => false
  end.
Definition profile_ok (p : bprofile) : bool :=
  match p with Enabled s => ident_ok s | Disabled s => ident_ok s end.
Definition version_text_ok (s : str) : bool :=
  forallb (fun c => is_ident_char c || (c =? 58)%N) s.

Section Domain.
  Variable V : Type.
  Variable vparse : str -> option V.
  Variable vprint : V -> str.

  Definition version_ok (v : V) : Prop :=
    version_text_ok (vprint v) = true /\ vparse (vprint v) = Some v.

  Definition relation_ok (r : relation V) : Prop :=
    ident_ok (r_name r) = true
    /\ match r_archqual r with Some q => ident_ok q = true | None => True end
    /\ match r_version r with Some (_, v) => version_ok v | None => True end
    /\ match r_archs r with Some a => forallb arch_ok a = true | None => True end
    /\ forallb (forallb profile_ok) (r_profiles r) = true.

  (* Relations(Vec<Vec<Relation>>): every entry has at least one alternative *)
  Definition relations_ok (rs : list (list (relation V))) : Prop :=
    Forall (fun e => e <> [] /\ Forall relation_ok e) rs.
End Domain.
Arguments version_ok {V} vparse vprint v.
Arguments relation_ok {V} vparse vprint r.
Arguments relations_ok {V} vparse vprint rs.

(* A syntactic class of debversion values on which dv_parse/dv_print round-trip (Debian Policy
   5.6.12: ':' in the upstream version only with an epoch, '-' only with a revision). *)
Definition dv_canonical (v : dversion) : bool :=
  match dv_epoch v with Some e => (e <=? 4294967295)%N | None => true end
  && match dv_upstream v with [] => false | _ :: _ => true end
  && forallb (fun c => is_ident_char c && (negb (c =? 45)%N || match dv_revision v with Some _ => true | None => false end)
                       || (c =? 58)%N && match dv_epoch v with Some _ => true | None => false end)
             (dv_upstream v)
  && match dv_revision v with
     | Some r => match r with [] => false | _ :: _ => forallb is_revision_char r end
     | None => true
     end.

(* the domain of C14 for the concrete version model, decidable *)
Definition relation_okb (r : relation dversion) : bool :=
  ident_ok (r_name r)
  && match r_archqual r with Some q => ident_ok q | None => true end
  && match r_version r with Some (_, v) => dv_canonical v | None => true end
  && match r_archs r with Some a => forallb arch_ok a | None => true end
  && forallb (forallb profile_ok) (r_profiles r).
Definition relations_okb (rs : list (list (relation dversion))) : bool :=
  forallb (fun e => match e with [] => false | _ :: _ => forallb relation_okb e end) rs.
