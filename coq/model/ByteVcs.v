(* Byte-level transcription of the slicing in
     debian-control/src/vcs.rs               <ParsedVcs as FromStr>::from_str
     debian-control/src/lossless/changes.rs  Changes::get_pool_path (`source[..1]`)
   What the functions compute is the char-level model (Vcs.v, Accessors.v); here every slice
   the source performs is performed at a BYTE offset through the panicking primitives of
   Utf8.v.  The slice constants are arguments (`_k`), instantiated by the hand transcription
   below and — in proofs/ByteVcsP.v — by the constants translate/bytesites.py read from the
   source.  The regex crate is a modelled external (Vcs.re_find); its Match reports the byte
   offsets of the matched text (always character boundaries).  No proofs in this file. *)
From V.model Require Import Base Utf8 CodecStr Vcs.

Definition site_usize_underflow : N := 43.    (* `len - k` with k > len (debug build: overflow panic) *)

Definition sub_b (a b : nat) : res nat := if a <? b then Panic site_usize_underflow else Ok (a - b).

(* Regex::find: Some (m.start(), m.end()) *)
Definition re_find_b (s : str) : option (nat * nat) :=
  match re_find s with
  | Some (a, run, _) => Some (len_b a, len_b a + len_b ([32; 91]%N ++ run ++ [93%N]))
  | None => None
  end.

Definition parsed_vcs_from_str_k (sub_from sub_back branch_from : nat) (find_lit : str) (s : str)
  : res parsed_vcs :=
  let s0 := trim s in
  bind (match re_find_b s0 with
        | Some (m_start, m_end) =>
            bind (slice_b s0 m_start m_end) (fun m_str =>                 (* m.as_str() *)
            bind (sub_b (len_b m_str) sub_back) (fun hi =>                (* m.as_str().len() - 1 *)
            bind (slice_b m_str sub_from hi) (fun sub =>                  (* m.as_str()[2..len - 1] *)
            bind (slice_to_b s0 m_start) (fun before =>                   (* s[..m.start()] *)
            bind (slice_from_b s0 m_end) (fun after =>                    (* s[m.end()..] *)
            Ok (Some sub, before ++ after))))))
        | None => Ok (None, s0)
        end) (fun '(sub, s1) =>
  match find_str_b find_lit s1 with                                        (* s.find(" -b ") *)
  | Some index =>
      bind (split_at_b s1 index) (fun '(url, branch_str) =>               (* s.split_at(index) *)
      bind (slice_from_b branch_str branch_from) (fun br =>                (* branch_str[4..] *)
      Ok {| repo_url := url; branch := Some br; subpath := sub |}))
  | None => Ok {| repo_url := s1; branch := None; subpath := sub |}
  end).

Definition parsed_vcs_from_str_b : str -> res parsed_vcs := parsed_vcs_from_str_k 2 1 4 lit_dash_b.

(* get_pool_path: `source[..k].to_lowercase()` ([lower] = the per-character lowercase mapping used
   by the char-level model, which applies it to one ASCII character) *)
Definition pool_prefix_k (k : nat) (lower : char -> char) (source : str) : res str :=
  rmap (map lower) (slice_to_b source k).
Definition pool_prefix_b := pool_prefix_k 1.

(* outcomes equal up to the number of the panic site *)
Definition res_sim {A} (x y : res A) : Prop :=
  match x, y with
  | Ok a, Ok b => a = b
  | Err a, Err b => a = b
  | Panic _, Panic _ => True
  | OutOfFuel, OutOfFuel => True
  | _, _ => False
  end.
