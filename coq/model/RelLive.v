(* Live layouts of a relationship field: the shapes the tree of a field can take while it is being
   edited.  They generalise RelGrammar.rfield (C10's well-formed fields: every whitespace slot
   explicit, empty entries, trailing comma, substitution variables): which NODE owns a run of white
   space is explicit here — the parser gives the white space after a relation to the RELATION, the
   ENTRY or the ROOT depending on what follows, and an edit does not move it — and white space is a
   list of tokens (an edit can leave two WHITESPACE tokens next to each other).
   [live_of] embeds every rfield (ltree (live_of f) = rtree_of f), [norm] reads a live layout back
   as an rfield with the same text, [a_op] is the abstract effect of every editing operation
   (which separators and which white space are inserted or removed, by position), [lcontent] the
   content.  Specification side of C11 (like LiveDoc.v for C04/C05).  Definitions only. *)
From V.model Require Import Base RelLex RelParse RelAcc RelGrammar.
From V.model Require Import RelEdit RelEditSpec RelEditTree.

(* ------------------------------------------------------------------ white space tokens *)
Inductive wtok : Type := WTok (newline : bool) (s : str).
Notation wsl := (list wtok).
Definition wtree (w : wtok) : rtree :=
  match w with WTok false s => Tok WHITESPACE s | WTok true s => Tok NEWLINE s end.
Definition wtrees (l : wsl) : list rtree := map wtree l.
Definition wtext (w : wtok) : str := match w with WTok _ s => s end.
Definition wstext (l : wsl) : str := flat_map wtext l.
Definition w_sp : wtok := WTok false [32%N].
(* the tokens of a white space slot, as the lexer cuts them *)
Definition wsl_of (s : str) : wsl :=
  map (fun t => match fst t with NEWLINE => WTok true (snd t) | _ => WTok false (snd t) end) (ws_toks s).

(* ------------------------------------------------------------------ layouts *)
(* the parts of a relation; of the RelGrammar records the fields g_ws0 / v_ws0 / q_ws0 (the white
   space in front of the part) are not used here: that white space is the [wsl] next to it *)
Record lrel := mk_lrel {
  l_name : str;
  l_qual : option (wsl * qual);
  l_ver : option (wsl * vclause);
  l_archs : option (wsl * group);
  l_profs : list (wsl * group);
  l_trail : wsl                      (* white space at the end, inside the RELATION node *)
}.
Record lentry := mk_lentry {
  e_first : lrel;
  e_alts : list (wsl * wsl * lrel);  (* white space before the '|' (in the ENTRY), after it, the alternative *)
  e_trail : wsl                      (* white space at the end, inside the ENTRY node *)
}.
Inductive relem : Type :=
| RW (w : wtok)                      (* white space in the ROOT *)
| RC                                 (* a comma *)
| RE (e : lentry)
| RS (seg : str) (segs : list str).  (* a substitution variable *)
Notation lroot := (list relem).

(* ------------------------------------------------------------------ their trees *)
Definition part {A} (f : A -> rtree) (o : option (wsl * A)) : list rtree :=
  match o with Some (w, a) => wtrees w ++ [f a] | None => [] end.
Definition prof_part (wg : wsl * group) : list rtree := wtrees (fst wg) ++ [prof_node (snd wg)].
Definition lrel_children (r : lrel) : list rtree :=
  Tok IDENT (l_name r) :: part qual_node (l_qual r) ++ part vnode (l_ver r) ++ part arch_node (l_archs r)
  ++ flat_map prof_part (l_profs r) ++ wtrees (l_trail r).
Definition lrel_tree (r : lrel) : rtree := Node RELATION (lrel_children r).
Definition alt_part (a : wsl * wsl * lrel) : list rtree :=
  wtrees (fst (fst a)) ++ t_pipe :: wtrees (snd (fst a)) ++ [lrel_tree (snd a)].
Definition lentry_children (e : lentry) : list rtree :=
  lrel_tree (e_first e) :: flat_map alt_part (e_alts e) ++ wtrees (e_trail e).
Definition lentry_tree (e : lentry) : rtree := Node ENTRY (lentry_children e).
Definition relem_tree (x : relem) : rtree :=
  match x with
  | RW w => wtree w
  | RC => t_comma
  | RE e => lentry_tree e
  | RS seg segs => subst_node seg segs
  end.
Definition ltree (l : lroot) : rtree := Node ROOT (map relem_tree l).

(* ------------------------------------------------------------------ well-formedness *)
Definition wtok_ok (w : wtok) : bool :=
  match w with
  | WTok false s => nonempty s && forallb (fun c => (c =? 32)%N || (c =? 9)%N) s
  | WTok true s => str_eqb s [10%N]
  end.
Definition wsl_ok (l : wsl) : bool := forallb wtok_ok l.
Definition inner_ok {A} (f : A -> bool) (o : option (wsl * A)) : bool :=
  match o with Some (w, a) => wsl_ok w && f a | None => true end.
(* the inside of a part (its own leading slot is not looked at) *)
Definition qual_in_ok (q : qual) : bool := ws_ok (q_ws1 q) && ident_ok (q_name q).
Definition vclause_in_ok (v : vclause) : bool :=
  ws_ok (v_ws1 v) && ws_ok (v_ws2 v) && ws_ok (v_ws3 v)
  && opt_ok epoch_ok (v_epoch v) && ident_ok (v_ver v)
  && forallb ident_ok (v_more v) && match v_epoch v with None => is_nil (v_more v) | Some _ => true end.
Definition group_in_ok (g : group) : bool := terms_ok (g_terms g) && ws_ok (g_ws1 g).
Definition lrel_ok (r : lrel) : bool :=
  ident_ok (l_name r) && inner_ok qual_in_ok (l_qual r) && inner_ok vclause_in_ok (l_ver r)
  && inner_ok group_in_ok (l_archs r)
  && forallb (fun wg => wsl_ok (fst wg) && group_in_ok (snd wg)) (l_profs r) && wsl_ok (l_trail r).
Definition lentry_ok (e : lentry) : bool :=
  lrel_ok (e_first e)
  && forallb (fun a => wsl_ok (fst (fst a)) && wsl_ok (snd (fst a)) && lrel_ok (snd a)) (e_alts e)
  && wsl_ok (e_trail e).
Definition relem_ok (allow_substvar : bool) (x : relem) : bool :=
  match x with
  | RW w => wtok_ok w
  | RC => true
  | RE e => lentry_ok e
  | RS seg segs => allow_substvar && ident_ok seg && forallb ident_ok segs
  end.
Definition is_item (x : relem) : bool := match x with RE _ | RS _ _ => true | _ => false end.
Definition is_rw (x : relem) : bool := match x with RW _ => true | _ => false end.
(* between two items (entries, substitution variables) there is a comma *)
Fixpoint separated (need_comma : bool) (l : lroot) : bool :=
  match l with
  | [] => true
  | RW _ :: r => separated need_comma r
  | RC :: r => separated false r
  | x :: r => negb need_comma && separated true r
  end.
Definition lwf (allow_substvar : bool) (l : lroot) : bool :=
  forallb (relem_ok allow_substvar) l && separated false l.

(* ------------------------------------------------------------------ content *)
Definition lrel_content (r : lrel) : relx :=
  mk_relx (l_name r) (option_map (fun wq => q_name (snd wq)) (l_qual r))
          (option_map (fun wv => (v_op (snd wv), vtext (snd wv))) (l_ver r))
          (option_map (fun wg => map term_arch (g_terms (snd wg))) (l_archs r))
          (map (fun wg => map term_profile (g_terms (snd wg))) (l_profs r)).
Definition lentry_content (e : lentry) : list relx :=
  lrel_content (e_first e) :: map (fun a => lrel_content (snd a)) (e_alts e).
Definition relem_entries (x : relem) : list (list relx) := match x with RE e => [lentry_content e] | _ => [] end.
Definition relem_substvars (x : relem) : list str := match x with RS seg segs => [subst_text seg segs] | _ => [] end.
Definition lcontent (l : lroot) : list (list relx) * list str :=
  (flat_map relem_entries l, flat_map relem_substvars l).
(* the texts of the entries, in order *)
Definition lentry_texts (l : lroot) : list str :=
  flat_map (fun x => match x with RE e => [text (lentry_tree e)] | _ => [] end) l.

(* ------------------------------------------------------------------ what the constructors build *)
Definition vop_of (v : vcn) : RelAcc.vop :=
  match v with
  | RelEdit.VGe => RelAcc.VGe | RelEdit.VLe => RelAcc.VLe | RelEdit.VEq => RelAcc.VEq
  | RelEdit.VGt => RelAcc.VGt | RelEdit.VLt => RelAcc.VLt
  end.
Definition vclause_new (vc : vcn) (ver : str) : vclause := mk_vclause [] [] (vop_of vc) [32%N] None ver [] [].
Definition qual_new (q : str) : qual := mk_qual [] [] q.
Fixpoint terms_new (i : nat) (l : list str) : list term :=
  match l with
  | [] => []
  | a :: r => mk_term (match i with O => [] | S _ => [32%N] end) false a :: terms_new (S i) r
  end.
Definition archs_new (l : list str) : group := mk_group [] (terms_new 0 l) [].
Fixpoint pterms_new (i : nat) (l : list profile) : list term :=
  match l with
  | [] => []
  | p :: r => mk_term (match i with O => [] | S _ => [32%N] end)
                      (match p with PDisabled _ => true | PEnabled _ => false end)
                      (match p with PDisabled n | PEnabled n => n end) :: pterms_new (S i) r
  end.
Definition profs_new (g : list profile) : group := mk_group [] (pterms_new 0 g) [].
(* Relation::new(name, version) *)
Definition lrel_new (r : relrec) : lrel :=
  mk_lrel (rr_name r) None
          (match rr_ver r with Some (vc, ver) => Some ([w_sp], vclause_new vc ver) | None => None end)
          None [] [].
(* Entry::from(vec![..]) *)
Definition lentry_new (r : relrec) (rs : list relrec) : lentry :=
  mk_lentry (lrel_new r) (map (fun r' => ([w_sp], [w_sp], lrel_new r')) rs) [].

(* ------------------------------------------------------------------ the abstract operations: the root *)
Fixpoint wlen (l : lroot) : nat := match l with RW _ :: r => S (wlen r) | _ => 0 end.
Definition is_re (x : relem) : bool := match x with RE _ => true | _ => false end.
Definition is_rc (x : relem) : bool := match x with RC => true | _ => false end.

(* Relations::insert / push (fixed): in front of entry idx goes "e, "; at the end, what goes in
   front of e depends on what the field ends with *)
Definition a_insert (l : lroot) (idx : nat) (e : lentry) : lroot :=
  match nth_index is_re idx l with
  | Some ci => insert_at ci [RE e; RC; RW w_sp] l
  | None =>
    let n := wlen (rev l) in
    l ++ match hd_error (skipn n (rev l)) with
         | None => [RE e]
         | Some RC => match n with O => [RW w_sp; RE e] | S _ => [RE e] end
         | Some _ => [RC; RW w_sp; RE e]
         end
  end.
Definition a_push (l : lroot) (e : lentry) : lroot := a_insert l (count_if is_re l) e.
Definition a_replace (l : lroot) (idx : nat) (e : lentry) : option lroot :=
  match nth_index is_re idx l with
  | Some ci => Some (replace_at ci (RE e) l)
  | None => None
  end.
(* Entry::remove at position ci: white space after it and a comma, or else white space before it
   and a comma; None = the "Unexpected node" panic (something other than a comma follows) *)
Definition a_remove_at (l : lroot) (ci : nat) : option lroot :=
  let pre := firstn ci l in
  let post := skipn (S ci) l in
  let n := wlen post in
  match (match skipn n post with
         | [] => Some (n, false)
         | RC :: _ => Some (S n, true)
         | _ => None
         end) with
  | None => None
  | Some (k1, removed_comma) =>
    if negb (existsb is_item pre) then
      Some (pre ++ skipn (wlen (skipn k1 post)) (skipn k1 post))
    else
      let rp := rev pre in
      let m := wlen rp in
      let k2 := match skipn m rp with
                | RC :: _ => if removed_comma then m else S m
                | _ => m
                end in
      Some (firstn (ci - k2) pre ++ skipn k1 post)
  end.
Definition a_remove_entry (l : lroot) (idx : nat) : option lroot :=
  match nth_index is_re idx l with
  | Some ci => a_remove_at l ci
  | None => None
  end.

(* ------------------------------------------------------------------ the abstract operations: an entry *)
Definition nth_rel (e : lentry) (j : nat) : option lrel :=
  match j with O => Some (e_first e) | S j' => option_map snd (nth_error (e_alts e) j') end.
Definition upd_rel (e : lentry) (j : nat) (g : lrel -> lrel) : lentry :=
  match j with
  | O => mk_lentry (g (e_first e)) (e_alts e) (e_trail e)
  | S j' => mk_lentry (e_first e) (upd_nth j' (fun a => (fst a, g (snd a))) (e_alts e)) (e_trail e)
  end.
Definition n_rels (e : lentry) : nat := S (length (e_alts e)).
(* Entry::push: " | r" after the last alternative (the entry's own trailing white space stays last) *)
Definition a_epush (e : lentry) (r : lrel) : lentry :=
  mk_lentry (e_first e) (e_alts e ++ [([w_sp], [w_sp], r)]) (e_trail e).
(* Entry::replace: the new relation takes the place, and the trailing white space, of the old one *)
Definition with_trail (t : wsl) (r : lrel) : lrel :=
  mk_lrel (l_name r) (l_qual r) (l_ver r) (l_archs r) (l_profs r) t.
Definition a_ereplace (e : lentry) (j : nat) (r : lrel) : lentry :=
  upd_rel e j (fun old => with_trail (l_trail old) r).
(* Relation::remove: with its '|' and the white space around it; None = no alternative is left *)
Definition a_remove_rel (e : lentry) (j : nat) : option lentry :=
  match j, e_alts e with
  | O, [] => None
  | O, (_, _, r) :: rest => Some (mk_lentry r rest (e_trail e))
  | S j', alts => Some (mk_lentry (e_first e) (remove_nth j' alts) (e_trail e))
  end.

(* ------------------------------------------------------------------ the abstract operations: a relation *)
Definition a_set_archqual (q : str) (r : lrel) : lrel :=
  mk_lrel (l_name r)
          (match l_qual r with Some (w, _) => Some (w, qual_new q) | None => Some ([], qual_new q) end)
          (l_ver r) (l_archs r) (l_profs r) (l_trail r).
Definition a_set_version (v : verspec) (r : lrel) : lrel :=
  mk_lrel (l_name r) (l_qual r)
          (match v with
           | None => None
           | Some (vc, ver) => match l_ver r with
                               | Some (w, _) => Some (w, vclause_new vc ver)
                               | None => Some ([w_sp], vclause_new vc ver)
                               end
           end)
          (l_archs r) (l_profs r) (l_trail r).
(* a new architecture list goes in front of the first profile group — between that group and the
   white space in front of it — or at the very end, after the relation's trailing white space *)
Definition a_set_archs (a : list str) (r : lrel) : lrel :=
  match l_archs r with
  | Some (w, _) => mk_lrel (l_name r) (l_qual r) (l_ver r) (Some (w, archs_new a)) (l_profs r) (l_trail r)
  | None =>
    match l_profs r with
    | (w, g) :: rest =>
        mk_lrel (l_name r) (l_qual r) (l_ver r) (Some (w ++ [w_sp], archs_new a)) (([], g) :: rest) (l_trail r)
    | [] => mk_lrel (l_name r) (l_qual r) (l_ver r) (Some (l_trail r ++ [w_sp], archs_new a)) [] []
    end
  end.
(* a new profile group goes after the last one, or at the very end *)
Definition a_add_profile (g : list profile) (r : lrel) : lrel :=
  match l_profs r with
  | [] => mk_lrel (l_name r) (l_qual r) (l_ver r) (l_archs r) [(l_trail r ++ [w_sp], profs_new g)] []
  | ps => mk_lrel (l_name r) (l_qual r) (l_ver r) (l_archs r) (ps ++ [([w_sp], profs_new g)]) (l_trail r)
  end.

(* ------------------------------------------------------------------ the abstract operations: a whole field *)
(* the idx-th entry of the field *)
Definition nth_entry (l : lroot) (idx : nat) : option (nat * lentry) :=
  match nth_index is_re idx l with
  | Some ci => match nth_error l ci with Some (RE e) => Some (ci, e) | _ => None end
  | None => None
  end.
Definition a_on_entry (l : lroot) (i : nat) (g : lentry -> lentry) : option lroot :=
  match nth_entry l i with
  | Some (ci, e) => Some (replace_at ci (RE (g e)) l)
  | None => None
  end.
Definition a_on_relation (l : lroot) (i j : nat) (g : lrel -> lrel) : option lroot :=
  match nth_entry l i with
  | Some (ci, e) => if j <? n_rels e then Some (replace_at ci (RE (upd_rel e j g)) l) else None
  | None => None
  end.
Definition a_remove_relation (l : lroot) (i j : nat) : option lroot :=
  match nth_entry l i with
  | Some (ci, e) =>
    if j <? n_rels e then
      match a_remove_rel e j with
      | Some e' => Some (replace_at ci (RE e') l)
      | None => a_remove_at l ci
      end
    else None
  | None => None
  end.

Definition operand_lentry (e : list relrec) : option lentry :=
  match e with r :: rs => Some (lentry_new r rs) | [] => None end.

Definition a_op (o : aop) (l : lroot) : option lroot :=
  match o with
  | APush e => option_map (a_push l) (operand_lentry e)
  | AInsert i e => option_map (a_insert l i) (operand_lentry e)
  | AReplace i e => match operand_lentry e with Some e' => a_replace l i e' | None => None end
  | ARemoveEntry i => a_remove_entry l i
  | AEPush i r => a_on_entry l i (fun e => a_epush e (lrel_new r))
  | AEReplace i j r =>
      match nth_entry l i with
      | Some (ci, e) => if j <? n_rels e then Some (replace_at ci (RE (a_ereplace e j (lrel_new r))) l) else None
      | None => None
      end
  | ARemoveRelation i j => a_remove_relation l i j
  | ASetVersion i j v => a_on_relation l i j (a_set_version v)
  | ADropConstraint i j => a_on_relation l i j (a_set_version None)
  | ASetArchqual i j q => a_on_relation l i j (a_set_archqual q)
  | ASetArchs i j a => a_on_relation l i j (a_set_archs a)
  | AAddProfile i j g => a_on_relation l i j (a_add_profile g)
  end.
Fixpoint a_ops (ops : list aop) (l : lroot) : option lroot :=
  match ops with
  | [] => Some l
  | o :: rest => match a_op o l with Some l' => a_ops rest l' | None => None end
  end.

(* ------------------------------------------------------------------ the list model on contents *)
Definition bprofile_of (p : profile) : bprofile :=
  match p with PEnabled n => Enabled n | PDisabled n => Disabled n end.
Definition relx_new (r : relrec) : relx :=
  mk_relx (rr_name r) None (option_map (fun v => (vop_of (fst v), snd v)) (rr_ver r)) None [].
Definition x_set_version (v : verspec) (x : relx) : relx :=
  mk_relx (x_name x) (x_qual x) (option_map (fun v => (vop_of (fst v), snd v)) v) (x_archs x) (x_profs x).
Definition x_set_qual (q : str) (x : relx) : relx :=
  mk_relx (x_name x) (Some q) (x_ver x) (x_archs x) (x_profs x).
Definition x_set_archs (a : list str) (x : relx) : relx :=
  mk_relx (x_name x) (x_qual x) (x_ver x) (Some (map (fun s => (false, s)) a)) (x_profs x).
Definition x_add_profile (g : list profile) (x : relx) : relx :=
  mk_relx (x_name x) (x_qual x) (x_ver x) (x_archs x) (x_profs x ++ [map bprofile_of g]).
Definition xstep (f : list (list relx)) (o : aop) : list (list relx) :=
  match o with
  | APush e => f ++ [map relx_new e]
  | AInsert i e => l_insert i (map relx_new e) f
  | AReplace i e => l_replace i (map relx_new e) f
  | ARemoveEntry i => l_remove i f
  | AEPush i r => upd_nth i (fun e => e ++ [relx_new r]) f
  | AEReplace i j r => upd_nth i (l_replace j (relx_new r)) f
  | ARemoveRelation i j => l_remove_relation i j f
  | ASetVersion i j v => l_on_relation i j (x_set_version v) f
  | ADropConstraint i j => l_on_relation i j (x_set_version None) f
  | ASetArchqual i j q => l_on_relation i j (x_set_qual q) f
  | ASetArchs i j a => l_on_relation i j (x_set_archs a) f
  | AAddProfile i j g => l_on_relation i j (x_add_profile g) f
  end.
(* the positions an operation names exist *)
Definition x_in_range (f : list (list relx)) (o : aop) : bool :=
  match o with
  | APush _ | AInsert _ _ => true
  | AReplace i _ | ARemoveEntry i | AEPush i _ => i <? length f
  | AEReplace i j _ | ARemoveRelation i j | ASetVersion i j _ | ADropConstraint i j
  | ASetArchqual i j _ | ASetArchs i j _ | AAddProfile i j _ =>
      match nth_error f i with Some e => j <? length e | None => false end
  end.

(* ------------------------------------------------------------------ every well-formed field is a live layout *)
Definition lrel_of (r : rel) (last : bool) : lrel :=
  mk_lrel (r_name r)
          (option_map (fun q => (wsl_of (q_ws0 q), q)) (r_qual r))
          (option_map (fun v => (wsl_of (v_ws0 v), v)) (r_ver r))
          (option_map (fun g => (wsl_of (g_ws0 g), g)) (r_archs r))
          (map (fun g => (wsl_of (g_ws0 g), g)) (r_profs r))
          (if owns_trail r last then wsl_of (r_trail r) else []).
Fixpoint lalts_of (prev : rel) (alts : list (str * rel)) (last : bool) : list (wsl * wsl * lrel) * wsl :=
  match alts with
  | [] => ([], if last then wsl_of (rel_left prev last) else [])
  | (w, r') :: alts' =>
      let '(rest, trail) := lalts_of r' alts' last in
      ((wsl_of (rel_left prev false), wsl_of w, lrel_of r' (match alts' with [] => last | _ => false end)) :: rest, trail)
  end.
Definition lentry_of (r : rel) (alts : list (str * rel)) (last : bool) : lentry :=
  let '(la, trail) := lalts_of r alts last in
  mk_lentry (lrel_of r (match alts with [] => last | _ => false end)) la trail.
Definition rws (s : str) : lroot := map RW (wsl_of s).
Definition litem_of (i : item) (last : bool) : lroot :=
  match i with
  | IEntry r alts => RE (lentry_of r alts last) :: rws (rels_left r alts last)
  | ISubst seg segs trail => RS seg segs :: rws trail
  | IEmpty => []
  end.
Fixpoint litems_of (i : item) (more : list (str * item)) : lroot :=
  litem_of i (is_nil more)
  ++ match more with [] => [] | (w, i') :: more' => RC :: rws w ++ litems_of i' more' end.
Definition live_of (f : rfield) : lroot := rws (f_lead f) ++ litems_of (f_first f) (f_rest f).

(* ------------------------------------------------------------------ and every live layout reads as a well-formed field *)
Definition nrel (r : lrel) (extra : str) : rel :=
  mk_rel (l_name r)
         (option_map (fun wq => mk_qual (wstext (fst wq)) (q_ws1 (snd wq)) (q_name (snd wq))) (l_qual r))
         (option_map (fun wv => let v := snd wv in
                        mk_vclause (wstext (fst wv)) (v_ws1 v) (v_op v) (v_ws2 v) (v_epoch v) (v_ver v) (v_more v) (v_ws3 v))
                     (l_ver r))
         (option_map (fun wg => mk_group (wstext (fst wg)) (g_terms (snd wg)) (g_ws1 (snd wg))) (l_archs r))
         (map (fun wg => mk_group (wstext (fst wg)) (g_terms (snd wg)) (g_ws1 (snd wg))) (l_profs r))
         (wstext (l_trail r) ++ extra).
(* the alternatives after [prev]: the white space in front of each '|' is the previous relation's trail *)
Fixpoint nalts (prev : lrel) (alts : list (wsl * wsl * lrel)) (extra : str) : rel * list (str * rel) :=
  match alts with
  | [] => (nrel prev extra, [])
  | (w1, w2, r) :: rest =>
      let '(r', more) := nalts r rest extra in
      (nrel prev (wstext w1), (wstext w2, r') :: more)
  end.
Definition nentry (e : lentry) (extra : str) : item :=
  let '(r, alts) := nalts (e_first e) (e_alts e) (wstext (e_trail e) ++ extra) in IEntry r alts.
(* the white space at the front of a root segment, and the rest *)
Fixpoint take_ws (l : lroot) : str * lroot :=
  match l with
  | RW w :: r => let '(s, r') := take_ws r in (wtext w ++ s, r')
  | _ => ([], l)
  end.
(* one comma-free segment of the root (after its leading white space): an item with the white
   space that follows it, or nothing *)
Definition nitem (seg : lroot) : item :=
  match seg with
  | RE e :: r => nentry e (fst (take_ws r))
  | RS s ss :: r => ISubst s ss (fst (take_ws r))
  | _ => IEmpty
  end.
(* split the root at its commas (the result is never empty) *)
Fixpoint segments (l : lroot) : list lroot :=
  match l with
  | [] => [[]]
  | RC :: r => [] :: segments r
  | x :: r => match segments r with s :: ss => (x :: s) :: ss | [] => [[x]] end
  end.
Definition nseg (seg : lroot) : str * item := let '(w, rest) := take_ws seg in (w, nitem rest).
Definition norm (l : lroot) : rfield :=
  match map nseg (segments l) with
  | [] => mk_rfield [] IEmpty []
  | (w, i) :: rest => mk_rfield w i rest
  end.

(* ------------------------------------------------------------------ the domain of the operands *)
(* the texts an operand is made of are non-empty runs of identifier characters; an entry operand
   has at least one alternative; operands are Entry::from(vec![Relation::new(name, version), ..])
   and Relation::new(name, version) (RelEditSpec.new_only) *)
Definition relrec_new_ok (r : relrec) : bool :=
  ident_ok (rr_name r) && match rr_ver r with Some (_, v) => ident_ok v | None => true end.
Definition profile_ok (p : profile) : bool := match p with PEnabled n | PDisabled n => ident_ok n end.
Definition operands_ok (o : aop) : bool :=
  match o with
  | APush e | AInsert _ e | AReplace _ e => nonempty e && forallb relrec_new_ok e && forallb new_only e
  | AEPush _ r | AEReplace _ _ r => relrec_new_ok r && new_only r
  | ASetVersion _ _ (Some (_, v)) => ident_ok v
  | ASetArchqual _ _ q => ident_ok q
  | ASetArchs _ _ a => nonempty a && forallb ident_ok a
  | AAddProfile _ _ g => nonempty g && forallb profile_ok g
  | _ => true
  end.

(* ------------------------------------------------------------------ operands parsed from texts *)
(* Entry::from_str / Relation::from_str of the text of a well-formed entry  lead r ("|" ws r')*
   (a relation: no alternatives): the handle points INTO the parsed tree *)
Inductive pop : Type :=
| PPush (lead : str) (r : rel) (alts : list (str * rel))
| PInsert (i : nat) (lead : str) (r : rel) (alts : list (str * rel))
| PReplace (i : nat) (lead : str) (r : rel) (alts : list (str * rel))
| PEPush (i : nat) (lead : str) (r : rel)
| PEReplace (i j : nat) (lead : str) (r : rel).
Definition entry_field (lead : str) (r : rel) (alts : list (str * rel)) : rfield := mk_rfield lead (IEntry r alts) [].
Definition entry_text (lead : str) (r : rel) (alts : list (str * rel)) : str := rrender (entry_field lead r alts).
Definition pcompile (o : pop) : list op :=
  match o with
  | PPush lead r alts => [ONewEntry 1 (ESParse (entry_text lead r alts)); OPush 1]
  | PInsert i lead r alts => [ONewEntry 1 (ESParse (entry_text lead r alts)); OInsert i 1]
  | PReplace i lead r alts => [ONewEntry 1 (ESParse (entry_text lead r alts)); OReplace i 1]
  | PEPush i lead r => [ONewRel 1 (RSParse (entry_text lead r [])); OGetEntry 0 i; OEPush 0 1]
  | PEReplace i j lead r => [ONewRel 1 (RSParse (entry_text lead r [])); OGetEntry 0 i; OEReplace 0 j 1]
  end.
(* the nodes the handles point at *)
Definition ptop (o : pop) : top :=
  match o with
  | PPush _ r alts => TPush (Node ENTRY (rels_elems r alts true))
  | PInsert i _ r alts => TInsert i (Node ENTRY (rels_elems r alts true))
  | PReplace i _ r alts => TReplace i (Node ENTRY (rels_elems r alts true))
  | PEPush i _ r => TEPush i (rel_tree r true)
  | PEReplace i j _ r => TEReplace i j (rel_tree r true)
  end.
Definition a_pop (o : pop) (l : lroot) : option lroot :=
  match o with
  | PPush _ r alts => Some (a_push l (lentry_of r alts true))
  | PInsert i _ r alts => Some (a_insert l i (lentry_of r alts true))
  | PReplace i _ r alts => a_replace l i (lentry_of r alts true)
  | PEPush i _ r => a_on_entry l i (fun e => a_epush e (lrel_of r true))
  | PEReplace i j _ r =>
      match nth_entry l i with
      | Some (ci, e) => if j <? n_rels e then Some (replace_at ci (RE (a_ereplace e j (lrel_of r true))) l) else None
      | None => None
      end
  end.
Definition entry_content (r : rel) (alts : list (str * rel)) : list relx :=
  rel_content r :: map (fun wr => rel_content (snd wr)) alts.
Definition pxstep (f : list (list relx)) (o : pop) : list (list relx) :=
  match o with
  | PPush _ r alts => f ++ [entry_content r alts]
  | PInsert i _ r alts => l_insert i (entry_content r alts) f
  | PReplace i _ r alts => l_replace i (entry_content r alts) f
  | PEPush i _ r => upd_nth i (fun e => e ++ [rel_content r]) f
  | PEReplace i j _ r => upd_nth i (l_replace j (rel_content r)) f
  end.
Definition p_in_range (f : list (list relx)) (o : pop) : bool :=
  match o with
  | PPush _ _ _ | PInsert _ _ _ _ => true
  | PReplace i _ _ _ | PEPush i _ _ => i <? length f
  | PEReplace i j _ _ => match nth_error f i with Some e => j <? length e | None => false end
  end.
Definition poperands_ok (o : pop) : bool :=
  match o with
  | PPush lead r alts | PInsert _ lead r alts | PReplace _ lead r alts => wf_rfield false (entry_field lead r alts)
  | PEPush _ lead r | PEReplace _ _ lead r => wf_rfield false (entry_field lead r [])
  end.

(* histories mixing both kinds of operands *)
Inductive gop : Type := GA (o : aop) | GP (o : pop).
Definition gcompile (o : gop) : list op := match o with GA o => compile o | GP o => pcompile o end.
Definition g_op (o : gop) (l : lroot) : option lroot := match o with GA o => a_op o l | GP o => a_pop o l end.
Definition gxstep (f : list (list relx)) (o : gop) : list (list relx) := match o with GA o => xstep f o | GP o => pxstep f o end.
Definition g_in_range (f : list (list relx)) (o : gop) : bool := match o with GA o => x_in_range f o | GP o => p_in_range f o end.
Definition goperands_ok (o : gop) : bool := match o with GA o => operands_ok o | GP o => poperands_ok o end.
Fixpoint g_ops (ops : list gop) (l : lroot) : option lroot :=
  match ops with
  | [] => Some l
  | o :: rest => match g_op o l with Some l' => g_ops rest l' | None => None end
  end.

(* ------------------------------------------------------------------ separators *)
(* what a history does to the slots of the field (RelEditSpec.tree_slots, sstep) *)
Definition xfs_step (fs : list (list relx) * list fslot) (o : aop) : list (list relx) * list fslot :=
  (xstep (fst fs) o, sstep (fst fs) (snd fs) o).
Definition xslots_after (ops : list aop) (f : list (list relx)) (s : list fslot) : list fslot :=
  snd (fold_left xfs_step ops (f, s)).
Definition psstep (s : list fslot) (o : pop) : list fslot :=
  match o with
  | PPush _ _ _ => s_push s
  | PInsert i _ _ _ => s_insert i s
  | _ => s
  end.
Definition gsstep (f : list (list relx)) (s : list fslot) (o : gop) : list fslot :=
  match o with GA o => sstep f s o | GP o => psstep s o end.
Definition gfs_step (fs : list (list relx) * list fslot) (o : gop) : list (list relx) * list fslot :=
  (gxstep (fst fs) o, gsstep (fst fs) (snd fs) o).
Definition gslots_after (ops : list gop) (f : list (list relx)) (s : list fslot) : list fslot :=
  snd (fold_left gfs_step ops (f, s)).
