(* The layouts of ALL the documents the strict reader accepts: Grammar.v's documents with every
   layout choice the reader tolerates made explicit as well -- the newline character of every
   line (LF or CR), blanks between the field name and the colon, continuation lines that hold a
   comment or nothing but their indentation, values that start on a continuation line.
   [xtree_of] of the well-formed ones is exactly the image of Deb822Parse.from_str
   (proofs/ParseImageP.v: parse_image_accept, parse_image_complete).  Specification: no proofs. *)
From V.model Require Import Base Deb822Lex Deb822Parse Grammar.

(* what follows the indentation of a continuation line *)
Inductive xpay :=
| PVal (t : str)        (* text *)
| PCom (c : str)        (* a comment: '#' ++ c *)
| PNone.                (* nothing *)
Record xcont := mk_xcont {
  xc_nl : N;            (* the newline character that ends the line before this one *)
  xc_ind : str;         (* indentation *)
  xc_pay : xpay
}.
Record xfield := mk_xfield {
  x_name : str;         (* field name *)
  x_w0 : str;           (* blanks between the name and ':' (may be empty) *)
  x_w1 : str;           (* blanks between ':' and the first line (may be empty) *)
  x_first : str;        (* text of the first line (may be empty) *)
  x_cont : list xcont;  (* continuation lines *)
  x_nl : option N       (* the newline character that ends the last line, if any *)
}.
Inductive xitem := XField (f : xfield) | XComment (c : str) (nl : option N).   (* '#' ++ c *)
Inductive xblock :=
| XBlank (nl : N)                           (* an empty line *)
| XBComment (c : str) (nl : option N)       (* a comment line outside any paragraph *)
| XPara (f : xfield) (its : list xitem).    (* a paragraph: a field, then fields and comment lines *)
Notation xdoc := (list xblock).

(* ---------------- tokens, text, tree ---------------- *)
Definition onl_toks (o : option N) : list token := match o with Some c => [(NEWLINE, [c])] | None => [] end.
Definition pay_toks (p : xpay) : list token :=
  match p with PVal t => [(VALUE, t)] | PCom c => [(COMMENT, 35%N :: c)] | PNone => [] end.
Definition xcont_toks (c : xcont) : list token :=
  (NEWLINE, [xc_nl c]) :: (INDENT, xc_ind c) :: pay_toks (xc_pay c).
Definition xfield_toks (f : xfield) : list token :=
  (KEY, x_name f) :: opt_tok WHITESPACE (x_w0 f) ++ (COLON, [58%N]) :: opt_tok WHITESPACE (x_w1 f)
  ++ opt_tok VALUE (x_first f) ++ flat_map xcont_toks (x_cont f) ++ onl_toks (x_nl f).
Definition xcomment_toks (c : str) (nl : option N) : list token := (COMMENT, 35%N :: c) :: onl_toks nl.
Definition xitem_toks (it : xitem) : list token :=
  match it with XField f => xfield_toks f | XComment c nl => xcomment_toks c nl end.
Definition xblock_toks (b : xblock) : list token :=
  match b with
  | XBlank nl => [(NEWLINE, [nl])]
  | XBComment c nl => xcomment_toks c nl
  | XPara f its => xfield_toks f ++ flat_map xitem_toks its
  end.
Definition xdoc_toks (d : xdoc) : list token := flat_map xblock_toks d.

(* the text is the concatenation of the token texts *)
Definition tstr (ts : list token) : str := concat (map snd ts).
Definition xfield_text (f : xfield) : str := tstr (xfield_toks f).
Definition xitem_text (it : xitem) : str := tstr (xitem_toks it).
Definition xblock_text (b : xblock) : str := tstr (xblock_toks b).
Definition xrender (d : xdoc) : str := tstr (xdoc_toks d).

(* the tree: the tokens as leaves, grouped *)
Definition telems (ts : list token) : list tree := map (fun t => Tok (fst t) (snd t)) ts.
Definition xfield_tree (f : xfield) : tree := Node ENTRY (telems (xfield_toks f)).
Definition xitem_elems (it : xitem) : list tree :=
  match it with XField f => [xfield_tree f] | XComment c nl => telems (xcomment_toks c nl) end.
Definition xblock_tree (b : xblock) : tree :=
  match b with
  | XBlank nl => Node EMPTY_LINE [Tok NEWLINE [nl]]
  | XBComment c nl => Node EMPTY_LINE (telems (xcomment_toks c nl))
  | XPara f its => Node PARAGRAPH (xfield_tree f :: flat_map xitem_elems its)
  end.
Definition xtree_of (d : xdoc) : tree := Node ROOT (map xblock_tree d).

(* the tokens of any tree, in order *)
Fixpoint leaves (t : tree) : list token :=
  match t with
  | Tok k s => [(k, s)]
  | Node _ cs => (fix go (l : list tree) : list token := match l with [] => [] | x :: r => leaves x ++ go r end) cs
  end.

(* ---------------- well-formedness ---------------- *)
Definition nonempty (s : str) : bool := match s with [] => false | _ => true end.
Definition pay_ok (p : xpay) : bool :=
  match p with
  | PVal t => no_eol t && match t with x :: _ => negb (is_indent x) && negb (x =? 35)%N | [] => false end
  | PCom c => no_eol c
  | PNone => true
  end.
Definition xcont_ok (c : xcont) : bool :=
  is_newline (xc_nl c) && nonempty (xc_ind c) && ws_ok (xc_ind c) && pay_ok (xc_pay c).
(* [more]: does any text follow?  Only the very last line of a document may lack its newline. *)
Definition onl_ok (o : option N) (more : bool) : bool :=
  match o with Some c => is_newline c | None => negb more end.
Definition xwf_field (f : xfield) (more : bool) : bool :=
  valid_name (x_name f) && ws_ok (x_w0 f) && ws_ok (x_w1 f) && first_ok (x_first f)
  && forallb xcont_ok (x_cont f) && onl_ok (x_nl f) more.
Definition xwf_comment (c : str) (nl : option N) (more : bool) : bool := no_eol c && onl_ok nl more.
Fixpoint xwf_items (its : list xitem) (more : bool) : bool :=
  match its with
  | [] => true
  | it :: r =>
    let m := match r with [] => more | _ => true end in
    match it with XField f => xwf_field f m | XComment c nl => xwf_comment c nl m end && xwf_items r more
  end.
Fixpoint xwf_doc (d : xdoc) : bool :=
  match d with
  | [] => true
  | b :: r =>
    let more := match r with [] => false | _ => true end in
    match b with
    | XBlank nl => is_newline nl
    | XBComment c nl => xwf_comment c nl more
    | XPara f its =>
        xwf_field f (match its with [] => more | _ => true end) && xwf_items its more &&
        (* a paragraph ends at a blank line or at the end of the document *)
        match r with [] => true | XBlank _ :: _ => true | _ => false end
    end && xwf_doc r
  end.

(* the image of the strict reader (proofs/ParseImageP.v: in_image_iff) *)
Definition in_image (t : tree) : Prop := exists d, xwf_doc d = true /\ t = xtree_of d.

(* ---------------- content ---------------- *)
Definition pay_values (p : xpay) : list str := match p with PVal t => [t] | _ => [] end.
Definition xfield_value (f : xfield) : str :=
  join [LF] (match x_first f with [] => [] | s => [s] end ++ flat_map (fun c => pay_values (xc_pay c)) (x_cont f)).
Definition xfield_pair (f : xfield) : str * str := (x_name f, xfield_value f).
Definition xitem_pairs (it : xitem) : list (str * str) :=
  match it with XField f => [xfield_pair f] | XComment _ _ => [] end.
Definition xblock_content (b : xblock) : list (list (str * str)) :=
  match b with
  | XPara f its => [xfield_pair f :: flat_map xitem_pairs its]
  | _ => []
  end.
Definition xcontent (d : xdoc) : list (list (str * str)) := flat_map xblock_content d.

(* ---------------- Grammar.v's documents are among them ---------------- *)
Definition xcont_of (c : str * str) : xcont := mk_xcont LF (fst c) (PVal (snd c)).
Definition xnl_of (b : bool) : option N := if b then Some LF else None.
Definition xfield_of (f : field) : xfield :=
  mk_xfield (f_name f) [] (f_ws f) (f_first f) (map xcont_of (f_cont f)) (xnl_of (f_nl f)).
Definition xitem_of (it : item) : xitem :=
  match it with IField f => XField (xfield_of f) | IComment c nl => XComment c (xnl_of nl) end.
Definition xblock_of (b : block) : xblock :=
  match b with
  | BBlank => XBlank LF
  | BComment c nl => XBComment c (xnl_of nl)
  | BPara f its => XPara (xfield_of f) (map xitem_of its)
  end.
Definition xdoc_of (d : doc) : xdoc := map xblock_of d.
