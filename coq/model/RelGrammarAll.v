(* The LIBERAL layouts of a relationship field: everything the lossless reader accepts WITHOUT
   reporting an error, not only what Debian Policy 7.1 (RelGrammar.rfield) calls a field.
   They are the image of the reader: every text that parse_relaxed reads with zero errors is the
   rendering of exactly one of them (proofs/RelGrammarAllInvP.v), and every one of them that the
   lexer can produce is read back, with no error, to its own tree (RelGrammarAllParseP.v).

   Compared with rfield:  white space is a list of WHITESPACE / NEWLINE tokens (CR is white space
   for the lexer);  names are any IDENT token;  "( op version )" has any run of "<" ">" "=" as op
   (also none, ">", "==", "<>") and any non-empty run of IDENT and ":" tokens as version ("5::",
   ":5", "1:2:3");  "[...]" holds any sequence of "!" and IDENT tokens, also none ("[]", "[!!a !]");
   "<...>" holds any sequence of terms  IDENT  or  "!" ws IDENT, also none ("<>", "<! a>", "<a!b>");
   "${...}" holds any run of IDENT and ":" tokens, also none.
   The layout is at TOKEN level (which characters a token may contain is the lexer's business:
   [lexable] below says when a token list is a lexer output), punctuation has its canonical text.

   Specification file: definitions only. *)
From V.model Require Import Base RelLex RelParse RelAcc RelGrammar.

(* ---------------- token lists the lexer can produce ---------------- *)
(* one token: its kind and extent are what Lexer::next_token decides from its first character *)
Definition tok_valid (t : rtoken) : bool :=
  match snd t with
  | [] => false
  | c :: w =>
    match single_char_kind c with
    | Some k => rkind_eqb (fst t) k && is_nil w
    | None =>
      if is_rel_ws c then rkind_eqb (fst t) WHITESPACE && forallb is_rel_ws w
      else if is_ident_char c then rkind_eqb (fst t) IDENT && forallb is_ident_char w
      else rkind_eqb (fst t) ERROR && is_nil w
    end
  end.
(* runs are maximal: no two WHITESPACE tokens and no two IDENT tokens next to each other *)
Definition adj_ok (a b : rkind) : bool :=
  negb (rkind_eqb a WHITESPACE && rkind_eqb b WHITESPACE) && negb (rkind_eqb a IDENT && rkind_eqb b IDENT).
Fixpoint lexable (ts : list rtoken) : bool :=
  match ts with
  | [] => true
  | t :: r =>
    tok_valid t && match r with t' :: _ => adj_ok (fst t) (fst t') | [] => true end && lexable r
  end.
Definition rttext_of (ts : list rtoken) : str := concat (map snd ts).

(* ---------------- liberal layouts ---------------- *)
Notation wsl := (list rtoken) (only parsing).      (* WHITESPACE and NEWLINE tokens *)
Inductive vpiece := VId (s : str) | VColon.           (* a piece of a version / of a substvar name *)
Inductive atom := ANot | AId (s : str).              (* inside [...] *)
Inductive pterm := PId (s : str) | PNot (w : list rtoken) (s : str).   (* inside <...>: name, or "!" ws name *)
Record agroup := mk_agroup { ag_ws0 : list rtoken; ag_atoms : list (list rtoken * atom); ag_ws1 : list rtoken }.
Record pgroup := mk_pgroup { pg_ws0 : list rtoken; pg_terms : list (list rtoken * pterm); pg_ws1 : list rtoken }.
Record aver := mk_aver {
  av_ws0 : list rtoken; av_ws1 : list rtoken;
  av_op : str;                     (* characters "<" ">" "=" *)
  av_ws2 : list rtoken;
  av_ver : list vpiece;            (* non-empty *)
  av_ws3 : list rtoken }.
Record aqual := mk_aqual { aq_ws0 : list rtoken; aq_ws1 : list rtoken; aq_name : str }.
Record arel := mk_arel {
  a_name : str; a_qual : option aqual; a_ver : option aver; a_archs : option agroup;
  a_profs : list pgroup; a_trail : list rtoken }.
Inductive aitem :=
| AEntry (r : arel) (alts : list (list rtoken * arel))
| ASubst (body : list vpiece) (trail : list rtoken)
| AEmpty.
Record afield := mk_afield { af_lead : list rtoken; af_first : aitem; af_rest : list (list rtoken * aitem) }.

(* ---------------- tokens ---------------- *)
Definition t_colon : rtoken := (COLON, [58%N]).
Definition vpiece_tok (p : vpiece) : rtoken := match p with VId s => (IDENT, s) | VColon => t_colon end.
Definition op_tok (c : N) : rtoken :=
  if (c =? 60)%N then (L_ANGLE, [c]) else if (c =? 62)%N then (R_ANGLE, [c]) else (EQUAL, [c]).
Definition atom_tok (a : atom) : rtoken := match a with ANot => (NOT, [33%N]) | AId s => (IDENT, s) end.
Definition watom_toks (wa : list rtoken * atom) : list rtoken := fst wa ++ [atom_tok (snd wa)].
Definition pterm_toks (p : pterm) : list rtoken :=
  match p with PId s => [(IDENT, s)] | PNot w s => (NOT, [33%N]) :: w ++ [(IDENT, s)] end.
Definition wpterm_toks (wp : list rtoken * pterm) : list rtoken := fst wp ++ pterm_toks (snd wp).
Definition agroup_body_toks (g : agroup) : list rtoken :=
  (L_BRACKET, [91%N]) :: flat_map watom_toks (ag_atoms g) ++ ag_ws1 g ++ [(R_BRACKET, [93%N])].
Definition agroup_toks (g : agroup) : list rtoken := ag_ws0 g ++ agroup_body_toks g.
Definition pgroup_body_toks (g : pgroup) : list rtoken :=
  (L_ANGLE, [60%N]) :: flat_map wpterm_toks (pg_terms g) ++ pg_ws1 g ++ [(R_ANGLE, [62%N])].
Definition pgroup_toks (g : pgroup) : list rtoken := pg_ws0 g ++ pgroup_body_toks g.
Definition aver_body_toks (v : aver) : list rtoken :=
  (L_PARENS, [40%N]) :: av_ws1 v ++ map op_tok (av_op v) ++ av_ws2 v ++ map vpiece_tok (av_ver v)
  ++ av_ws3 v ++ [(R_PARENS, [41%N])].
Definition aver_toks (v : aver) : list rtoken := av_ws0 v ++ aver_body_toks v.
Definition aqual_toks (q : aqual) : list rtoken := aq_ws0 q ++ t_colon :: aq_ws1 q ++ [(IDENT, aq_name q)].
Definition arel_core_toks (r : arel) : list rtoken :=
  (IDENT, a_name r) :: opt_toks aqual_toks (a_qual r) ++ opt_toks aver_toks (a_ver r)
  ++ opt_toks agroup_toks (a_archs r) ++ flat_map pgroup_toks (a_profs r).
Definition arel_toks (r : arel) : list rtoken := arel_core_toks r ++ a_trail r.
Fixpoint arels_toks (r : arel) (alts : list (list rtoken * arel)) : list rtoken :=
  arel_toks r ++ match alts with [] => [] | (w, r') :: alts' => (PIPE, [124%N]) :: w ++ arels_toks r' alts' end.
Definition asubst_toks (body : list vpiece) : list rtoken :=
  (DOLLAR, [36%N]) :: (L_CURLY, [123%N]) :: map vpiece_tok body ++ [(R_CURLY, [125%N])].
Definition aitem_toks (i : aitem) : list rtoken :=
  match i with
  | AEntry r alts => arels_toks r alts
  | ASubst body trail => asubst_toks body ++ trail
  | AEmpty => []
  end.
Fixpoint aitems_toks (i : aitem) (more : list (list rtoken * aitem)) : list rtoken :=
  aitem_toks i ++ match more with [] => [] | (w, i') :: more' => (COMMA, [44%N]) :: w ++ aitems_toks i' more' end.
Definition atoks (f : afield) : list rtoken := af_lead f ++ aitems_toks (af_first f) (af_rest f).
Definition arender (f : afield) : str := rttext_of (atoks f).

(* ---------------- the tree ---------------- *)
Definition agroup_node (g : agroup) : rtree := Node ARCHITECTURES (elems (agroup_body_toks g)).
Definition pgroup_node (g : pgroup) : rtree := Node PROFILES (elems (pgroup_body_toks g)).
Definition aver_node (v : aver) : rtree :=
  Node VERSION (Tok L_PARENS [40%N] :: elems (av_ws1 v) ++ [Node CONSTRAINT (elems (map op_tok (av_op v)))]
                ++ elems (av_ws2 v) ++ elems (map vpiece_tok (av_ver v)) ++ elems (av_ws3 v) ++ [Tok R_PARENS [41%N]]).
Definition aqual_node (q : aqual) : rtree :=
  Node ARCHQUAL (Tok COLON [58%N] :: elems (aq_ws1 q) ++ [Tok IDENT (aq_name q)]).
Definition aqual_elems (q : aqual) : list rtree := elems (aq_ws0 q) ++ [aqual_node q].
Definition aver_elems (v : aver) : list rtree := elems (av_ws0 v) ++ [aver_node v].
Definition agroup_elems (g : agroup) : list rtree := elems (ag_ws0 g) ++ [agroup_node g].
Definition pgroup_elems (g : pgroup) : list rtree := elems (pg_ws0 g) ++ [pgroup_node g].
(* which node receives the white space after a relation: as RelGrammar.owns_trail *)
Definition a_owns_trail (r : arel) (last : bool) : bool :=
  match a_ver r, a_archs r, a_profs r with
  | None, None, [] => match a_qual r with Some _ => true | None => last end
  | _, _, _ => false
  end.
Definition arel_tree (r : arel) (last : bool) : rtree :=
  Node RELATION (Tok IDENT (a_name r) :: opt_elems aqual_elems (a_qual r) ++ opt_elems aver_elems (a_ver r)
                 ++ opt_elems agroup_elems (a_archs r) ++ flat_map pgroup_elems (a_profs r)
                 ++ (if a_owns_trail r last then elems (a_trail r) else [])).
Definition arel_left (r : arel) (last : bool) : list rtoken := if a_owns_trail r last then [] else a_trail r.
Fixpoint arels_elems (r : arel) (alts : list (list rtoken * arel)) (last : bool) : list rtree :=
  match alts with
  | [] => arel_tree r last :: (if last then elems (arel_left r last) else [])
  | (w, r') :: alts' =>
      arel_tree r false :: elems (arel_left r false) ++ Tok PIPE [124%N] :: elems w ++ arels_elems r' alts' last
  end.
Fixpoint arels_left (r : arel) (alts : list (list rtoken * arel)) (last : bool) : list rtoken :=
  match alts with
  | [] => if last then [] else arel_left r last
  | (_, r') :: alts' => arels_left r' alts' last
  end.
Definition asubst_node (body : list vpiece) : rtree := Node SUBSTVAR (elems (asubst_toks body)).
Definition aitem_elems (i : aitem) (last : bool) : list rtree :=
  match i with
  | AEntry r alts => Node ENTRY (arels_elems r alts last) :: elems (arels_left r alts last)
  | ASubst body trail => asubst_node body :: elems trail
  | AEmpty => []
  end.
Fixpoint aitems_elems (i : aitem) (more : list (list rtoken * aitem)) : list rtree :=
  aitem_elems i (is_nil more)
  ++ match more with [] => [] | (w, i') :: more' => Tok COMMA [44%N] :: elems w ++ aitems_elems i' more' end.
Definition atree_of (f : afield) : rtree := Node ROOT (elems (af_lead f) ++ aitems_elems (af_first f) (af_rest f)).

(* ---------------- shape: what the PARSER needs (kinds only) ---------------- *)
Definition wsk (w : list rtoken) : bool := forallb (fun t => is_ws_kind (fst t)) w.
Definition op_ok (s : str) : bool := forallb (fun c => (c =? 60) || (c =? 62) || (c =? 61))%N s.
Definition pterm_ok (p : pterm) : bool := match p with PId _ => true | PNot w _ => wsk w end.
Definition agroup_ok (g : agroup) : bool := wsk (ag_ws0 g) && forallb (fun wa => wsk (fst wa)) (ag_atoms g) && wsk (ag_ws1 g).
Definition pgroup_ok (g : pgroup) : bool :=
  wsk (pg_ws0 g) && forallb (fun wp => wsk (fst wp) && pterm_ok (snd wp)) (pg_terms g) && wsk (pg_ws1 g).
Definition aver_ok (v : aver) : bool :=
  wsk (av_ws0 v) && wsk (av_ws1 v) && op_ok (av_op v) && wsk (av_ws2 v) && nonempty (av_ver v) && wsk (av_ws3 v)
  && (nonempty (av_op v) || is_nil (av_ws2 v)).      (* without an operator there is ONE run of white space *)
Definition aqual_ok (q : aqual) : bool := wsk (aq_ws0 q) && wsk (aq_ws1 q).
Definition arel_ok (r : arel) : bool :=
  opt_ok aqual_ok (a_qual r) && opt_ok aver_ok (a_ver r) && opt_ok agroup_ok (a_archs r)
  && forallb pgroup_ok (a_profs r) && wsk (a_trail r).
Definition aalt_ok (wr : list rtoken * arel) : bool := wsk (fst wr) && arel_ok (snd wr).
Definition aitem_ok (allow_substvar : bool) (i : aitem) : bool :=
  match i with
  | AEntry r alts => arel_ok r && forallb aalt_ok alts
  | ASubst _ trail => allow_substvar && wsk trail
  | AEmpty => true
  end.
Definition amore_ok (allow_substvar : bool) (wi : list rtoken * aitem) : bool :=
  wsk (fst wi) && aitem_ok allow_substvar (snd wi).
Definition ashape (allow_substvar : bool) (f : afield) : bool :=
  wsk (af_lead f) && aitem_ok allow_substvar (af_first f) && forallb (amore_ok allow_substvar) (af_rest f).
(* a liberal layout: the right shape, and a token list the lexer produces *)
Definition awf (allow_substvar : bool) (f : afield) : bool := ashape allow_substvar f && lexable (atoks f).

(* ---------------- content: what the accessors report (they can panic here) ---------------- *)
(* Relation::version(): the operator text through VersionConstraint::from_str(..).unwrap() (Panic 11:
   "", ">", "==", ...), the version text through Version::from_str(..).unwrap() (Panic 12: an epoch
   above u32::MAX) *)
Definition aver_content (v : aver) : res (option (vop * str)) :=
  match rttext_of (map vpiece_tok (av_ver v)) with
  | [] => Ok None                  (* not reachable for lexer output: an IDENT token is not empty *)
  | vt =>
    match vop_of_text (av_op v) with
    | None => Panic 11%N
    | Some o =>
      match debversion_roundtrip vt with
      | Ok v' => Ok (Some (o, v'))
      | _ => Panic 12%N
      end
    end
  end.
Definition arel_content (r : arel) : res relc :=
  match (match a_ver r with Some v => aver_content v | None => Ok None end) with
  | Ok ver =>
    Ok (mk_relc (a_name r) (option_map aq_name (a_qual r)) ver
                (option_map (fun g => arch_fold (children (agroup_node g)) false) (a_archs r))
                (map (fun g => profile_fold (children (pgroup_node g)) [] []) (a_profs r)))
  | Err e => Err e | Panic p => Panic p | OutOfFuel => OutOfFuel
  end.
Definition aitem_rels (i : aitem) : list (list arel) :=
  match i with AEntry r alts => [r :: map snd alts] | _ => [] end.
Definition aitem_substvars (i : aitem) : list str :=
  match i with ASubst body _ => [rttext_of (asubst_toks body)] | _ => [] end.
Definition af_items (f : afield) : list aitem := af_first f :: map snd (af_rest f).
Definition acontent (f : afield) : res (list (list relc) * list str) :=
  match res_all (res_all arel_content) (flat_map aitem_rels (af_items f)) with
  | Ok es => Ok (es, flat_map aitem_substvars (af_items f))
  | Err e => Err e | Panic p => Panic p | OutOfFuel => OutOfFuel
  end.

(* ---------------- the well-formed fields of C10 are liberal layouts ---------------- *)
(* an architecture term "!x" is two atoms *)
Definition lib_arch_atoms (t : term) : list (list rtoken * atom) :=
  if t_neg t then [(ws_toks (t_ws t), ANot); ([], AId (t_name t))] else [(ws_toks (t_ws t), AId (t_name t))].
Definition lib_pterm (t : term) : list rtoken * pterm :=
  (ws_toks (t_ws t), if t_neg t then PNot [] (t_name t) else PId (t_name t)).
Definition lib_agroup (g : group) : agroup :=
  mk_agroup (ws_toks (g_ws0 g)) (flat_map lib_arch_atoms (g_terms g)) (ws_toks (g_ws1 g)).
Definition lib_pgroup (g : group) : pgroup :=
  mk_pgroup (ws_toks (g_ws0 g)) (map lib_pterm (g_terms g)) (ws_toks (g_ws1 g)).
Definition lib_ver_pieces (v : vclause) : list vpiece :=
  match v_epoch v with Some e => [VId e; VColon] | None => [] end ++ VId (v_ver v)
  :: flat_map (fun p => [VColon; VId p]) (v_more v).
Definition lib_aver (v : vclause) : aver :=
  mk_aver (ws_toks (v_ws0 v)) (ws_toks (v_ws1 v)) (vop_text (v_op v)) (ws_toks (v_ws2 v)) (lib_ver_pieces v) (ws_toks (v_ws3 v)).
Definition lib_aqual (q : qual) : aqual := mk_aqual (ws_toks (q_ws0 q)) (ws_toks (q_ws1 q)) (q_name q).
Definition lib_arel (r : rel) : arel :=
  mk_arel (r_name r) (option_map lib_aqual (r_qual r)) (option_map lib_aver (r_ver r))
          (option_map lib_agroup (r_archs r)) (map lib_pgroup (r_profs r)) (ws_toks (r_trail r)).
Definition lib_item (i : item) : aitem :=
  match i with
  | IEntry r alts => AEntry (lib_arel r) (map (fun wr => (ws_toks (fst wr), lib_arel (snd wr))) alts)
  | ISubst seg segs trail => ASubst (VId seg :: flat_map (fun s => [VColon; VId s]) segs) (ws_toks trail)
  | IEmpty => AEmpty
  end.
Definition lib_of (f : rfield) : afield :=
  mk_afield (ws_toks (f_lead f)) (lib_item (f_first f)) (map (fun wi => (ws_toks (fst wi), lib_item (snd wi))) (f_rest f)).
