(* Model of wrap-and-sort for relationship fields,
   /repo/debian-control/src/lossless/relations.rs:
     Relation::wrap_and_sort, Entry::wrap_and_sort, Relations::wrap_and_sort,
     impl PartialOrd/Ord for Relation, impl PartialOrd/Ord for Entry,
     From<Vec<Relation>> for Entry, From<Vec<Entry>> for Relations, fn inject,
   and of the relation branch of format_field in /repo/debian-control/src/lossless/control.rs
   (what Control/Source/Binary::wrap_and_sort do to Depends, Build-Depends, ...).
   No proofs in this file (proofs/RelWrapP.v, props/C13.v).

   The read accessors are those of RelAcc.v (name / archqual / architectures / profiles /
   entries / relations / substvars).  Relation::version() returns a debversion::Version VALUE:
   here it is [relation_version_p], with DebVersion.parse_version (FromStr) -- wrap_and_sort prints
   the value back with Sat.show_version (Display) and `impl Ord for Relation` compares values with
   DebVersion.ver_cmp (<Version as Ord>::cmp, which panics on a digit run above i32::MAX).

   The code exists in two states, selected by a [variant] (as in Deb822Wrap.v): [shipped] is /repo
   HEAD 12709db, [fixed] is /repo with the four patches proposed_fixes/C13-*.patch, each of which
   repairs a violation of property C13 found with this model and reproduced on the real code:

   v_qual_node  Relation::wrap_and_sort wrote the architecture qualifier as two tokens COLON IDENT
                directly under RELATION; archqual() looks for an ARCHQUAL node, so the returned
                object has no qualifier and a second wrap_and_sort prints "a" for "a:any".
                Fixed: the two tokens are wrapped in an ARCHQUAL node, as the parser does.
   v_substvars  Relations::wrap_and_sort rebuilt the field from entries() only: "${misc:Depends}, b"
                became "b".  Fixed: the SUBSTVAR nodes are kept, after the entries, ordered by their
                text (what devscripts' wrap-and-sort does with them).
   v_entry_ord  Entry::partial_cmp pulls one element from BOTH iterators in the `while let` header;
                when one side is exhausted the element just taken from the other side is lost, so
                an entry compares Equal to the same entry with ONE more alternative, and Less only
                when two or more follow: "a" = "a | b", "a | b" = "a | b | c", "a" < "a | b | c" --
                not transitive, Rust's sort contract is broken and "a | b | c, a | b, a" comes back
                unsorted.  Fixed: a plain lexicographic comparison, the shorter entry first.
   v_ctl_subst  format_field reads the value with `value.parse::<Relations>()`, which does not allow
                substitution variables, and unwraps: Control::wrap_and_sort panics on
                "Depends: ${misc:Depends}".  Fixed: Relations::parse_relaxed(value, true), still
                refusing (panicking on) a value with syntax errors.

   Panic sites: 10 name() unwrap, 11 VersionConstraint::from_str unwrap, 12 Version::from_str
   unwrap (all three inside the accessors), 20 the unwrap in format_field; DebVersion's 1 and 2
   come through ver_cmp. *)
From V.model Require Import Base RelLex RelParse RelAcc.
From V.model Require DebVersion Sat.

Record variant := mk_variant {
  v_qual_node : bool;
  v_substvars : bool;
  v_entry_ord : bool;
  v_ctl_subst : bool
}.
Definition fixed : variant := mk_variant true true true true.
Definition shipped : variant := mk_variant false false false false.

(* ---------------------------------------------------------------- std *)
(* <String as Ord>::cmp: lexicographic on bytes of the UTF-8 encoding = lexicographic on code
   points (UTF-8 preserves code point order) *)
Fixpoint str_cmp (a b : str) : comparison :=
  match a, b with
  | [], [] => Eq
  | [], _ :: _ => Lt
  | _ :: _, [] => Gt
  | x :: a', y :: b' => match N.compare x y with Eq => str_cmp a' b' | c => c end
  end.

(* slice::sort (stable).  Up to 20 elements Rust's driftsort IS this insertion sort
   (core::slice::sort::shared::smallsort::insertion_sort_shift_left: element i is moved left past
   every element it is less than, the first comparison being with its predecessor); beyond that
   it is another stable sort, which returns the same list whenever the comparison is a total
   preorder (RelWrapP.stable_sort_unique).  [rpre] is the sorted prefix, last element first.
   The comparison may panic (res). *)
Fixpoint insert_tail {A} (lt : A -> A -> res bool) (x : A) (rpre : list A) : res (list A) :=
  match rpre with
  | [] => Ok [x]
  | e :: r =>
    match lt x e with
    | Ok true => match insert_tail lt x r with
                 | Ok r' => Ok (e :: r')
                 | Err n => Err n | Panic n => Panic n | OutOfFuel => OutOfFuel
                 end
    | Ok false => Ok (x :: e :: r)
    | Err n => Err n | Panic n => Panic n | OutOfFuel => OutOfFuel
    end
  end.
Fixpoint sort_go {A} (lt : A -> A -> res bool) (rpre : list A) (l : list A) : res (list A) :=
  match l with
  | [] => Ok (rev rpre)
  | x :: r =>
    match insert_tail lt x rpre with
    | Ok rpre' => sort_go lt rpre' r
    | Err n => Err n | Panic n => Panic n | OutOfFuel => OutOfFuel
    end
  end.
(* PartialOrd::lt through cmp *)
Definition lt_of {A} (cmp : A -> A -> res comparison) (a b : A) : res bool :=
  match cmp a b with
  | Ok Lt => Ok true
  | Ok _ => Ok false
  | Err n => Err n | Panic n => Panic n | OutOfFuel => OutOfFuel
  end.
Definition sort_res {A} (cmp : A -> A -> res comparison) (l : list A) : res (list A) :=
  sort_go (lt_of cmp) [] l.

(* the same algorithm for a comparison that cannot fail (sort_by_key on Strings; the
   specification side of the theorems) *)
Fixpoint pinsert {A} (cmp : A -> A -> comparison) (x : A) (rpre : list A) : list A :=
  match rpre with
  | [] => [x]
  | e :: r => match cmp x e with Lt => e :: pinsert cmp x r | _ => x :: e :: r end
  end.
Fixpoint psort_go {A} (cmp : A -> A -> comparison) (rpre : list A) (l : list A) : list A :=
  match l with
  | [] => rev rpre
  | x :: r => psort_go cmp (pinsert cmp x rpre) r
  end.
Definition psort {A} (cmp : A -> A -> comparison) (l : list A) : list A := psort_go cmp [] l.

(* ---------------------------------------------------------------- Relation::version() *)
(* as RelAcc.relation_version, the result being the parsed Version *)
Definition relation_version_p (r : rtree) : res (option (vop * DebVersion.version)) :=
  match first_node_of_kind VERSION (children r) with
  | None => Ok None
  | Some vc =>
    match first_node_of_kind CONSTRAINT (children vc) with
    | None => Ok None
    | Some c =>
      match version_text_of (children vc) with
      | [] => Ok None
      | v =>
        match vop_of_text (text c) with
        | None => Panic 11%N
        | Some o =>
          match DebVersion.parse_version v with
          | Some pv => Ok (Some (o, pv))
          | None => Panic 12%N
          end
        end
      end
    end
  end.

(* ---------------------------------------------------------------- what the accessors report *)
Record wrel : Type := mk_wrel {
  w_name : str;
  w_qual : option str;
  w_ver : option (vop * DebVersion.version);
  w_archs : option (list str);             (* a negated architecture is "!name" *)
  w_profs : list (list bprofile)
}.
(* in the order Relation::wrap_and_sort calls them *)
Definition relation_wacc (r : rtree) : res wrel :=
  match relation_name r with
  | Ok n =>
    let q := relation_archqual r in
    match relation_version_p r with
    | Ok v => Ok (mk_wrel n q v (relation_architectures r) (relation_profiles r))
    | Err e => Err e | Panic p => Panic p | OutOfFuel => OutOfFuel
    end
  | Err e => Err e | Panic p => Panic p | OutOfFuel => OutOfFuel
  end.

(* ---------------------------------------------------------------- Relation::wrap_and_sort *)
Definition sp : rtree := Tok WHITESPACE [32%N].
(* `if i > 0 { builder.token(WHITESPACE, " ") }` in front of every item but the first *)
Fixpoint spaced (l : list (list rtree)) : list rtree :=
  match l with
  | [] => []
  | [x] => x
  | x :: r => x ++ sp :: spaced r
  end.
(* the kind of the single CONSTRAINT token (its text is the whole operator) *)
Definition constraint_kind (o : vop) : rkind :=
  match o with VGe | VGt => R_ANGLE | VLe | VLt => L_ANGLE | VEq => EQUAL end.
Definition qual_tree (V : variant) (q : option str) : list rtree :=
  match q with
  | None => []
  | Some a => if v_qual_node V then [Node ARCHQUAL [Tok COLON [58%N]; Tok IDENT a]]
              else [Tok COLON [58%N]; Tok IDENT a]
  end.
Definition version_tree (v : option (vop * DebVersion.version)) : list rtree :=
  match v with
  | None => []
  | Some (o, ver) =>
    [sp; Node VERSION [Tok L_PARENS [40%N]; Node CONSTRAINT [Tok (constraint_kind o) (vop_text o)]; sp;
                       Tok IDENT (Sat.show_version ver); Tok R_PARENS [41%N]]]
  end.
Definition archs_tree (a : option (list str)) : list rtree :=
  match a with
  | None => []
  | Some l => [sp; Node ARCHITECTURES (Tok L_BRACKET [91%N] :: spaced (map (fun s => [Tok IDENT s]) l) ++ [Tok R_BRACKET [93%N]])]
  end.
Definition profile_toks (p : bprofile) : list rtree :=
  match p with
  | Disabled n => [Tok NOT [33%N]; Tok IDENT n]
  | Enabled n => [Tok IDENT n]
  end.
Definition profs_tree (ps : list (list bprofile)) : list rtree :=
  flat_map (fun g => [sp; Node PROFILES (Tok L_ANGLE [60%N] :: spaced (map profile_toks g) ++ [Tok R_ANGLE [62%N]])]) ps.
(* the tree the builder produces from the accessor values *)
Definition wrel_tree (V : variant) (w : wrel) : rtree :=
  Node RELATION (Tok IDENT (w_name w) :: qual_tree V (w_qual w) ++ version_tree (w_ver w)
                 ++ archs_tree (w_archs w) ++ profs_tree (w_profs w)).
Definition relation_ws (V : variant) (r : rtree) : res rtree :=
  match relation_wacc r with
  | Ok w => Ok (wrel_tree V w)
  | Err e => Err e | Panic p => Panic p | OutOfFuel => OutOfFuel
  end.

(* ---------------------------------------------------------------- impl Ord for Relation *)
(* #[derive(PartialOrd, Ord)] on VersionConstraint: the order of declaration
   LessThan, LessThanEqual, Equal, GreaterThan, GreaterThanEqual *)
Definition vop_rank (o : vop) : N :=
  match o with VLt => 0 | VLe => 1 | VEq => 2 | VGt => 3 | VGe => 4 end%N.
Definition vop_cmp (a b : vop) : comparison := N.compare (vop_rank a) (vop_rank b).

Definition relation_cmp (a b : rtree) : res comparison :=
  match relation_name a with
  | Ok na =>
    match relation_name b with
    | Ok nb =>
      match str_cmp na nb with
      | Eq =>
        match relation_version_p a with
        | Ok va =>
          match relation_version_p b with
          | Ok vb =>
            match va, vb with
            | Some (oa, xa), Some (ob, xb) =>
              match vop_cmp oa ob with
              | Eq => DebVersion.ver_cmp xa xb
              | c => Ok c
              end
            | Some _, None => Ok Gt
            | None, Some _ => Ok Lt
            | None, None => Ok Eq
            end
          | Err e => Err e | Panic p => Panic p | OutOfFuel => OutOfFuel
          end
        | Err e => Err e | Panic p => Panic p | OutOfFuel => OutOfFuel
        end
      | c => Ok c
      end
    | Err e => Err e | Panic p => Panic p | OutOfFuel => OutOfFuel
    end
  | Err e => Err e | Panic p => Panic p | OutOfFuel => OutOfFuel
  end.

(* ---------------------------------------------------------------- impl Ord for Entry *)
(* fixed: lexicographic, a proper prefix first *)
Fixpoint entry_cmp_lex (a b : list rtree) : res comparison :=
  match a, b with
  | [], [] => Ok Eq
  | [], _ :: _ => Ok Lt
  | _ :: _, [] => Ok Gt
  | x :: a', y :: b' =>
    match relation_cmp x y with
    | Ok Eq => entry_cmp_lex a' b'
    | other => other
    end
  end.
(* shipped: `while let (Some(a), Some(b)) = (rels_a.next(), rels_b.next())` takes an element from
   both sides before it looks at either; after the loop only what is STILL in the iterators counts *)
Fixpoint entry_cmp_shipped (a b : list rtree) : res comparison :=
  match a, b with
  | [], [] => Ok Eq
  | [], _ :: b' => Ok (match b' with [] => Eq | _ :: _ => Lt end)
  | _ :: a', [] => Ok (match a' with [] => Eq | _ :: _ => Gt end)
  | x :: a', y :: b' =>
    match relation_cmp x y with
    | Ok Eq => entry_cmp_shipped a' b'
    | other => other
    end
  end.
Definition entry_cmp (V : variant) (a b : rtree) : res comparison :=
  if v_entry_ord V then entry_cmp_lex (entry_relations a) (entry_relations b)
  else entry_cmp_shipped (entry_relations a) (entry_relations b).

(* ---------------------------------------------------------------- From<Vec<..>>, inject *)
(* fn inject copies a node into the builder: the identity on these trees *)
Fixpoint sep_by {A} (sep : list A) (l : list A) : list A :=
  match l with
  | [] => []
  | [x] => [x]
  | x :: r => x :: sep ++ sep_by sep r
  end.
(* From<Vec<Relation>> for Entry (since /repo 40d0dc3 the separator is a PIPE token) *)
Definition entry_from (rs : list rtree) : rtree :=
  Node ENTRY (sep_by [sp; Tok PIPE [124%N]; sp] rs).
(* From<Vec<Entry>> for Relations; the fixed Relations::wrap_and_sort builds the same shape from
   entries followed by substitution variables *)
Definition relations_from (es : list rtree) : rtree :=
  Node ROOT (sep_by [Tok COMMA [44%N]; sp] es).

(* the trees these constructors give for relations built by Relation::wrap_and_sort from accessor
   values: one entry, a whole field (entries, then substitution-variable nodes) *)
Definition entry_tree (V : variant) (ws : list wrel) : rtree := entry_from (map (wrel_tree V) ws).
Definition field_tree (V : variant) (es : list (list wrel)) (svs : list rtree) : rtree :=
  relations_from (map (entry_tree V) es ++ svs).

Fixpoint res_map {A B} (f : A -> res B) (l : list A) : res (list B) :=
  match l with
  | [] => Ok []
  | x :: r =>
    match f x with
    | Ok y => match res_map f r with
              | Ok ys => Ok (y :: ys)
              | Err e => Err e | Panic p => Panic p | OutOfFuel => OutOfFuel
              end
    | Err e => Err e | Panic p => Panic p | OutOfFuel => OutOfFuel
    end
  end.

(* ---------------------------------------------------------------- Entry::wrap_and_sort *)
Definition entry_ws (V : variant) (e : rtree) : res rtree :=
  match res_map (relation_ws V) (entry_relations e) with
  | Ok rs =>
    match sort_res relation_cmp rs with
    | Ok rs' => Ok (entry_from rs')
    | Err x => Err x | Panic p => Panic p | OutOfFuel => OutOfFuel
    end
  | Err x => Err x | Panic p => Panic p | OutOfFuel => OutOfFuel
  end.

(* ---------------------------------------------------------------- Relations::wrap_and_sort *)
(* substvars.sort_by_key(|s| s.to_string()) *)
Definition by_text (a b : rtree) : comparison := str_cmp (text a) (text b).
Definition substvar_nodes (t : rtree) : list rtree := rnodes_of_kind SUBSTVAR t.
Definition relations_ws (V : variant) (t : rtree) : res rtree :=
  match res_map (entry_ws V) (relations_entries t) with
  | Ok es =>
    match sort_res (entry_cmp V) es with
    | Ok es' =>
      Ok (relations_from (es' ++ (if v_substvars V then psort by_text (substvar_nodes t) else [])))
    | Err x => Err x | Panic p => Panic p | OutOfFuel => OutOfFuel
    end
  | Err x => Err x | Panic p => Panic p | OutOfFuel => OutOfFuel
  end.

(* ---------------------------------------------------------------- control.rs: format_field *)
(* the relation branch: value.parse::<Relations>().unwrap().wrap_and_sort().to_string()
   (shipped), Relations::parse_relaxed(value, true) with no error tolerated (fixed).  This is the
   [rel] parameter of Deb822Wrap.format_field. *)
Definition ctl_rel (V : variant) (value : str) : res str :=
  match parse value (v_ctl_subst V) with
  | Ok (t, O) => rmap text (relations_ws V t)
  | Ok (_, S _) => Panic 20%N
  | Err _ => Panic 20%N
  | Panic p => Panic p
  | OutOfFuel => OutOfFuel
  end.

(* what the rel-wrap stream shows of one field text: wrap_and_sort of the relaxed reading (with
   substitution variables), a second application to the returned object, and the re-read text *)
Definition ws_text (V : variant) (s : str) : res str :=
  match parse_relaxed s true with
  | Ok (t, _) => rmap text (relations_ws V t)
  | Err x => Err x | Panic p => Panic p | OutOfFuel => OutOfFuel
  end.
