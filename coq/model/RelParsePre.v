(* The lossless relations parser as it was in /repo BEFORE the fixes 0eb8794 / 43dd02f
   (proposed_fixes/C10-epoch-and-space-in-version.patch): inside "( op version )" the version must
   be ONE IDENT token and ")" must follow it immediately.  Everything else is RelParse.v.
   Kept so that the defects stay stated and machine-checked (props/C10.v: C10_prefix_*_refuted) and
   so that the unchanged tree can still be compared with a faithful model (stream rel-acc-pre). *)
From V.model Require Import Base RelLex RelParse RelAcc.

Definition parse_relation (st : pst) : pst :=
  in_node RELATION (fun st =>
    let st := expect IDENT st in
    let st :=
      match peek_past_ws st with
      | Some COLON =>
          let st := skip_ws st in
          let st := in_node ARCHQUAL (fun st =>
                      let st := bump st in
                      let st := skip_ws st in
                      expect IDENT st) st in
          skip_ws st
      | Some PIPE | Some COMMA => st
      | None | Some L_PARENS | Some L_BRACKET | Some L_ANGLE => skip_ws st
      | _ => error (skip_ws st)
      end in
    let st :=
      if peek_is st L_PARENS then
        let st := skip_ws st in
        in_node VERSION (fun st =>
          let st := bump st in
          let st := skip_ws st in
          let st := constraint_node st in
          let st := skip_ws st in
          let st := expect IDENT st in
          expect R_PARENS st) st
      else st in
    let st :=
      if peek_is st L_BRACKET then
        let st := skip_ws st in
        in_node ARCHITECTURES (fun st => let st := bump st in arch_loop (loop_fuel st) st) st
      else st in
    profiles_while (loop_fuel st) st) st.

(* ---- parse_entry ---- *)
Fixpoint entry_loop (fuel : nat) (st : pst) : pst :=
  match fuel with
  | O => out_of_fuel st
  | S f =>
    let st := parse_relation st in
    match peek_past_ws st with
    | Some COMMA => st
    | Some PIPE => entry_loop f (skip_ws (bump (skip_ws st)))
    | None => skip_ws st
    | _ =>
      let st := skip_ws st in
      (* start ERROR; tokens.pop(): Some => token + error, None => error *)
      let st := in_node ERROR (fun s => match current s with Some _ => bump s | None => s end)
                  (mk_pst (toks st) (out st) (S (nerr st)) (flag st)) in
      entry_loop f st
    end
  end.

Definition parse_entry (st : pst) : pst :=
  let st := skip_ws st in
  in_node ENTRY (fun st => entry_loop (S (S (length (toks st)))) st) st.

(* ---- parse ---- *)
Fixpoint root_loop (allow_substvar : bool) (fuel : nat) (st : pst) : pst :=
  match current st with
  | None => st
  | Some c =>
    match fuel with
    | O => out_of_fuel st
    | S f =>
      let st :=
        match c with
        | IDENT => parse_entry st
        | DOLLAR => if allow_substvar then parse_substvar st else error st
        | COMMA => st
        | _ => error st
        end in
      let st := skip_ws st in
      match current st with
      | Some COMMA => root_loop allow_substvar f (skip_ws (bump st))
      | None => st
      | _ => root_loop allow_substvar f (skip_ws (error st))
      end
    end
  end.

Definition parse_tokens (allow_substvar : bool) (ts : list rtoken) : res (rtree * nat) :=
  let st := in_node ROOT (fun st => let st := skip_ws st in
                                    root_loop allow_substvar (loop_fuel st) st)
                    (mk_pst ts [] 0 0%N) in
  if (flag st =? 0)%N then
    match out st with
    | [t] => Ok (t, nerr st)
    | _ => Panic 99%N
    end
  else if (flag st =? 1)%N then Panic 1%N else OutOfFuel.

Definition parse (s : str) (allow_substvar : bool) : res (rtree * nat) :=
  match rlex s with
  | Ok ts => parse_tokens allow_substvar ts
  | Err x => Err x | Panic x => Panic x | OutOfFuel => OutOfFuel
  end.


(* Relation::version() before the fix: the FIRST IDENT token of the VERSION node only *)
Definition relation_version_pre (r : rtree) : res (option (vop * str)) :=
  match first_node_of_kind VERSION (children r) with
  | None => Ok None
  | Some vc =>
    match first_node_of_kind CONSTRAINT (children vc), first_tok_of_kind IDENT (children vc) with
    | Some c, Some v =>
        match vop_of_text (text c) with
        | None => Panic 11%N
        | Some o =>
          match debversion_roundtrip v with
          | Ok v' => Ok (Some (o, v'))
          | _ => Panic 12%N
          end
        end
    | _, _ => Ok None
    end
  end.

(* Relation::architectures() before /repo 541b0f5: the IDENT tokens only, a '!' is dropped *)
Definition relation_architectures_pre (r : rtree) : option (list str) :=
  match first_node_of_kind ARCHITECTURES (children r) with
  | Some a => Some (tok_texts_of_kind IDENT (children a))
  | None => None
  end.
