(* The vocabulary in which property C17 is stated (specification only: nothing here transcribes
   code, and nothing here is extracted).  A document is the list of paragraphs of the file, a
   paragraph the list of its (field, value) pairs; the first paragraph is the header. *)
From V.model Require Import Base Deb822Parse Glob Copyright.

(* the Files paragraphs, in file order: the non-header paragraphs that carry a Files field *)
Definition files_paragraphs (d : doc) : doc := filter (fun p => has p k_Files) (tl d).
(* the stand-alone licence paragraphs, in file order *)
Definition licence_paragraphs (d : doc) : doc :=
  filter (fun p => negb (has p k_Files) && has p k_License) (tl d).

(* the whitespace-separated patterns of a paragraph (on one or several lines: a line break is
   whitespace) *)
Definition patterns (p : para) : list str :=
  match pget p k_Files with Some x => split_whitespace x | None => [] end.
(* "one of whose whitespace-separated patterns matches the whole path" *)
Definition para_matches (p : para) (path : str) : Prop :=
  exists g, In g (patterns p) /\ glob_matches g path.
(* the licence a paragraph carries *)
Definition para_licence (p : para) : option license :=
  option_map license_of_str (pget p k_License).
(* a paragraph whose licence has the name n *)
Definition named (n : str) (p : para) : Prop :=
  exists l, para_licence p = Some l /\ lic_name l = Some n.

(* every pattern of every Files paragraph has valid escapes (DEP-5: anything else is an error;
   the code panics when it reaches such a pattern) *)
Definition doc_valid (d : doc) : Prop :=
  forall p g, In p (files_paragraphs d) -> In g (patterns p) -> valid_escapes g = true.

(* r is the last element of l that satisfies P, with its position — or None when there is none *)
Definition is_last_such {A} (P : A -> Prop) (l : list A) (r : option (nat * A)) : Prop :=
  match r with
  | None => forall x, In x l -> ~ P x
  | Some (j, x) => exists pre post, l = pre ++ x :: post /\ length pre = j /\ P x /\
                                    forall y, In y post -> ~ P y
  end.
(* r is the first element of l that satisfies P *)
Definition is_first_such {A} (P : A -> Prop) (l : list A) (r : option A) : Prop :=
  match r with
  | None => forall x, In x l -> ~ P x
  | Some x => exists pre post, l = pre ++ x :: post /\ P x /\ forall y, In y pre -> ~ P y
  end.

(* "The licence for the file is that paragraph's own licence when it carries text, otherwise the
   first stand-alone licence paragraph with the same name" — [found] is the paragraph looked up *)
Definition licence_answer (d : doc) (found : option (nat * para)) (ans : option license) : Prop :=
  match found with
  | None => ans = None
  | Some (_, p) =>
    match para_licence p with
    | None => ans = None
    | Some own =>
      match lic_text own with
      | Some _ => ans = Some own
      | None => exists n q, lic_name own = Some n /\
                            is_first_such (named n) (licence_paragraphs d) q /\
                            ans = match q with Some q' => para_licence q' | None => None end
      end
    end
  end.

(* a well-formed copyright file: a header with a Format field, then Files paragraphs (Files,
   Copyright, License) and stand-alone License paragraphs in any number and order *)
Definition wf_body_para (p : para) : bool :=
  (has p k_Files && has p k_License && has p k_Copyright) || (negb (has p k_Files) && has p k_License).
Definition wf_doc (d : doc) : Prop :=
  match d with
  | [] => False
  | h :: body => has h k_Format = true /\ forallb wf_body_para body = true
  end.

(* the lossy reader's paragraph fp / lp is the conversion of the paragraph p of the file *)
Definition files_conv (v : variant) (p : para) (fp : lfiles) : Prop := ly_files_para v p = Ok fp.
Definition licence_conv (p : para) (lp : llicense) : Prop := ly_license_para p = Ok lp.

(* two lookups agree: same outcome (also the same panic), same position, related paragraphs *)
Definition found_rel {A B} (R : A -> B -> Prop)
  (x : res (option (nat * A))) (y : res (option (nat * B))) : Prop :=
  match x, y with
  | Ok None, Ok None => True
  | Ok (Some (i, a)), Ok (Some (j, b)) => i = j /\ R a b
  | Err e, Err e' => e = e'
  | Panic n, Panic m => n = m
  | OutOfFuel, OutOfFuel => True
  | _, _ => False
  end.

(* ------------------------------------------------------------------------------------------
   Property C17, clause by clause, for a variant v of the code.  [C17_full fixed] is proved
   (props/C17.v: C17_holds); [C17_full shipped] is refuted, each failing clause separately. *)

(* "'*' matches any run of characters including '/', '?' matches exactly one character, a
   backslash makes the following '*', '?' or backslash literal, and every other character
   matches only itself": all patterns with valid escapes x all paths *)
Definition glob_clause (dotall : bool) : Prop :=
  forall g, valid_escapes g = true ->
  forall p, exists b, glob_match dotall g p = Ok b /\ (b = true <-> glob_matches g p).

(* "returns the last Files paragraph, in file order, one of whose whitespace-separated patterns
   matches the whole path" and "the licence for the file is that paragraph's own licence when it
   carries text, otherwise the first stand-alone licence paragraph with the same name":
   all documents x all paths (lossless reader; the lossy one through [agree_clause]) *)
Definition lookup_clause (v : variant) : Prop :=
  forall d path, doc_valid d ->
  exists r ans,
    ll_find_files v d path = Ok r /\
    is_last_such (fun p => para_matches p path) (files_paragraphs d) r /\
    ll_find_license_for_file v d path = Ok ans /\
    licence_answer d r ans.

(* "the lossless and lossy readers give the same answers": whenever the lossy reader accepts
   the document — and it accepts every well-formed one ([accept_clause]) *)
Definition agree_clause (v : variant) : Prop :=
  forall d c, ly_of_doc v d = Ok c ->
  forall path,
    found_rel (files_conv v) (ll_find_files v d path) (ly_find_files v c path) /\
    ll_find_license_for_file v d path = ly_find_license_for_file v c path /\
    forall n, ll_find_license_by_name v d n = Ok (ly_find_license_by_name c n).
Definition accept_clause (v : variant) : Prop :=
  forall d, wf_doc d -> exists c, ly_of_doc v d = Ok c.

(* "text not starting with a Format field is refused as not machine-readable" (Err 2), by all
   three text entry points, and only such text is *)
Definition gate_clause (v : variant) : Prop :=
  forall s,
    (ll_from_str s = Err 2%N <-> format_gate s = false) /\
    (ll_from_str_relaxed s = Err 2%N <-> format_gate s = false) /\
    (ly_from_str v s = Err 2%N <-> format_gate s = false).

Definition C17_full (v : variant) : Prop :=
  glob_clause (v_dotall v) /\ lookup_clause v /\ agree_clause v /\ accept_clause v /\ gate_clause v.
