(* The vocabulary in which property C17 is stated (specification only: nothing here transcribes
   code, and nothing here is extracted).  A document is the list of paragraphs of the file, a
   paragraph the list of its (field, value) pairs; the first paragraph is the header. *)
From V.model Require Import Base Deb822Parse Glob Copyright.

(* the Files paragraphs, in file order: the non-header paragraphs that carry a Files field *)
Definition files_paragraphs (d : doc) : doc := filter (fun p => has p k_Files) (tl d).
(* the stand-alone licence paragraphs, in file order *)
Definition licence_paragraphs (d : doc) : doc :=
  filter (fun p => negb (has p k_Files) && has p k_License) (tl d).

(* the whitespace-separated patterns of a paragraph (on one or several lines: a line break is
   whitespace) *)
Definition patterns (p : para) : list str :=
  match pget p k_Files with Some x => split_whitespace x | None => [] end.
(* "one of whose whitespace-separated patterns matches the whole path" *)
Definition para_matches (p : para) (path : str) : Prop :=
  exists g, In g (patterns p) /\ glob_matches g path.
(* the licence a paragraph carries *)
Definition para_licence (p : para) : option license :=
  option_map license_of_str (pget p k_License).
(* a paragraph whose licence has the name n *)
Definition named (n : str) (p : para) : Prop :=
  exists l, para_licence p = Some l /\ lic_name l = Some n.

(* every pattern of every Files paragraph has valid escapes (DEP-5: anything else is an error;
   the code panics when it reaches such a pattern) *)
Definition doc_valid (d : doc) : Prop :=
  forall p g, In p (files_paragraphs d) -> In g (patterns p) -> valid_escapes g = true.

(* r is the last element of l that satisfies P, with its position — or None when there is none *)
Definition is_last_such {A} (P : A -> Prop) (l : list A) (r : option (nat * A)) : Prop :=
  match r with
  | None => forall x, In x l -> ~ P x
  | Some (j, x) => exists pre post, l = pre ++ x :: post /\ length pre = j /\ P x /\
                                    forall y, In y post -> ~ P y
  end.
(* r is the first element of l that satisfies P *)
Definition is_first_such {A} (P : A -> Prop) (l : list A) (r : option A) : Prop :=
  match r with
  | None => forall x, In x l -> ~ P x
  | Some x => exists pre post, l = pre ++ x :: post /\ P x /\ forall y, In y pre -> ~ P y
  end.

(* "The licence for the file is that paragraph's own licence when it carries text, otherwise the
   first stand-alone licence paragraph with the same name" — [found] is the paragraph looked up *)
Definition licence_answer (d : doc) (found : option (nat * para)) (ans : option license) : Prop :=
  match found with
  | None => ans = None
  | Some (_, p) =>
    match para_licence p with
    | None => ans = None
    | Some own =>
      match lic_text own with
      | Some _ => ans = Some own
      | None => exists n q, lic_name own = Some n /\
                            is_first_such (named n) (licence_paragraphs d) q /\
                            ans = match q with Some q' => para_licence q' | None => None end
      end
    end
  end.

(* a well-formed copyright file: a header with a Format field, then Files paragraphs (Files,
   Copyright, License) and stand-alone License paragraphs in any number and order *)
Definition wf_body_para (p : para) : bool :=
  (has p k_Files && has p k_License && has p k_Copyright) || (negb (has p k_Files) && has p k_License).
Definition wf_doc (d : doc) : Prop :=
  match d with
  | [] => False
  | h :: body => has h k_Format = true /\ forallb wf_body_para body = true
  end.

(* the lossy reader's paragraph fp / lp is the conversion of the paragraph p of the file *)
Definition files_conv (v : variant) (p : para) (fp : lfiles) : Prop := ly_files_para v p = Ok fp.
Definition licence_conv (p : para) (lp : llicense) : Prop := ly_license_para p = Ok lp.

(* two lookups agree: same outcome (also the same panic), same position, related paragraphs *)
Definition found_rel {A B} (R : A -> B -> Prop)
  (x : res (option (nat * A))) (y : res (option (nat * B))) : Prop :=
  match x, y with
  | Ok None, Ok None => True
  | Ok (Some (i, a)), Ok (Some (j, b)) => i = j /\ R a b
  | Err e, Err e' => e = e'
  | Panic n, Panic m => n = m
  | OutOfFuel, OutOfFuel => True
  | _, _ => False
  end.
