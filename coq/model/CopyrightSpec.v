(* The vocabulary in which property C17 is stated (specification only: nothing here transcribes
   code, and nothing here is extracted).  A document is the list of paragraphs of the file, a
   paragraph the list of its (field, value) pairs; the first paragraph is the header.

   Field names are not case-sensitive (Debian Policy 5.1): the specification looks a field up
   with [sget], which compares names modulo ASCII case.  The code compares them exactly
   (Paragraph::get is [pget]); the two agree on documents that spell Files / License /
   Copyright / Format exactly so ([exact_case]) and differ otherwise — finding field-name-case,
   see [Known_field_name_case] and C17_field_name_case_witness. *)
From V.model Require Import Base Deb822Parse Glob Copyright.

(* ---------------------------------------------------------------- field lookup of the specification *)
Definition lower (c : char) : char := if ((65 <=? c) && (c <=? 90))%N then (c + 32)%N else c.
Definition ci_eqb (a b : str) : bool := str_eqb (map lower a) (map lower b).
(* the value of the first field whose name is [key], in any case *)
Fixpoint sget (p : para) (key : str) : option str :=
  match p with
  | [] => None
  | (k, v) :: r => if ci_eqb k key then Some v else sget r key
  end.

(* the field names the lookups depend on *)
Definition special_names : list str := [k_Files; k_License; k_Copyright; k_Format].
(* a name that is one of them up to case is spelled exactly so *)
Definition exact_case_name (k : str) : bool :=
  forallb (fun K => implb (ci_eqb k K) (str_eqb k K)) special_names.
Definition exact_case_para (p : para) : bool := forallb (fun kv => exact_case_name (fst kv)) p.
Definition exact_case (d : doc) : Prop := forallb exact_case_para d = true.
(* finding field-name-case: some paragraph spells Files, License, Copyright or Format in another
   case ("files: *").  Narrow, decidable; the lookup theorems exclude it and
   C17_field_name_case_witness shows the exclusion is necessary. *)
Definition Known_field_name_case (d : doc) : Prop := forallb exact_case_para d = false.

(* ---------------------------------------------------------------- generic in the field lookup *)
(* The definitions are written once, over a lookup function [get]; the specification instantiates
   them with [sget], the proofs about the code also with [pget]. *)
Section With.
  Variable get : para -> str -> option str.

  Definition has_w (p : para) (key : str) : bool :=
    match get p key with Some _ => true | None => false end.
  Definition files_paragraphs_w (d : doc) : doc := filter (fun p => has_w p k_Files) (tl d).
  Definition licence_paragraphs_w (d : doc) : doc :=
    filter (fun p => negb (has_w p k_Files) && has_w p k_License) (tl d).
  Definition patterns_w (p : para) : list str :=
    match get p k_Files with Some x => split_whitespace x | None => [] end.
  Definition para_matches_w (p : para) (path : str) : Prop :=
    exists g, In g (patterns_w p) /\ glob_matches g path.
  Definition para_licence_w (p : para) : option license :=
    option_map license_of_str (get p k_License).
  Definition named_w (n : str) (p : para) : Prop :=
    exists l, para_licence_w p = Some l /\ lic_name l = Some n.
  Definition doc_valid_w (d : doc) : Prop :=
    forall p g, In p (files_paragraphs_w d) -> In g (patterns_w p) -> valid_escapes g = true.
  Definition wf_body_para_w (p : para) : bool :=
    (has_w p k_Files && has_w p k_License && has_w p k_Copyright) ||
    (negb (has_w p k_Files) && has_w p k_License).
  Definition wf_doc_w (d : doc) : Prop :=
    match d with
    | [] => False
    | h :: body => has_w h k_Format = true /\ forallb wf_body_para_w body = true
    end.
End With.

(* r is the last element of l that satisfies P, with its position — or None when there is none *)
Definition is_last_such {A} (P : A -> Prop) (l : list A) (r : option (nat * A)) : Prop :=
  match r with
  | None => forall x, In x l -> ~ P x
  | Some (j, x) => exists pre post, l = pre ++ x :: post /\ length pre = j /\ P x /\
                                    forall y, In y post -> ~ P y
  end.
(* r is the first element of l that satisfies P *)
Definition is_first_such {A} (P : A -> Prop) (l : list A) (r : option A) : Prop :=
  match r with
  | None => forall x, In x l -> ~ P x
  | Some x => exists pre post, l = pre ++ x :: post /\ P x /\ forall y, In y pre -> ~ P y
  end.

(* "The licence for the file is that paragraph's own licence when it carries text, otherwise the
   first stand-alone licence paragraph with the same name" — [found] is the paragraph looked up *)
Definition licence_answer_w (get : para -> str -> option str)
  (d : doc) (found : option (nat * para)) (ans : option license) : Prop :=
  match found with
  | None => ans = None
  | Some (_, p) =>
    match para_licence_w get p with
    | None => ans = None
    | Some own =>
      match lic_text own with
      | Some _ => ans = Some own
      | None => exists n q, lic_name own = Some n /\
                            is_first_such (named_w get n) (licence_paragraphs_w get d) q /\
                            ans = match q with Some q' => para_licence_w get q' | None => None end
      end
    end
  end.

(* ---------------------------------------------------------------- the specification's instances *)
(* the Files paragraphs, in file order: the non-header paragraphs that carry a Files field *)
Definition files_paragraphs : doc -> doc := files_paragraphs_w sget.
(* the stand-alone licence paragraphs, in file order *)
Definition licence_paragraphs : doc -> doc := licence_paragraphs_w sget.
(* the whitespace-separated patterns of a paragraph (on one or several lines: a line break is
   whitespace) *)
Definition patterns : para -> list str := patterns_w sget.
(* "one of whose whitespace-separated patterns matches the whole path"; a pattern with an
   invalid escape matches nothing ([glob_matches] has no rule for it) *)
Definition para_matches : para -> str -> Prop := para_matches_w sget.
(* the licence a paragraph carries *)
Definition para_licence : para -> option license := para_licence_w sget.
(* a paragraph whose licence has the name n *)
Definition named : str -> para -> Prop := named_w sget.
(* every pattern of every Files paragraph has valid escapes (DEP-5: anything else is an error;
   the code without C17-invalid-glob-escape panics when it reaches such a pattern) *)
Definition doc_valid : doc -> Prop := doc_valid_w sget.
Definition licence_answer : doc -> option (nat * para) -> option license -> Prop :=
  licence_answer_w sget.
(* a well-formed copyright file: a header with a Format field, then Files paragraphs (Files,
   Copyright, License) and stand-alone License paragraphs in any number and order *)
Definition wf_doc : doc -> Prop := wf_doc_w sget.

(* the lossy reader's paragraph fp / lp is the conversion of the paragraph p of the file *)
Definition files_conv (v : variant) (p : para) (fp : lfiles) : Prop := ly_files_para v p = Ok fp.
Definition licence_conv (p : para) (lp : llicense) : Prop := ly_license_para p = Ok lp.

(* two lookups agree: same outcome (also the same panic), same position, related paragraphs *)
Definition found_rel {A B} (R : A -> B -> Prop)
  (x : res (option (nat * A))) (y : res (option (nat * B))) : Prop :=
  match x, y with
  | Ok None, Ok None => True
  | Ok (Some (i, a)), Ok (Some (j, b)) => i = j /\ R a b
  | Err e, Err e' => e = e'
  | Panic n, Panic m => n = m
  | OutOfFuel, OutOfFuel => True
  | _, _ => False
  end.

(* the text starts with a Format field (name in any case) *)
Definition starts_with_format_field (s : str) : Prop :=
  exists name rest, s = name ++ 58%N :: rest /\ ci_eqb name k_Format = true.

(* ------------------------------------------------------------------------------------------
   Property C17, clause by clause, for a variant v of the code.  [C17_full fixed] is proved
   (props/C17.v: C17_holds); [C17_full committed] and [C17_full shipped] are refuted, each
   failing clause separately. *)

(* "'*' matches any run of characters including '/', '?' matches exactly one character, a
   backslash makes the following '*', '?' or backslash literal, and every other character
   matches only itself": all patterns with valid escapes x all paths *)
Definition glob_clause (dotall : bool) : Prop :=
  forall g, valid_escapes g = true ->
  forall p, exists b, glob_match dotall g p = Ok b /\ (b = true <-> glob_matches g p).

(* "returns the last Files paragraph, in file order, one of whose whitespace-separated patterns
   matches the whole path" and "the licence for the file is that paragraph's own licence when it
   carries text, otherwise the first stand-alone licence paragraph with the same name":
   all documents outside the class field-name-case x all paths, valid patterns or not
   (lossless reader; the lossy one through [agree_clause]) *)
Definition lookup_clause (v : variant) : Prop :=
  forall d path, exact_case d ->
  exists r ans,
    ll_find_files v d path = Ok r /\
    is_last_such (fun p => para_matches p path) (files_paragraphs d) r /\
    ll_find_license_for_file v d path = Ok ans /\
    licence_answer d r ans.
(* the same, only for documents all of whose patterns have valid escapes: what holds of the code
   without C17-invalid-glob-escape *)
Definition lookup_clause_valid (v : variant) : Prop :=
  forall d path, exact_case d -> doc_valid d ->
  exists r ans,
    ll_find_files v d path = Ok r /\
    is_last_such (fun p => para_matches p path) (files_paragraphs d) r /\
    ll_find_license_for_file v d path = Ok ans /\
    licence_answer d r ans.

(* "the lossless and lossy readers give the same answers": whenever the lossy reader accepts
   the document — and it accepts every well-formed one ([accept_clause]) *)
Definition agree_clause (v : variant) : Prop :=
  forall d c, ly_of_doc v d = Ok c ->
  forall path,
    found_rel (files_conv v) (ll_find_files v d path) (ly_find_files v c path) /\
    ll_find_license_for_file v d path = ly_find_license_for_file v c path /\
    forall n, ll_find_license_by_name v d n = Ok (ly_find_license_by_name c n).
Definition accept_clause (v : variant) : Prop :=
  forall d, exact_case d -> wf_doc d -> exists c, ly_of_doc v d = Ok c.

(* "text not starting with a Format field is refused as not machine-readable" (Err 2), by all
   three text entry points, and only such text is — where "starts with a Format field" is read
   by the code as "starts with the seven characters Format:" ([format_gate]; another case of the
   name is refused: class field-name-case) *)
Definition gate_clause (v : variant) : Prop :=
  forall s,
    (ll_from_str s = Err 2%N <-> format_gate s = false) /\
    (ll_from_str_relaxed s = Err 2%N <-> format_gate s = false) /\
    (ly_from_str v s = Err 2%N <-> format_gate s = false).

Definition C17_full (v : variant) : Prop :=
  glob_clause (v_dotall v) /\ lookup_clause v /\ agree_clause v /\ accept_clause v /\ gate_clause v.
