(* Live layouts, LIBERAL: the shapes the tree of a relationship field can take while it is being
   edited, starting from ANY text the reader accepts without error (RelGrammarAll.afield, C10's
   image of the reader) — not only from Policy-shaped fields (RelLive.v, which this file mirrors
   name by name).  The editing operations only look at the KINDS of a relation's children (the
   IDENT name, the ARCHQUAL / VERSION / ARCHITECTURES / PROFILES nodes, the white space and
   separator tokens); what is INSIDE a part is opaque to them.  So the parts here are the liberal
   records of RelGrammarAll ("(= 5::)", "[!! x !]", "<! a>", "[]", "<>", any operator run), carried
   along unchanged by every operation that does not replace the part.
   The content is the record the accessors of RelEdit.structure read (relrec), the list model is
   RelEditSpec.astep, operands are whatever Relation::new / RelationBuilder build (RelEditSpec.
   brel_tree).  [alive_of] embeds every liberal layout, [anorm] reads a live layout back as a
   liberal layout with the same text.  Specification side of C11_full.  Definitions only. *)
From V.model Require Import Base RelLex RelParse RelAcc RelGrammar RelGrammarAll.
From V.model Require Import RelEdit RelEditSpec RelEditTree.

(* ------------------------------------------------------------------ white space tokens *)
Inductive wtok : Type := WTok (newline : bool) (s : str).
Notation wsl := (list wtok).
Definition wtree (w : wtok) : rtree :=
  match w with WTok false s => Tok WHITESPACE s | WTok true s => Tok NEWLINE s end.
Definition wtrees (l : wsl) : list rtree := map wtree l.
Definition wtext (w : wtok) : str := match w with WTok _ s => s end.
Definition wstext (l : wsl) : str := flat_map wtext l.
Definition w_sp : wtok := WTok false [32%N].
Definition wtok_tok (w : wtok) : rtoken :=
  match w with WTok false s => (WHITESPACE, s) | WTok true s => (NEWLINE, s) end.
Definition wtok_of (t : rtoken) : wtok := WTok (match fst t with NEWLINE => true | _ => false end) (snd t).
(* a white space slot of a liberal layout, token by token *)
Definition wsl_of (ts : list rtoken) : wsl := map wtok_of ts.
(* a run of white space tokens as the lexer cuts its text *)
Definition relex (w : wsl) : list rtoken := ws_toks (wstext w).

(* ------------------------------------------------------------------ layouts *)
(* the parts of a relation are the liberal records; their fields aq_ws0 / av_ws0 / ag_ws0 / pg_ws0
   (the white space in front of the part) are not used here: that white space is the [wsl] next to it *)
Record lrel := mk_lrel {
  l_name : str;
  l_qual : option (wsl * aqual);
  l_ver : option (wsl * aver);
  l_archs : option (wsl * agroup);
  l_profs : list (wsl * pgroup);
  l_trail : wsl                      (* white space at the end, inside the RELATION node *)
}.
Record lentry := mk_lentry {
  e_first : lrel;
  e_alts : list (wsl * wsl * lrel);  (* white space before the '|' (in the ENTRY), after it, the alternative *)
  e_trail : wsl                      (* white space at the end, inside the ENTRY node *)
}.
Inductive relem : Type :=
| RW (w : wtok)                      (* white space in the ROOT *)
| RC                                 (* a comma *)
| RE (e : lentry)
| RS (body : list vpiece).           (* a substitution variable *)
Notation lroot := (list relem).

(* ------------------------------------------------------------------ their trees *)
Definition qual_node (q : aqual) : rtree := aqual_node q.
Definition vnode (v : aver) : rtree := aver_node v.
Definition arch_node (g : agroup) : rtree := agroup_node g.
Definition prof_node (g : pgroup) : rtree := pgroup_node g.
Definition subst_node (body : list vpiece) : rtree := asubst_node body.
Definition part {A} (f : A -> rtree) (o : option (wsl * A)) : list rtree :=
  match o with Some (w, a) => wtrees w ++ [f a] | None => [] end.
Definition prof_part (wg : wsl * pgroup) : list rtree := wtrees (fst wg) ++ [prof_node (snd wg)].
Definition lrel_children (r : lrel) : list rtree :=
  Tok IDENT (l_name r) :: part qual_node (l_qual r) ++ part vnode (l_ver r) ++ part arch_node (l_archs r)
  ++ flat_map prof_part (l_profs r) ++ wtrees (l_trail r).
Definition lrel_tree (r : lrel) : rtree := Node RELATION (lrel_children r).
Definition alt_part (a : wsl * wsl * lrel) : list rtree :=
  wtrees (fst (fst a)) ++ t_pipe :: wtrees (snd (fst a)) ++ [lrel_tree (snd a)].
Definition lentry_children (e : lentry) : list rtree :=
  lrel_tree (e_first e) :: flat_map alt_part (e_alts e) ++ wtrees (e_trail e).
Definition lentry_tree (e : lentry) : rtree := Node ENTRY (lentry_children e).
Definition relem_tree (x : relem) : rtree :=
  match x with
  | RW w => wtree w
  | RC => t_comma
  | RE e => lentry_tree e
  | RS body => subst_node body
  end.
Definition ltree (l : lroot) : rtree := Node ROOT (map relem_tree l).

(* ------------------------------------------------------------------ well-formedness *)
(* a token as the lexer can produce it *)
Definition wtok_ok (w : wtok) : bool := tok_valid (wtok_tok w).
Definition wsl_ok (l : wsl) : bool := forallb wtok_ok l.
Definition name_ok (s : str) : bool := tok_valid (IDENT, s).
Definition inner_ok {A} (f : A -> bool) (o : option (wsl * A)) : bool :=
  match o with Some (w, a) => wsl_ok w && f a | None => true end.
(* the inside of a part (its own leading slot is not looked at): the shape the parser needs, a
   token list the lexer can produce, and — the version — an operator the accessors can read *)
Definition aqual_body (q : aqual) : list rtoken := t_colon :: aq_ws1 q ++ [(IDENT, aq_name q)].
Definition qual_in_ok (q : aqual) : bool := wsk (aq_ws1 q) && lexable (aqual_body q).
Definition vclause_in_ok (v : aver) : bool :=
  wsk (av_ws1 v) && op_ok (av_op v) && wsk (av_ws2 v) && nonempty (av_ver v) && wsk (av_ws3 v)
  && (nonempty (av_op v) || is_nil (av_ws2 v)) && lexable (aver_body_toks v)
  && match parse_vc (av_op v) with Some _ => true | None => false end.
Definition group_in_ok (g : agroup) : bool :=
  forallb (fun wa => wsk (fst wa)) (ag_atoms g) && wsk (ag_ws1 g) && lexable (agroup_body_toks g).
Definition pgroup_in_ok (g : pgroup) : bool :=
  forallb (fun wp => wsk (fst wp) && pterm_ok (snd wp)) (pg_terms g) && wsk (pg_ws1 g) && lexable (pgroup_body_toks g).
Definition lrel_ok (r : lrel) : bool :=
  name_ok (l_name r) && inner_ok qual_in_ok (l_qual r) && inner_ok vclause_in_ok (l_ver r)
  && inner_ok group_in_ok (l_archs r)
  && forallb (fun wg => wsl_ok (fst wg) && pgroup_in_ok (snd wg)) (l_profs r) && wsl_ok (l_trail r).
Definition lentry_ok (e : lentry) : bool :=
  lrel_ok (e_first e)
  && forallb (fun a => wsl_ok (fst (fst a)) && wsl_ok (snd (fst a)) && lrel_ok (snd a)) (e_alts e)
  && wsl_ok (e_trail e).
Definition relem_ok (allow_substvar : bool) (x : relem) : bool :=
  match x with
  | RW w => wtok_ok w
  | RC => true
  | RE e => lentry_ok e
  | RS body => allow_substvar && lexable (asubst_toks body)
  end.
Definition is_item (x : relem) : bool := match x with RE _ | RS _ => true | _ => false end.
Definition is_rw (x : relem) : bool := match x with RW _ => true | _ => false end.
(* between two items (entries, substitution variables) there is a comma *)
Fixpoint separated (need_comma : bool) (l : lroot) : bool :=
  match l with
  | [] => true
  | RW _ :: r => separated need_comma r
  | RC :: r => separated false r
  | x :: r => negb need_comma && separated true r
  end.
Definition lwf (allow_substvar : bool) (l : lroot) : bool :=
  forallb (relem_ok allow_substvar) l && separated false l.

(* ------------------------------------------------------------------ content: what the accessors read *)
Definition ver_content (v : aver) : verspec :=
  match parse_vc (av_op v) with
  | Some vc => Some (vc, rttext_of (map vpiece_tok (av_ver v)))
  | None => None
  end.
Definition lrel_content (r : lrel) : relrec :=
  mk_relrec (l_name r) (option_map (fun wq => aq_name (snd wq)) (l_qual r))
            (match l_ver r with Some (_, v) => ver_content v | None => None end)
            (option_map (fun wg => arch_names (children (arch_node (snd wg))) false) (l_archs r))
            (map (fun wg => profile_group (children (prof_node (snd wg))) [] false) (l_profs r)).
Definition lentry_content (e : lentry) : list relrec :=
  lrel_content (e_first e) :: map (fun a => lrel_content (snd a)) (e_alts e).
Definition relem_entries (x : relem) : list (list relrec) := match x with RE e => [lentry_content e] | _ => [] end.
Definition relem_substvars (x : relem) : list str := match x with RS body => [text (subst_node body)] | _ => [] end.
Definition lcontent (l : lroot) : lfield * list str :=
  (flat_map relem_entries l, flat_map relem_substvars l).
(* the texts of the entries, in order *)
Definition lentry_texts (l : lroot) : list str :=
  flat_map (fun x => match x with RE e => [text (lentry_tree e)] | _ => [] end) l.

(* ------------------------------------------------------------------ what the constructors and the builder build *)
Definition tok_sp : rtoken := (WHITESPACE, [32%N]).
Definition vclause_new (vc : vcn) (ver : str) : aver := mk_aver [] [] (vc_text vc) [tok_sp] [VId ver] [].
Definition qual_new (q : str) : aqual := mk_aqual [] [] q.
Fixpoint atoms_new (i : nat) (l : list str) : list (list rtoken * atom) :=
  match l with
  | [] => []
  | a :: r => ((match i with O => [] | S _ => [tok_sp] end), AId a) :: atoms_new (S i) r
  end.
Definition archs_new (l : list str) : agroup := mk_agroup [] (atoms_new 0 l) [].
Fixpoint pterms_new (i : nat) (l : list profile) : list (list rtoken * pterm) :=
  match l with
  | [] => []
  | p :: r => ((match i with O => [] | S _ => [tok_sp] end),
               (match p with PDisabled n => PNot [] n | PEnabled n => PId n end)) :: pterms_new (S i) r
  end.
Definition profs_new (g : list profile) : pgroup := mk_pgroup [] (pterms_new 0 g) [].
(* Relation::new(name, version) / RelationBuilder::build *)
Definition lrel_new (r : relrec) : lrel :=
  mk_lrel (rr_name r)
          (match rr_qual r with Some q => Some ([], qual_new q) | None => None end)
          (match rr_ver r with Some (vc, ver) => Some ([w_sp], vclause_new vc ver) | None => None end)
          (match rr_archs r with Some a => Some ([w_sp], archs_new a) | None => None end)
          (map (fun g => ([w_sp], profs_new g)) (rr_profs r)) [].
(* Entry::from(vec![..]) *)
Definition lentry_new (r : relrec) (rs : list relrec) : lentry :=
  mk_lentry (lrel_new r) (map (fun r' => ([w_sp], [w_sp], lrel_new r')) rs) [].

(* ------------------------------------------------------------------ the abstract operations: the root *)
Fixpoint wlen (l : lroot) : nat := match l with RW _ :: r => S (wlen r) | _ => 0 end.
Definition is_re (x : relem) : bool := match x with RE _ => true | _ => false end.
Definition is_rc (x : relem) : bool := match x with RC => true | _ => false end.

Definition a_insert (l : lroot) (idx : nat) (e : lentry) : lroot :=
  match nth_index is_re idx l with
  | Some ci => insert_at ci [RE e; RC; RW w_sp] l
  | None =>
    let n := wlen (rev l) in
    l ++ match hd_error (skipn n (rev l)) with
         | None => [RE e]
         | Some RC => match n with O => [RW w_sp; RE e] | S _ => [RE e] end
         | Some _ => [RC; RW w_sp; RE e]
         end
  end.
Definition a_push (l : lroot) (e : lentry) : lroot := a_insert l (count_if is_re l) e.
Definition a_replace (l : lroot) (idx : nat) (e : lentry) : option lroot :=
  match nth_index is_re idx l with
  | Some ci => Some (replace_at ci (RE e) l)
  | None => None
  end.
Definition a_remove_at (l : lroot) (ci : nat) : option lroot :=
  let pre := firstn ci l in
  let post := skipn (S ci) l in
  let n := wlen post in
  match (match skipn n post with
         | [] => Some (n, false)
         | RC :: _ => Some (S n, true)
         | _ => None
         end) with
  | None => None
  | Some (k1, removed_comma) =>
    if negb (existsb is_item pre) then
      Some (pre ++ skipn (wlen (skipn k1 post)) (skipn k1 post))
    else
      let rp := rev pre in
      let m := wlen rp in
      let k2 := match skipn m rp with
                | RC :: _ => if removed_comma then m else S m
                | _ => m
                end in
      Some (firstn (ci - k2) pre ++ skipn k1 post)
  end.
Definition a_remove_entry (l : lroot) (idx : nat) : option lroot :=
  match nth_index is_re idx l with
  | Some ci => a_remove_at l ci
  | None => None
  end.

(* ------------------------------------------------------------------ the abstract operations: an entry *)
Definition nth_rel (e : lentry) (j : nat) : option lrel :=
  match j with O => Some (e_first e) | S j' => option_map snd (nth_error (e_alts e) j') end.
Definition upd_rel (e : lentry) (j : nat) (g : lrel -> lrel) : lentry :=
  match j with
  | O => mk_lentry (g (e_first e)) (e_alts e) (e_trail e)
  | S j' => mk_lentry (e_first e) (upd_nth j' (fun a => (fst a, g (snd a))) (e_alts e)) (e_trail e)
  end.
Definition n_rels (e : lentry) : nat := S (length (e_alts e)).
Definition a_epush (e : lentry) (r : lrel) : lentry :=
  mk_lentry (e_first e) (e_alts e ++ [([w_sp], [w_sp], r)]) (e_trail e).
Definition with_trail (t : wsl) (r : lrel) : lrel :=
  mk_lrel (l_name r) (l_qual r) (l_ver r) (l_archs r) (l_profs r) t.
Definition a_ereplace (e : lentry) (j : nat) (r : lrel) : lentry :=
  upd_rel e j (fun old => with_trail (l_trail old) r).
Definition a_remove_rel (e : lentry) (j : nat) : option lentry :=
  match j, e_alts e with
  | O, [] => None
  | O, (_, _, r) :: rest => Some (mk_lentry r rest (e_trail e))
  | S j', alts => Some (mk_lentry (e_first e) (remove_nth j' alts) (e_trail e))
  end.

(* ------------------------------------------------------------------ the abstract operations: a relation *)
Definition a_set_archqual (q : str) (r : lrel) : lrel :=
  mk_lrel (l_name r)
          (match l_qual r with Some (w, _) => Some (w, qual_new q) | None => Some ([], qual_new q) end)
          (l_ver r) (l_archs r) (l_profs r) (l_trail r).
Definition a_set_version (v : verspec) (r : lrel) : lrel :=
  mk_lrel (l_name r) (l_qual r)
          (match v with
           | None => None
           | Some (vc, ver) => match l_ver r with
                               | Some (w, _) => Some (w, vclause_new vc ver)
                               | None => Some ([w_sp], vclause_new vc ver)
                               end
           end)
          (l_archs r) (l_profs r) (l_trail r).
Definition a_set_archs (a : list str) (r : lrel) : lrel :=
  match l_archs r with
  | Some (w, _) => mk_lrel (l_name r) (l_qual r) (l_ver r) (Some (w, archs_new a)) (l_profs r) (l_trail r)
  | None =>
    match l_profs r with
    | (w, g) :: rest =>
        mk_lrel (l_name r) (l_qual r) (l_ver r) (Some (w ++ [w_sp], archs_new a)) (([], g) :: rest) (l_trail r)
    | [] => mk_lrel (l_name r) (l_qual r) (l_ver r) (Some (l_trail r ++ [w_sp], archs_new a)) [] []
    end
  end.
Definition a_add_profile (g : list profile) (r : lrel) : lrel :=
  match l_profs r with
  | [] => mk_lrel (l_name r) (l_qual r) (l_ver r) (l_archs r) [(l_trail r ++ [w_sp], profs_new g)] []
  | ps => mk_lrel (l_name r) (l_qual r) (l_ver r) (l_archs r) (ps ++ [([w_sp], profs_new g)]) (l_trail r)
  end.

(* ------------------------------------------------------------------ the abstract operations: a whole field *)
Definition nth_entry (l : lroot) (idx : nat) : option (nat * lentry) :=
  match nth_index is_re idx l with
  | Some ci => match nth_error l ci with Some (RE e) => Some (ci, e) | _ => None end
  | None => None
  end.
Definition a_on_entry (l : lroot) (i : nat) (g : lentry -> lentry) : option lroot :=
  match nth_entry l i with
  | Some (ci, e) => Some (replace_at ci (RE (g e)) l)
  | None => None
  end.
Definition a_on_relation (l : lroot) (i j : nat) (g : lrel -> lrel) : option lroot :=
  match nth_entry l i with
  | Some (ci, e) => if j <? n_rels e then Some (replace_at ci (RE (upd_rel e j g)) l) else None
  | None => None
  end.
Definition a_remove_relation (l : lroot) (i j : nat) : option lroot :=
  match nth_entry l i with
  | Some (ci, e) =>
    if j <? n_rels e then
      match a_remove_rel e j with
      | Some e' => Some (replace_at ci (RE e') l)
      | None => a_remove_at l ci
      end
    else None
  | None => None
  end.

Definition operand_lentry (e : list relrec) : option lentry :=
  match e with r :: rs => Some (lentry_new r rs) | [] => None end.

Definition a_op (o : aop) (l : lroot) : option lroot :=
  match o with
  | APush e => option_map (a_push l) (operand_lentry e)
  | AInsert i e => option_map (a_insert l i) (operand_lentry e)
  | AReplace i e => match operand_lentry e with Some e' => a_replace l i e' | None => None end
  | ARemoveEntry i => a_remove_entry l i
  | AEPush i r => a_on_entry l i (fun e => a_epush e (lrel_new r))
  | AEReplace i j r =>
      match nth_entry l i with
      | Some (ci, e) => if j <? n_rels e then Some (replace_at ci (RE (a_ereplace e j (lrel_new r))) l) else None
      | None => None
      end
  | ARemoveRelation i j => a_remove_relation l i j
  | ASetVersion i j v => a_on_relation l i j (a_set_version v)
  | ADropConstraint i j => a_on_relation l i j (a_set_version None)
  | ASetArchqual i j q => a_on_relation l i j (a_set_archqual q)
  | ASetArchs i j a => a_on_relation l i j (a_set_archs a)
  | AAddProfile i j g => a_on_relation l i j (a_add_profile g)
  end.
Fixpoint a_ops (ops : list aop) (l : lroot) : option lroot :=
  match ops with
  | [] => Some l
  | o :: rest => match a_op o l with Some l' => a_ops rest l' | None => None end
  end.

(* ------------------------------------------------------------------ the list model on contents: RelEditSpec.astep *)
Definition xstep (f : lfield) (o : aop) : lfield := astep f o.
Definition x_in_range (f : lfield) (o : aop) : bool := aop_in_range f o.
(* the operands of C11_full: identifier texts, non-empty entries / architecture lists / groups *)
Definition operands_ok (o : aop) : bool := wf_operands o.
(* ------------------------------------------------------------------ every liberal layout is a live layout *)
Definition lrel_of (r : arel) (last : bool) : lrel :=
  mk_lrel (a_name r)
          (option_map (fun q => (wsl_of (aq_ws0 q), q)) (a_qual r))
          (option_map (fun v => (wsl_of (av_ws0 v), v)) (a_ver r))
          (option_map (fun g => (wsl_of (ag_ws0 g), g)) (a_archs r))
          (map (fun g => (wsl_of (pg_ws0 g), g)) (a_profs r))
          (if a_owns_trail r last then wsl_of (a_trail r) else []).
Fixpoint lalts_of (prev : arel) (alts : list (list rtoken * arel)) (last : bool) : list (wsl * wsl * lrel) * wsl :=
  match alts with
  | [] => ([], if last then wsl_of (arel_left prev last) else [])
  | (w, r') :: alts' =>
      let '(rest, trail) := lalts_of r' alts' last in
      ((wsl_of (arel_left prev false), wsl_of w, lrel_of r' (match alts' with [] => last | _ => false end)) :: rest, trail)
  end.
Definition lentry_of (r : arel) (alts : list (list rtoken * arel)) (last : bool) : lentry :=
  let '(la, trail) := lalts_of r alts last in
  mk_lentry (lrel_of r (match alts with [] => last | _ => false end)) la trail.
Definition rws (ts : list rtoken) : lroot := map RW (wsl_of ts).
Definition litem_of (i : aitem) (last : bool) : lroot :=
  match i with
  | AEntry r alts => RE (lentry_of r alts last) :: rws (arels_left r alts last)
  | ASubst body trail => RS body :: rws trail
  | AEmpty => []
  end.
Fixpoint litems_of (i : aitem) (more : list (list rtoken * aitem)) : lroot :=
  litem_of i (is_nil more)
  ++ match more with [] => [] | (w, i') :: more' => RC :: rws w ++ litems_of i' more' end.
Definition live_of (f : afield) : lroot := rws (af_lead f) ++ litems_of (af_first f) (af_rest f).

(* ------------------------------------------------------------------ and every live layout reads as a liberal layout *)
(* white space that an edit left in several tokens, or in another node than the parser would put
   it, is one slot again: the slot is the lexer's cut of the joined text *)
Definition nrel (r : lrel) (extra : str) : arel :=
  mk_arel (l_name r)
          (option_map (fun wq => mk_aqual (relex (fst wq)) (aq_ws1 (snd wq)) (aq_name (snd wq))) (l_qual r))
          (option_map (fun wv => let v := snd wv in
                         mk_aver (relex (fst wv)) (av_ws1 v) (av_op v) (av_ws2 v) (av_ver v) (av_ws3 v))
                      (l_ver r))
          (option_map (fun wg => mk_agroup (relex (fst wg)) (ag_atoms (snd wg)) (ag_ws1 (snd wg))) (l_archs r))
          (map (fun wg => mk_pgroup (relex (fst wg)) (pg_terms (snd wg)) (pg_ws1 (snd wg))) (l_profs r))
          (ws_toks (wstext (l_trail r) ++ extra)).
Fixpoint nalts (prev : lrel) (alts : list (wsl * wsl * lrel)) (extra : str) : arel * list (list rtoken * arel) :=
  match alts with
  | [] => (nrel prev extra, [])
  | (w1, w2, r) :: rest =>
      let '(r', more) := nalts r rest extra in
      (nrel prev (wstext w1), (relex w2, r') :: more)
  end.
Definition nentry (e : lentry) (extra : str) : aitem :=
  let '(r, alts) := nalts (e_first e) (e_alts e) (wstext (e_trail e) ++ extra) in AEntry r alts.
Fixpoint take_ws (l : lroot) : str * lroot :=
  match l with
  | RW w :: r => let '(s, r') := take_ws r in (wtext w ++ s, r')
  | _ => ([], l)
  end.
Definition nitem (seg : lroot) : aitem :=
  match seg with
  | RE e :: r => nentry e (fst (take_ws r))
  | RS body :: r => ASubst body (ws_toks (fst (take_ws r)))
  | _ => AEmpty
  end.
Fixpoint segments (l : lroot) : list lroot :=
  match l with
  | [] => [[]]
  | RC :: r => [] :: segments r
  | x :: r => match segments r with s :: ss => (x :: s) :: ss | [] => [[x]] end
  end.
Definition nseg (seg : lroot) : list rtoken * aitem := let '(w, rest) := take_ws seg in (ws_toks w, nitem rest).
Definition norm (l : lroot) : afield :=
  match map nseg (segments l) with
  | [] => mk_afield [] AEmpty []
  | (w, i) :: rest => mk_afield w i rest
  end.
