(* Dependency satisfaction: both evaluators compute the Policy decision table, agree with each
   other, and see the installed versions only through the function a lookup form induces. *)
From V.model Require Import Base RelLex RelParse DebVersion Sat.
From V.model Require RelEdit RelEditTree.
From V.proofs Require Import BaseP DebVersionP.


(* ------------------------------------------------------------------ strings *)
Lemma str_eqb_eq (a b : str) : str_eqb a b = true <-> a = b.
Proof.
  unfold str_eqb. revert b. induction a as [|x a IH]; intros [|y b]; cbn [list_eqb]; split; intros H;
    try reflexivity; try discriminate.
  - apply andb_true_iff in H. destruct H as [H1 H2]. apply N.eqb_eq in H1. apply IH in H2. congruence.
  - injection H as -> ->. rewrite N.eqb_refl. cbn. apply IH. reflexivity.
Qed.

Lemma str_eqb_refl (a : str) : str_eqb a a = true.
Proof. apply str_eqb_eq. reflexivity. Qed.

Lemma str_eqb_neq (a b : str) : str_eqb a b = false <-> a <> b.
Proof.
  split.
  - intros H E. apply str_eqb_eq in E. congruence.
  - intros H. destruct (str_eqb a b) eqn:E; [|reflexivity]. apply str_eqb_eq in E. congruence.
Qed.

(* ------------------------------------------------------------------ all / any / mapM *)
Lemma iter_any_ext {A} (p q : A -> res bool) l : (forall x, In x l -> p x = q x) -> iter_any p l = iter_any q l.
Proof.
  induction l as [|x r IH]; intros H; [reflexivity|]. cbn [iter_any].
  rewrite (H x (or_introl eq_refl)). destruct (q x) as [[|]| | |]; try reflexivity.
  apply IH. intros y Hy. apply H. right. exact Hy.
Qed.

Lemma iter_all_ext {A} (p q : A -> res bool) l : (forall x, In x l -> p x = q x) -> iter_all p l = iter_all q l.
Proof.
  induction l as [|x r IH]; intros H; [reflexivity|]. cbn [iter_all].
  rewrite (H x (or_introl eq_refl)). destruct (q x) as [[|]| | |]; try reflexivity.
  apply IH. intros y Hy. apply H. right. exact Hy.
Qed.

Lemma iter_any_ok {A} (p : A -> res bool) (q : A -> bool) l :
  (forall x, In x l -> p x = Ok (q x)) -> iter_any p l = Ok (existsb q l).
Proof.
  induction l as [|x r IH]; intros H; [reflexivity|]. cbn [iter_any existsb].
  rewrite (H x (or_introl eq_refl)). destruct (q x); [reflexivity|].
  apply IH. intros y Hy. apply H. right. exact Hy.
Qed.

Lemma iter_all_ok {A} (p : A -> res bool) (q : A -> bool) l :
  (forall x, In x l -> p x = Ok (q x)) -> iter_all p l = Ok (forallb q l).
Proof.
  induction l as [|x r IH]; intros H; [reflexivity|]. cbn [iter_all forallb].
  rewrite (H x (or_introl eq_refl)). destruct (q x); [|reflexivity].
  apply IH. intros y Hy. apply H. right. exact Hy.
Qed.

Lemma mapM_ok_inv {A B} (f : A -> res B) l l' :
  mapM f l = Ok l' -> Forall2 (fun x y => f x = Ok y) l l'.
Proof.
  revert l'. induction l as [|x r IH]; intros l' H; cbn [mapM] in H.
  - injection H as <-. constructor.
  - destruct (f x) as [y| | |] eqn:E; cbn [bind] in H; try discriminate.
    destruct (mapM f r) as [ys| | |]; cbn [bind] in H; try discriminate.
    injection H as <-. constructor; [exact E|apply IH; reflexivity].
Qed.

Lemma mapM_total {A B} (f : A -> res B) l :
  (forall x, In x l -> exists y, f x = Ok y) -> exists l', mapM f l = Ok l'.
Proof.
  induction l as [|x r IH]; intros H; [exists []; reflexivity|].
  destruct (H x (or_introl eq_refl)) as [y Ey].
  destruct IH as [ys Eys]; [intros z Hz; apply H; right; exact Hz|].
  exists (y :: ys). cbn [mapM]. rewrite Ey. cbn [bind]. rewrite Eys. reflexivity.
Qed.

Lemma mapM_ok_map {A B} (f : A -> res B) (g : A -> B) l :
  (forall x, In x l -> f x = Ok (g x)) -> mapM f l = Ok (map g l).
Proof.
  induction l as [|x r IH]; intros H; [reflexivity|]. cbn [mapM map].
  rewrite (H x (or_introl eq_refl)). cbn [bind]. rewrite IH; [reflexivity|].
  intros y Hy. apply H. right. exact Hy.
Qed.

Lemma iter_any_F2 {A B} (R : A -> B -> Prop) (p : A -> res bool) (q : B -> res bool) l l' :
  Forall2 R l l' -> (forall x y, R x y -> p x = q y) -> iter_any p l = iter_any q l'.
Proof.
  intros HF H. induction HF as [|x y l l' Hxy HF IH]; [reflexivity|]. cbn [iter_any].
  rewrite (H x y Hxy). destruct (q y) as [[|]| | |]; try reflexivity. exact IH.
Qed.

Lemma iter_all_F2 {A B} (R : A -> B -> Prop) (p : A -> res bool) (q : B -> res bool) l l' :
  Forall2 R l l' -> (forall x y, R x y -> p x = q y) -> iter_all p l = iter_all q l'.
Proof.
  intros HF H. induction HF as [|x y l l' Hxy HF IH]; [reflexivity|]. cbn [iter_all].
  rewrite (H x y Hxy). destruct (q y) as [[|]| | |]; try reflexivity. exact IH.
Qed.

(* ------------------------------------------------------------------ operators *)
Lemma parse_show_vop o : parse_vop (show_vop o) = Some o.
Proof. destruct o; reflexivity. Qed.

(* the operator table in words *)
Definition op_rel (o : vop) (c : comparison) : Prop :=
  match o with
  | OpLt => c = Lt
  | OpLe => c = Lt \/ c = Eq
  | OpEq => c = Eq
  | OpGe => c = Gt \/ c = Eq
  | OpGt => c = Gt
  end.
Lemma op_holds_rel o c : op_holds o c = true <-> op_rel o c.
Proof. destruct o, c; cbn; intuition congruence. Qed.

Lemma op_ge_not_lt c : op_holds OpGe c = negb (op_holds OpLt c).
Proof. destruct c; reflexivity. Qed.
Lemma op_le_not_gt c : op_holds OpLe c = negb (op_holds OpGt c).
Proof. destruct c; reflexivity. Qed.
Lemma op_eq_le_ge c : op_holds OpEq c = op_holds OpLe c && op_holds OpGe c.
Proof. destruct c; reflexivity. Qed.



(* ------------------------------------------------------------------ lists: find under splices *)
Lemma find_app {A} (p : A -> bool) (a b : list A) :
  find p (a ++ b) = match find p a with Some x => Some x | None => find p b end.
Proof. induction a as [|x a IH]; [reflexivity|]. cbn [app find]. destruct (p x); [reflexivity|exact IH]. Qed.

Lemma find_none_all {A} (p : A -> bool) (l : list A) : (forall x, In x l -> p x = false) -> find p l = None.
Proof.
  induction l as [|x l IH]; intros H; [reflexivity|]. cbn [find]. rewrite (H x (or_introl eq_refl)).
  apply IH. intros y Hy. apply H. right. exact Hy.
Qed.

Lemma find_insert_at_other {A} (q : A -> bool) (ins l : list A) i :
  (forall x, In x ins -> q x = false) -> find q (RelEdit.insert_at i ins l) = find q l.
Proof.
  intros H. unfold RelEdit.insert_at. rewrite <- (firstn_skipn i l) at 3. rewrite !find_app, (find_none_all q ins H).
  reflexivity.
Qed.

Lemma find_insert_at_new {A} (p : A -> bool) (w new : A) (l : list A) i :
  (forall x, In x l -> p x = false) -> p w = false -> p new = true ->
  find p (RelEdit.insert_at i [w; new] l) = Some new.
Proof.
  intros Hl Hw Hn. unfold RelEdit.insert_at. rewrite find_app, (find_none_all p (firstn i l)).
  - cbn [app find]. rewrite Hw, Hn. reflexivity.
  - intros x Hx. apply Hl. rewrite <- (firstn_skipn i l). apply in_or_app. left. exact Hx.
Qed.

Lemma find_index_none {A} (p : A -> bool) (l : list A) :
  RelEdit.find_index p l = None -> forall x, In x l -> p x = false.
Proof.
  induction l as [|y l IH]; intros H x Hx; [destruct Hx|]. cbn [RelEdit.find_index] in H.
  destruct (p y) eqn:E; [discriminate|]. destruct (RelEdit.find_index p l); [discriminate|].
  destruct Hx as [<-|Hx]; [exact E|apply IH; [reflexivity|exact Hx]].
Qed.

Lemma find_replace_at {A} (p : A -> bool) (new : A) (l : list A) : forall i,
  RelEdit.find_index p l = Some i -> p new = true -> find p (RelEditTree.replace_at i new l) = Some new.
Proof.
  induction l as [|y l IH]; intros i H Hn; cbn [RelEdit.find_index] in H; [discriminate|].
  destruct (p y) eqn:E.
  - injection H as <-. unfold RelEditTree.replace_at. cbn [firstn skipn app find]. rewrite Hn. reflexivity.
  - destruct (RelEdit.find_index p l) as [j|]; [|discriminate]. injection H as <-.
    unfold RelEditTree.replace_at in *. cbn [firstn skipn app find]. rewrite E. apply IH; [reflexivity|exact Hn].
Qed.

Lemma find_replace_at_other {A} (p q : A -> bool) (new : A) (l : list A) : forall i,
  RelEdit.find_index p l = Some i -> (forall x, p x = true -> q x = false) -> q new = false ->
  find q (RelEditTree.replace_at i new l) = find q l.
Proof.
  induction l as [|y l IH]; intros i H Hpq Hn; cbn [RelEdit.find_index] in H; [discriminate|].
  destruct (p y) eqn:E.
  - injection H as <-. unfold RelEditTree.replace_at. cbn [firstn skipn app find]. rewrite Hn, (Hpq y E). reflexivity.
  - destruct (RelEdit.find_index p l) as [j|]; [|discriminate]. injection H as <-.
    unfold RelEditTree.replace_at in *. cbn [firstn skipn app find]. destruct (q y); [reflexivity|].
    apply IH; [reflexivity|exact Hpq|exact Hn].
Qed.

Lemma find_ext {A} (p q : A -> bool) (l : list A) : (forall x, p x = q x) -> find p l = find q l.
Proof. intros H. induction l as [|x l IH]; [reflexivity|]. cbn [find]. rewrite H, IH. reflexivity. Qed.

Lemma node_is_eq k (e : rtree) : RelEdit.node_is k e = is_node_of k e.
Proof. destruct e; reflexivity. Qed.

Section SatP.
  Variable V : Type.
  Variable vcmp : V -> V -> res comparison.
  Variable vparse : str -> option V.
  Variable vshow : V -> str.
  (* the version parser rejects the empty text (Relation::version returns None for an empty version text) *)
  Hypothesis vparse_nonempty : vparse [] = None.
  Lemma version_string_tok v pre cn post : vparse (vshow v) = Some v ->
    version_string (Node VERSION [Tok L_PARENS pre; Node CONSTRAINT cn; Tok WHITESPACE post; Tok IDENT (vshow v); Tok R_PARENS [41%N]]) = Some (vshow v).
  Proof.
    intros H. unfold version_string. cbn [children filter is_tok_of rkind_eqb rkind_code N.eqb Pos.eqb orb map concat text].
    rewrite app_nil_r. destruct (vshow v) eqn:E; [rewrite vparse_nonempty in H; discriminate|reflexivity].
  Qed.

  Notation rel := (rel V).
  Notation field := (list (list rel)).
  Notation lookup := (lookup V).
  Notation lossy_rel_sat := (lossy_relation_satisfied_by V vcmp).
  Notation lossy_sat := (lossy_relations_satisfied_by V vcmp).
  Notation ll_rel_sat := (ll_relation_satisfied_by V vcmp vparse).
  Notation ll_entry_sat := (ll_entry_satisfied_by V vcmp vparse).
  Notation ll_sat := (ll_relations_satisfied_by V vcmp vparse).
  Notation tree_rel := (tree_rel V vparse).
  Notation tree_entry := (tree_entry V vparse).
  Notation tree_field := (tree_field V vparse).

  (* ---------------- lossless = lossy on the typed view, whatever the comparison does ------- *)
  Lemma ll_rel_agree r x g : tree_rel r = Ok x -> ll_rel_sat r g = lossy_rel_sat x (LFn g).
  Proof.
    unfold Sat.tree_rel, ll_relation_satisfied_by, lossy_relation_satisfied_by. intros H.
    destruct (ll_name r) as [n| | |]; cbn [bind] in *; try discriminate.
    destruct (ll_version V vparse r) as [v| | |]; cbn [bind] in *; try discriminate.
    injection H as <-. cbn [r_name r_ver]. reflexivity.
  Qed.

  Lemma ll_entry_agree e xs g :
    tree_entry e = Ok xs -> ll_entry_sat e g = iter_any (fun r => lossy_rel_sat r (LFn g)) xs.
  Proof.
    unfold Sat.tree_entry, ll_entry_satisfied_by. intros H. apply mapM_ok_inv in H.
    eapply iter_any_F2; [exact H|]. intros r x Hrx. apply ll_rel_agree. exact Hrx.
  Qed.

  Theorem ll_agree_lossy t f g : tree_field t = Ok f -> ll_sat t g = lossy_sat f g.
  Proof.
    unfold Sat.tree_field, ll_relations_satisfied_by, lossy_relations_satisfied_by. intros H.
    apply mapM_ok_inv in H. eapply iter_all_F2; [exact H|]. intros e xs Hexs.
    apply ll_entry_agree. exact Hexs.
  Qed.


  (* ---------------- lookups ---------------- *)
  Lemma hm_get_remove_other (m : list (str * V)) k n : n <> k -> hm_get (hm_remove V m k) n = hm_get m n.
  Proof.
    intros Hn. induction m as [|[k' v] r IH]; [reflexivity|]. cbn [hm_remove hm_get].
    destruct (str_eqb k k') eqn:E.
    - apply str_eqb_eq in E. subst k'. rewrite IH.
      destruct (str_eqb n k) eqn:E2; [apply str_eqb_eq in E2; congruence|reflexivity].
    - cbn [hm_get]. rewrite IH. reflexivity.
  Qed.

  Lemma hm_get_insert (m : list (str * V)) k v n :
    hm_get (hm_insert V m k v) n = if str_eqb n k then Some v else hm_get m n.
  Proof.
    unfold hm_insert. cbn [hm_get]. destruct (str_eqb n k) eqn:E; [reflexivity|].
    apply hm_get_remove_other. apply str_eqb_neq. exact E.
  Qed.

  Lemma hm_get_fold (l : list (str * V)) : forall m n,
    hm_get (fold_left (fun m kv => hm_insert V m (fst kv) (snd kv)) l m) n =
    match find_last l n with Some v => Some v | None => hm_get m n end.
  Proof.
    induction l as [|[k v] r IH]; intros m n; [reflexivity|].
    cbn [fold_left find_last fst snd]. rewrite IH.
    destruct (find_last r n); [reflexivity|]. rewrite hm_get_insert.
    destruct (str_eqb n k); reflexivity.
  Qed.

  (* a map filled by inserting the bindings in order answers like "the last binding wins" *)
  Theorem lookup_map_of_list (l : list (str * V)) n :
    lookup_version (LMap (hm_of_list l)) n = find_last l n.
  Proof.
    cbn [lookup_version]. unfold hm_of_list. rewrite hm_get_fold.
    destruct (find_last l n); reflexivity.
  Qed.

  (* the function a lookup form induces *)
  Definition induced (pv : lookup) : str -> option V := lookup_version pv.

  Lemma induced_map m : induced (LMap m) = hm_get m.
  Proof. reflexivity. Qed.
  Lemma induced_fn g : induced (LFn g) = g.
  Proof. reflexivity. Qed.
  Lemma induced_pair n v : induced (LPair n v) = fun n' => if str_eqb n' n then Some v else None.
  Proof. reflexivity. Qed.


  (* every form can be replaced by the closure form of its induced function *)
  Lemma lossy_rel_sat_ext r p q :
    lookup_version p (r_name r) = lookup_version q (r_name r) -> lossy_rel_sat r p = lossy_rel_sat r q.
  Proof. unfold lossy_relation_satisfied_by. intros ->. reflexivity. Qed.

  Lemma lossy_rel_sat_induced r pv : lossy_rel_sat r pv = lossy_rel_sat r (LFn (lookup_version pv)).
  Proof. apply lossy_rel_sat_ext. reflexivity. Qed.

  (* the hand-written nesting over a map or a pair = the crate's evaluator on the induced closure *)
  Theorem by_relation_induced f pv : by_relation V vcmp f pv = lossy_sat f (lookup_version pv).
  Proof.
    unfold by_relation, lossy_relations_satisfied_by. apply iter_all_ext. intros e _.
    apply iter_any_ext. intros r _. apply lossy_rel_sat_induced.
  Qed.

  Theorem lossy_sat_ext f (g h : str -> option V) :
    (forall n, g n = h n) -> lossy_sat f g = lossy_sat f h.
  Proof.
    intros H. unfold lossy_relations_satisfied_by. apply iter_all_ext. intros e _.
    apply iter_any_ext. intros r _. apply lossy_rel_sat_ext. cbn [lookup_version]. apply H.
  Qed.

  Theorem ll_sat_ext t (g h : str -> option V) :
    (forall n, g n = h n) -> ll_sat t g = ll_sat t h.
  Proof.
    intros H. unfold ll_relations_satisfied_by. apply iter_all_ext. intros e _.
    unfold ll_entry_satisfied_by. apply iter_any_ext. intros r _.
    unfold ll_relation_satisfied_by. destruct (ll_name r); cbn [bind lookup_version]; try reflexivity. rewrite H. reflexivity.
  Qed.

  (* ---------------- the constructors produce trees whose typed view is the input ----------- *)
  Definition rel_roundtrips (r : rel) : Prop :=
    match r_ver r with Some (_, v) => vparse (vshow v) = Some v | None => True end.

  Lemma vc_toks_text o : texts (RelEdit.vc_toks (vcn_of o)) = show_vop o.
  Proof. destruct o; reflexivity. Qed.

  Lemma version_node_read o v : vparse (vshow v) = Some v ->
    find (is_node_of CONSTRAINT) (children (RelEdit.version_node (vcn_of o) (vshow v))) = Some (Node CONSTRAINT (RelEdit.vc_toks (vcn_of o))) /\
    version_string (RelEdit.version_node (vcn_of o) (vshow v)) = Some (vshow v).
  Proof.
    intros H. split; [reflexivity|]. unfold RelEdit.version_node, RelEdit.t_space. apply version_string_tok. exact H.
  Qed.

  (* a relation node whose first VERSION child is the node set_version / Relation::new build *)
  Lemma tree_rel_with_version k cs n o v :
    find (is_tok_of IDENT) cs = Some (Tok IDENT n) ->
    find (is_node_of VERSION) cs = Some (RelEdit.version_node (vcn_of o) (vshow v)) ->
    vparse (vshow v) = Some v ->
    tree_rel (Node k cs) = Ok (mk_rel n (Some (o, v))).
  Proof.
    intros H1 H2 Hv. destruct (version_node_read o v Hv) as [Hc Hs].
    unfold Sat.tree_rel, ll_name, first_ident, ll_version. cbn [children]. rewrite H1, H2, Hc, Hs. cbn [bind].
    rewrite text_node, vc_toks_text, parse_show_vop, Hv. reflexivity.
  Qed.

  Lemma relation_new_view r : rel_roundtrips r ->
    tree_rel (relation_new V vshow (r_name r) (r_ver r)) = Ok r /\
    is_node_of RELATION (relation_new V vshow (r_name r) (r_ver r)) = true.
  Proof.
    destruct r as [n [[o v]|]]; unfold rel_roundtrips; cbn [r_name r_ver]; intros H; (split; [|reflexivity]).
    - unfold relation_new, verspec_of, RelEdit.relation_new. apply tree_rel_with_version; [reflexivity|reflexivity|exact H].
    - reflexivity.
  Qed.

  Lemma rnodes_pred k (x : rtree) : is_node x && rkind_eqb (ekind x) k = is_node_of k x.
  Proof. destruct x; reflexivity. Qed.

  Lemma filter_join_relations (p : rtree -> bool) rs : forall i,
    forallb p rs = true -> (forall k s, p (Tok k s) = false) ->
    filter p (RelEdit.join_relations RelEdit.fixed i rs) = rs.
  Proof.
    induction rs as [|r rs IH]; intros i Hl Ht; [reflexivity|].
    cbn [forallb] in Hl. apply andb_true_iff in Hl. destruct Hl as [Hr Hrs].
    cbn [RelEdit.join_relations]. rewrite filter_app. cbn [filter]. rewrite Hr, (IH (S i) Hrs Ht).
    destruct i; cbn [filter app]; [reflexivity|]. unfold RelEdit.t_space. rewrite !Ht. reflexivity.
  Qed.

  Lemma filter_join_entries (p : rtree -> bool) es : forall i,
    forallb p es = true -> (forall k s, p (Tok k s) = false) ->
    filter p (RelEdit.join_entries i es) = es.
  Proof.
    induction es as [|e es IH]; intros i Hl Ht; [reflexivity|].
    cbn [forallb] in Hl. apply andb_true_iff in Hl. destruct Hl as [He Hes].
    cbn [RelEdit.join_entries]. rewrite filter_app. cbn [filter]. rewrite He, (IH (S i) Hes Ht).
    destruct i; cbn [filter app]; [reflexivity|]. unfold RelEdit.t_comma, RelEdit.t_space. rewrite !Ht. reflexivity.
  Qed.

  Lemma r_relations_entry_from rs :
    forallb (is_node_of RELATION) rs = true -> r_relations (entry_from rs) = rs.
  Proof.
    intros H. unfold r_relations, rnodes_of_kind, entry_from, RelEdit.entry_from_relations. cbn [children].
    rewrite (filter_ext _ (is_node_of RELATION)) by (intros x; apply rnodes_pred).
    apply filter_join_relations; [exact H|reflexivity].
  Qed.

  Lemma r_entries_relations_from es :
    forallb (is_node_of ENTRY) es = true -> r_entries (relations_from es) = es.
  Proof.
    intros H. unfold r_entries, rnodes_of_kind, relations_from, RelEdit.relations_from_entries. cbn [children].
    rewrite (filter_ext _ (is_node_of ENTRY)) by (intros x; apply rnodes_pred).
    apply filter_join_entries; [exact H|reflexivity].
  Qed.

  (* assembling: alternatives with the right views give an entry / a field with the right view *)
  Lemma entry_from_view rs (e : list rel) :
    mapM tree_rel rs = Ok e -> forallb (is_node_of RELATION) rs = true -> tree_entry (entry_from rs) = Ok e.
  Proof. intros H1 H2. unfold Sat.tree_entry. rewrite (r_relations_entry_from rs H2). exact H1. Qed.

  Lemma relations_from_view es (f : field) :
    mapM tree_entry es = Ok f -> forallb (is_node_of ENTRY) es = true -> tree_field (relations_from es) = Ok f.
  Proof. intros H1 H2. unfold Sat.tree_field. rewrite (r_entries_relations_from es H2). exact H1. Qed.

  Lemma build_entry_view (e : list rel) : Forall rel_roundtrips e -> tree_entry (build_entry V vshow e) = Ok e.
  Proof.
    intros H. unfold build_entry. apply entry_from_view.
    - induction H as [|r e Hr He IH]; [reflexivity|]. cbn [map mapM].
      rewrite (proj1 (relation_new_view r Hr)). cbn [bind]. rewrite IH. reflexivity.
    - induction H as [|r e Hr He IH]; [reflexivity|]. cbn [map forallb].
      rewrite (proj2 (relation_new_view r Hr)), IH. reflexivity.
  Qed.

  Theorem build_field_view (f : field) : Forall (Forall rel_roundtrips) f ->
    tree_field (build_field V vshow f) = Ok f.
  Proof.
    intros H. unfold build_field. apply relations_from_view.
    - induction H as [|e f He Hf IH]; [reflexivity|]. cbn [map mapM].
      rewrite (build_entry_view e He). cbn [bind]. rewrite IH. reflexivity.
    - induction H as [|e f He Hf IH]; [reflexivity|]. cbn [map forallb]. rewrite IH. reflexivity.
  Qed.

  (* ---------------- set_version writes what version() reads back ------------- *)
  (* whatever the relation looked like: after set_version(Some((vc, v))) its name is unchanged
     and version() returns (vc, v) *)
  Theorem set_version_view (r : rtree) n vc v :
    is_node r = true -> first_ident r = Some n -> vparse (vshow v) = Some v ->
    tree_rel (set_version_some V vshow r vc v) = Ok (mk_rel n (Some (vc, v))) /\
    is_node_of (ekind r) (set_version_some V vshow r vc v) = true.
  Proof.
    destruct r as [k s|k cs]; [discriminate|]. intros _ Hn Hv.
    split; [|cbn; unfold rkind_eqb; apply N.eqb_refl].
    set (new := RelEdit.version_node (vcn_of vc) (vshow v)).
    unfold first_ident in Hn. cbn [children] in Hn.
    destruct (find (is_tok_of IDENT) cs) as [tk|] eqn:Ek; [|discriminate]. injection Hn as Hn.
    assert (Htk : tk = Tok IDENT n).
    { apply find_some in Ek. destruct Ek as [_ Ek]. destruct tk as [k' s'|]; [|discriminate].
      cbn in Ek, Hn. subst s'. f_equal. destruct k'; try discriminate. reflexivity. }
    subst tk.
    cbn [set_version_some RelEditTree.set_version_cs]. fold new.
    destruct (RelEdit.find_index (RelEdit.node_is VERSION) cs) as [i|] eqn:Ei.
    - apply tree_rel_with_version; [| |exact Hv].
      + rewrite (find_replace_at_other (RelEdit.node_is VERSION) (is_tok_of IDENT) new cs i Ei); [exact Ek| |reflexivity].
        intros x Hx. destruct x; [discriminate|reflexivity].
      + rewrite (find_ext _ (RelEdit.node_is VERSION)) by (intros x; symmetry; apply node_is_eq).
        apply find_replace_at; [exact Ei|reflexivity].
    - apply tree_rel_with_version; [| |exact Hv].
      + rewrite find_insert_at_other; [exact Ek|]. intros x [<-|[<-|[]]]; reflexivity.
      + apply find_insert_at_new; [|reflexivity|reflexivity].
        intros x Hx. rewrite <- node_is_eq. apply (find_index_none _ cs Ei x Hx).
  Qed.

  (* set_archqual leaves the name alone *)
  Lemma set_archqual_named (r : rtree) n q :
    is_node r = true -> first_ident r = Some n ->
    is_node (set_archqual r q) = true /\ first_ident (set_archqual r q) = Some n /\ ekind (set_archqual r q) = ekind r.
  Proof.
    destruct r as [k s|k cs]; [discriminate|]. intros _ Hn. split; [reflexivity|]. split; [|reflexivity].
    unfold first_ident in *. cbn [set_archqual children] in *. unfold RelEditTree.set_archqual_cs.
    destruct (RelEdit.find_index (RelEdit.node_is ARCHQUAL) cs) as [i|] eqn:Ei.
    - rewrite (find_replace_at_other (RelEdit.node_is ARCHQUAL) (is_tok_of IDENT) _ cs i Ei); [exact Hn| |reflexivity].
      intros x Hx. destruct x; [discriminate|reflexivity].
    - rewrite find_insert_at_other; [exact Hn|]. intros x [<-|[]]. reflexivity.
  Qed.

  (* the relations the harness starts from *)
  Definition start_ok (name : str) (t : rtree) : Prop :=
    is_node t = true /\ ekind t = RELATION /\ first_ident t = Some name.
  (* position 3 parses "name:any [amd64] <!nocheck>": that the reader returns a RELATION node named
     [name] is a fact about the reader (proofs/SatTextP.v derives it from C10 for every package name) *)
  Definition parsed_start_ok (name : str) : Prop :=
    exists t, relation_from_str (decorated name) = Ok t /\ start_ok name t.

  Lemma sv_start_ok mode name v : parsed_start_ok name ->
    exists t, sv_start V vshow mode name v = Ok t /\ start_ok name t.
  Proof.
    intros (tp & Ep & Hp). destruct mode as [|[|[|m]]]; cbn [sv_start].
    - eexists. split; [reflexivity|]. repeat split.
    - eexists. split; [reflexivity|]. repeat split.
    - eexists. split; [reflexivity|].
      destruct (set_archqual_named (relation_new V vshow name None) name any_str eq_refl eq_refl) as (H1 & H2 & H3).
      repeat split; assumption.
    - exists tp. split; assumption.
  Qed.

  Lemma sv_relation_view mode (r : rel) : rel_roundtrips r -> parsed_start_ok (r_name r) ->
    exists t, sv_relation V vshow mode r = Ok t /\ tree_rel t = Ok r /\ is_node_of RELATION t = true.
  Proof.
    destruct r as [n [[vc v]|]]; unfold rel_roundtrips, sv_relation; cbn [r_name r_ver]; intros H Hp.
    - destruct (sv_start_ok mode n v Hp) as (t & Et & Hnode & Hkind & Hname).
      rewrite Et. cbn [rmap bind]. eexists. split; [reflexivity|].
      destruct (set_version_view t n vc v Hnode Hname H) as [H1 H2]. rewrite Hkind in H2. split; assumption.
    - eexists. split; [reflexivity|]. split; reflexivity.
  Qed.

  Theorem sv_field_view (f : field) :
    Forall (Forall rel_roundtrips) f -> Forall (Forall (fun r => parsed_start_ok (r_name r))) f ->
    exists t, sv_field V vshow f = Ok t /\ tree_field t = Ok f.
  Proof.
    intros H Hp. unfold sv_field.
    assert (Hent : forall e, Forall rel_roundtrips e -> Forall (fun r => parsed_start_ok (r_name r)) e -> forall m,
              exists rs, sv_relations V vshow m e = Ok rs /\
                         mapM tree_rel rs = Ok e /\ forallb (is_node_of RELATION) rs = true).
    { intros e He. induction He as [|r e Hr He IH]; intros Hpe m; [exists []; repeat split; reflexivity|].
      inversion Hpe as [|? ? Hpr Hpe']; subst.
      destruct (sv_relation_view m r Hr Hpr) as (t & Et & Vt & Kt).
      destruct (IH Hpe' (match m with 3 => 0 | m0 => S m0 end)) as (rs & E1 & E2 & E3).
      exists (t :: rs). cbn [sv_relations mapM forallb]. rewrite Et, Vt, Kt. cbn [bind]. rewrite E1, E2, E3.
      repeat split; reflexivity. }
    assert (Hes : exists es, mapM (fun e => rmap entry_from (sv_relations V vshow 0 e)) f = Ok es /\
                             mapM tree_entry es = Ok f /\ forallb (is_node_of ENTRY) es = true).
    { revert Hp. induction H as [|e f He Hf IH]; intros Hp; [exists []; repeat split; reflexivity|].
      inversion Hp as [|? ? Hpe Hpf]; subst.
      destruct (Hent e He Hpe 0) as (rs & R1 & R2 & R3). destruct (IH Hpf) as (es & E1 & E2 & E3).
      exists (entry_from rs :: es). cbn [mapM forallb]. rewrite R1. cbn [rmap bind]. rewrite E1. cbn [bind].
      rewrite (entry_from_view rs e R2 R3). cbn [bind]. rewrite E2, E3.
      repeat split; reflexivity. }
    destruct Hes as (es & E1 & E2 & E3). rewrite E1. cbn [rmap bind].
    eexists. split; [reflexivity|]. apply relations_from_view; assumption.
  Qed.


  (* ---------------- trees outside the finding classes have a typed view ---------------- *)
  (* what Relation::version looks at *)
  Definition version_parts (r : rtree) : option (rtree * str) :=
    match find (is_node_of VERSION) (children r) with
    | None => None
    | Some vn => match find (is_node_of CONSTRAINT) (children vn), version_string vn with
                 | Some cn, Some vt => Some (cn, vt)
                 | _, _ => None
                 end
    end.
  Definition alternatives (t : rtree) : list rtree := flat_map r_relations (r_entries t).
  (* the finding class: an operator that is none of the five *)
  Definition Known_nonstandard_operator (t : rtree) : Prop :=
    exists r cn vt, In r (alternatives t) /\ version_parts r = Some (cn, vt) /\ parse_vop (text cn) = None.
  Definition names_present (t : rtree) : Prop := forall r, In r (alternatives t) -> first_ident r <> None.
  (* the second finding class: a version text the version type's reader rejects (for debversion:
     an epoch above u32::MAX) *)
  Definition Known_unreadable_version (t : rtree) : Prop :=
    exists r cn vt, In r (alternatives t) /\ version_parts r = Some (cn, vt) /\ vparse vt = None.

  Lemma ll_version_parts r :
    ll_version V vparse r =
    match version_parts r with
    | None => Ok None
    | Some (cn, vt) => match parse_vop (text cn) with
                       | None => Panic 11%N
                       | Some vc => match vparse vt with None => Panic 12%N | Some v => Ok (Some (vc, v)) end
                       end
    end.
  Proof.
    unfold ll_version, version_parts. destruct (find (is_node_of VERSION) (children r)) as [vn|]; [|reflexivity].
    destruct (find (is_node_of CONSTRAINT) (children vn)); [|reflexivity].
    destruct (version_string vn); reflexivity.
  Qed.

  Theorem tree_field_total t :
    names_present t -> ~ Known_nonstandard_operator t -> ~ Known_unreadable_version t ->
    exists f, tree_field t = Ok f.
  Proof.
    intros Hn Hk Hv. unfold Sat.tree_field. apply mapM_total. intros e He.
    unfold Sat.tree_entry. apply mapM_total. intros r Hr.
    assert (Hin : In r (alternatives t)) by (unfold alternatives; apply in_flat_map; exists e; split; assumption).
    unfold Sat.tree_rel, ll_name. specialize (Hn r Hin).
    destruct (first_ident r) as [n|]; [|congruence]. cbn [bind].
    rewrite ll_version_parts. destruct (version_parts r) as [[cn vt]|] eqn:E; [|eexists; reflexivity].
    destruct (parse_vop (text cn)) eqn:Ep.
    - destruct (vparse vt) eqn:Ev; [eexists; reflexivity|].
      exfalso. apply Hv. exists r, cn, vt. repeat split; assumption.
    - exfalso. apply Hk. exists r, cn, vt. repeat split; assumption.
  Qed.


  (* ---------------- the decision table, for a comparison that is total on a domain --------- *)
  Variable cmp : V -> V -> comparison.
  Variable Vok : V -> Prop.
  Hypothesis vcmp_cmp : forall a b, Vok a -> Vok b -> vcmp a b = Ok (cmp a b).

  Definition rel_dom (r : rel) : Prop := match r_ver r with Some (_, w) => Vok w | None => True end.
  Definition field_dom (f : field) : Prop := Forall (Forall rel_dom) f.
  Definition lookup_dom (pv : lookup) : Prop := forall n v, lookup_version pv n = Some v -> Vok v.

  Lemma op_test_spec o a w : Vok a -> Vok w -> op_test V vcmp o a w = Ok (op_holds o (cmp a w)).
  Proof.
    intros Ha Hw. destruct o; cbn [op_test]; unfold v_ge, v_le, v_eq, v_gt, v_lt, rmap;
      rewrite (vcmp_cmp a w Ha Hw); cbn [bind]; destruct (cmp a w); reflexivity.
  Qed.

  Lemma lossy_rel_spec r pv : rel_dom r -> lookup_dom pv ->
    lossy_rel_sat r pv = Ok (rel_ok cmp (lookup_version pv) r).
  Proof.
    intros Hr Hp. unfold lossy_relation_satisfied_by, rel_ok, rel_dom in *.
    destruct (r_ver r) as [[o w]|].
    - destruct (lookup_version pv (r_name r)) as [a|] eqn:E; [|reflexivity].
      apply op_test_spec; [eapply Hp; exact E|exact Hr].
    - destruct (lookup_version pv (r_name r)); reflexivity.
  Qed.

  Theorem by_relation_spec f pv : field_dom f -> lookup_dom pv ->
    by_relation V vcmp f pv = Ok (satisfied_spec cmp (lookup_version pv) f).
  Proof.
    intros Hf Hp. unfold by_relation, satisfied_spec.
    apply iter_all_ok. intros e He. apply iter_any_ok. intros r Hr.
    apply lossy_rel_spec; [|exact Hp].
    unfold field_dom in Hf. rewrite Forall_forall in Hf. specialize (Hf e He).
    rewrite Forall_forall in Hf. apply Hf. exact Hr.
  Qed.

  Definition closure_dom (g : str -> option V) : Prop := forall n v, g n = Some v -> Vok v.

  Theorem lossy_spec f g : field_dom f -> closure_dom g ->
    lossy_sat f g = Ok (satisfied_spec cmp g f).
  Proof.
    intros Hf Hg. transitivity (by_relation V vcmp f (LFn g)); [symmetry; exact (by_relation_induced f (LFn g))|].
    apply (by_relation_spec f (LFn g) Hf). exact Hg.
  Qed.

  Theorem ll_spec t f g : tree_field t = Ok f -> field_dom f -> closure_dom g ->
    ll_sat t g = Ok (satisfied_spec cmp g f).
  Proof. intros Ht Hf Hg. rewrite (ll_agree_lossy t f g Ht). apply lossy_spec; assumption. Qed.

  (* the table in words *)
  Definition alt_satisfied (installed : str -> option V) (r : rel) : Prop :=
    exists v, installed (r_name r) = Some v /\
              match r_ver r with None => True | Some (o, w) => op_rel o (cmp v w) end.

  Theorem satisfied_spec_iff installed (f : field) :
    satisfied_spec cmp installed f = true <-> Forall (Exists (alt_satisfied installed)) f.
  Proof.
    unfold satisfied_spec. rewrite forallb_forall, Forall_forall. split; intros H e He; specialize (H e He).
    - apply existsb_exists in H. destruct H as (r & Hr & Hok). apply Exists_exists. exists r. split; [exact Hr|].
      unfold rel_ok in Hok. unfold alt_satisfied. destruct (installed (r_name r)) as [v|]; [|discriminate].
      exists v. split; [reflexivity|]. destruct (r_ver r) as [[o w]|]; [apply op_holds_rel; exact Hok|exact I].
    - apply Exists_exists in H. destruct H as (r & Hr & v & Hv & Hok). apply existsb_exists. exists r.
      split; [exact Hr|]. unfold rel_ok. rewrite Hv. destruct (r_ver r) as [[o w]|]; [apply op_holds_rel; exact Hok|reflexivity].
  Qed.

  (* ---------------- what the ordering laws buy ---------------- *)
  Hypothesis cmp_laws : cmp_ok cmp.

  (* versions the ordering does not distinguish are interchangeable as installed versions *)
  Lemma rel_ok_equiv (I J : str -> option V) r :
    (forall n, match I n, J n with
               | Some v, Some v' => cmp v v' = Eq
               | None, None => True
               | _, _ => False
               end) ->
    rel_ok cmp I r = rel_ok cmp J r.
  Proof.
    intros H. unfold rel_ok. specialize (H (r_name r)).
    destruct (I (r_name r)) as [v|], (J (r_name r)) as [v'|]; try contradiction; try reflexivity.
    destruct (r_ver r) as [[o w]|]; [|reflexivity].
    destruct cmp_laws as (_ & He & _). rewrite (He v v' w H). reflexivity.
  Qed.

  Theorem spec_equiv_installed (I J : str -> option V) (f : field) :
    (forall n, match I n, J n with
               | Some v, Some v' => cmp v v' = Eq
               | None, None => True
               | _, _ => False
               end) ->
    satisfied_spec cmp I f = satisfied_spec cmp J f.
  Proof.
    intros H. unfold satisfied_spec. induction f as [|e f IHf]; [reflexivity|].
    cbn [forallb]. rewrite IHf. f_equal.
    induction e as [|r e IH]; [reflexivity|]. cbn [existsb]. rewrite (rel_ok_equiv I J r H), IH. reflexivity.
  Qed.

  (* a lower bound stays satisfied when the installed version grows, an upper bound when it shrinks *)
  Theorem lower_bound_monotone v v' w :
    cmp v v' <> Gt -> op_holds OpGe (cmp v w) = true -> op_holds OpGe (cmp v' w) = true.
  Proof.
    intros Hle H. destruct cmp_laws as (Ha & _).
    assert (Hwv : cle cmp w v) by (unfold cle; rewrite (Ha v w); destruct (cmp v w); cbn in *; congruence).
    pose proof (cle_trans cmp cmp_laws w v v' Hwv Hle) as Hwv'. unfold cle in Hwv'.
    rewrite (Ha w v'). destruct (cmp w v'); cbn; congruence.
  Qed.

  Theorem upper_bound_monotone v v' w :
    cmp v' v <> Gt -> op_holds OpLe (cmp v w) = true -> op_holds OpLe (cmp v' w) = true.
  Proof.
    intros Hle H.
    assert (Hvw : cle cmp v w) by (unfold cle; destruct (cmp v w); cbn in *; congruence).
    pose proof (cle_trans cmp cmp_laws v' v w Hle Hvw) as H'. unfold cle in H'.
    destruct (cmp v' w); cbn; congruence.
  Qed.
End SatP.

(* ------------------------------------------------------------------ debversion::Version *)
From Coq Require Import String Ascii.
(* test strings for Examples *)
Fixpoint s2l (s : string) : str :=
  match s with EmptyString => [] | String a r => N_of_ascii a :: s2l r end.

Definition deb_ok (v : version) : Prop := ver_safe v = true.
Definition deb_tree_field := tree_field version parse_version.

Theorem deb_sat_spec t f g :
  deb_tree_field t = Ok f -> field_dom version deb_ok f -> closure_dom version deb_ok g ->
  deb_ll_sat t g = Ok (deb_spec g f) /\
  deb_lossy_sat f g = Ok (deb_spec g f).
Proof.
  intros Ht Hf Hp. split.
  - apply (ll_spec version ver_cmp parse_version DebVersion.vcmp deb_ok ver_cmp_safe t f g Ht Hf Hp).
  - apply (lossy_spec version ver_cmp DebVersion.vcmp deb_ok ver_cmp_safe f g Hf Hp).
Qed.

(* the unguarded statement is false for debversion 0.4.4: a digit run above i32::MAX *)
Definition big_version : version := mk_version None (s2l "0~20240101123456") None.
Lemma deb_i32_witness :
  let f := [[mk_rel (s2l "a") (Some (OpGe, mk_version None (s2l "0~2024") None))]] in
  let g := fun n => if str_eqb n (s2l "a") then Some big_version else None in
  ver_safe big_version = false /\
  parse_version (s2l "0~20240101123456") = Some big_version /\
  deb_lossy_sat f g = Panic 2%N /\
  deb_by_relation f (LPair (s2l "a") big_version) = Panic 2%N /\
  deb_spec g f = true.
Proof. vm_compute. repeat split; reflexivity. Qed.

(* an operator that is none of the five: the strict reader accepts the field, the evaluator panics *)
Lemma deb_nonstandard_operator_witness :
  let s := s2l "a (> 1)" in
  exists t, relations_from_str s = Ok t /\
            Known_nonstandard_operator t /\
            names_present t /\ ~ Known_unreadable_version version parse_version t /\
            deb_ll_sat t (fun _ => parse_version (s2l "2")) = Panic 11%N.
Proof.
  cbv zeta.
  let x := eval vm_compute in (relations_from_str (s2l "a (> 1)")) in
  match x with Ok ?t => exists t; split; [vm_compute; reflexivity|] end.
  match goal with |- Known_nonstandard_operator ?t /\ _ =>
    let a := eval vm_compute in (alternatives t) in
    assert (Ha : alternatives t = a) by (vm_compute; reflexivity) end.
  unfold Known_nonstandard_operator, names_present, Known_unreadable_version. rewrite Ha.
  split; [|split; [|split]].
  - eexists _, _, _. split; [left; reflexivity|]. split; vm_compute; reflexivity.
  - intros r [<-|[]]. vm_compute. discriminate.
  - intros (r & cn & vt & [<-|[]] & E & Hn). vm_compute in E. injection E as <- <-. vm_compute in Hn. discriminate.
  - vm_compute. reflexivity.
Qed.

(* a version text debversion rejects (epoch above u32::MAX): the strict reader accepts the field
   (any run of IDENT and ":" tokens is a version to it), Relation::version() unwraps the error *)
Lemma deb_unreadable_version_witness :
  let s := s2l "a (>= 4294967296:1)" in
  exists t, relations_from_str s = Ok t /\
            Known_unreadable_version version parse_version t /\
            names_present t /\ ~ Known_nonstandard_operator t /\
            deb_ll_sat t (fun _ => parse_version (s2l "2")) = Panic 12%N /\
            parse_version (s2l "4294967296:1") = None /\ parse_version (s2l "4294967295:1") <> None.
Proof.
  cbv zeta.
  let x := eval vm_compute in (relations_from_str (s2l "a (>= 4294967296:1)")) in
  match x with Ok ?t => exists t; split; [vm_compute; reflexivity|] end.
  match goal with |- Known_unreadable_version _ _ ?t /\ _ =>
    let a := eval vm_compute in (alternatives t) in
    assert (Ha : alternatives t = a) by (vm_compute; reflexivity) end.
  unfold Known_nonstandard_operator, names_present, Known_unreadable_version. rewrite Ha.
  split; [|split; [|split; [|split; [|split]]]].
  - eexists _, _, _. split; [left; reflexivity|]. split; [vm_compute; reflexivity|]. vm_compute. reflexivity.
  - intros r [<-|[]]. vm_compute. discriminate.
  - intros (r & cn & vt & [<-|[]] & E & Hn). vm_compute in E. injection E as <- <-. vm_compute in Hn. discriminate.
  - vm_compute. reflexivity.
  - vm_compute. reflexivity.
  - vm_compute. discriminate.
Qed.

(* ---- Display then FromStr gives the version back, for every version FromStr can produce ---- *)
Lemma num_app l : forall a r, num_of_digits a (l ++ r) = num_of_digits (num_of_digits a l) r.
Proof. induction l as [|x l IH]; intros a r; [reflexivity|]. cbn [app num_of_digits]. apply IH. Qed.

Lemma dec_digits_acc fuel : forall n acc, dec_digits fuel n acc = dec_digits fuel n [] ++ acc.
Proof.
  induction fuel as [|f IH]; intros n acc; [reflexivity|]. cbn [dec_digits].
  destruct (n <? 10)%N; [reflexivity|].
  rewrite (IH (n / 10)%N ((48 + n mod 10)%N :: acc)), (IH (n / 10)%N [(48 + n mod 10)%N]).
  rewrite <- app_assoc. reflexivity.
Qed.

Lemma is_digit_48 d : (d < 10)%N -> is_digit (48 + d) = true.
Proof. intros H. unfold is_digit. apply andb_true_iff. split; apply N.leb_le; lia. Qed.

Lemma log2_div10 n : (10 <= n)%N -> (N.log2 (n / 10) < N.log2 n)%N.
Proof.
  intros H. destruct (N.eq_dec (n / 10) 0) as [E|E].
  - rewrite E. cbn. apply N.log2_pos. lia.
  - assert (H2 : (2 * (n / 10) <= n)%N).
    { assert (10 * (n / 10) <= n)%N by (apply N.mul_div_le; lia). lia. }
    apply N.log2_le_mono in H2. rewrite N.log2_double in H2 by (apply N.neq_0_lt_0; exact E). lia.
Qed.

Lemma dec_digits_spec fuel : forall n, (N.log2 n < N.of_nat fuel)%N ->
  let ds := dec_digits fuel n [] in
  num_of_digits 0 ds = n /\ forallb is_digit ds = true /\ ds <> [].
Proof.
  induction fuel as [|f IH]; intros n Hf; [lia|]. cbn zeta. cbn [dec_digits].
  destruct (n <? 10)%N eqn:E.
  - apply N.ltb_lt in E. rewrite N.mod_small by exact E. cbn [num_of_digits forallb].
    rewrite is_digit_48 by exact E. repeat split; [lia|discriminate].
  - apply N.ltb_ge in E. rewrite dec_digits_acc.
    destruct (IH (n / 10)%N) as (H1 & H2 & H3).
    { pose proof (log2_div10 n E). lia. }
    rewrite num_app, H1. cbn [num_of_digits]. rewrite forallb_app, H2. cbn [forallb].
    rewrite is_digit_48 by (apply N.mod_lt; lia).
    repeat split.
    + pose proof (N.div_mod n 10 ltac:(lia)) as Hdm. revert Hdm. generalize (n / 10)%N (n mod 10)%N. intros q m Hdm. lia.
    + intros Hnil. apply app_eq_nil in Hnil. destruct Hnil. discriminate.
Qed.

Lemma show_dec_spec n :
  num_of_digits 0 (show_dec n) = n /\ forallb is_digit (show_dec n) = true /\ show_dec n <> [].
Proof. unfold show_dec. apply dec_digits_spec. lia. Qed.

Lemma span_digits_colon ds rest : forallb is_digit ds = true ->
  span is_digit (ds ++ 58%N :: rest) = (ds, 58%N :: rest).
Proof.
  induction ds as [|d ds IH]; intros H; [reflexivity|].
  cbn [forallb] in H. apply andb_true_iff in H. destruct H as [Hd Hr].
  cbn [app span]. rewrite Hd, (IH Hr). reflexivity.
Qed.

Lemma split_revision_join rest u r : split_revision rest = (u, r) ->
  u ++ (match r with Some x => 45%N :: x | None => [] end) = rest.
Proof.
  unfold split_revision. destruct (span (fun c => negb (c =? 45)%N) (rev rest)) as [tail_rev before_rev] eqn:E.
  pose proof (span_app _ _ _ _ E) as Happ. pose proof (span_stop _ _ _ _ E) as Hstop.
  destruct before_rev as [|c up_rev].
  - intros H. injection H as <- <-. apply app_nil_r.
  - destruct up_rev as [|y up_rev']; [intros H; injection H as <- <-; apply app_nil_r|].
    destruct (rev tail_rev) as [|z tl] eqn:Et; [intros H; injection H as <- <-; apply app_nil_r|].
    destruct (forallb is_revision_char (z :: tl)); intros H; injection H as <- <-; [|apply app_nil_r].
    apply negb_false_iff, N.eqb_eq in Hstop. subst c.
    rewrite <- (rev_involutive rest), <- Happ, rev_app_distr. cbn [rev]. rewrite <- Et, <- !app_assoc. reflexivity.
Qed.

Theorem parse_show_version text v : parse_version text = Some v -> parse_version (show_version v) = Some v.
Proof.
  unfold parse_version. destruct (span is_digit text) as [ds after] eqn:Es.
  set (we := match ds, after with
             | _ :: _, colon :: rest => if (colon =? 58)%N && body_ok rest then Some rest else None
             | _, _ => None end).
  destruct we as [rest|] eqn:Ew.
  - (* an epoch *)
    destruct (num_of_digits 0 ds <=? u32_max)%N eqn:Eu; [|discriminate].
    destruct (split_revision rest) as [u r] eqn:Er. intros H. injection H as <-.
    unfold show_version. cbn [epoch upstream revision].
    assert (Hb : body_ok rest = true).
    { subst we. destruct ds; [discriminate|]. destruct after as [|c a]; [discriminate|].
      destruct ((c =? 58)%N && body_ok a) eqn:Ec; [|discriminate]. injection Ew as ->.
      apply andb_true_iff in Ec. apply Ec. }
    rewrite (split_revision_join rest u r Er).
    destruct (show_dec_spec (num_of_digits 0 ds)) as (Hn & Hd & Hne).
    rewrite <- app_assoc. cbn [app]. rewrite (span_digits_colon _ rest Hd).
    destruct (show_dec (num_of_digits 0 ds)) as [|d0 dr] eqn:Esd; [congruence|].
    rewrite N.eqb_refl, Hb. cbn [andb]. rewrite Hn, Eu, Er. reflexivity.
  - (* no epoch: the printed text is the text that was read *)
    destruct (body_ok text) eqn:Eb; [|discriminate].
    destruct (split_revision text) as [u r] eqn:Er. intros H. injection H as <-.
    unfold show_version. cbn [epoch upstream revision app].
    rewrite (split_revision_join text u r Er), Es. fold we. rewrite Ew, Eb, Er. reflexivity.
Qed.

Definition readable_version (v : version) : Prop := exists text, parse_version text = Some v.
Definition readable_rel (r : rel version) : Prop :=
  match r_ver r with Some (_, v) => readable_version v | None => True end.

Lemma parse_version_empty : parse_version [] = None.
Proof. vm_compute. reflexivity. Qed.
Lemma readable_roundtrips r : readable_rel r -> rel_roundtrips version parse_version show_version r.
Proof.
  unfold readable_rel, rel_roundtrips. destruct (r_ver r) as [[o v]|]; [|trivial].
  intros [text H]. eapply parse_show_version. exact H.
Qed.


(* fields built through the constructors, or through set_version, from versions that were read
   from text: the typed view is the field *)
Theorem deb_constructed f : Forall (Forall readable_rel) f ->
  deb_tree_field (deb_build_field f) = Ok f /\
  (Forall (Forall (fun r => parsed_start_ok (r_name r))) f ->
   exists t, deb_sv_field f = Ok t /\ deb_tree_field t = Ok f).
Proof.
  intros H.
  assert (H' : Forall (Forall (rel_roundtrips version parse_version show_version)) f).
  { eapply Forall_impl; [|exact H]. intros e He. eapply Forall_impl; [|exact He]. apply readable_roundtrips. }
  split.
  - apply (build_field_view version parse_version show_version parse_version_empty f H').
  - apply (sv_field_view version parse_version show_version parse_version_empty f H').
Qed.

(* ------------------------------------------------------------------ the summary statement *)
Lemma find_last_in {V} (l : list (str * V)) n v : find_last l n = Some v -> exists k, In (k, v) l.
Proof.
  induction l as [|[k w] r IH]; cbn [find_last]; [discriminate|].
  destruct (find_last r n) as [u|] eqn:E.
  - intros H. injection H as ->. destruct (IH eq_refl) as [k' Hk]. exists k'. right. exact Hk.
  - destruct (str_eqb n k); [|discriminate]. intros H. injection H as ->. exists k. left. reflexivity.
Qed.

Lemma spec_ext {V} (cmp : V -> V -> comparison) (I J : str -> option V) (f : list (list (rel V))) :
  (forall n, I n = J n) -> satisfied_spec cmp I f = satisfied_spec cmp J f.
Proof.
  intros H. unfold satisfied_spec. induction f as [|e f IHf]; [reflexivity|]. cbn [forallb]. rewrite IHf. f_equal.
  induction e as [|r e IH]; [reflexivity|]. cbn [existsb]. rewrite IH. f_equal. unfold rel_ok. rewrite H. reflexivity.
Qed.

Definition safe_readable (v : version) : Prop := ver_safe v = true /\ readable_version v.
Definition good_rel (r : rel version) : Prop :=
  match r_ver r with Some (_, v) => safe_readable v | None => True end.

(* one field, one assignment, every evaluator with every lookup form it accepts: the same answer,
   and it is the decision table.  The closure goes to the crate's field-level evaluators; the map
   and the pair can only be given to lossy::Relation::satisfied_by, alternative by alternative
   ([deb_by_relation]). *)
Theorem deb_main (f : list (list (rel version))) (asg : list (str * version)) :
  Forall (Forall good_rel) f -> Forall (fun kv => ver_safe (snd kv) = true) asg ->
  Forall (Forall (fun r => parsed_start_ok (r_name r))) f ->
  let installed := find_last asg in
  let answer := deb_spec installed f in
  exists t_set,
    deb_sv_field f = Ok t_set /\
    deb_ll_sat (deb_build_field f) installed = Ok answer /\
    deb_ll_sat t_set installed = Ok answer /\
    deb_lossy_sat f installed = Ok answer /\
    deb_by_relation f (LFn installed) = Ok answer /\
    deb_by_relation f (LMap (hm_of_list asg)) = Ok answer /\
    (forall n v, asg = [(n, v)] -> deb_by_relation f (LPair n v) = Ok answer).
Proof.
  intros Hf Ha Hp installed answer.
  assert (Hread : Forall (Forall readable_rel) f).
  { eapply Forall_impl; [|exact Hf]. intros e He. eapply Forall_impl; [|exact He].
    intros r. unfold good_rel, readable_rel. destruct (r_ver r) as [[o v]|]; [intros [_ H]; exact H|trivial]. }
  assert (Hdom : field_dom version deb_ok f).
  { eapply Forall_impl; [|exact Hf]. intros e He. eapply Forall_impl; [|exact He].
    intros r. unfold good_rel, rel_dom. destruct (r_ver r) as [[o v]|]; [intros [H _]; exact H|trivial]. }
  destruct (deb_constructed f Hread) as [V1 Hsv]. destruct (Hsv Hp) as (t2 & B2 & V2).
  assert (Hfn : closure_dom version deb_ok installed).
  { intros n v H. destruct (find_last_in asg n v H) as [k Hk].
    rewrite Forall_forall in Ha. apply (Ha (k, v) Hk). }
  exists t2. split; [exact B2|].
  destruct (deb_sat_spec (deb_build_field f) f installed V1 Hdom Hfn) as [L1 Y1].
  destruct (deb_sat_spec t2 f installed V2 Hdom Hfn) as [L2 _].
  split; [exact L1|]. split; [exact L2|]. split; [exact Y1|].
  unfold deb_by_relation. split; [|split].
  - rewrite by_relation_induced. exact Y1.
  - rewrite by_relation_induced.
    rewrite (lossy_sat_ext version ver_cmp f _ installed (lookup_map_of_list version asg)). exact Y1.
  - intros n v ->. rewrite by_relation_induced.
    rewrite (lossy_sat_ext version ver_cmp f _ installed); [exact Y1|].
    intros m. subst installed. cbn [lookup_version find_last]. reflexivity.
Qed.

(* ------------------------------------------------------------------ statements assembled for props/C12.v *)
Lemma c12_spec :
  forall (V : Type) (vcmp : V -> V -> res comparison) (vparse : str -> option V)
         (cmp : V -> V -> comparison) (Vok : V -> Prop),
  (forall a b, Vok a -> Vok b -> vcmp a b = Ok (cmp a b)) ->
  forall (t : rtree) (f : list (list (rel V))) (g : str -> option V),
  tree_field V vparse t = Ok f -> field_dom V Vok f -> (forall n v, g n = Some v -> Vok v) ->
  ll_relations_satisfied_by V vcmp vparse t g = Ok (satisfied_spec cmp g f) /\
  lossy_relations_satisfied_by V vcmp f g = Ok (satisfied_spec cmp g f).
Proof.
  intros V vcmp vparse cmp Vok H t f g Ht Hf Hp. split.
  - exact (ll_spec V vcmp vparse cmp Vok H t f g Ht Hf Hp).
  - exact (lossy_spec V vcmp cmp Vok H f g Hf Hp).
Qed.

Lemma c12_table_in_words :
  forall (V : Type) (cmp : V -> V -> comparison) (installed : str -> option V) (f : list (list (rel V))),
  satisfied_spec cmp installed f = true <->
  Forall (Exists (fun r => exists v, installed (r_name r) = Some v /\
                           match r_ver r with
                           | None => True
                           | Some (OpLt, w) => cmp v w = Lt
                           | Some (OpLe, w) => cmp v w = Lt \/ cmp v w = Eq
                           | Some (OpEq, w) => cmp v w = Eq
                           | Some (OpGe, w) => cmp v w = Gt \/ cmp v w = Eq
                           | Some (OpGt, w) => cmp v w = Gt
                           end)) f.
Proof.
  intros V cmp installed f. rewrite (satisfied_spec_iff V cmp installed f).
  rewrite !Forall_forall. split; intros H e He; specialize (H e He); rewrite Exists_exists in *;
    destruct H as (r & Hr & v & Hv & H); exists r; (split; [exact Hr|]); exists v; (split; [exact Hv|]);
    destruct (r_ver r) as [[[] w]|]; exact H.
Qed.


Lemma c12_lookup :
  forall (V : Type) (vcmp : V -> V -> res comparison) (vparse : str -> option V),
  (* the three field/entry-level evaluators take a closure and depend on it pointwise *)
  (forall (t : rtree) (f : list (list (rel V))) (g h : str -> option V),
     (forall n, g n = h n) ->
     ll_relations_satisfied_by V vcmp vparse t g = ll_relations_satisfied_by V vcmp vparse t h /\
     lossy_relations_satisfied_by V vcmp f g = lossy_relations_satisfied_by V vcmp f h) /\
  (* lossy::Relation::satisfied_by takes any form and depends on the induced function only *)
  (forall (r : rel V) (pv : lookup V),
     lossy_relation_satisfied_by V vcmp r pv = lossy_relation_satisfied_by V vcmp r (LFn (lookup_version pv))) /\
  (forall (f : list (list (rel V))) (pv : lookup V),
     by_relation V vcmp f pv = lossy_relations_satisfied_by V vcmp f (lookup_version pv)) /\
  (* the induced functions *)
  (forall (l : list (str * V)) n, lookup_version (LMap (hm_of_list l)) n = find_last l n) /\
  (forall (m : list (str * V)) n, lookup_version (LMap m) n = hm_get m n) /\
  (forall (g : str -> option V) n, lookup_version (LFn g) n = g n) /\
  (forall (k : str) (v : V) n,
     lookup_version (LPair k v) n = (if str_eqb n k then Some v else None) /\
     lookup_version (LPair k v) n = lookup_version (LMap (hm_of_list [(k, v)])) n).
Proof.
  intros V vcmp vparse. split; [|split; [|split; [|split; [|split; [|split]]]]].
  - intros t f g h H. split; [apply ll_sat_ext; exact H|apply lossy_sat_ext; exact H].
  - apply lossy_rel_sat_induced.
  - apply by_relation_induced.
  - apply lookup_map_of_list.
  - reflexivity.
  - reflexivity.
  - intros k v n. split; [reflexivity|]. rewrite lookup_map_of_list. cbn [lookup_version find_last].
    reflexivity.
Qed.

Lemma c12_order_consequences :
  forall (V : Type) (cmp : V -> V -> comparison), cmp_ok cmp ->
  (forall (I J : str -> option V) (f : list (list (rel V))),
     (forall n, match I n, J n with
                | Some v, Some v' => cmp v v' = Eq
                | None, None => True
                | _, _ => False
                end) ->
     satisfied_spec cmp I f = satisfied_spec cmp J f) /\
  (forall v v' w, cmp v v' <> Gt -> op_holds OpGe (cmp v w) = true -> op_holds OpGe (cmp v' w) = true) /\
  (forall v v' w, cmp v' v <> Gt -> op_holds OpLe (cmp v w) = true -> op_holds OpLe (cmp v' w) = true) /\
  (forall c, op_holds OpGe c = negb (op_holds OpLt c) /\ op_holds OpLe c = negb (op_holds OpGt c) /\
             op_holds OpEq c = op_holds OpLe c && op_holds OpGe c).
Proof.
  intros V cmp H. split; [|split; [|split]].
  - apply spec_equiv_installed. exact H.
  - apply lower_bound_monotone. exact H.
  - apply upper_bound_monotone. exact H.
  - intros c. split; [apply op_ge_not_lt|split; [apply op_le_not_gt|apply op_eq_le_ge]].
Qed.

Lemma c12_debversion_safe :
  forall x y, ver_safe x = true -> ver_safe y = true ->
  ver_cmp x y = Ok (DebVersion.vcmp x y) /\ ver_eq x y = Ok (veq x y).
Proof. intros x y Hx Hy. split; [apply ver_cmp_safe|apply ver_eq_safe]; assumption. Qed.


Lemma c12_full_refuted :
  ~ (forall (t : rtree) (f : list (list (rel version))) (g : str -> option version),
     tree_field version parse_version t = Ok f ->
     deb_ll_sat t g = Ok (deb_spec g f) /\
     deb_lossy_sat f g = Ok (deb_spec g f)).
Proof.
  intros H.
  pose (w := mk_version None (s2l "0~2024") None).
  pose (f := [[mk_rel (s2l "a") (Some (OpGe, w))]]).
  assert (Ht : tree_field version parse_version (deb_build_field f) = Ok f).
  { apply (build_field_view version parse_version show_version parse_version_empty f). repeat constructor. }
  destruct (H _ f (fun n => if str_eqb n (s2l "a") then Some big_version else None) Ht) as [_ H2].
  vm_compute in H2. discriminate.
Qed.
