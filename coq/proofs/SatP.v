(* Dependency satisfaction: both evaluators compute the Policy decision table, agree with each
   other, and see the installed versions only through the function a lookup form induces. *)
From V.model Require Import Base RelLex RelParse DebVersion Sat.
From V.proofs Require Import BaseP DebVersionP.

(* ------------------------------------------------------------------ strings *)
Lemma str_eqb_eq (a b : str) : str_eqb a b = true <-> a = b.
Proof.
  unfold str_eqb. revert b. induction a as [|x a IH]; intros [|y b]; cbn [list_eqb]; split; intros H;
    try reflexivity; try discriminate.
  - apply andb_true_iff in H. destruct H as [H1 H2]. apply N.eqb_eq in H1. apply IH in H2. congruence.
  - injection H as -> ->. rewrite N.eqb_refl. cbn. apply IH. reflexivity.
Qed.

Lemma str_eqb_refl (a : str) : str_eqb a a = true.
Proof. apply str_eqb_eq. reflexivity. Qed.

Lemma str_eqb_neq (a b : str) : str_eqb a b = false <-> a <> b.
Proof.
  split.
  - intros H E. apply str_eqb_eq in E. congruence.
  - intros H. destruct (str_eqb a b) eqn:E; [|reflexivity]. apply str_eqb_eq in E. congruence.
Qed.

(* ------------------------------------------------------------------ all / any / mapM *)
Lemma iter_any_ext {A} (p q : A -> res bool) l : (forall x, In x l -> p x = q x) -> iter_any p l = iter_any q l.
Proof.
  induction l as [|x r IH]; intros H; [reflexivity|]. cbn [iter_any].
  rewrite (H x (or_introl eq_refl)). destruct (q x) as [[|]| | |]; try reflexivity.
  apply IH. intros y Hy. apply H. right. exact Hy.
Qed.

Lemma iter_all_ext {A} (p q : A -> res bool) l : (forall x, In x l -> p x = q x) -> iter_all p l = iter_all q l.
Proof.
  induction l as [|x r IH]; intros H; [reflexivity|]. cbn [iter_all].
  rewrite (H x (or_introl eq_refl)). destruct (q x) as [[|]| | |]; try reflexivity.
  apply IH. intros y Hy. apply H. right. exact Hy.
Qed.

Lemma iter_any_ok {A} (p : A -> res bool) (q : A -> bool) l :
  (forall x, In x l -> p x = Ok (q x)) -> iter_any p l = Ok (existsb q l).
Proof.
  induction l as [|x r IH]; intros H; [reflexivity|]. cbn [iter_any existsb].
  rewrite (H x (or_introl eq_refl)). destruct (q x); [reflexivity|].
  apply IH. intros y Hy. apply H. right. exact Hy.
Qed.

Lemma iter_all_ok {A} (p : A -> res bool) (q : A -> bool) l :
  (forall x, In x l -> p x = Ok (q x)) -> iter_all p l = Ok (forallb q l).
Proof.
  induction l as [|x r IH]; intros H; [reflexivity|]. cbn [iter_all forallb].
  rewrite (H x (or_introl eq_refl)). destruct (q x); [|reflexivity].
  apply IH. intros y Hy. apply H. right. exact Hy.
Qed.

Lemma mapM_ok_inv {A B} (f : A -> res B) l l' :
  mapM f l = Ok l' -> Forall2 (fun x y => f x = Ok y) l l'.
Proof.
  revert l'. induction l as [|x r IH]; intros l' H; cbn [mapM] in H.
  - injection H as <-. constructor.
  - destruct (f x) as [y| | |] eqn:E; cbn [bind] in H; try discriminate.
    destruct (mapM f r) as [ys| | |]; cbn [bind] in H; try discriminate.
    injection H as <-. constructor; [exact E|apply IH; reflexivity].
Qed.

Lemma mapM_total {A B} (f : A -> res B) l :
  (forall x, In x l -> exists y, f x = Ok y) -> exists l', mapM f l = Ok l'.
Proof.
  induction l as [|x r IH]; intros H; [exists []; reflexivity|].
  destruct (H x (or_introl eq_refl)) as [y Ey].
  destruct IH as [ys Eys]; [intros z Hz; apply H; right; exact Hz|].
  exists (y :: ys). cbn [mapM]. rewrite Ey. cbn [bind]. rewrite Eys. reflexivity.
Qed.

Lemma mapM_ok_map {A B} (f : A -> res B) (g : A -> B) l :
  (forall x, In x l -> f x = Ok (g x)) -> mapM f l = Ok (map g l).
Proof.
  induction l as [|x r IH]; intros H; [reflexivity|]. cbn [mapM map].
  rewrite (H x (or_introl eq_refl)). cbn [bind]. rewrite IH; [reflexivity|].
  intros y Hy. apply H. right. exact Hy.
Qed.

Lemma iter_any_F2 {A B} (R : A -> B -> Prop) (p : A -> res bool) (q : B -> res bool) l l' :
  Forall2 R l l' -> (forall x y, R x y -> p x = q y) -> iter_any p l = iter_any q l'.
Proof.
  intros HF H. induction HF as [|x y l l' Hxy HF IH]; [reflexivity|]. cbn [iter_any].
  rewrite (H x y Hxy). destruct (q y) as [[|]| | |]; try reflexivity. exact IH.
Qed.

Lemma iter_all_F2 {A B} (R : A -> B -> Prop) (p : A -> res bool) (q : B -> res bool) l l' :
  Forall2 R l l' -> (forall x y, R x y -> p x = q y) -> iter_all p l = iter_all q l'.
Proof.
  intros HF H. induction HF as [|x y l l' Hxy HF IH]; [reflexivity|]. cbn [iter_all].
  rewrite (H x y Hxy). destruct (q y) as [[|]| | |]; try reflexivity. exact IH.
Qed.

(* ------------------------------------------------------------------ operators *)
Lemma parse_show_vop o : parse_vop (show_vop o) = Some o.
Proof. destruct o; reflexivity. Qed.

(* the operator table in words *)
Definition op_rel (o : vop) (c : comparison) : Prop :=
  match o with
  | OpLt => c = Lt
  | OpLe => c = Lt \/ c = Eq
  | OpEq => c = Eq
  | OpGe => c = Gt \/ c = Eq
  | OpGt => c = Gt
  end.
Lemma op_holds_rel o c : op_holds o c = true <-> op_rel o c.
Proof. destruct o, c; cbn; intuition congruence. Qed.

Lemma op_ge_not_lt c : op_holds OpGe c = negb (op_holds OpLt c).
Proof. destruct c; reflexivity. Qed.
Lemma op_le_not_gt c : op_holds OpLe c = negb (op_holds OpGt c).
Proof. destruct c; reflexivity. Qed.
Lemma op_eq_le_ge c : op_holds OpEq c = op_holds OpLe c && op_holds OpGe c.
Proof. destruct c; reflexivity. Qed.

Section SatP.
  Variable V : Type.
  Variable vcmp : V -> V -> res comparison.
  Variable vparse : str -> option V.
  Variable vshow : V -> str.
  (* the version parser rejects the empty text (Relation::version returns None for an empty version text) *)
  Hypothesis vparse_nonempty : vparse [] = None.
  Lemma version_string_tok v pre cn post : vparse (vshow v) = Some v ->
    version_string (Node VERSION [Tok L_PARENS pre; Node CONSTRAINT cn; Tok WHITESPACE post; Tok IDENT (vshow v); Tok R_PARENS [41%N]]) = Some (vshow v).
  Proof.
    intros H. unfold version_string. cbn [children filter is_tok_of rkind_eqb rkind_code N.eqb Pos.eqb orb map concat text].
    rewrite app_nil_r. destruct (vshow v) eqn:E; [rewrite vparse_nonempty in H; discriminate|reflexivity].
  Qed.

  Notation rel := (rel V).
  Notation field := (list (list rel)).
  Notation lookup := (lookup V).
  Notation lossy_rel_sat := (lossy_relation_satisfied_by V vcmp).
  Notation lossy_sat := (lossy_relations_satisfied_by V vcmp).
  Notation ll_rel_sat := (ll_relation_satisfied_by V vcmp vparse).
  Notation ll_entry_sat := (ll_entry_satisfied_by V vcmp vparse).
  Notation ll_sat := (ll_relations_satisfied_by V vcmp vparse).
  Notation tree_rel := (tree_rel V vparse).
  Notation tree_entry := (tree_entry V vparse).
  Notation tree_field := (tree_field V vparse).

  (* ---------------- lossless = lossy on the typed view, whatever the comparison does ------- *)
  Lemma ll_rel_agree r x pv : tree_rel r = Ok x -> ll_rel_sat r pv = lossy_rel_sat x pv.
  Proof.
    unfold Sat.tree_rel, ll_relation_satisfied_by, lossy_relation_satisfied_by. intros H.
    destruct (ll_name r) as [n| | |]; cbn [bind] in *; try discriminate.
    destruct (ll_version V vparse r) as [v| | |]; cbn [bind] in *; try discriminate.
    injection H as <-. cbn [r_name r_ver]. reflexivity.
  Qed.

  Lemma ll_entry_agree e xs pv :
    tree_entry e = Ok xs -> ll_entry_sat e pv = iter_any (fun r => lossy_rel_sat r pv) xs.
  Proof.
    unfold Sat.tree_entry, ll_entry_satisfied_by. intros H. apply mapM_ok_inv in H.
    eapply iter_any_F2; [exact H|]. intros r x Hrx. apply ll_rel_agree. exact Hrx.
  Qed.

  Theorem ll_agree_lossy t f pv : tree_field t = Ok f -> ll_sat t pv = lossy_sat f pv.
  Proof.
    unfold Sat.tree_field, ll_relations_satisfied_by, lossy_relations_satisfied_by. intros H.
    apply mapM_ok_inv in H. eapply iter_all_F2; [exact H|]. intros e xs Hexs.
    apply ll_entry_agree. exact Hexs.
  Qed.

  (* ---------------- lookups ---------------- *)
  Lemma hm_get_remove_other (m : list (str * V)) k n : n <> k -> hm_get (hm_remove V m k) n = hm_get m n.
  Proof.
    intros Hn. induction m as [|[k' v] r IH]; [reflexivity|]. cbn [hm_remove hm_get].
    destruct (str_eqb k k') eqn:E.
    - apply str_eqb_eq in E. subst k'. rewrite IH.
      destruct (str_eqb n k) eqn:E2; [apply str_eqb_eq in E2; congruence|reflexivity].
    - cbn [hm_get]. rewrite IH. reflexivity.
  Qed.

  Lemma hm_get_insert (m : list (str * V)) k v n :
    hm_get (hm_insert V m k v) n = if str_eqb n k then Some v else hm_get m n.
  Proof.
    unfold hm_insert. cbn [hm_get]. destruct (str_eqb n k) eqn:E; [reflexivity|].
    apply hm_get_remove_other. apply str_eqb_neq. exact E.
  Qed.

  Lemma hm_get_fold (l : list (str * V)) : forall m n,
    hm_get (fold_left (fun m kv => hm_insert V m (fst kv) (snd kv)) l m) n =
    match find_last l n with Some v => Some v | None => hm_get m n end.
  Proof.
    induction l as [|[k v] r IH]; intros m n; [reflexivity|].
    cbn [fold_left find_last fst snd]. rewrite IH.
    destruct (find_last r n); [reflexivity|]. rewrite hm_get_insert.
    destruct (str_eqb n k); reflexivity.
  Qed.

  (* a map filled by inserting the bindings in order answers like "the last binding wins" *)
  Theorem lookup_map_of_list (l : list (str * V)) n :
    lookup_version (LMap (hm_of_list l)) n = find_last l n.
  Proof.
    cbn [lookup_version]. unfold hm_of_list. rewrite hm_get_fold.
    destruct (find_last l n); reflexivity.
  Qed.

  (* the function a lookup form induces *)
  Definition induced (pv : lookup) : str -> option V := lookup_version pv.

  Lemma induced_map m : induced (LMap m) = hm_get m.
  Proof. reflexivity. Qed.
  Lemma induced_fn g : induced (LFn g) = g.
  Proof. reflexivity. Qed.
  Lemma induced_pair n v : induced (LPair n v) = fun n' => if str_eqb n' n then Some v else None.
  Proof. reflexivity. Qed.

  (* every form can be replaced by the closure form of its induced function *)
  Lemma lossy_rel_sat_ext r p q :
    lookup_version p (r_name r) = lookup_version q (r_name r) -> lossy_rel_sat r p = lossy_rel_sat r q.
  Proof. unfold lossy_relation_satisfied_by. intros ->. reflexivity. Qed.

  Theorem lossy_sat_ext f p q :
    (forall n, lookup_version p n = lookup_version q n) -> lossy_sat f p = lossy_sat f q.
  Proof.
    intros H. unfold lossy_relations_satisfied_by. apply iter_all_ext. intros e _.
    apply iter_any_ext. intros r _. apply lossy_rel_sat_ext. apply H.
  Qed.

  Theorem ll_sat_ext t p q :
    (forall n, lookup_version p n = lookup_version q n) -> ll_sat t p = ll_sat t q.
  Proof.
    intros H. unfold ll_relations_satisfied_by. apply iter_all_ext. intros e _.
    unfold ll_entry_satisfied_by. apply iter_any_ext. intros r _.
    unfold ll_relation_satisfied_by. destruct (ll_name r); cbn [bind]; try reflexivity. rewrite H. reflexivity.
  Qed.

  (* ---------------- the constructors produce trees whose typed view is the input ----------- *)
  Definition rel_roundtrips (r : rel) : Prop :=
    match r_ver r with Some (_, v) => vparse (vshow v) = Some v | None => True end.

  Lemma one_char_toks o : exists cts, mapM one_char_tok (show_vop o) = Ok cts /\ texts cts = show_vop o.
  Proof. destruct o; eexists; split; reflexivity. Qed.

  Lemma relation_new_view r : rel_roundtrips r ->
    exists t, relation_new V vshow (r_name r) (r_ver r) = Ok t /\ tree_rel t = Ok r /\ is_node_of RELATION t = true.
  Proof.
    destruct r as [n [[o v]|]]; unfold rel_roundtrips; cbn [r_name r_ver]; intros H.
    - unfold relation_new. destruct (one_char_toks o) as (cts & E & Ht). rewrite E. cbn [bind].
      eexists. split; [reflexivity|]. split; [|reflexivity].
      unfold Sat.tree_rel, ll_name, ll_version, first_ident. cbn [children find is_tok_of is_node_of rkind_eqb rkind_code N.eqb Pos.eqb bind].
      rewrite (version_string_tok _ _ _ _ H).
      rewrite text_node, Ht, parse_show_vop, !text_tok, H. reflexivity.
    - eexists. split; [reflexivity|]. split; reflexivity.
  Qed.

  Lemma filter_sep_by (p : rtree -> bool) sep l :
    forallb p l = true -> forallb (fun x => negb (p x)) sep = true -> filter p (sep_by sep l) = l.
  Proof.
    intros Hl Hs. induction l as [|x r IH]; [reflexivity|].
    cbn [forallb] in Hl. apply andb_true_iff in Hl. destruct Hl as [Hx Hr].
    destruct r as [|y r']; [cbn; rewrite Hx; reflexivity|].
    change (sep_by sep (x :: y :: r')) with (x :: sep ++ sep_by sep (y :: r')).
    cbn [filter]. rewrite Hx. f_equal. rewrite filter_app, (IH Hr).
    assert (Hn : filter p sep = []).
    { clear -Hs. induction sep as [|s sep IH]; [reflexivity|]. cbn [forallb] in Hs.
      apply andb_true_iff in Hs. destruct Hs as [H1 H2]. cbn [filter].
      destruct (p s); [discriminate|]. apply IH. exact H2. }
    rewrite Hn. reflexivity.
  Qed.

  Lemma rnodes_pred k (x : rtree) : is_node x && rkind_eqb (ekind x) k = is_node_of k x.
  Proof. destruct x; reflexivity. Qed.

  Lemma r_relations_entry_from rs :
    forallb (is_node_of RELATION) rs = true -> r_relations (entry_from rs) = rs.
  Proof.
    intros H. unfold r_relations, rnodes_of_kind, entry_from. cbn [children].
    rewrite (filter_ext _ (is_node_of RELATION)) by (intros x; apply rnodes_pred).
    apply filter_sep_by; [exact H|reflexivity].
  Qed.

  Lemma r_entries_relations_from es :
    forallb (is_node_of ENTRY) es = true -> r_entries (relations_from es) = es.
  Proof.
    intros H. unfold r_entries, rnodes_of_kind, relations_from. cbn [children].
    rewrite (filter_ext _ (is_node_of ENTRY)) by (intros x; apply rnodes_pred).
    apply filter_sep_by; [exact H|reflexivity].
  Qed.

  Lemma build_entry_view (e : list rel) : Forall rel_roundtrips e ->
    exists t, build_entry V vshow e = Ok t /\ tree_entry t = Ok e /\ is_node_of ENTRY t = true.
  Proof.
    intros H. unfold build_entry.
    assert (Hrs : exists rs, mapM (fun r => relation_new V vshow (r_name r) (r_ver r)) e = Ok rs /\
                             mapM tree_rel rs = Ok e /\ forallb (is_node_of RELATION) rs = true).
    { induction H as [|r e Hr He IH]; [exists []; repeat split; reflexivity|].
      destruct (relation_new_view r Hr) as (t & Et & Vt & Kt). destruct IH as (rs & E1 & E2 & E3).
      exists (t :: rs). cbn [mapM forallb]. rewrite Et, Vt, Kt. cbn [bind]. rewrite E1, E2, E3. repeat split; reflexivity. }
    destruct Hrs as (rs & E1 & E2 & E3). rewrite E1. cbn [rmap bind].
    eexists. split; [reflexivity|]. split; [|reflexivity].
    unfold Sat.tree_entry. rewrite (r_relations_entry_from rs E3). exact E2.
  Qed.

  Theorem build_field_view (f : field) : Forall (Forall rel_roundtrips) f ->
    exists t, build_field V vshow f = Ok t /\ tree_field t = Ok f.
  Proof.
    intros H. unfold build_field.
    assert (Hes : exists es, mapM (build_entry V vshow) f = Ok es /\
                             mapM tree_entry es = Ok f /\ forallb (is_node_of ENTRY) es = true).
    { induction H as [|e f He Hf IH]; [exists []; repeat split; reflexivity|].
      destruct (build_entry_view e He) as (t & Et & Vt & Kt). destruct IH as (es & E1 & E2 & E3).
      exists (t :: es). cbn [mapM forallb]. rewrite Et, Vt, Kt. cbn [bind]. rewrite E1, E2, E3. repeat split; reflexivity. }
    destruct Hes as (es & E1 & E2 & E3). rewrite E1. cbn [rmap bind].
    eexists. split; [reflexivity|]. unfold Sat.tree_field. rewrite (r_entries_relations_from es E3). exact E2.
  Qed.

  (* ---------------- set_version (fixed code) writes what version() reads back ------------- *)
  Lemma replace_first_find {A} (p : A -> bool) new (l l' : list A) :
    replace_first p new l = Some l' -> p new = true -> find p l' = Some new.
  Proof.
    revert l'. induction l as [|x r IH]; intros l' H Hn; cbn [replace_first] in H; [discriminate|].
    destruct (p x) eqn:E.
    - injection H as <-. cbn [find]. rewrite Hn. reflexivity.
    - destruct (replace_first p new r) as [r'|]; [|discriminate]. injection H as <-.
      cbn [find]. rewrite E. apply IH; [reflexivity|exact Hn].
  Qed.

  Lemma replace_first_find_other {A} (p q : A -> bool) new (l l' : list A) :
    replace_first p new l = Some l' -> (forall x, p x = true -> q x = false) -> q new = false ->
    find q l' = find q l.
  Proof.
    revert l'. induction l as [|x r IH]; intros l' H Hpq Hn; cbn [replace_first] in H; [discriminate|].
    destruct (p x) eqn:E.
    - injection H as <-. cbn [find]. rewrite Hn, (Hpq x E). reflexivity.
    - destruct (replace_first p new r) as [r'|]; [|discriminate]. injection H as <-.
      cbn [find]. destruct (q x); [reflexivity|]. apply IH; [reflexivity|exact Hpq|exact Hn].
  Qed.

  Lemma replace_first_none {A} (p : A -> bool) new (l : list A) :
    replace_first p new l = None -> forall x, In x l -> p x = false.
  Proof.
    induction l as [|y r IH]; intros H x Hx; [destruct Hx|]. cbn [replace_first] in H.
    destruct (p y) eqn:E; [discriminate|].
    destruct (replace_first p new r); [discriminate|].
    destruct Hx as [<-|Hx]; [exact E|apply IH; [reflexivity|exact Hx]].
  Qed.

  Lemma insert_after_first_find {A} (q : A -> bool) ins (l l' : list A) :
    insert_after_first q ins l = Some l' -> find q l' = find q l.
  Proof.
    revert l'. induction l as [|x r IH]; intros l' H; cbn [insert_after_first] in H; [discriminate|].
    destruct (q x) eqn:E.
    - injection H as <-. cbn [find]. rewrite E. reflexivity.
    - destruct (insert_after_first q ins r) as [r'|]; [|discriminate]. injection H as <-.
      cbn [find]. rewrite E. apply IH. reflexivity.
  Qed.

  Lemma insert_after_first_find_new {A} (p q : A -> bool) w new (l l' : list A) :
    insert_after_first q [w; new] l = Some l' -> (forall x, In x l -> p x = false) ->
    p w = false -> p new = true -> find p l' = Some new.
  Proof.
    revert l'. induction l as [|x r IH]; intros l' H Hl Hw Hn; cbn [insert_after_first] in H; [discriminate|].
    assert (Hx : p x = false) by (apply Hl; left; reflexivity).
    destruct (q x).
    - injection H as <-. cbn [find app]. rewrite Hx, Hw, Hn. reflexivity.
    - destruct (insert_after_first q [w; new] r) as [r'|]; [|discriminate]. injection H as <-.
      cbn [find]. rewrite Hx. apply IH; [reflexivity| |exact Hw|exact Hn].
      intros y Hy. apply Hl. right. exact Hy.
  Qed.

  Lemma insert_after_first_none {A} (q : A -> bool) ins (l : list A) :
    insert_after_first q ins l = None -> find q l = None.
  Proof.
    induction l as [|x r IH]; intros H; [reflexivity|]. cbn [insert_after_first] in H. cbn [find].
    destruct (q x); [discriminate|]. destruct (insert_after_first q ins r); [discriminate|]. apply IH. reflexivity.
  Qed.

  Lemma constraint_tokens_text vc : texts (constraint_tokens vc) = show_vop vc.
  Proof. destruct vc; reflexivity. Qed.

  (* whatever the relation looked like: after set_version(Some((vc, v))) its name is unchanged
     and version() returns (vc, v) *)
  Theorem set_version_view (r : rtree) n vc v :
    is_node r = true -> first_ident r = Some n -> vparse (vshow v) = Some v ->
    tree_rel (set_version_some V vshow (@constraint_tokens) r vc v) = Ok (mk_rel n (Some (vc, v))) /\
    is_node_of (ekind r) (set_version_some V vshow (@constraint_tokens) r vc v) = true.
  Proof.
    destruct r as [k s|k cs]; [discriminate|]. intros _ Hn Hv.
    set (new := version_node V vshow (constraint_tokens vc) v).
    assert (Hres : forall cs', find (is_tok_of IDENT) cs' = find (is_tok_of IDENT) cs ->
                               find (is_node_of VERSION) cs' = Some new ->
                               tree_rel (Node k cs') = Ok (mk_rel n (Some (vc, v)))).
    { intros cs' H1 H2. unfold Sat.tree_rel, ll_name, first_ident in *. cbn [children] in *.
      rewrite H1. destruct (find (is_tok_of IDENT) cs) as [tk|]; [|discriminate]. injection Hn as Hn.
      rewrite Hn. cbn [bind]. unfold ll_version. cbn [children]. rewrite H2.
      subst new. unfold version_node at 1 2. cbn [children find is_node_of is_tok_of rkind_eqb rkind_code N.eqb Pos.eqb].
      rewrite (version_string_tok _ _ _ _ Hv).
      rewrite text_node, constraint_tokens_text, parse_show_vop, Hv. reflexivity. }
    assert (Hk : forall cs', is_node_of (ekind (Node k cs)) (Node k cs') = true).
    { intros cs'. cbn. unfold rkind_eqb. apply N.eqb_refl. }
    cbn [set_version_some]. fold new.
    destruct (replace_first (is_node_of VERSION) new cs) as [cs'|] eqn:E1.
    - split; [|apply Hk]. apply Hres.
      + eapply replace_first_find_other; [exact E1| |reflexivity].
        intros x Hx. destruct x; [discriminate|reflexivity].
      + eapply replace_first_find; [exact E1|reflexivity].
    - pose proof (replace_first_none _ _ _ E1) as Hnone.
      destruct (insert_after_first (is_tok_of IDENT) [Tok WHITESPACE [32%N]; new] cs) as [cs'|] eqn:E2.
      + split; [|apply Hk]. apply Hres.
        * eapply insert_after_first_find. exact E2.
        * eapply insert_after_first_find_new; [exact E2|exact Hnone|reflexivity|reflexivity].
      + apply insert_after_first_none in E2. unfold first_ident in Hn. cbn [children] in Hn.
        rewrite E2 in Hn. discriminate.
  Qed.

  Lemma relation_new_named n o : exists t,
    relation_new V vshow n o = Ok t /\ is_node t = true /\ ekind t = RELATION /\ first_ident t = Some n.
  Proof.
    destruct o as [[vc v]|].
    - unfold relation_new. destruct (one_char_toks vc) as (cts & E & _). rewrite E. cbn [bind].
      eexists. repeat split.
    - eexists. repeat split.
  Qed.

  Lemma sv_relation_view b (r : rel) : rel_roundtrips r ->
    exists t, sv_relation V vshow (@constraint_tokens) b r = Ok t /\ tree_rel t = Ok r /\ is_node_of RELATION t = true.
  Proof.
    destruct r as [n [[vc v]|]]; unfold rel_roundtrips, sv_relation; cbn [r_name r_ver]; intros H.
    - destruct (relation_new_named n (if b then Some (OpEq, v) else None)) as (t & Et & Hnode & Hkind & Hname).
      rewrite Et. cbn [rmap bind]. eexists. split; [reflexivity|].
      destruct (set_version_view t n vc v Hnode Hname H) as [H1 H2]. rewrite Hkind in H2. split; assumption.
    - apply (relation_new_view (mk_rel n None)). exact I.
  Qed.

  Theorem sv_field_view (f : field) : Forall (Forall rel_roundtrips) f ->
    exists t, sv_field V vshow (@constraint_tokens) f = Ok t /\ tree_field t = Ok f.
  Proof.
    intros H. unfold sv_field.
    assert (Hent : forall e, Forall rel_roundtrips e -> forall b,
              exists rs, sv_relations V vshow (@constraint_tokens) b e = Ok rs /\
                         mapM tree_rel rs = Ok e /\ forallb (is_node_of RELATION) rs = true).
    { intros e He. induction He as [|r e Hr He IH]; intros b; [exists []; repeat split; reflexivity|].
      destruct (sv_relation_view b r Hr) as (t & Et & Vt & Kt). destruct (IH (negb b)) as (rs & E1 & E2 & E3).
      exists (t :: rs). cbn [sv_relations mapM forallb]. rewrite Et, Vt, Kt. cbn [bind]. rewrite E1, E2, E3.
      repeat split; reflexivity. }
    assert (Hes : exists es, mapM (fun e => rmap entry_from (sv_relations V vshow (@constraint_tokens) false e)) f = Ok es /\
                             mapM tree_entry es = Ok f /\ forallb (is_node_of ENTRY) es = true).
    { induction H as [|e f He Hf IH]; [exists []; repeat split; reflexivity|].
      destruct (Hent e He false) as (rs & R1 & R2 & R3). destruct IH as (es & E1 & E2 & E3).
      exists (entry_from rs :: es). cbn [mapM forallb]. rewrite R1. cbn [rmap bind]. rewrite E1. cbn [bind].
      unfold Sat.tree_entry at 1. rewrite (r_relations_entry_from rs R3), R2. cbn [bind]. rewrite E2, E3.
      repeat split; reflexivity. }
    destruct Hes as (es & E1 & E2 & E3). rewrite E1. cbn [rmap bind].
    eexists. split; [reflexivity|]. unfold Sat.tree_field. rewrite (r_entries_relations_from es E3). exact E2.
  Qed.

  (* ---------------- trees outside the finding class have a typed view ---------------- *)
  (* what Relation::version looks at *)
  Definition version_parts (r : rtree) : option (rtree * str) :=
    match find (is_node_of VERSION) (children r) with
    | None => None
    | Some vn => match find (is_node_of CONSTRAINT) (children vn), version_string vn with
                 | Some cn, Some vt => Some (cn, vt)
                 | _, _ => None
                 end
    end.
  Definition alternatives (t : rtree) : list rtree := flat_map r_relations (r_entries t).
  (* the finding class: an operator that is none of the five *)
  Definition Known_nonstandard_operator (t : rtree) : Prop :=
    exists r cn vt, In r (alternatives t) /\ version_parts r = Some (cn, vt) /\ parse_vop (text cn) = None.
  Definition names_present (t : rtree) : Prop := forall r, In r (alternatives t) -> first_ident r <> None.
  Definition versions_readable (t : rtree) : Prop :=
    forall r cn vt, In r (alternatives t) -> version_parts r = Some (cn, vt) -> vparse vt <> None.

  Lemma ll_version_parts r :
    ll_version V vparse r =
    match version_parts r with
    | None => Ok None
    | Some (cn, vt) => match parse_vop (text cn) with
                       | None => Panic 11%N
                       | Some vc => match vparse vt with None => Panic 12%N | Some v => Ok (Some (vc, v)) end
                       end
    end.
  Proof.
    unfold ll_version, version_parts. destruct (find (is_node_of VERSION) (children r)) as [vn|]; [|reflexivity].
    destruct (find (is_node_of CONSTRAINT) (children vn)); [|reflexivity].
    destruct (version_string vn); reflexivity.
  Qed.

  Theorem tree_field_total t :
    names_present t -> versions_readable t -> ~ Known_nonstandard_operator t ->
    exists f, tree_field t = Ok f.
  Proof.
    intros Hn Hv Hk. unfold Sat.tree_field. apply mapM_total. intros e He.
    unfold Sat.tree_entry. apply mapM_total. intros r Hr.
    assert (Hin : In r (alternatives t)) by (unfold alternatives; apply in_flat_map; exists e; split; assumption).
    unfold Sat.tree_rel, ll_name. specialize (Hn r Hin).
    destruct (first_ident r) as [n|]; [|congruence]. cbn [bind].
    rewrite ll_version_parts. destruct (version_parts r) as [[cn vt]|] eqn:E; [|eexists; reflexivity].
    destruct (parse_vop (text cn)) eqn:Ep.
    - specialize (Hv r cn vt Hin E). destruct (vparse vt); [eexists; reflexivity|congruence].
    - exfalso. apply Hk. exists r, cn, vt. repeat split; assumption.
  Qed.

  (* ---------------- the decision table, for a comparison that is total on a domain --------- *)
  Variable cmp : V -> V -> comparison.
  Variable Vok : V -> Prop.
  Hypothesis vcmp_cmp : forall a b, Vok a -> Vok b -> vcmp a b = Ok (cmp a b).

  Definition rel_dom (r : rel) : Prop := match r_ver r with Some (_, w) => Vok w | None => True end.
  Definition field_dom (f : field) : Prop := Forall (Forall rel_dom) f.
  Definition lookup_dom (pv : lookup) : Prop := forall n v, lookup_version pv n = Some v -> Vok v.

  Lemma op_test_spec o a w : Vok a -> Vok w -> op_test V vcmp o a w = Ok (op_holds o (cmp a w)).
  Proof.
    intros Ha Hw. destruct o; cbn [op_test]; unfold v_ge, v_le, v_eq, v_gt, v_lt, rmap;
      rewrite (vcmp_cmp a w Ha Hw); cbn [bind]; destruct (cmp a w); reflexivity.
  Qed.

  Lemma lossy_rel_spec r pv : rel_dom r -> lookup_dom pv ->
    lossy_rel_sat r pv = Ok (rel_ok cmp (lookup_version pv) r).
  Proof.
    intros Hr Hp. unfold lossy_relation_satisfied_by, rel_ok, rel_dom in *.
    destruct (r_ver r) as [[o w]|].
    - destruct (lookup_version pv (r_name r)) as [a|] eqn:E; [|reflexivity].
      apply op_test_spec; [eapply Hp; exact E|exact Hr].
    - destruct (lookup_version pv (r_name r)); reflexivity.
  Qed.

  Theorem lossy_spec f pv : field_dom f -> lookup_dom pv ->
    lossy_sat f pv = Ok (satisfied_spec cmp (lookup_version pv) f).
  Proof.
    intros Hf Hp. unfold lossy_relations_satisfied_by, satisfied_spec.
    apply iter_all_ok. intros e He. apply iter_any_ok. intros r Hr.
    apply lossy_rel_spec; [|exact Hp].
    unfold field_dom in Hf. rewrite Forall_forall in Hf. specialize (Hf e He).
    rewrite Forall_forall in Hf. apply Hf. exact Hr.
  Qed.

  Theorem ll_spec t f pv : tree_field t = Ok f -> field_dom f -> lookup_dom pv ->
    ll_sat t pv = Ok (satisfied_spec cmp (lookup_version pv) f).
  Proof. intros Ht Hf Hp. rewrite (ll_agree_lossy t f pv Ht). apply lossy_spec; assumption. Qed.

  (* the table in words *)
  Definition alt_satisfied (installed : str -> option V) (r : rel) : Prop :=
    exists v, installed (r_name r) = Some v /\
              match r_ver r with None => True | Some (o, w) => op_rel o (cmp v w) end.

  Theorem satisfied_spec_iff installed (f : field) :
    satisfied_spec cmp installed f = true <-> Forall (Exists (alt_satisfied installed)) f.
  Proof.
    unfold satisfied_spec. rewrite forallb_forall, Forall_forall. split; intros H e He; specialize (H e He).
    - apply existsb_exists in H. destruct H as (r & Hr & Hok). apply Exists_exists. exists r. split; [exact Hr|].
      unfold rel_ok in Hok. unfold alt_satisfied. destruct (installed (r_name r)) as [v|]; [|discriminate].
      exists v. split; [reflexivity|]. destruct (r_ver r) as [[o w]|]; [apply op_holds_rel; exact Hok|exact I].
    - apply Exists_exists in H. destruct H as (r & Hr & v & Hv & Hok). apply existsb_exists. exists r.
      split; [exact Hr|]. unfold rel_ok. rewrite Hv. destruct (r_ver r) as [[o w]|]; [apply op_holds_rel; exact Hok|reflexivity].
  Qed.

  (* ---------------- what the ordering laws buy ---------------- *)
  Hypothesis cmp_laws : cmp_ok cmp.

  (* versions the ordering does not distinguish are interchangeable as installed versions *)
  Lemma rel_ok_equiv (I J : str -> option V) r :
    (forall n, match I n, J n with
               | Some v, Some v' => cmp v v' = Eq
               | None, None => True
               | _, _ => False
               end) ->
    rel_ok cmp I r = rel_ok cmp J r.
  Proof.
    intros H. unfold rel_ok. specialize (H (r_name r)).
    destruct (I (r_name r)) as [v|], (J (r_name r)) as [v'|]; try contradiction; try reflexivity.
    destruct (r_ver r) as [[o w]|]; [|reflexivity].
    destruct cmp_laws as (_ & He & _). rewrite (He v v' w H). reflexivity.
  Qed.

  Theorem spec_equiv_installed (I J : str -> option V) (f : field) :
    (forall n, match I n, J n with
               | Some v, Some v' => cmp v v' = Eq
               | None, None => True
               | _, _ => False
               end) ->
    satisfied_spec cmp I f = satisfied_spec cmp J f.
  Proof.
    intros H. unfold satisfied_spec. induction f as [|e f IHf]; [reflexivity|].
    cbn [forallb]. rewrite IHf. f_equal.
    induction e as [|r e IH]; [reflexivity|]. cbn [existsb]. rewrite (rel_ok_equiv I J r H), IH. reflexivity.
  Qed.

  (* a lower bound stays satisfied when the installed version grows, an upper bound when it shrinks *)
  Theorem lower_bound_monotone v v' w :
    cmp v v' <> Gt -> op_holds OpGe (cmp v w) = true -> op_holds OpGe (cmp v' w) = true.
  Proof.
    intros Hle H. destruct cmp_laws as (Ha & _).
    assert (Hwv : cle cmp w v) by (unfold cle; rewrite (Ha v w); destruct (cmp v w); cbn in *; congruence).
    pose proof (cle_trans cmp cmp_laws w v v' Hwv Hle) as Hwv'. unfold cle in Hwv'.
    rewrite (Ha w v'). destruct (cmp w v'); cbn; congruence.
  Qed.

  Theorem upper_bound_monotone v v' w :
    cmp v' v <> Gt -> op_holds OpLe (cmp v w) = true -> op_holds OpLe (cmp v' w) = true.
  Proof.
    intros Hle H.
    assert (Hvw : cle cmp v w) by (unfold cle; destruct (cmp v w); cbn in *; congruence).
    pose proof (cle_trans cmp cmp_laws v' v w Hle Hvw) as H'. unfold cle in H'.
    destruct (cmp v' w); cbn; congruence.
  Qed.
End SatP.

(* ------------------------------------------------------------------ debversion::Version *)
From Coq Require Import String Ascii.
(* test strings for Examples *)
Fixpoint s2l (s : string) : str :=
  match s with EmptyString => [] | String a r => N_of_ascii a :: s2l r end.

Definition deb_ok (v : version) : Prop := ver_safe v = true.
Definition deb_tree_field := tree_field version parse_version.

Theorem deb_sat_spec t f pv :
  deb_tree_field t = Ok f -> field_dom version deb_ok f -> lookup_dom version deb_ok pv ->
  deb_ll_sat t pv = Ok (deb_spec (lookup_version pv) f) /\
  deb_lossy_sat f pv = Ok (deb_spec (lookup_version pv) f).
Proof.
  intros Ht Hf Hp. split.
  - apply (ll_spec version ver_cmp parse_version DebVersion.vcmp deb_ok ver_cmp_safe t f pv Ht Hf Hp).
  - apply (lossy_spec version ver_cmp DebVersion.vcmp deb_ok ver_cmp_safe f pv Hf Hp).
Qed.

(* the unguarded statement is false for debversion 0.4.4: a digit run above i32::MAX *)
Definition big_version : version := mk_version None (s2l "0~20240101123456") None.
Lemma deb_i32_witness :
  let f := [[mk_rel (s2l "a") (Some (OpGe, mk_version None (s2l "0~2024") None))]] in
  let pv := LPair (s2l "a") big_version in
  ver_safe big_version = false /\
  parse_version (s2l "0~20240101123456") = Some big_version /\
  deb_lossy_sat f pv = Panic 2%N /\
  deb_spec (lookup_version pv) f = true.
Proof. vm_compute. repeat split; reflexivity. Qed.

(* an operator that is none of the five: the strict reader accepts the field, the evaluator panics *)
Lemma deb_nonstandard_operator_witness :
  let s := s2l "a (> 1)" in
  exists t, relations_from_str s = Ok t /\
            Known_nonstandard_operator t /\
            names_present t /\ versions_readable version parse_version t /\
            deb_ll_sat t (LFn (fun _ => parse_version (s2l "2"))) = Panic 11%N.
Proof.
  cbv zeta.
  let x := eval vm_compute in (relations_from_str (s2l "a (> 1)")) in
  match x with Ok ?t => exists t; split; [vm_compute; reflexivity|] end.
  match goal with |- Known_nonstandard_operator ?t /\ _ =>
    let a := eval vm_compute in (alternatives t) in
    assert (Ha : alternatives t = a) by (vm_compute; reflexivity) end.
  unfold Known_nonstandard_operator, names_present, versions_readable. rewrite Ha.
  split; [|split; [|split]].
  - eexists _, _, _. split; [left; reflexivity|]. split; vm_compute; reflexivity.
  - intros r [<-|[]]. vm_compute. discriminate.
  - intros r cn vt [<-|[]] E. vm_compute in E. injection E as <- <-. vm_compute. discriminate.
  - vm_compute. reflexivity.
Qed.

(* ---- Display then FromStr gives the version back, for every version FromStr can produce ---- *)
Lemma num_app l : forall a r, num_of_digits a (l ++ r) = num_of_digits (num_of_digits a l) r.
Proof. induction l as [|x l IH]; intros a r; [reflexivity|]. cbn [app num_of_digits]. apply IH. Qed.

Lemma dec_digits_acc fuel : forall n acc, dec_digits fuel n acc = dec_digits fuel n [] ++ acc.
Proof.
  induction fuel as [|f IH]; intros n acc; [reflexivity|]. cbn [dec_digits].
  destruct (n <? 10)%N; [reflexivity|].
  rewrite (IH (n / 10)%N ((48 + n mod 10)%N :: acc)), (IH (n / 10)%N [(48 + n mod 10)%N]).
  rewrite <- app_assoc. reflexivity.
Qed.

Lemma is_digit_48 d : (d < 10)%N -> is_digit (48 + d) = true.
Proof. intros H. unfold is_digit. apply andb_true_iff. split; apply N.leb_le; lia. Qed.

Lemma log2_div10 n : (10 <= n)%N -> (N.log2 (n / 10) < N.log2 n)%N.
Proof.
  intros H. destruct (N.eq_dec (n / 10) 0) as [E|E].
  - rewrite E. cbn. apply N.log2_pos. lia.
  - assert (H2 : (2 * (n / 10) <= n)%N).
    { assert (10 * (n / 10) <= n)%N by (apply N.mul_div_le; lia). lia. }
    apply N.log2_le_mono in H2. rewrite N.log2_double in H2 by (apply N.neq_0_lt_0; exact E). lia.
Qed.

Lemma dec_digits_spec fuel : forall n, (N.log2 n < N.of_nat fuel)%N ->
  let ds := dec_digits fuel n [] in
  num_of_digits 0 ds = n /\ forallb is_digit ds = true /\ ds <> [].
Proof.
  induction fuel as [|f IH]; intros n Hf; [lia|]. cbn zeta. cbn [dec_digits].
  destruct (n <? 10)%N eqn:E.
  - apply N.ltb_lt in E. rewrite N.mod_small by exact E. cbn [num_of_digits forallb].
    rewrite is_digit_48 by exact E. repeat split; [lia|discriminate].
  - apply N.ltb_ge in E. rewrite dec_digits_acc.
    destruct (IH (n / 10)%N) as (H1 & H2 & H3).
    { pose proof (log2_div10 n E). lia. }
    rewrite num_app, H1. cbn [num_of_digits]. rewrite forallb_app, H2. cbn [forallb].
    rewrite is_digit_48 by (apply N.mod_lt; lia).
    repeat split.
    + pose proof (N.div_mod n 10 ltac:(lia)) as Hdm. revert Hdm. generalize (n / 10)%N (n mod 10)%N. intros q m Hdm. lia.
    + intros Hnil. apply app_eq_nil in Hnil. destruct Hnil. discriminate.
Qed.

Lemma show_dec_spec n :
  num_of_digits 0 (show_dec n) = n /\ forallb is_digit (show_dec n) = true /\ show_dec n <> [].
Proof. unfold show_dec. apply dec_digits_spec. lia. Qed.

Lemma span_digits_colon ds rest : forallb is_digit ds = true ->
  span is_digit (ds ++ 58%N :: rest) = (ds, 58%N :: rest).
Proof.
  induction ds as [|d ds IH]; intros H; [reflexivity|].
  cbn [forallb] in H. apply andb_true_iff in H. destruct H as [Hd Hr].
  cbn [app span]. rewrite Hd, (IH Hr). reflexivity.
Qed.

Lemma split_revision_join rest u r : split_revision rest = (u, r) ->
  u ++ (match r with Some x => 45%N :: x | None => [] end) = rest.
Proof.
  unfold split_revision. destruct (span (fun c => negb (c =? 45)%N) (rev rest)) as [tail_rev before_rev] eqn:E.
  pose proof (span_app _ _ _ _ E) as Happ. pose proof (span_stop _ _ _ _ E) as Hstop.
  destruct before_rev as [|c up_rev].
  - intros H. injection H as <- <-. apply app_nil_r.
  - destruct up_rev as [|y up_rev']; [intros H; injection H as <- <-; apply app_nil_r|].
    destruct (rev tail_rev) as [|z tl] eqn:Et; [intros H; injection H as <- <-; apply app_nil_r|].
    destruct (forallb is_revision_char (z :: tl)); intros H; injection H as <- <-; [|apply app_nil_r].
    apply negb_false_iff, N.eqb_eq in Hstop. subst c.
    rewrite <- (rev_involutive rest), <- Happ, rev_app_distr. cbn [rev]. rewrite <- Et, <- !app_assoc. reflexivity.
Qed.

Theorem parse_show_version text v : parse_version text = Some v -> parse_version (show_version v) = Some v.
Proof.
  unfold parse_version. destruct (span is_digit text) as [ds after] eqn:Es.
  set (we := match ds, after with
             | _ :: _, colon :: rest => if (colon =? 58)%N && body_ok rest then Some rest else None
             | _, _ => None end).
  destruct we as [rest|] eqn:Ew.
  - (* an epoch *)
    destruct (num_of_digits 0 ds <=? u32_max)%N eqn:Eu; [|discriminate].
    destruct (split_revision rest) as [u r] eqn:Er. intros H. injection H as <-.
    unfold show_version. cbn [epoch upstream revision].
    assert (Hb : body_ok rest = true).
    { subst we. destruct ds; [discriminate|]. destruct after as [|c a]; [discriminate|].
      destruct ((c =? 58)%N && body_ok a) eqn:Ec; [|discriminate]. injection Ew as ->.
      apply andb_true_iff in Ec. apply Ec. }
    rewrite (split_revision_join rest u r Er).
    destruct (show_dec_spec (num_of_digits 0 ds)) as (Hn & Hd & Hne).
    rewrite <- app_assoc. cbn [app]. rewrite (span_digits_colon _ rest Hd).
    destruct (show_dec (num_of_digits 0 ds)) as [|d0 dr] eqn:Esd; [congruence|].
    rewrite N.eqb_refl, Hb. cbn [andb]. rewrite Hn, Eu, Er. reflexivity.
  - (* no epoch: the printed text is the text that was read *)
    destruct (body_ok text) eqn:Eb; [|discriminate].
    destruct (split_revision text) as [u r] eqn:Er. intros H. injection H as <-.
    unfold show_version. cbn [epoch upstream revision app].
    rewrite (split_revision_join text u r Er), Es. fold we. rewrite Ew, Eb, Er. reflexivity.
Qed.

Definition readable_version (v : version) : Prop := exists text, parse_version text = Some v.
Definition readable_rel (r : rel version) : Prop :=
  match r_ver r with Some (_, v) => readable_version v | None => True end.

Lemma parse_version_empty : parse_version [] = None.
Proof. vm_compute. reflexivity. Qed.
Lemma readable_roundtrips r : readable_rel r -> rel_roundtrips version parse_version show_version r.
Proof.
  unfold readable_rel, rel_roundtrips. destruct (r_ver r) as [[o v]|]; [|trivial].
  intros [text H]. eapply parse_show_version. exact H.
Qed.

(* fields built through the constructors, or through set_version, from versions that were read
   from text: the typed view is the field *)
Theorem deb_constructed f : Forall (Forall readable_rel) f ->
  (exists t, deb_build_field f = Ok t /\ deb_tree_field t = Ok f) /\
  (exists t, deb_sv_field f = Ok t /\ deb_tree_field t = Ok f).
Proof.
  intros H.
  assert (H' : Forall (Forall (rel_roundtrips version parse_version show_version)) f).
  { eapply Forall_impl; [|exact H]. intros e He. eapply Forall_impl; [|exact He]. apply readable_roundtrips. }
  split.
  - apply (build_field_view version parse_version show_version parse_version_empty f H').
  - apply (sv_field_view version parse_version show_version parse_version_empty f H').
Qed.

(* set_version before the fix: GreaterThan / LessThan written with one character *)
Lemma deb_set_version_before_fix_refuted :
  exists one two t,
    parse_version (s2l "1") = Some one /\ parse_version (s2l "2") = Some two /\
    deb_sv_field_before_fix [[mk_rel (s2l "a") (Some (OpGt, one))]] = Ok t /\
    text t = s2l "a (> 1)" /\
    deb_ll_sat t (LPair (s2l "a") two) = Panic 11%N /\
    deb_spec (lookup_version (LPair (s2l "a") two)) [[mk_rel (s2l "a") (Some (OpGt, one))]] = true.
Proof.
  eexists _, _, _. split; [vm_compute; reflexivity|]. split; [vm_compute; reflexivity|].
  split; [vm_compute; reflexivity|]. repeat split; vm_compute; reflexivity.
Qed.

(* ------------------------------------------------------------------ the summary statement *)
Lemma find_last_in {V} (l : list (str * V)) n v : find_last l n = Some v -> exists k, In (k, v) l.
Proof.
  induction l as [|[k w] r IH]; cbn [find_last]; [discriminate|].
  destruct (find_last r n) as [u|] eqn:E.
  - intros H. injection H as ->. destruct (IH eq_refl) as [k' Hk]. exists k'. right. exact Hk.
  - destruct (str_eqb n k); [|discriminate]. intros H. injection H as ->. exists k. left. reflexivity.
Qed.

Lemma spec_ext {V} (cmp : V -> V -> comparison) (I J : str -> option V) (f : list (list (rel V))) :
  (forall n, I n = J n) -> satisfied_spec cmp I f = satisfied_spec cmp J f.
Proof.
  intros H. unfold satisfied_spec. induction f as [|e f IHf]; [reflexivity|]. cbn [forallb]. rewrite IHf. f_equal.
  induction e as [|r e IH]; [reflexivity|]. cbn [existsb]. rewrite IH. f_equal. unfold rel_ok. rewrite H. reflexivity.
Qed.

Definition safe_readable (v : version) : Prop := ver_safe v = true /\ readable_version v.
Definition good_rel (r : rel version) : Prop :=
  match r_ver r with Some (_, v) => safe_readable v | None => True end.

(* one field, one assignment, every evaluator and every lookup form: the same answer, and it is
   the decision table *)
Theorem deb_main (f : list (list (rel version))) (asg : list (str * version)) :
  Forall (Forall good_rel) f -> Forall (fun kv => ver_safe (snd kv) = true) asg ->
  let installed := find_last asg in
  let answer := deb_spec installed f in
  exists t_new t_set,
    deb_build_field f = Ok t_new /\ deb_sv_field f = Ok t_set /\
    deb_ll_sat t_new (LFn installed) = Ok answer /\ deb_ll_sat t_new (LMap (hm_of_list asg)) = Ok answer /\
    deb_ll_sat t_set (LFn installed) = Ok answer /\ deb_ll_sat t_set (LMap (hm_of_list asg)) = Ok answer /\
    deb_lossy_sat f (LFn installed) = Ok answer /\ deb_lossy_sat f (LMap (hm_of_list asg)) = Ok answer /\
    (forall n v, asg = [(n, v)] ->
       deb_ll_sat t_new (LPair n v) = Ok answer /\ deb_ll_sat t_set (LPair n v) = Ok answer /\
       deb_lossy_sat f (LPair n v) = Ok answer).
Proof.
  intros Hf Ha installed answer.
  assert (Hread : Forall (Forall readable_rel) f).
  { eapply Forall_impl; [|exact Hf]. intros e He. eapply Forall_impl; [|exact He].
    intros r. unfold good_rel, readable_rel. destruct (r_ver r) as [[o v]|]; [intros [_ H]; exact H|trivial]. }
  assert (Hdom : field_dom version deb_ok f).
  { eapply Forall_impl; [|exact Hf]. intros e He. eapply Forall_impl; [|exact He].
    intros r. unfold good_rel, rel_dom. destruct (r_ver r) as [[o v]|]; [intros [H _]; exact H|trivial]. }
  destruct (deb_constructed f Hread) as [(t1 & B1 & V1) (t2 & B2 & V2)].
  assert (Hfn : lookup_dom version deb_ok (LFn installed)).
  { intros n v H. cbn [lookup_version] in H. destruct (find_last_in asg n v H) as [k Hk].
    rewrite Forall_forall in Ha. apply (Ha (k, v) Hk). }
  assert (Hsame : forall n, lookup_version (LMap (hm_of_list asg)) n = lookup_version (LFn installed) n).
  { intros n. apply lookup_map_of_list. }
  exists t1, t2. split; [exact B1|]. split; [exact B2|].
  destruct (deb_sat_spec t1 f (LFn installed) V1 Hdom Hfn) as [L1 Y1].
  destruct (deb_sat_spec t2 f (LFn installed) V2 Hdom Hfn) as [L2 _].
  cbn [lookup_version] in L1, L2, Y1. fold installed in L1, L2, Y1.
  split; [exact L1|]. split.
  { unfold deb_ll_sat. rewrite (ll_sat_ext version ver_cmp parse_version t1 _ _ Hsame). exact L1. }
  split; [exact L2|]. split.
  { unfold deb_ll_sat. rewrite (ll_sat_ext version ver_cmp parse_version t2 _ _ Hsame). exact L2. }
  split; [exact Y1|]. split.
  { unfold deb_lossy_sat. rewrite (lossy_sat_ext version ver_cmp f _ _ Hsame). exact Y1. }
  intros n v ->.
  assert (Hp : forall m, lookup_version (LPair n v) m = lookup_version (LFn installed) m).
  { intros m. subst installed. cbn [lookup_version find_last]. reflexivity. }
  split; [|split].
  - unfold deb_ll_sat. rewrite (ll_sat_ext version ver_cmp parse_version t1 _ _ Hp). exact L1.
  - unfold deb_ll_sat. rewrite (ll_sat_ext version ver_cmp parse_version t2 _ _ Hp). exact L2.
  - unfold deb_lossy_sat. rewrite (lossy_sat_ext version ver_cmp f _ _ Hp). exact Y1.
Qed.

(* ------------------------------------------------------------------ statements assembled for props/C12.v *)
Lemma c12_spec :
  forall (V : Type) (vcmp : V -> V -> res comparison) (vparse : str -> option V)
         (cmp : V -> V -> comparison) (Vok : V -> Prop),
  (forall a b, Vok a -> Vok b -> vcmp a b = Ok (cmp a b)) ->
  forall (t : rtree) (f : list (list (rel V))) (pv : lookup V),
  tree_field V vparse t = Ok f -> field_dom V Vok f -> lookup_dom V Vok pv ->
  ll_relations_satisfied_by V vcmp vparse t pv = Ok (satisfied_spec cmp (lookup_version pv) f) /\
  lossy_relations_satisfied_by V vcmp f pv = Ok (satisfied_spec cmp (lookup_version pv) f).
Proof.
  intros V vcmp vparse cmp Vok H t f pv Ht Hf Hp. split.
  - exact (ll_spec V vcmp vparse cmp Vok H t f pv Ht Hf Hp).
  - exact (lossy_spec V vcmp cmp Vok H f pv Hf Hp).
Qed.

Lemma c12_table_in_words :
  forall (V : Type) (cmp : V -> V -> comparison) (installed : str -> option V) (f : list (list (rel V))),
  satisfied_spec cmp installed f = true <->
  Forall (Exists (fun r => exists v, installed (r_name r) = Some v /\
                           match r_ver r with
                           | None => True
                           | Some (OpLt, w) => cmp v w = Lt
                           | Some (OpLe, w) => cmp v w = Lt \/ cmp v w = Eq
                           | Some (OpEq, w) => cmp v w = Eq
                           | Some (OpGe, w) => cmp v w = Gt \/ cmp v w = Eq
                           | Some (OpGt, w) => cmp v w = Gt
                           end)) f.
Proof.
  intros V cmp installed f. rewrite (satisfied_spec_iff V cmp installed f).
  rewrite !Forall_forall. split; intros H e He; specialize (H e He); rewrite Exists_exists in *;
    destruct H as (r & Hr & v & Hv & H); exists r; (split; [exact Hr|]); exists v; (split; [exact Hv|]);
    destruct (r_ver r) as [[[] w]|]; exact H.
Qed.

Lemma c12_lookup :
  forall (V : Type) (vcmp : V -> V -> res comparison) (vparse : str -> option V),
  (forall (t : rtree) (f : list (list (rel V))) (p q : lookup V),
     (forall n, lookup_version p n = lookup_version q n) ->
     ll_relations_satisfied_by V vcmp vparse t p = ll_relations_satisfied_by V vcmp vparse t q /\
     lossy_relations_satisfied_by V vcmp f p = lossy_relations_satisfied_by V vcmp f q) /\
  (forall (l : list (str * V)) n, lookup_version (LMap (hm_of_list l)) n = find_last l n) /\
  (forall (m : list (str * V)) n, lookup_version (LMap m) n = lookup_version (LFn (hm_get m)) n) /\
  (forall (k : str) (v : V) n,
     lookup_version (LPair k v) n = lookup_version (LFn (fun n' => if str_eqb n' k then Some v else None)) n /\
     lookup_version (LPair k v) n = lookup_version (LMap (hm_of_list [(k, v)])) n).
Proof.
  intros V vcmp vparse. split; [|split; [|split]].
  - intros t f p q H. split; [apply ll_sat_ext; exact H|apply lossy_sat_ext; exact H].
  - apply lookup_map_of_list.
  - reflexivity.
  - intros k v n. split; [reflexivity|]. rewrite lookup_map_of_list. cbn [lookup_version find_last].
    reflexivity.
Qed.

Lemma c12_order_consequences :
  forall (V : Type) (cmp : V -> V -> comparison), cmp_ok cmp ->
  (forall (I J : str -> option V) (f : list (list (rel V))),
     (forall n, match I n, J n with
                | Some v, Some v' => cmp v v' = Eq
                | None, None => True
                | _, _ => False
                end) ->
     satisfied_spec cmp I f = satisfied_spec cmp J f) /\
  (forall v v' w, cmp v v' <> Gt -> op_holds OpGe (cmp v w) = true -> op_holds OpGe (cmp v' w) = true) /\
  (forall v v' w, cmp v' v <> Gt -> op_holds OpLe (cmp v w) = true -> op_holds OpLe (cmp v' w) = true) /\
  (forall c, op_holds OpGe c = negb (op_holds OpLt c) /\ op_holds OpLe c = negb (op_holds OpGt c) /\
             op_holds OpEq c = op_holds OpLe c && op_holds OpGe c).
Proof.
  intros V cmp H. split; [|split; [|split]].
  - apply spec_equiv_installed. exact H.
  - apply lower_bound_monotone. exact H.
  - apply upper_bound_monotone. exact H.
  - intros c. split; [apply op_ge_not_lt|split; [apply op_le_not_gt|apply op_eq_le_ge]].
Qed.

Lemma c12_debversion_safe :
  forall x y, ver_safe x = true -> ver_safe y = true ->
  ver_cmp x y = Ok (DebVersion.vcmp x y) /\ ver_eq x y = Ok (veq x y).
Proof. intros x y Hx Hy. split; [apply ver_cmp_safe|apply ver_eq_safe]; assumption. Qed.

Lemma c12_full_refuted :
  ~ (forall (t : rtree) (f : list (list (rel version))) (pv : lookup version),
     tree_field version parse_version t = Ok f ->
     deb_ll_sat t pv = Ok (deb_spec (lookup_version pv) f) /\
     deb_lossy_sat f pv = Ok (deb_spec (lookup_version pv) f)).
Proof.
  intros H.
  pose (w := mk_version None (s2l "0~2024") None).
  pose (f := [[mk_rel (s2l "a") (Some (OpGe, w))]]).
  destruct (build_field_view version parse_version show_version parse_version_empty f) as (t & _ & Ht).
  { repeat constructor. }
  destruct (H t f (LPair (s2l "a") big_version) Ht) as [_ H2].
  vm_compute in H2. discriminate.
Qed.
