(* Wrap-and-sort on the well-formed relationship fields of RelGrammar.v (C13): the accessor
   content of rtree_of f, the canonical field canon_field f (well-formed, its text is the canonical
   text of the sorted content, its content is a permutation of f's), and the theorems of
   props/C13.v assembled from RelWrapP.v and C10's theorems. *)
From Coq Require Import Permutation Sorted.
From V.model Require Import Base RelLex RelParse RelAcc RelGrammar RelWrap RelWrapSpec.
From V.model Require DebVersion Sat.
From V.proofs Require Import BaseP DebVersionP SatP RelGrammarLexP RelGrammarParseP RelGrammarAccP RelWrapSortP RelWrapP.

(* ------------------------------------------------------------------ decimal numerals: the two readers
   (RelAcc.uint_of_digits via Coq's Decimal, DebVersion.num_of_digits) and the printer Sat.show_dec *)
Lemma is_digit_same c : DebVersion.is_digit c = is_digit c.
Proof. reflexivity. Qed.

Lemma num_acc e : forall acc, forallb is_digit e = true ->
  Npos (Pos.of_uint_acc (uint_of_digits e) acc) = DebVersion.num_of_digits (Npos acc) e.
Proof.
  induction e as [|c r IH]; intros acc H; [reflexivity|].
  cbn [forallb] in H. apply andb_true_iff in H. destruct H as [Hc Hr].
  cbn [uint_of_digits DebVersion.num_of_digits].
  destruct (digit_cases c Hc) as [->|[->|[->|[->|[->|[->|[->|[->|[->| ->]]]]]]]]];
    cbn [N.sub Pos.sub Pos.sub_mask Pos.pred_double Pos.succ_double_mask Pos.double_mask Pos.double_pred_mask Pos.of_uint_acc];
    rewrite (IH _ Hr); f_equal; lia.
Qed.

Lemma num_uint e : forallb is_digit e = true ->
  N.of_uint (uint_of_digits e) = DebVersion.num_of_digits 0 e.
Proof.
  induction e as [|c r IH]; intros H; [reflexivity|].
  cbn [forallb] in H. apply andb_true_iff in H. destruct H as [Hc Hr].
  cbn [uint_of_digits DebVersion.num_of_digits]. unfold N.of_uint.
  destruct (digit_cases c Hc) as [->|[->|[->|[->|[->|[->|[->|[->|[->| ->]]]]]]]]];
    cbn [N.sub Pos.sub Pos.sub_mask Pos.pred_double Pos.succ_double_mask Pos.double_mask Pos.double_pred_mask Pos.of_uint N.mul N.add];
    [exact (IH Hr)|..]; rewrite (num_acc r _ Hr); reflexivity.
Qed.

Lemma num_ge r : forall acc, (acc <= DebVersion.num_of_digits acc r)%N.
Proof.
  induction r as [|c r IH]; intros acc; cbn [DebVersion.num_of_digits]; [lia|].
  specialize (IH (acc * 10 + (c - 48))%N). lia.
Qed.

Definition canon_digits (e : str) : Prop :=
  forallb is_digit e = true /\ e <> [] /\ match e with c :: _ :: _ => negb (c =? 48)%N | _ => true end = true.

Lemma dec_digits_canon e : canon_digits e -> forall fuel,
  (N.log2 (DebVersion.num_of_digits 0 e) < N.of_nat fuel)%N ->
  Sat.dec_digits fuel (DebVersion.num_of_digits 0 e) [] = e.
Proof.
  induction e as [|d e' IH] using rev_ind; intros (Hd & Hne & Hc) fuel Hf; [congruence|].
  rewrite forallb_app in Hd. apply andb_true_iff in Hd. destruct Hd as [Hd' Hdd]. cbn [forallb] in Hdd. rewrite andb_true_r in Hdd.
  rewrite num_app in *. cbn [DebVersion.num_of_digits] in *.
  set (q := DebVersion.num_of_digits 0 e') in *.
  assert (Hm : (d - 48 < 10)%N).
  { unfold is_digit in Hdd. apply andb_true_iff in Hdd. destruct Hdd as [H1 H2]. apply N.leb_le in H1, H2. lia. }
  assert (Hd48 : (48 + (d - 48) = d)%N).
  { unfold is_digit in Hdd. apply andb_true_iff in Hdd. destruct Hdd as [H1 H2]. apply N.leb_le in H1. lia. }
  destruct fuel as [|f]; [lia|]. cbn [Sat.dec_digits].
  destruct e' as [|c r].
  - subst q. cbn [DebVersion.num_of_digits app]. change (0 * 10 + (d - 48))%N with (d - 48)%N.
    rewrite N.mod_small by exact Hm. rewrite Hd48. apply N.ltb_lt in Hm. rewrite Hm. reflexivity.
  - assert (Hc48 : c <> 48%N).
    { cbn [app] in Hc. destruct (r ++ [d]) eqn:E; [destruct r; discriminate|]. apply negb_true_iff, N.eqb_neq in Hc. exact Hc. }
    assert (Hq : (1 <= q)%N).
    { subst q. cbn [DebVersion.num_of_digits]. cbn [forallb] in Hd'. apply andb_true_iff in Hd'. destruct Hd' as [Hcd _].
      pose proof (num_ge r (0 * 10 + (c - 48))%N). unfold is_digit in Hcd. apply andb_true_iff in Hcd. destruct Hcd as [H1 H2].
      apply N.leb_le in H1, H2. lia. }
    assert (Hlt : (q * 10 + (d - 48) <? 10)%N = false) by (apply N.ltb_ge; lia).
    rewrite Hlt.
    assert (Ediv : ((q * 10 + (d - 48)) / 10 = q)%N).
    { symmetry. apply (N.div_unique _ 10 q (d - 48)); lia. }
    assert (Emod : ((q * 10 + (d - 48)) mod 10 = d - 48)%N).
    { symmetry. apply (N.mod_unique _ 10 q (d - 48)); lia. }
    rewrite Ediv, Emod, Hd48, dec_digits_acc. f_equal.
    apply IH.
    + split; [exact Hd'|]. split; [discriminate|]. destruct r as [|c' r']; [reflexivity|].
      apply negb_true_iff, N.eqb_neq. exact Hc48.
    + assert (H10 : (10 <= q * 10 + (d - 48))%N) by lia. pose proof (log2_div10 _ H10) as Hl. rewrite Ediv in Hl. lia.
Qed.

Lemma show_dec_canon e : canon_digits e -> Sat.show_dec (DebVersion.num_of_digits 0 e) = e.
Proof. intros H. unfold Sat.show_dec. apply dec_digits_canon; [exact H|lia]. Qed.

Lemma epoch_canon e : epoch_ok e = true ->
  canon_digits e /\ (DebVersion.num_of_digits 0 e <= DebVersion.u32_max)%N.
Proof.
  unfold epoch_ok. intros H. andb_split H.
  assert (Hne : e <> []) by (destruct e; [discriminate|discriminate]).
  split; [split; [exact W1|split; [exact Hne|exact W0]]|].
  rewrite <- (num_uint e W1). apply N.leb_le in W. exact W.
Qed.

(* ------------------------------------------------------------------ debversion on the versions of the grammar:
   FromStr accepts them and Display prints the same text *)
Lemma ident_upstream_char c : is_ident_char c = true -> DebVersion.is_upstream_char c = true.
Proof.
  unfold is_ident_char, DebVersion.is_upstream_char, DebVersion.is_alnum, DebVersion.is_digit, DebVersion.is_alpha, is_ascii_alnum.
  intros H. repeat rewrite ?orb_true_iff, ?andb_true_iff, ?N.leb_le, ?N.eqb_eq in *. lia.
Qed.
Lemma ident_upstream s : forallb is_ident_char s = true -> forallb DebVersion.is_upstream_char s = true.
Proof.
  intros H. rewrite forallb_forall in *. intros c Hc. apply ident_upstream_char, H, Hc.
Qed.
Lemma pieces_upstream ps : forallb ident_ok ps = true ->
  forallb DebVersion.is_upstream_char (flat_map (fun p => 58%N :: p) ps) = true.
Proof.
  induction ps as [|p r IH]; intros H; [reflexivity|]. cbn [forallb] in H. apply andb_true_iff in H. destruct H as [Hp Hr].
  cbn [flat_map app forallb]. rewrite forallb_app, (IH Hr), andb_true_r.
  destruct (ident_ok_inv p Hp) as (c & w & -> & Hc & Hw).
  cbn [forallb]. rewrite (ident_upstream_char c Hc), (ident_upstream w Hw). reflexivity.
Qed.

Lemma span_digits_stop s : forallb is_ident_char s = true ->
  forall ds after, span DebVersion.is_digit s = (ds, after) ->
  match ds, after with
  | _ :: _, colon :: rest => if (colon =? 58)%N && DebVersion.body_ok rest then Some rest else None
  | _, _ => None
  end = None.
Proof.
  intros Hs ds after E. destruct ds; [reflexivity|]. destruct after as [|colon rest]; [reflexivity|].
  pose proof (span_app _ _ _ _ E) as Happ. rewrite <- Happ, forallb_app in Hs. apply andb_true_iff in Hs. destruct Hs as [_ Hs].
  cbn [forallb] in Hs. apply andb_true_iff in Hs. destruct Hs as [Hc _].
  rewrite (ident_not_colon colon Hc). reflexivity.
Qed.

Theorem version_print_read v : vclause_ok v = true ->
  exists pv, DebVersion.parse_version (vtext v) = Some pv /\ Sat.show_version pv = vtext v.
Proof.
  intros H. destruct (vclause_ok_inv v H) as (_ & _ & _ & _ & He & Hv & Hm & Hnone).
  destruct (ident_ok_inv _ Hv) as (c0 & w0 & Ev & Hc0 & Hw0).
  unfold vtext. destruct (v_epoch v) as [e|] eqn:Ee.
  - cbn [opt_ok] in He. destruct (epoch_canon e He) as (Hcan & Hu32). pose proof Hcan as (Hd & Hne & _).
    set (rest := v_ver v ++ flat_map (fun p => 58%N :: p) (v_more v)).
    assert (Hb : DebVersion.body_ok rest = true).
    { subst rest. rewrite Ev. cbn [app DebVersion.body_ok forallb]. rewrite forallb_app.
      rewrite (ident_upstream_char c0 Hc0), (ident_upstream w0 Hw0), (pieces_upstream _ Hm). reflexivity. }
    replace ((e ++ [58%N]) ++ rest) with (e ++ 58%N :: rest) by (rewrite <- app_assoc; reflexivity).
    unfold DebVersion.parse_version. rewrite (span_digits_colon e rest Hd).
    destruct e as [|d0 dr] eqn:Ed; [congruence|]. rewrite <- Ed in *. rewrite N.eqb_refl, Hb. cbn [andb].
    apply N.leb_le in Hu32. rewrite Hu32.
    destruct (DebVersion.split_revision rest) as [u r] eqn:Er.
    eexists. split; [reflexivity|]. unfold Sat.show_version. cbn [DebVersion.epoch DebVersion.upstream DebVersion.revision].
    rewrite (show_dec_canon e Hcan), (split_revision_join rest u r Er), <- app_assoc. reflexivity.
  - rewrite (Hnone eq_refl). cbn [flat_map app]. rewrite app_nil_r.
    assert (Hall : forallb is_ident_char (v_ver v) = true) by (rewrite Ev; cbn [forallb]; rewrite Hc0, Hw0; reflexivity).
    unfold DebVersion.parse_version. destruct (span DebVersion.is_digit (v_ver v)) as [ds after] eqn:Es.
    rewrite (span_digits_stop _ Hall ds after Es).
    assert (Hb : DebVersion.body_ok (v_ver v) = true).
    { rewrite Ev. cbn [DebVersion.body_ok forallb]. rewrite (ident_upstream_char c0 Hc0), (ident_upstream w0 Hw0). reflexivity. }
    rewrite Hb. destruct (DebVersion.split_revision (v_ver v)) as [u r] eqn:Er.
    eexists. split; [reflexivity|]. unfold Sat.show_version. cbn [DebVersion.epoch DebVersion.upstream DebVersion.revision app].
    apply (split_revision_join _ u r Er).
Qed.

Lemma wver_of_some v : vclause_ok v = true ->
  exists pv, wver_of v = Some (v_op v, pv) /\ DebVersion.parse_version (vtext v) = Some pv /\ Sat.show_version pv = vtext v.
Proof.
  intros H. destruct (version_print_read v H) as (pv & Hp & Hs). exists pv. unfold wver_of. rewrite Hp. auto.
Qed.

(* ------------------------------------------------------------------ the accessors on a relation tree *)
Lemma accp_ver r last : wf_rel r = true ->
  relation_version_p (rel_tree r last) = Ok (match r_ver r with Some v => wver_of v | None => None end).
Proof.
  intros H. unfold wf_rel in H. andb_split H.
  unfold relation_version_p. rewrite fn_rel by discriminate. cbn [rkind_eqb rkind_code N.eqb Pos.eqb].
  destruct (r_ver r) as [v|]; cbn [option_map]; [|reflexivity].
  cbn [opt_ok] in W2. pose proof W2 as Hvok. destruct (vclause_ok_inv v W2) as (_ & _ & _ & _ & _ & W4 & _ & _).
  cbn [vnode children first_node_of_kind]. rewrite first_node_app, fn_ws.
  cbn [app first_node_of_kind rkind_eqb rkind_code N.eqb Pos.eqb].
  assert (E : version_text_of
      (Tok L_PARENS [40%N] :: ws_elems (v_ws1 v) ++ Node CONSTRAINT (elems (vop_toks (v_op v)))
        :: ws_elems (v_ws2 v) ++ elems (vtext_toks v) ++ ws_elems (v_ws3 v) ++ [Tok R_PARENS [41%N]]) = vtext v).
  { change (version_text_of (Tok L_PARENS [40%N] :: ?x)) with (version_text_of x).
    rewrite version_text_app, version_text_ws. cbn [app].
    change (version_text_of (Node CONSTRAINT ?l :: ?x)) with (version_text_of x).
    rewrite !version_text_app, !version_text_ws, version_text_vtoks. cbn [app]. rewrite app_nil_r. reflexivity. }
  rewrite E.
  destruct (vtext v) as [|c0 w0] eqn:Ev; [destruct (vtext_nonempty v W4 Ev)|]. rewrite <- Ev.
  replace (vop_of_text (text (Node CONSTRAINT (elems (vop_toks (v_op v)))))) with (Some (v_op v))
    by (destruct (v_op v); reflexivity).
  destruct (wver_of_some v Hvok) as (pv & Ew & Ep & _). rewrite Ep, Ew. reflexivity.
Qed.

Theorem relation_wacc_rel r last : wf_rel r = true -> relation_wacc (rel_tree r last) = Ok (wrel_of r).
Proof.
  intros H. unfold relation_wacc. rewrite acc_name, (accp_ver r last H), acc_qual, acc_archs, (acc_profs r last H). reflexivity.
Qed.

(* ------------------------------------------------------------------ the shape of rtree_of f *)
Fixpoint rels_trees (r : rel) (alts : list (str * rel)) (last : bool) : list rtree :=
  match alts with
  | [] => [rel_tree r last]
  | (_, r') :: alts' => rel_tree r false :: rels_trees r' alts' last
  end.

Lemma nodes_rels_elems alts : forall r last, nodes_of RELATION (rels_elems r alts last) = rels_trees r alts last.
Proof.
  induction alts as [|[w r'] alts IH]; intros r last; cbn [rels_elems rels_trees].
  - change (nodes_of RELATION (rel_tree r last :: ?x)) with (rel_tree r last :: nodes_of RELATION x).
    replace (nodes_of RELATION (if last then ws_elems (rel_left r last) else [])) with (@nil rtree)
      by (destruct last; [symmetry; apply nodes_of_ws|reflexivity]).
    reflexivity.
  - change (nodes_of RELATION (rel_tree r false :: ?x)) with (rel_tree r false :: nodes_of RELATION x).
    rewrite nodes_of_app, nodes_of_ws. cbn [app].
    change (nodes_of RELATION (Tok PIPE [124%N] :: ?x)) with (nodes_of RELATION x).
    rewrite nodes_of_app, nodes_of_ws. cbn [app]. rewrite IH. reflexivity.
Qed.

Lemma res_map_rels_trees alts : forall r last, wf_rel r = true -> forallb wf_alt alts = true ->
  res_map relation_wacc (rels_trees r alts last) = Ok (map wrel_of (r :: map snd alts)).
Proof.
  induction alts as [|[w r'] alts IH]; intros r last Hr Ha; cbn [rels_trees res_map map snd].
  - rewrite (relation_wacc_rel r last Hr). reflexivity.
  - cbn [forallb] in Ha. apply andb_true_iff in Ha. destruct Ha as [Hwr Ha]. unfold wf_alt in Hwr. cbn [fst snd] in Hwr.
    apply andb_true_iff in Hwr. destruct Hwr as [_ Hr'].
    rewrite (relation_wacc_rel r false Hr), (IH r' last Hr' Ha). reflexivity.
Qed.

Lemma entry_wacc_entry r alts last : wf_rel r = true -> forallb wf_alt alts = true ->
  entry_wacc (Node ENTRY (rels_elems r alts last)) = Ok (map wrel_of (r :: map snd alts)).
Proof.
  intros Hr Ha. unfold entry_wacc, entry_relations, r_relations, rnodes_of_kind. cbn [children].
  fold (nodes_of RELATION (rels_elems r alts last)). rewrite nodes_rels_elems. apply res_map_rels_trees; assumption.
Qed.

Lemma field_wentries a more : forall i, wf_item a i = true -> forallb (wf_more a) more = true ->
  res_map entry_wacc (nodes_of ENTRY (items_elems i more)) =
  Ok (map (map wrel_of) (flat_map item_rels (i :: map snd more))).
Proof.
  induction more as [|[w i'] more IH]; intros i Hi Hm; cbn [items_elems is_nil].
  - rewrite app_nil_r. destruct i as [r alts|seg segs trail|]; cbn [item_elems item_rels flat_map map app wf_item] in *.
    + change (nodes_of ENTRY (Node ENTRY ?c :: ?x)) with (Node ENTRY c :: nodes_of ENTRY x).
      rewrite nodes_of_ws. cbn [res_map]. apply andb_true_iff in Hi. destruct Hi as [Hr Ha].
      rewrite (entry_wacc_entry r alts true Hr Ha). reflexivity.
    + change (nodes_of ENTRY (subst_node seg segs :: ?x)) with (nodes_of ENTRY x). rewrite nodes_of_ws. reflexivity.
    + reflexivity.
  - cbn [forallb] in Hm. apply andb_true_iff in Hm. destruct Hm as [Hwi Hm]. unfold wf_more in Hwi. cbn [fst snd] in Hwi.
    apply andb_true_iff in Hwi. destruct Hwi as [_ Hi']. specialize (IH i' Hi' Hm).
    rewrite nodes_of_app. change (nodes_of ENTRY (Tok COMMA [44%N] :: ?x)) with (nodes_of ENTRY x).
    rewrite nodes_of_app, nodes_of_ws. cbn [app map snd flat_map] in IH |- *.
    destruct i as [r alts|seg segs trail|]; cbn [item_elems item_rels app map wf_item] in *.
    + change (nodes_of ENTRY (Node ENTRY ?c :: ?x)) with (Node ENTRY c :: nodes_of ENTRY x).
      rewrite nodes_of_ws. cbn [app res_map]. apply andb_true_iff in Hi. destruct Hi as [Hr Ha].
      rewrite (entry_wacc_entry r alts false Hr Ha), IH. reflexivity.
    + change (nodes_of ENTRY (subst_node seg segs :: ?x)) with (nodes_of ENTRY x). rewrite nodes_of_ws. exact IH.
    + exact IH.
Qed.

Theorem wacc_rtree_of a f : wf_rfield a f = true -> wacc (rtree_of f) = Ok (field_wcontent f).
Proof.
  intros H. unfold wf_rfield in H. andb_split H.
  unfold wacc, relations_entries, r_entries, rnodes_of_kind, rtree_of. cbn [children].
  fold (nodes_of ENTRY (ws_elems (f_lead f) ++ items_elems (f_first f) (f_rest f))).
  rewrite nodes_of_app, nodes_of_ws. cbn [app].
  rewrite (field_wentries a (f_rest f) (f_first f) W0 W). reflexivity.
Qed.

Lemma field_subst_nodes more : forall i,
  nodes_of SUBSTVAR (items_elems i more) =
  map (fun s => subst_node (fst s) (snd s)) (flat_map item_subst (i :: map snd more)).
Proof.
  induction more as [|[w i'] more IH]; intros i; cbn [items_elems is_nil].
  - rewrite app_nil_r. destruct i as [r alts|seg segs trail|]; cbn [item_elems item_subst flat_map map app].
    + change (nodes_of SUBSTVAR (Node ENTRY ?c :: ?x)) with (nodes_of SUBSTVAR x). rewrite nodes_of_ws. reflexivity.
    + change (nodes_of SUBSTVAR (subst_node seg segs :: ?x)) with (subst_node seg segs :: nodes_of SUBSTVAR x).
      rewrite nodes_of_ws. reflexivity.
    + reflexivity.
  - specialize (IH i'). rewrite nodes_of_app. change (nodes_of SUBSTVAR (Tok COMMA [44%N] :: ?x)) with (nodes_of SUBSTVAR x).
    rewrite nodes_of_app, nodes_of_ws. cbn [app map snd flat_map] in IH |- *. rewrite map_app, <- IH.
    destruct i as [r alts|seg segs trail|]; cbn [item_elems item_subst app map].
    + change (nodes_of SUBSTVAR (Node ENTRY ?c :: ?x)) with (nodes_of SUBSTVAR x). rewrite nodes_of_ws. reflexivity.
    + change (nodes_of SUBSTVAR (subst_node seg segs :: ?x)) with (subst_node seg segs :: nodes_of SUBSTVAR x).
      rewrite nodes_of_ws. reflexivity.
    + reflexivity.
Qed.

Theorem substvar_nodes_rtree_of f :
  substvar_nodes (rtree_of f) = map (fun s => subst_node (fst s) (snd s)) (field_substs f).
Proof.
  unfold substvar_nodes, rnodes_of_kind, rtree_of. cbn [children].
  fold (nodes_of SUBSTVAR (ws_elems (f_lead f) ++ items_elems (f_first f) (f_rest f))).
  rewrite nodes_of_app, nodes_of_ws. cbn [app]. apply field_subst_nodes.
Qed.

(* ------------------------------------------------------------------ canonicalising a relation keeps its content *)
Lemma canon_terms_arch b l : map term_arch (canon_terms b l) = map term_arch l.
Proof. revert b. induction l as [|t r IH]; intros b; [reflexivity|]. cbn [canon_terms map]. rewrite IH. reflexivity. Qed.
Lemma canon_terms_profile b l : map term_profile (canon_terms b l) = map term_profile l.
Proof. revert b. induction l as [|t r IH]; intros b; [reflexivity|]. cbn [canon_terms map]. rewrite IH. reflexivity. Qed.
Lemma canon_terms_acc b l :
  map (fun t => arch_acc_text (term_arch t)) (canon_terms b l) = map (fun t => arch_acc_text (term_arch t)) l.
Proof. revert b. induction l as [|t r IH]; intros b; [reflexivity|]. cbn [canon_terms map]. rewrite IH. reflexivity. Qed.

Lemma vtext_canon v : vtext (canon_vclause v) = vtext v.
Proof. reflexivity. Qed.
Lemma wver_of_canon v : wver_of (canon_vclause v) = wver_of v.
Proof. reflexivity. Qed.

Lemma wrel_of_canon t r : wrel_of (canon_r t r) = wrel_of r.
Proof.
  unfold wrel_of, canon_r. cbn [r_name r_qual r_ver r_archs r_profs]. f_equal.
  - destruct (r_qual r); reflexivity.
  - destruct (r_ver r); reflexivity.
  - destruct (r_archs r) as [g|]; [|reflexivity]. cbn [option_map canon_group g_terms]. rewrite canon_terms_acc. reflexivity.
  - rewrite map_map. apply map_ext. intros g. cbn [canon_group g_terms]. apply canon_terms_profile.
Qed.

Lemma rel_content_canon t r : rel_content (canon_r t r) = rel_content r.
Proof.
  unfold rel_content, canon_r. cbn [r_name r_qual r_ver r_archs r_profs]. f_equal.
  - destruct (r_qual r); reflexivity.
  - destruct (r_ver r); reflexivity.
  - destruct (r_archs r) as [g|]; [|reflexivity]. cbn [option_map canon_group g_terms]. rewrite canon_terms_arch. reflexivity.
  - rewrite map_map. apply map_ext. intros g. cbn [canon_group g_terms]. apply canon_terms_profile.
Qed.

(* ... and is well-formed *)
Lemma canon_terms_ok l : forallb (fun t => ident_ok (t_name t)) l = true ->
  forall b, match l with [] => true | t :: r => term_ok b (mk_term (if b then [] else [32%N]) (t_neg t) (t_name t))
                                               && forallb (term_ok false) (canon_terms false r) end = true.
Proof.
  induction l as [|t r IH]; intros H b; [reflexivity|]. cbn [forallb] in H. apply andb_true_iff in H. destruct H as [Ht Hr].
  apply andb_true_iff. split.
  - unfold term_ok. cbn [t_ws t_name]. rewrite Ht. destruct b; reflexivity.
  - specialize (IH Hr false). destruct r as [|t' r']; [reflexivity|]. cbn [canon_terms forallb]. exact IH.
Qed.

Lemma terms_names_ok l : terms_ok l = true -> forallb (fun t => ident_ok (t_name t)) l = true.
Proof.
  unfold terms_ok. destruct l as [|t r]; [discriminate|]. intros H. apply andb_true_iff in H. destruct H as [Ht Hr].
  cbn [forallb]. apply andb_true_iff. split.
  - unfold term_ok in Ht. andb_split Ht. exact W.
  - rewrite forallb_forall in *. intros x Hx. specialize (Hr x Hx). unfold term_ok in Hr. andb_split Hr. exact W.
Qed.

Lemma canon_group_ok g : group_ok g = true -> group_ok (canon_group g) = true.
Proof.
  unfold group_ok. intros H. andb_split H. cbn [canon_group g_ws0 g_terms g_ws1 ws_ok forallb is_fws N.eqb Pos.eqb orb andb].
  rewrite andb_true_r. pose proof (terms_names_ok _ W0) as Hn.
  destruct (g_terms g) as [|t r]; [discriminate|]. cbn [canon_terms terms_ok]. exact (canon_terms_ok (t :: r) Hn true).
Qed.

Lemma canon_vclause_ok v : vclause_ok v = true -> vclause_ok (canon_vclause v) = true.
Proof.
  intros H. destruct (vclause_ok_inv v H) as (_ & _ & _ & _ & He & Hv & Hm & Hnone).
  unfold vclause_ok, canon_vclause. cbn [v_ws0 v_ws1 v_ws2 v_ws3 v_epoch v_ver v_more ws_ok forallb is_fws N.eqb Pos.eqb orb andb].
  rewrite He, Hv, Hm. cbn [andb]. destruct (v_epoch v); [reflexivity|]. rewrite (Hnone eq_refl). reflexivity.
Qed.

Lemma canon_r_ok t r : ws_ok t = true -> wf_rel r = true -> wf_rel (canon_r t r) = true.
Proof.
  intros Ht H. unfold wf_rel in *. andb_split H. cbn [canon_r r_name r_qual r_ver r_archs r_profs r_trail].
  rewrite H, Ht, andb_true_r. cbn [andb].
  repeat (apply andb_true_iff; split).
  - destruct (r_qual r) as [q|]; [|reflexivity]. cbn [opt_ok option_map] in *. unfold qual_ok in *. andb_split W3. exact W4.
  - destruct (r_ver r) as [v|]; [|reflexivity]. cbn [opt_ok option_map] in *. apply canon_vclause_ok, W2.
  - destruct (r_archs r) as [g|]; [|reflexivity]. cbn [opt_ok option_map] in *. apply canon_group_ok, W1.
  - rewrite forallb_forall in *. intros g Hg. apply in_map_iff in Hg. destruct Hg as (g0 & <- & Hg0). apply canon_group_ok, W0, Hg0.
Qed.

(* ------------------------------------------------------------------ the text of a canonical relation *)
Lemma join_flat sep x xs : join sep (x :: xs) = x ++ flat_map (fun y => sep ++ y) xs.
Proof.
  revert x. induction xs as [|y r IH]; intros x; [cbn; rewrite app_nil_r; reflexivity|].
  change (join sep (x :: y :: r)) with (x ++ sep ++ join sep (y :: r)). rewrite IH. cbn [flat_map]. rewrite <- app_assoc. reflexivity.
Qed.

Definition term_word (t : term) : str := neg_text (t_neg t) ++ t_name t.
Lemma canon_terms_text_false l :
  flat_map term_text (canon_terms false l) = flat_map (fun y => [32%N] ++ y) (map term_word l).
Proof. induction l as [|t r IH]; [reflexivity|]. cbn [canon_terms flat_map map]. rewrite IH. reflexivity. Qed.
Lemma canon_terms_text l : flat_map term_text (canon_terms true l) = join [32%N] (map term_word l).
Proof.
  destruct l as [|t r]; [reflexivity|]. cbn [canon_terms flat_map map]. rewrite join_flat, canon_terms_text_false. reflexivity.
Qed.

Lemma profile_text_term t : profile_text (term_profile t) = term_word t.
Proof. unfold term_profile, term_word. destruct (t_neg t); reflexivity. Qed.

Definition crel (r : rel) : str := canon_rel (wrel_c (wrel_of r)).

Theorem rel_text_canon t r : wf_rel r = true -> rel_text (canon_r t r) = crel r ++ t.
Proof.
  intros H. unfold wf_rel in H. andb_split H.
  unfold rel_text, crel, canon_rel, wrel_c, wrel_of, canon_r.
  cbn [r_name r_qual r_ver r_archs r_profs r_trail c_name c_qual c_ver c_archs c_profs w_name w_qual w_ver w_archs w_profs].
  rewrite <- !app_assoc. f_equal. f_equal; [|f_equal; [|f_equal; [|f_equal]]].
  - destruct (r_qual r) as [q|]; reflexivity.
  - destruct (r_ver r) as [v|]; [|reflexivity]. cbn [opt_ok option_map opt_text] in *.
    destruct (wver_of_some v W2) as (pv & Ew & _ & Es). rewrite Ew. cbn [option_map fst snd]. rewrite Es.
    unfold vclause_text, vbody_text. rewrite vtext_canon. cbn [canon_vclause v_ws0 v_ws1 v_ws2 v_ws3 v_op].
    cbn [app]. rewrite <- ?app_assoc. reflexivity.
  - destruct (r_archs r) as [g|]; [|reflexivity]. cbn [option_map opt_text].
    unfold arch_text, group_text, group_body_text, canon_group. cbn [g_ws0 g_terms g_ws1].
    rewrite canon_terms_text. cbn [app]. do 2 f_equal.
  - rewrite flat_map_concat_map, map_map, <- flat_map_concat_map.
    rewrite flat_map_concat_map, (flat_map_concat_map _ (map _ (r_profs r))), map_map. f_equal. apply map_ext. intros g.
    unfold prof_text, group_text, group_body_text, canon_group. cbn [g_ws0 g_terms g_ws1].
    rewrite canon_terms_text, map_map. rewrite (map_ext _ _ profile_text_term). cbn [app]. reflexivity.
Qed.

(* ------------------------------------------------------------------ entries, items, the field *)
Definition tr (l : list rel) : str := match l with [] => [] | _ :: _ => [32%N] end.
Lemma canon_alts_cons r l : canon_alts (r :: l) = ([32%N], canon_r (tr l) r) :: canon_alts l.
Proof. destruct l; reflexivity. Qed.
Lemma canon_item_cons r l : canon_item (r :: l) = IEntry (canon_r (tr l) r) (canon_alts l).
Proof. destruct l; reflexivity. Qed.

Lemma rels_text_canon l : forall r, Forall (fun x => wf_rel x = true) (r :: l) ->
  rels_text (canon_r (tr l) r) (canon_alts l) = join [32; 124; 32]%N (map crel (r :: l)).
Proof.
  induction l as [|r' l IH]; intros r H; inversion H as [|? ? Hr Hl]; subst.
  - cbn [canon_alts rels_text tr map join]. rewrite (rel_text_canon [] r Hr), !app_nil_r. reflexivity.
  - rewrite canon_alts_cons. cbn [rels_text tr]. rewrite (rel_text_canon [32%N] r Hr), (IH r' Hl).
    change (map crel (r :: r' :: l)) with (crel r :: map crel (r' :: l)).
    change (join [32; 124; 32]%N (crel r :: map crel (r' :: l))) with (crel r ++ [32; 124; 32]%N ++ join [32; 124; 32]%N (map crel (r' :: l))).
    rewrite <- app_assoc. reflexivity.
Qed.

Definition entry_wf (e : list rel) : Prop := e <> [] /\ Forall (fun x => wf_rel x = true) e.

Lemma item_text_canon e : entry_wf e -> item_text (canon_item e) = canon_entry (map (fun r => wrel_c (wrel_of r)) e).
Proof.
  intros [Hne H]. destruct e as [|r l]; [congruence|]. rewrite canon_item_cons. cbn [item_text].
  rewrite (rels_text_canon l r H). unfold canon_entry. rewrite map_map. reflexivity.
Qed.

Lemma rrender_mk_field items : rrender (mk_field items) = join [44; 32]%N (map item_text items).
Proof.
  destruct items as [|i r]; [reflexivity|]. unfold mk_field, rrender. cbn [f_lead f_first f_rest app].
  revert i. induction r as [|i' r IH]; intros i; [cbn; rewrite app_nil_r; reflexivity|].
  cbn [map items_text]. rewrite IH. reflexivity.
Qed.

(* elements of the sorted entry list *)
Lemma field_rels_wf a f : wf_rfield a f = true -> Forall entry_wf (field_rels f).
Proof.
  intros H. unfold wf_rfield in H. andb_split H. unfold field_rels, f_items.
  assert (Hi : forall i, wf_item a i = true -> Forall entry_wf (item_rels i)).
  { intros i Hi. destruct i as [r alts|seg segs trail|]; cbn [item_rels]; [|constructor|constructor].
    cbn [wf_item] in Hi. apply andb_true_iff in Hi. destruct Hi as [Hr Ha]. constructor; [|constructor].
    split; [discriminate|]. constructor; [exact Hr|]. apply Forall_forall. intros x Hx. apply in_map_iff in Hx.
    destruct Hx as ([w r'] & <- & Hin). rewrite forallb_forall in Ha. specialize (Ha _ Hin). unfold wf_alt in Ha.
    apply andb_true_iff in Ha. apply Ha. }
  cbn [flat_map]. apply Forall_app. split; [apply Hi, W0|].
  clear -W Hi. induction (f_rest f) as [|[w i] r IH]; [constructor|]. cbn [map flat_map snd forallb] in *.
  apply andb_true_iff in W. destruct W as [Hwi W]. unfold wf_more in Hwi. cbn [fst snd] in Hwi. apply andb_true_iff in Hwi.
  apply Forall_app. split; [apply Hi, Hwi|apply IH, W].
Qed.

Lemma perm_entry_wf e e' : Permutation e e' -> entry_wf e -> entry_wf e'.
Proof.
  intros P [Hne H]. split.
  - intros ->. apply Permutation_sym, Permutation_nil in P. congruence.
  - rewrite Forall_forall in *. intros x Hx. apply H. eapply Permutation_in; [apply Permutation_sym, P|exact Hx].
Qed.

Lemma sorted_rels_wf a f : wf_rfield a f = true -> Forall entry_wf (sorted_rels f).
Proof.
  intros H. pose proof (field_rels_wf a f H) as Hw. unfold sorted_rels. rewrite Forall_forall in *.
  intros e He. apply (Permutation_in _ (Permutation_sym (psort_perm rels_cmp _))) in He.
  apply in_map_iff in He. destruct He as (e0 & <- & He0). eapply perm_entry_wf; [apply psort_perm|apply Hw, He0].
Qed.

(* substitution variables of a well-formed field *)
Definition subst_wf (a : bool) (s : str * list str) : Prop :=
  a = true /\ ident_ok (fst s) = true /\ forallb ident_ok (snd s) = true.
Lemma field_substs_wf a f : wf_rfield a f = true -> Forall (subst_wf a) (field_substs f).
Proof.
  intros H. unfold wf_rfield in H. andb_split H. unfold field_substs, f_items.
  assert (Hi : forall i, wf_item a i = true -> Forall (subst_wf a) (item_subst i)).
  { intros i Hi. destruct i as [r alts|seg segs trail|]; cbn [item_subst]; [constructor| |constructor].
    cbn [wf_item] in Hi. andb_split Hi. constructor; [|constructor]. unfold subst_wf. cbn [fst snd]. auto. }
  cbn [flat_map]. apply Forall_app. split; [apply Hi, W0|].
  clear -W Hi. induction (f_rest f) as [|[w i] r IH]; [constructor|]. cbn [map flat_map snd forallb] in *.
  apply andb_true_iff in W. destruct W as [Hwi W]. unfold wf_more in Hwi. cbn [fst snd] in Hwi. apply andb_true_iff in Hwi.
  apply Forall_app. split; [apply Hi, Hwi|apply IH, W].
Qed.
Lemma sorted_substs_wf a f : wf_rfield a f = true -> Forall (subst_wf a) (sorted_substs f).
Proof.
  intros H. pose proof (field_substs_wf a f H) as Hw. unfold sorted_substs. rewrite Forall_forall in *.
  intros s Hs. apply Hw. eapply Permutation_in; [apply Permutation_sym, psort_perm|exact Hs].
Qed.

(* ------------------------------------------------------------------ canon_field f is well-formed *)
Lemma canon_alts_wf l : Forall (fun x => wf_rel x = true) l -> forallb wf_alt (canon_alts l) = true.
Proof.
  induction l as [|r l IH]; intros H; [reflexivity|]. inversion H as [|? ? Hr Hl]; subst.
  rewrite canon_alts_cons. cbn [forallb]. rewrite (IH Hl), andb_true_r. unfold wf_alt. cbn [fst snd].
  rewrite canon_r_ok; [reflexivity| |exact Hr]. destruct l; reflexivity.
Qed.
Lemma canon_item_wf a e : entry_wf e -> wf_item a (canon_item e) = true.
Proof.
  intros [Hne H]. destruct e as [|r l]; [congruence|]. inversion H as [|? ? Hr Hl]; subst.
  rewrite canon_item_cons. cbn [wf_item]. rewrite (canon_alts_wf l Hl), andb_true_r.
  apply canon_r_ok; [destruct l; reflexivity|exact Hr].
Qed.

Lemma mk_field_wf a items : Forall (fun i => wf_item a i = true) items -> wf_rfield a (mk_field items) = true.
Proof.
  intros H. destruct items as [|i r]; [reflexivity|]. inversion H as [|? ? Hi Hr]; subst.
  unfold mk_field, wf_rfield. cbn [f_lead f_first f_rest ws_ok forallb]. rewrite Hi. cbn [andb].
  clear -Hr. induction Hr as [|x l Hx _ IH]; [reflexivity|]. cbn [map forallb]. rewrite IH, andb_true_r.
  unfold wf_more. cbn [fst snd]. rewrite Hx. reflexivity.
Qed.

Theorem canon_field_wf a f : wf_rfield a f = true -> wf_rfield a (canon_field f) = true.
Proof.
  intros H. unfold canon_field. apply mk_field_wf. apply Forall_app. split.
  - pose proof (sorted_rels_wf a f H) as Hw. apply Forall_forall. intros i Hi. apply in_map_iff in Hi.
    destruct Hi as (e & <- & He). rewrite Forall_forall in Hw. apply canon_item_wf, Hw, He.
  - pose proof (sorted_substs_wf a f H) as Hw. apply Forall_forall. intros i Hi. apply in_map_iff in Hi.
    destruct Hi as (s & <- & Hs). rewrite Forall_forall in Hw. destruct (Hw s Hs) as (-> & H1 & H2).
    cbn [wf_item]. rewrite H1, H2. reflexivity.
Qed.

(* ------------------------------------------------------------------ sorting the abstract field = sorting its content *)
Lemma sorted_rels_content f : map (map wrel_of) (sorted_rels f) = sorted_content (field_wcontent f).
Proof.
  unfold sorted_rels, sorted_content, field_wcontent.
  rewrite <- (psort_map (map wrel_of) wentry_cmp rels_cmp) by reflexivity.
  f_equal. rewrite !map_map. apply map_ext. intros e.
  rewrite <- (psort_map wrel_of wrel_cmp rel_cmp) by reflexivity. reflexivity.
Qed.

Lemma sorted_subst_nodes f :
  psort by_text (substvar_nodes (rtree_of f)) = map subst_node_of (sorted_substs f).
Proof.
  rewrite substvar_nodes_rtree_of. fold subst_node_of. unfold sorted_substs.
  apply (psort_map subst_node_of by_text subst_cmp). intros x y _ _. unfold by_text, subst_node_of, subst_cmp.
  rewrite !text_subst_node. reflexivity.
Qed.

(* ------------------------------------------------------------------ the text of canon_field f *)
Theorem rrender_canon_field a f : wf_rfield a f = true ->
  rrender (canon_field f) =
  canon_text (map (map wrel_c) (sorted_content (field_wcontent f))) (map subst_text_of (sorted_substs f)).
Proof.
  intros H. unfold canon_field. rewrite rrender_mk_field, map_app, !map_map. unfold canon_text. f_equal. f_equal.
  - rewrite <- sorted_rels_content, !map_map. pose proof (sorted_rels_wf a f H) as Hw. rewrite Forall_forall in Hw.
    apply map_ext_in. intros e He. rewrite (item_text_canon e (Hw e He)), map_map. reflexivity.
  - apply map_ext. intros s. cbn [item_text fst snd]. rewrite app_nil_r. reflexivity.
Qed.

(* ------------------------------------------------------------------ the content of canon_field f *)
Lemma f_items_mk_field {B} (F : item -> list B) items : F IEmpty = [] ->
  flat_map F (f_items (mk_field items)) = flat_map F items.
Proof.
  intros HF. destruct items as [|i r]; [cbn; rewrite HF; reflexivity|].
  unfold mk_field, f_items. cbn [f_first f_rest]. rewrite map_map. cbn [snd]. rewrite map_id. reflexivity.
Qed.

Lemma canon_alts_content {B} (F : rel -> B) (HF : forall t r, F (canon_r t r) = F r) l :
  map F (map snd (canon_alts l)) = map F l.
Proof.
  induction l as [|r l IH]; [reflexivity|]. rewrite canon_alts_cons. cbn [map snd]. rewrite HF, IH. reflexivity.
Qed.

Lemma field_rels_items items substs :
  field_rels (mk_field (items ++ map (fun s => ISubst (fst s) (snd s) []) substs)) = flat_map item_rels items.
Proof.
  unfold field_rels. rewrite (f_items_mk_field item_rels) by reflexivity. rewrite flat_map_app.
  replace (flat_map item_rels (map (fun s => ISubst (fst s) (snd s) []) substs)) with (@nil (list rel)).
  - apply app_nil_r.
  - induction substs as [|s r IH]; [reflexivity|]. exact IH.
Qed.

Lemma field_substs_items items substs : (forall i, In i items -> item_subst i = []) ->
  field_substs (mk_field (items ++ map (fun s => ISubst (fst s) (snd s) []) substs)) = substs.
Proof.
  intros Hi. unfold field_substs. rewrite (f_items_mk_field item_subst) by reflexivity. rewrite flat_map_app.
  replace (flat_map item_subst items) with (@nil (str * list str)).
  - cbn [app]. induction substs as [|[seg segs] r IH]; [reflexivity|]. cbn [map flat_map item_subst fst snd app]. rewrite IH. reflexivity.
  - symmetry. induction items as [|i r IH]; [reflexivity|]. cbn [flat_map]. rewrite (Hi i (or_introl eq_refl)), IH; [reflexivity|].
    intros j Hj. apply Hi. right. exact Hj.
Qed.

Lemma canon_item_no_subst e : item_subst (canon_item e) = [].
Proof. destruct e as [|r l]; [reflexivity|]. rewrite canon_item_cons. reflexivity. Qed.

Theorem field_substs_canon f : field_substs (canon_field f) = sorted_substs f.
Proof.
  unfold canon_field. apply field_substs_items. intros i Hi. apply in_map_iff in Hi. destruct Hi as (e & <- & _).
  apply canon_item_no_subst.
Qed.

(* F: anything that canonicalising a relation leaves alone (wrel_of, rel_content) *)
Lemma field_rels_canon_map {B} (F : rel -> B) (HF : forall t r, F (canon_r t r) = F r) a f : wf_rfield a f = true ->
  map (map F) (field_rels (canon_field f)) = map (map F) (sorted_rels f).
Proof.
  intros H. unfold canon_field. rewrite field_rels_items.
  pose proof (sorted_rels_wf a f H) as Hw. induction Hw as [|e l He _ IH]; [reflexivity|].
  cbn [map flat_map]. rewrite map_app, IH. destruct He as [Hne _]. destruct e as [|r t]; [congruence|].
  rewrite canon_item_cons. cbn [item_rels map app]. rewrite HF, (canon_alts_content F HF). reflexivity.
Qed.

Theorem field_wcontent_canon a f : wf_rfield a f = true ->
  field_wcontent (canon_field f) = sorted_content (field_wcontent f).
Proof.
  intros H. unfold field_wcontent at 1. rewrite (field_rels_canon_map wrel_of wrel_of_canon a f H). apply sorted_rels_content.
Qed.

Lemma rcontent_rels f :
  rcontent f = (map (map rel_content) (field_rels f), map subst_text_of (field_substs f)).
Proof.
  unfold rcontent, field_rels, field_substs. f_equal.
  - induction (f_items f) as [|i r IH]; [reflexivity|]. cbn [flat_map]. rewrite map_app, <- IH. f_equal.
    destruct i as [r0 alts|seg segs trail|]; [|reflexivity|reflexivity]. cbn [item_entries item_rels map]. rewrite map_map. reflexivity.
  - induction (f_items f) as [|i r IH]; [reflexivity|]. cbn [flat_map]. rewrite map_app, <- IH. f_equal.
    destruct i as [r0 alts|seg segs trail|]; reflexivity.
Qed.

Theorem same_content_canon a f : wf_rfield a f = true -> same_content (rcontent f) (rcontent (canon_field f)).
Proof.
  intros H. rewrite !rcontent_rels. unfold same_content. cbn [fst snd]. split.
  - rewrite (field_rels_canon_map rel_content rel_content_canon a f H). unfold sorted_rels.
    exists (map (map rel_content) (map (psort rel_cmp) (field_rels f))). split.
    + rewrite map_map. induction (field_rels f) as [|e l IH]; [constructor|]. cbn [map]. constructor; [|exact IH].
      apply Permutation_map, psort_perm.
    + apply Permutation_map, psort_perm.
  - rewrite field_substs_canon. apply Permutation_map, psort_perm.
Qed.

Theorem field_safe_canon a f : wf_rfield a f = true -> field_safe f = true -> field_safe (canon_field f) = true.
Proof.
  intros H Hs. unfold field_safe in *. rewrite (field_wcontent_canon a f H). apply sorted_content_safe, Hs.
Qed.

(* ------------------------------------------------------------------ the theorems of props/C13.v *)
(* the tree wrap_and_sort returns for the well-formed field f *)
Definition ws_tree (f : rfield) : rtree :=
  field_tree fixed (sorted_content (field_wcontent f)) (map subst_node_of (sorted_substs f)).

Theorem ws_rtree_of a f : wf_rfield a f = true -> field_safe f = true ->
  relations_ws fixed (rtree_of f) = Ok (ws_tree f).
Proof.
  intros H Hs. rewrite (relations_ws_spec (rtree_of f) (field_wcontent f) (wacc_rtree_of a f H) Hs).
  rewrite sorted_subst_nodes. reflexivity.
Qed.

Lemma text_subst_nodes l : map text (map subst_node_of l) = map subst_text_of l.
Proof. rewrite map_map. apply map_ext. intros s. apply text_subst_node. Qed.

Theorem text_ws_tree a f : wf_rfield a f = true ->
  text (ws_tree f) = canon_text (map (map wrel_c) (sorted_content (field_wcontent f))) (map subst_text_of (sorted_substs f)) /\
  text (ws_tree f) = rrender (canon_field f).
Proof.
  intros H. unfold ws_tree. rewrite text_field_tree, text_subst_nodes. split; [reflexivity|].
  symmetry. apply (rrender_canon_field a f H).
Qed.

(* (4) a second application returns the same tree; so does an application to the re-read text *)
Theorem ws_tree_idem a f : wf_rfield a f = true -> field_safe f = true ->
  relations_ws fixed (ws_tree f) = Ok (ws_tree f) /\
  relations_ws fixed (rtree_of (canon_field f)) = Ok (ws_tree f).
Proof.
  intros H Hs. split.
  - pose proof (relations_ws_idem (rtree_of f) (field_wcontent f) (ws_tree f) (wacc_rtree_of a f H) Hs (ws_rtree_of a f H Hs)) as [_ E].
    exact E.
  - pose proof (canon_field_wf a f H) as Hc. rewrite (ws_rtree_of a (canon_field f) Hc (field_safe_canon a f H Hs)).
    unfold ws_tree. rewrite (field_wcontent_canon a f H), sorted_content_idem. f_equal. f_equal.
    unfold sorted_substs at 1. rewrite field_substs_canon. f_equal. apply psort_id.
    + intros x y. unfold subst_cmp. destruct str_cmp_ok as (Ha & _). apply Ha.
    + apply psort_sorted. intros x y. unfold subst_cmp. destruct str_cmp_ok as (Ha & _). apply Ha.
Qed.

(* the accessors of the returned object *)
Theorem wacc_ws_tree a f : wf_rfield a f = true -> field_safe f = true ->
  wacc (ws_tree f) = Ok (sorted_content (field_wcontent f)) /\
  substvar_nodes (ws_tree f) = map subst_node_of (sorted_substs f).
Proof.
  intros H Hs.
  assert (Hsv : Forall is_substvar_node (map subst_node_of (sorted_substs f))).
  { apply Forall_forall. intros e He. apply in_map_iff in He. destruct He as (s & <- & _). eexists. reflexivity. }
  split.
  - apply wacc_field_tree; [|exact Hsv]. apply sorted_content_ok. eapply wacc_ok. apply (wacc_rtree_of a f H).
  - apply substvar_nodes_tree, Hsv.
Qed.

(* From<Vec<Relation>> for Entry / From<Vec<Entry>> for Relations are modelled a second time in the
   C11 cone (RelEdit.v, by position); the two transcriptions are the same function *)
From V.model Require RelEdit.
Lemma entry_from_is_RelEdit rs : entry_from rs = RelEdit.entry_from_relations RelEdit.fixed rs.
Proof.
  unfold entry_from, RelEdit.entry_from_relations. f_equal.
  destruct rs as [|x r]; [reflexivity|]. cbn [RelEdit.join_relations app].
  generalize 0%nat. revert x. induction r as [|y r IH]; intros x i; [reflexivity|].
  change (sep_by [sp; Tok PIPE [124%N]; sp] (x :: y :: r)) with (x :: [sp; Tok PIPE [124%N]; sp] ++ sep_by [sp; Tok PIPE [124%N]; sp] (y :: r)).
  rewrite (IH y (S i)). reflexivity.
Qed.
Lemma relations_from_is_RelEdit es : relations_from es = RelEdit.relations_from_entries es.
Proof.
  unfold relations_from, RelEdit.relations_from_entries. f_equal.
  destruct es as [|x r]; [reflexivity|]. cbn [RelEdit.join_entries app].
  generalize 0%nat. revert x. induction r as [|y r IH]; intros x i; [reflexivity|].
  change (sep_by [Tok COMMA [44%N]; sp] (x :: y :: r)) with (x :: [Tok COMMA [44%N]; sp] ++ sep_by [Tok COMMA [44%N]; sp] (y :: r)).
  rewrite (IH y (S i)). reflexivity.
Qed.

(* ------------------------------------------------------------------ the content in C10's vocabulary *)
Lemma wrel_c_of r : wf_rel r = true -> wrel_c (wrel_of r) = relx_acc (rel_content r).
Proof.
  intros H. unfold wf_rel in H. andb_split H. unfold wrel_c, wrel_of, relx_acc, rel_content.
  cbn [w_name w_qual w_ver w_archs w_profs x_name x_qual x_ver x_archs x_profs]. f_equal.
  - destruct (r_ver r) as [v|]; [|reflexivity]. cbn [opt_ok option_map] in *.
    destruct (wver_of_some v W2) as (pv & Ew & _ & Es). rewrite Ew. cbn [option_map fst snd]. rewrite Es. reflexivity.
  - destruct (r_archs r) as [g|]; [|reflexivity]. cbn [option_map]. rewrite map_map. reflexivity.
Qed.

Theorem wcontent_printed a f : wf_rfield a f = true ->
  map (map wrel_c) (field_wcontent f) = fst (rcontent_acc f).
Proof.
  intros H. unfold rcontent_acc, field_wcontent. cbn [fst]. rewrite rcontent_rels. cbn [fst]. rewrite !map_map.
  pose proof (field_rels_wf a f H) as Hw. rewrite Forall_forall in Hw. apply map_ext_in. intros e He.
  rewrite !map_map. apply map_ext_in. intros r Hr. destruct (Hw e He) as [_ Hf]. rewrite Forall_forall in Hf.
  apply wrel_c_of, Hf, Hr.
Qed.

(* ------------------------------------------------------------------ the relation branch of format_field *)
Theorem ctl_rel_wf f : wf_rfield true f = true -> field_safe f = true ->
  ctl_rel fixed (rrender f) = Ok (text (ws_tree f)) /\
  ctl_rel fixed (text (ws_tree f)) = Ok (text (ws_tree f)).
Proof.
  intros H Hs. pose proof (canon_field_wf true f H) as Hc.
  destruct (text_ws_tree true f H) as [_ Et]. destruct (ws_tree_idem true f H Hs) as [_ Ei].
  unfold ctl_rel. cbn [v_ctl_subst fixed]. split.
  - rewrite (parse_rrender true f H).
    rewrite (ws_rtree_of true f H Hs). reflexivity.
  - rewrite Et. rewrite (parse_rrender true (canon_field f) Hc), Ei. cbn [rmap bind]. rewrite Et. reflexivity.
Qed.

(* ------------------------------------------------------------------ everything about one field *)
Definition sorted_shape (es : list (list wrel)) : Prop :=
  Sorted (cmp_le wentry_cmp) es /\ Forall (fun e => e <> [] /\ Sorted (cmp_le wrel_cmp) e) es.

Lemma sorted_content_nonempty es : Forall (fun e => e <> []) es -> Forall (fun e => e <> []) (sorted_content es).
Proof.
  intros H. unfold sorted_content. rewrite Forall_forall in *. intros e He.
  apply (Permutation_in _ (Permutation_sym (psort_perm wentry_cmp _))) in He. apply in_map_iff in He.
  destruct He as (e0 & <- & He0). intros E. specialize (H e0 He0). apply H.
  pose proof (psort_perm wrel_cmp e0) as P. rewrite E in P. apply Permutation_sym, Permutation_nil in P. exact P.
Qed.

Lemma field_wcontent_nonempty a f : wf_rfield a f = true -> Forall (fun e => e <> []) (field_wcontent f).
Proof.
  intros H. pose proof (field_rels_wf a f H) as Hw. unfold field_wcontent. rewrite Forall_forall in *.
  intros e He. apply in_map_iff in He. destruct He as (e0 & <- & He0). destruct (Hw e0 He0) as [Hne _].
  destruct e0; [congruence|discriminate].
Qed.

Theorem sorted_shape_content a f : wf_rfield a f = true -> sorted_shape (sorted_content (field_wcontent f)).
Proof.
  intros H. destruct (sorted_content_sorted (field_wcontent f)) as [S1 S2]. split; [exact S1|].
  pose proof (sorted_content_nonempty _ (field_wcontent_nonempty a f H)) as Hne.
  rewrite Forall_forall in *. intros e He. split; [apply Hne, He|apply S2, He].
Qed.

Theorem ws_reparse a f : wf_rfield a f = true -> field_safe f = true ->
  wf_rfield a (canon_field f) = true /\
  text (ws_tree f) = rrender (canon_field f) /\
  parse_relaxed (text (ws_tree f)) a = Ok (rtree_of (canon_field f), 0) /\
  (a = false -> relations_from_str (text (ws_tree f)) = Ok (rtree_of (canon_field f))) /\
  (exists c, racc (rtree_of (canon_field f)) = Ok c /\ racc_view c = rcontent (canon_field f)) /\
  same_content (rcontent f) (rcontent (canon_field f)).
Proof.
  intros H Hs. pose proof (canon_field_wf a f H) as Hc. destruct (text_ws_tree a f H) as [_ Et].
  split; [exact Hc|]. split; [exact Et|]. rewrite Et.
  split; [apply parse_rrender, Hc|]. split; [intros ->; apply from_str_rrender, Hc|].
  split; [|apply (same_content_canon a f H)].
  exists (rcontent_acc (canon_field f)). split; [apply (racc_rtree_of a), Hc|apply (racc_view_content a), Hc].
Qed.

(* ------------------------------------------------------------------ (2) in one statement *)
Lemma perm_concat {A} (a b : list (list A)) : Permutation a b -> Permutation (concat a) (concat b).
Proof.
  induction 1 as [|x l l' _ IH|x y l|l l' l'' _ IH1 _ IH2]; cbn [concat].
  - constructor.
  - apply Permutation_app_head, IH.
  - rewrite !app_assoc. apply Permutation_app_tail, Permutation_app_comm.
  - eapply Permutation_trans; eassumption.
Qed.

Lemma sorted_content_perm es : Permutation (concat es) (concat (sorted_content es)).
Proof.
  unfold sorted_content. eapply Permutation_trans; [|apply perm_concat, psort_perm].
  induction es as [|e l IH]; [constructor|]. cbn [map concat]. apply Permutation_app; [apply psort_perm|exact IH].
Qed.

Theorem ws_sorted a f : wf_rfield a f = true -> field_safe f = true ->
  exists t' es', relations_ws fixed (rtree_of f) = Ok t' /\ wacc t' = Ok es' /\
    es' = sorted_content (field_wcontent f) /\ sorted_shape es' /\
    Permutation (concat (field_wcontent f)) (concat es') /\
    (forall e, In e es' -> forall x y, In x e -> In y e ->
       relation_cmp (wrel_tree fixed x) (wrel_tree fixed y) = Ok (wrel_cmp x y)) /\
    (forall x y, In x es' -> In y es' ->
       entry_cmp fixed (entry_tree fixed x) (entry_tree fixed y) = Ok (wentry_cmp x y)).
Proof.
  intros H Hs. exists (ws_tree f), (sorted_content (field_wcontent f)).
  pose proof (wacc_ok _ _ (wacc_rtree_of a f H)) as Hok.
  pose proof (sorted_content_ok _ Hok) as Hok'. pose proof (sorted_content_safe _ Hs) as Hs'.
  unfold content_ok in Hok'. rewrite Forall_forall in Hok'. unfold content_safe in Hs'. rewrite forallb_forall in Hs'.
  split; [apply (ws_rtree_of a f H Hs)|]. split; [apply (wacc_ws_tree a f H Hs)|]. split; [reflexivity|].
  split; [apply (sorted_shape_content a f H)|]. split; [apply sorted_content_perm|]. split.
  - intros e He x y Hx Hy. specialize (Hok' e He). specialize (Hs' e He). unfold entry_ok in Hok'. rewrite Forall_forall in Hok'.
    rewrite forallb_forall in Hs'. apply relation_cmp_tree; auto.
  - intros x y Hx Hy. apply entry_cmp_tree; auto.
Qed.

(* ------------------------------------------------------------------ the statements of props/C13.v *)
Theorem ws_full :
  forall (allow : bool) (f : rfield), wf_rfield allow f = true -> field_safe f = true ->
  exists t' : rtree,
    parse_relaxed (rrender f) allow = Ok (rtree_of f, 0) /\
    relations_ws fixed (rtree_of f) = Ok t' /\
    text t' = canon_text (map (map wrel_c) (sorted_content (field_wcontent f)))
                         (map subst_text_of (sorted_substs f)) /\
    (exists es', wacc t' = Ok es' /\ sorted_shape es') /\
    (exists fc, wf_rfield allow fc = true /\ text t' = rrender fc /\
                parse_relaxed (text t') allow = Ok (rtree_of fc, 0) /\
                (allow = false -> relations_from_str (text t') = Ok (rtree_of fc)) /\
                (exists c, racc (rtree_of fc) = Ok c /\ racc_view c = rcontent fc) /\
                same_content (rcontent f) (rcontent fc)) /\
    relations_ws fixed t' = Ok t' /\
    (exists tp, parse_relaxed (text t') allow = Ok (tp, 0) /\ relations_ws fixed tp = Ok t') /\
    ctl_rel fixed (rrender f) = Ok (text t') /\
    ctl_rel fixed (text t') = Ok (text t').
Proof.
  intros allow f H Hs. exists (ws_tree f).
  assert (Ht : wf_rfield true f = true) by (destruct allow; [exact H|apply wf_rfield_allow, H]).
  destruct (ws_reparse allow f H Hs) as (Hc & Et & Ep & Estrict & Hacc & Hsame).
  destruct (ws_tree_idem allow f H Hs) as (Ei1 & Ei2).
  destruct (ctl_rel_wf f Ht Hs) as (Ec1 & Ec2).
  split; [apply parse_rrender, H|]. split; [exact (ws_rtree_of allow f H Hs)|].
  split; [apply (text_ws_tree allow f H)|].
  split; [exists (sorted_content (field_wcontent f)); split; [apply (wacc_ws_tree allow f H Hs)|apply (sorted_shape_content allow f H)]|].
  split; [exists (canon_field f); split; [exact Hc|]; split; [exact Et|]; split; [exact Ep|]; split; [exact Estrict|]; split; [exact Hacc|exact Hsame]|].
  split; [exact Ei1|]. split; [exists (rtree_of (canon_field f)); split; assumption|]. split; assumption.
Qed.

Theorem ws_text_wf : forall f : rfield, wf_rfield true f = true -> field_safe f = true ->
  ws_text fixed (rrender f) =
    Ok (canon_text (map (map wrel_c) (sorted_content (field_wcontent f))) (map subst_text_of (sorted_substs f))) /\
  wacc (rtree_of f) = Ok (field_wcontent f) /\
  map (map wrel_c) (field_wcontent f) = fst (rcontent_acc f).
Proof.
  intros f H Hs. split; [|split; [apply (wacc_rtree_of true), H|apply (wcontent_printed true), H]].
  unfold ws_text, parse_relaxed. rewrite (parse_rrender true f H), (ws_rtree_of true f H Hs).
  cbn [rmap bind]. f_equal. apply (text_ws_tree true f H).
Qed.

Theorem ws_meaning : forall allow (f : rfield), wf_rfield allow f = true -> field_safe f = true ->
  exists t', relations_ws fixed (rtree_of f) = Ok t' /\
    wf_rfield allow (canon_field f) = true /\
    text t' = rrender (canon_field f) /\
    parse_relaxed (text t') allow = Ok (rtree_of (canon_field f), 0) /\
    (allow = false -> relations_from_str (text t') = Ok (rtree_of (canon_field f))) /\
    (exists c, racc (rtree_of (canon_field f)) = Ok c /\ racc_view c = rcontent (canon_field f)) /\
    same_content (rcontent f) (rcontent (canon_field f)).
Proof.
  intros allow f H Hs. exists (ws_tree f). split; [apply (ws_rtree_of allow f H Hs)|]. apply (ws_reparse allow f H Hs).
Qed.

From V.model Require Deb822Wrap.
Theorem ws_idem_all : forall allow (f : rfield), wf_rfield allow f = true -> field_safe f = true ->
  exists t', relations_ws fixed (rtree_of f) = Ok t' /\
    relations_ws fixed t' = Ok t' /\
    (exists tp, parse_relaxed (text t') allow = Ok (tp, 0) /\ relations_ws fixed tp = Ok t') /\
    (forall name, str_eqb name Deb822Wrap.Lit.k_Uploaders = false ->
       existsb (str_eqb name) (Deb822Wrap.Lit.relation_fields true) = true ->
       Deb822Wrap.format_field Deb822Wrap.fixed (ctl_rel fixed) name (rrender f) = Ok (text t') /\
       Deb822Wrap.format_field Deb822Wrap.fixed (ctl_rel fixed) name (text t') = Ok (text t')).
Proof.
  intros allow f H Hs. exists (ws_tree f).
  assert (Ht : wf_rfield true f = true) by (destruct allow; [exact H|apply wf_rfield_allow, H]).
  destruct (ws_reparse allow f H Hs) as (Hc & Et & Ep & _).
  destruct (ws_tree_idem allow f H Hs) as (Ei1 & Ei2).
  destruct (ctl_rel_wf f Ht Hs) as (Ec1 & Ec2).
  split; [apply (ws_rtree_of allow f H Hs)|]. split; [exact Ei1|].
  split; [exists (rtree_of (canon_field f)); split; assumption|].
  intros name Hu Hr. unfold Deb822Wrap.format_field. cbn [Deb822Wrap.v_typo Deb822Wrap.fixed]. rewrite Hu, Hr. split; assumption.
Qed.
