(* Wrap-and-sort on the well-formed relationship fields of RelGrammar.v (C13): the accessor
   content of rtree_of f, the canonical field canon_field f (well-formed, its text is the canonical
   text of the sorted content, its content is a permutation of f's), and the theorems of
   props/C13.v assembled from RelWrapP.v and C10's theorems. *)
From Coq Require Import Permutation Sorted.
From V.model Require Import Base RelLex RelParse RelAcc RelGrammar RelWrap RelWrapSpec.
From V.model Require DebVersion Sat.
From V.proofs Require Import BaseP DebVersionP SatP RelGrammarLexP RelGrammarParseP RelGrammarAccP RelWrapSortP RelWrapP.
Set Default Timeout 60.

(* ------------------------------------------------------------------ decimal numerals: the two readers
   (RelAcc.uint_of_digits via Coq's Decimal, DebVersion.num_of_digits) and the printer Sat.show_dec *)
Lemma is_digit_same c : DebVersion.is_digit c = is_digit c.
Proof. reflexivity. Qed.

Lemma num_acc e : forall acc, forallb is_digit e = true ->
  Npos (Pos.of_uint_acc (uint_of_digits e) acc) = DebVersion.num_of_digits (Npos acc) e.
Proof.
  induction e as [|c r IH]; intros acc H; [reflexivity|].
  cbn [forallb] in H. apply andb_true_iff in H. destruct H as [Hc Hr].
  cbn [uint_of_digits DebVersion.num_of_digits].
  destruct (digit_cases c Hc) as [->|[->|[->|[->|[->|[->|[->|[->|[->| ->]]]]]]]]];
    cbn [N.sub Pos.sub Pos.sub_mask Pos.pred_double Pos.succ_double_mask Pos.double_mask Pos.double_pred_mask Pos.of_uint_acc];
    rewrite (IH _ Hr); f_equal; lia.
Qed.

Lemma num_uint e : forallb is_digit e = true ->
  N.of_uint (uint_of_digits e) = DebVersion.num_of_digits 0 e.
Proof.
  induction e as [|c r IH]; intros H; [reflexivity|].
  cbn [forallb] in H. apply andb_true_iff in H. destruct H as [Hc Hr].
  cbn [uint_of_digits DebVersion.num_of_digits]. unfold N.of_uint.
  destruct (digit_cases c Hc) as [->|[->|[->|[->|[->|[->|[->|[->|[->| ->]]]]]]]]];
    cbn [N.sub Pos.sub Pos.sub_mask Pos.pred_double Pos.succ_double_mask Pos.double_mask Pos.double_pred_mask Pos.of_uint N.mul N.add];
    [exact (IH Hr)|..]; rewrite (num_acc r _ Hr); reflexivity.
Qed.

Lemma num_ge r : forall acc, (acc <= DebVersion.num_of_digits acc r)%N.
Proof.
  induction r as [|c r IH]; intros acc; cbn [DebVersion.num_of_digits]; [lia|].
  specialize (IH (acc * 10 + (c - 48))%N). lia.
Qed.

Definition canon_digits (e : str) : Prop :=
  forallb is_digit e = true /\ e <> [] /\ match e with c :: _ :: _ => negb (c =? 48)%N | _ => true end = true.

Lemma dec_digits_canon e : canon_digits e -> forall fuel,
  (N.log2 (DebVersion.num_of_digits 0 e) < N.of_nat fuel)%N ->
  Sat.dec_digits fuel (DebVersion.num_of_digits 0 e) [] = e.
Proof.
  induction e as [|d e' IH] using rev_ind; intros (Hd & Hne & Hc) fuel Hf; [congruence|].
  rewrite forallb_app in Hd. apply andb_true_iff in Hd. destruct Hd as [Hd' Hdd]. cbn [forallb] in Hdd. rewrite andb_true_r in Hdd.
  rewrite num_app in *. cbn [DebVersion.num_of_digits] in *.
  set (q := DebVersion.num_of_digits 0 e') in *.
  assert (Hm : (d - 48 < 10)%N).
  { unfold is_digit in Hdd. apply andb_true_iff in Hdd. destruct Hdd as [H1 H2]. apply N.leb_le in H1, H2. lia. }
  assert (Hd48 : (48 + (d - 48) = d)%N).
  { unfold is_digit in Hdd. apply andb_true_iff in Hdd. destruct Hdd as [H1 H2]. apply N.leb_le in H1. lia. }
  destruct fuel as [|f]; [lia|]. cbn [Sat.dec_digits].
  destruct e' as [|c r].
  - subst q. cbn [DebVersion.num_of_digits app]. change (0 * 10 + (d - 48))%N with (d - 48)%N.
    rewrite N.mod_small by exact Hm. rewrite Hd48. apply N.ltb_lt in Hm. rewrite Hm. reflexivity.
  - assert (Hc48 : c <> 48%N).
    { cbn [app] in Hc. destruct (r ++ [d]) eqn:E; [destruct r; discriminate|]. apply negb_true_iff, N.eqb_neq in Hc. exact Hc. }
    assert (Hq : (1 <= q)%N).
    { subst q. cbn [DebVersion.num_of_digits]. cbn [forallb] in Hd'. apply andb_true_iff in Hd'. destruct Hd' as [Hcd _].
      pose proof (num_ge r (0 * 10 + (c - 48))%N). unfold is_digit in Hcd. apply andb_true_iff in Hcd. destruct Hcd as [H1 H2].
      apply N.leb_le in H1, H2. lia. }
    assert (Hlt : (q * 10 + (d - 48) <? 10)%N = false) by (apply N.ltb_ge; lia).
    rewrite Hlt.
    assert (Ediv : ((q * 10 + (d - 48)) / 10 = q)%N).
    { symmetry. apply (N.div_unique _ 10 q (d - 48)); lia. }
    assert (Emod : ((q * 10 + (d - 48)) mod 10 = d - 48)%N).
    { symmetry. apply (N.mod_unique _ 10 q (d - 48)); lia. }
    rewrite Ediv, Emod, Hd48, dec_digits_acc. f_equal.
    apply IH.
    + split; [exact Hd'|]. split; [discriminate|]. destruct r as [|c' r']; [reflexivity|].
      apply negb_true_iff, N.eqb_neq. exact Hc48.
    + assert (H10 : (10 <= q * 10 + (d - 48))%N) by lia. pose proof (log2_div10 _ H10) as Hl. rewrite Ediv in Hl. lia.
Qed.

Lemma show_dec_canon e : canon_digits e -> Sat.show_dec (DebVersion.num_of_digits 0 e) = e.
Proof. intros H. unfold Sat.show_dec. apply dec_digits_canon; [exact H|lia]. Qed.

Lemma epoch_canon e : epoch_ok e = true ->
  canon_digits e /\ (DebVersion.num_of_digits 0 e <= DebVersion.u32_max)%N.
Proof.
  unfold epoch_ok. intros H. andb_split H.
  assert (Hne : e <> []) by (destruct e; [discriminate|discriminate]).
  split; [split; [exact W1|split; [exact Hne|exact W0]]|].
  rewrite <- (num_uint e W1). apply N.leb_le in W. exact W.
Qed.

(* ------------------------------------------------------------------ debversion on the versions of the grammar:
   FromStr accepts them and Display prints the same text *)
Lemma ident_upstream_char c : is_ident_char c = true -> DebVersion.is_upstream_char c = true.
Proof.
  unfold is_ident_char, DebVersion.is_upstream_char, DebVersion.is_alnum, DebVersion.is_digit, DebVersion.is_alpha, is_ascii_alnum.
  intros H. repeat rewrite ?orb_true_iff, ?andb_true_iff, ?N.leb_le, ?N.eqb_eq in *. lia.
Qed.
Lemma ident_upstream s : forallb is_ident_char s = true -> forallb DebVersion.is_upstream_char s = true.
Proof.
  intros H. rewrite forallb_forall in *. intros c Hc. apply ident_upstream_char, H, Hc.
Qed.
Lemma pieces_upstream ps : forallb ident_ok ps = true ->
  forallb DebVersion.is_upstream_char (flat_map (fun p => 58%N :: p) ps) = true.
Proof.
  induction ps as [|p r IH]; intros H; [reflexivity|]. cbn [forallb] in H. apply andb_true_iff in H. destruct H as [Hp Hr].
  cbn [flat_map app forallb]. rewrite forallb_app, (IH Hr), andb_true_r.
  destruct (ident_ok_inv p Hp) as (c & w & -> & Hc & Hw).
  cbn [forallb]. rewrite (ident_upstream_char c Hc), (ident_upstream w Hw). reflexivity.
Qed.

Lemma span_digits_stop s : forallb is_ident_char s = true ->
  forall ds after, span DebVersion.is_digit s = (ds, after) ->
  match ds, after with
  | _ :: _, colon :: rest => if (colon =? 58)%N && DebVersion.body_ok rest then Some rest else None
  | _, _ => None
  end = None.
Proof.
  intros Hs ds after E. destruct ds; [reflexivity|]. destruct after as [|colon rest]; [reflexivity|].
  pose proof (span_app _ _ _ _ E) as Happ. rewrite <- Happ, forallb_app in Hs. apply andb_true_iff in Hs. destruct Hs as [_ Hs].
  cbn [forallb] in Hs. apply andb_true_iff in Hs. destruct Hs as [Hc _].
  rewrite (ident_not_colon colon Hc). reflexivity.
Qed.

Theorem version_print_read v : vclause_ok v = true ->
  exists pv, DebVersion.parse_version (vtext v) = Some pv /\ Sat.show_version pv = vtext v.
Proof.
  intros H. destruct (vclause_ok_inv v H) as (_ & _ & _ & _ & He & Hv & Hm & Hnone).
  destruct (ident_ok_inv _ Hv) as (c0 & w0 & Ev & Hc0 & Hw0).
  unfold vtext. destruct (v_epoch v) as [e|] eqn:Ee.
  - cbn [opt_ok] in He. destruct (epoch_canon e He) as (Hcan & Hu32). pose proof Hcan as (Hd & Hne & _).
    set (rest := v_ver v ++ flat_map (fun p => 58%N :: p) (v_more v)).
    assert (Hb : DebVersion.body_ok rest = true).
    { subst rest. rewrite Ev. cbn [app DebVersion.body_ok forallb]. rewrite forallb_app.
      rewrite (ident_upstream_char c0 Hc0), (ident_upstream w0 Hw0), (pieces_upstream _ Hm). reflexivity. }
    replace ((e ++ [58%N]) ++ rest) with (e ++ 58%N :: rest) by (rewrite <- app_assoc; reflexivity).
    unfold DebVersion.parse_version. rewrite (span_digits_colon e rest Hd).
    destruct e as [|d0 dr] eqn:Ed; [congruence|]. rewrite <- Ed in *. rewrite N.eqb_refl, Hb. cbn [andb].
    apply N.leb_le in Hu32. rewrite Hu32.
    destruct (DebVersion.split_revision rest) as [u r] eqn:Er.
    eexists. split; [reflexivity|]. unfold Sat.show_version. cbn [DebVersion.epoch DebVersion.upstream DebVersion.revision].
    rewrite (show_dec_canon e Hcan), (split_revision_join rest u r Er), <- app_assoc. reflexivity.
  - rewrite (Hnone eq_refl). cbn [flat_map app]. rewrite app_nil_r.
    assert (Hall : forallb is_ident_char (v_ver v) = true) by (rewrite Ev; cbn [forallb]; rewrite Hc0, Hw0; reflexivity).
    unfold DebVersion.parse_version. destruct (span DebVersion.is_digit (v_ver v)) as [ds after] eqn:Es.
    rewrite (span_digits_stop _ Hall ds after Es).
    assert (Hb : DebVersion.body_ok (v_ver v) = true).
    { rewrite Ev. cbn [DebVersion.body_ok forallb]. rewrite (ident_upstream_char c0 Hc0), (ident_upstream w0 Hw0). reflexivity. }
    rewrite Hb. destruct (DebVersion.split_revision (v_ver v)) as [u r] eqn:Er.
    eexists. split; [reflexivity|]. unfold Sat.show_version. cbn [DebVersion.epoch DebVersion.upstream DebVersion.revision app].
    apply (split_revision_join _ u r Er).
Qed.

Lemma wver_of_some v : vclause_ok v = true ->
  exists pv, wver_of v = Some (v_op v, pv) /\ DebVersion.parse_version (vtext v) = Some pv /\ Sat.show_version pv = vtext v.
Proof.
  intros H. destruct (version_print_read v H) as (pv & Hp & Hs). exists pv. unfold wver_of. rewrite Hp. auto.
Qed.

(* ------------------------------------------------------------------ the accessors on a relation tree *)
Lemma accp_ver r last : wf_rel r = true ->
  relation_version_p (rel_tree r last) = Ok (match r_ver r with Some v => wver_of v | None => None end).
Proof.
  intros H. unfold wf_rel in H. andb_split H.
  unfold relation_version_p. rewrite fn_rel by discriminate. cbn [rkind_eqb rkind_code N.eqb Pos.eqb].
  destruct (r_ver r) as [v|]; cbn [option_map]; [|reflexivity].
  cbn [opt_ok] in W2. pose proof W2 as Hvok. destruct (vclause_ok_inv v W2) as (_ & _ & _ & _ & _ & W4 & _ & _).
  cbn [vnode children first_node_of_kind]. rewrite first_node_app, fn_ws.
  cbn [app first_node_of_kind rkind_eqb rkind_code N.eqb Pos.eqb].
  assert (E : version_text_of
      (Tok L_PARENS [40%N] :: ws_elems (v_ws1 v) ++ Node CONSTRAINT (elems (vop_toks (v_op v)))
        :: ws_elems (v_ws2 v) ++ elems (vtext_toks v) ++ ws_elems (v_ws3 v) ++ [Tok R_PARENS [41%N]]) = vtext v).
  { change (version_text_of (Tok L_PARENS [40%N] :: ?x)) with (version_text_of x).
    rewrite version_text_app, version_text_ws. cbn [app].
    change (version_text_of (Node CONSTRAINT ?l :: ?x)) with (version_text_of x).
    rewrite !version_text_app, !version_text_ws, version_text_vtoks. cbn [app]. rewrite app_nil_r. reflexivity. }
  rewrite E.
  destruct (vtext v) as [|c0 w0] eqn:Ev; [destruct (vtext_nonempty v W4 Ev)|]. rewrite <- Ev.
  replace (vop_of_text (text (Node CONSTRAINT (elems (vop_toks (v_op v)))))) with (Some (v_op v))
    by (destruct (v_op v); reflexivity).
  destruct (wver_of_some v Hvok) as (pv & Ew & Ep & _). rewrite Ep, Ew. reflexivity.
Qed.

Theorem relation_wacc_rel r last : wf_rel r = true -> relation_wacc (rel_tree r last) = Ok (wrel_of r).
Proof.
  intros H. unfold relation_wacc. rewrite acc_name, (accp_ver r last H), acc_qual, acc_archs, (acc_profs r last H). reflexivity.
Qed.

(* ------------------------------------------------------------------ the shape of rtree_of f *)
Fixpoint rels_trees (r : rel) (alts : list (str * rel)) (last : bool) : list rtree :=
  match alts with
  | [] => [rel_tree r last]
  | (_, r') :: alts' => rel_tree r false :: rels_trees r' alts' last
  end.

Lemma nodes_rels_elems alts : forall r last, nodes_of RELATION (rels_elems r alts last) = rels_trees r alts last.
Proof.
  induction alts as [|[w r'] alts IH]; intros r last; cbn [rels_elems rels_trees].
  - change (nodes_of RELATION (rel_tree r last :: ?x)) with (rel_tree r last :: nodes_of RELATION x).
    replace (nodes_of RELATION (if last then ws_elems (rel_left r last) else [])) with (@nil rtree)
      by (destruct last; [symmetry; apply nodes_of_ws|reflexivity]).
    reflexivity.
  - change (nodes_of RELATION (rel_tree r false :: ?x)) with (rel_tree r false :: nodes_of RELATION x).
    rewrite nodes_of_app, nodes_of_ws. cbn [app].
    change (nodes_of RELATION (Tok PIPE [124%N] :: ?x)) with (nodes_of RELATION x).
    rewrite nodes_of_app, nodes_of_ws. cbn [app]. rewrite IH. reflexivity.
Qed.

Lemma res_map_rels_trees alts : forall r last, wf_rel r = true -> forallb wf_alt alts = true ->
  res_map relation_wacc (rels_trees r alts last) = Ok (map wrel_of (r :: map snd alts)).
Proof.
  induction alts as [|[w r'] alts IH]; intros r last Hr Ha; cbn [rels_trees res_map map snd].
  - rewrite (relation_wacc_rel r last Hr). reflexivity.
  - cbn [forallb] in Ha. apply andb_true_iff in Ha. destruct Ha as [Hwr Ha]. unfold wf_alt in Hwr. cbn [fst snd] in Hwr.
    apply andb_true_iff in Hwr. destruct Hwr as [_ Hr'].
    rewrite (relation_wacc_rel r false Hr), (IH r' last Hr' Ha). reflexivity.
Qed.

Lemma entry_wacc_entry r alts last : wf_rel r = true -> forallb wf_alt alts = true ->
  entry_wacc (Node ENTRY (rels_elems r alts last)) = Ok (map wrel_of (r :: map snd alts)).
Proof.
  intros Hr Ha. unfold entry_wacc, entry_relations, r_relations, rnodes_of_kind. cbn [children].
  fold (nodes_of RELATION (rels_elems r alts last)). rewrite nodes_rels_elems. apply res_map_rels_trees; assumption.
Qed.

Lemma field_wentries a more : forall i, wf_item a i = true -> forallb (wf_more a) more = true ->
  res_map entry_wacc (nodes_of ENTRY (items_elems i more)) =
  Ok (map (map wrel_of) (flat_map item_rels (i :: map snd more))).
Proof.
  induction more as [|[w i'] more IH]; intros i Hi Hm; cbn [items_elems is_nil].
  - rewrite app_nil_r. destruct i as [r alts|seg segs trail|]; cbn [item_elems item_rels flat_map map app wf_item] in *.
    + change (nodes_of ENTRY (Node ENTRY ?c :: ?x)) with (Node ENTRY c :: nodes_of ENTRY x).
      rewrite nodes_of_ws. cbn [res_map]. apply andb_true_iff in Hi. destruct Hi as [Hr Ha].
      rewrite (entry_wacc_entry r alts true Hr Ha). reflexivity.
    + change (nodes_of ENTRY (subst_node seg segs :: ?x)) with (nodes_of ENTRY x). rewrite nodes_of_ws. reflexivity.
    + reflexivity.
  - cbn [forallb] in Hm. apply andb_true_iff in Hm. destruct Hm as [Hwi Hm]. unfold wf_more in Hwi. cbn [fst snd] in Hwi.
    apply andb_true_iff in Hwi. destruct Hwi as [_ Hi']. specialize (IH i' Hi' Hm).
    rewrite nodes_of_app. change (nodes_of ENTRY (Tok COMMA [44%N] :: ?x)) with (nodes_of ENTRY x).
    rewrite nodes_of_app, nodes_of_ws. cbn [app map snd flat_map] in IH |- *.
    destruct i as [r alts|seg segs trail|]; cbn [item_elems item_rels app map wf_item] in *.
    + change (nodes_of ENTRY (Node ENTRY ?c :: ?x)) with (Node ENTRY c :: nodes_of ENTRY x).
      rewrite nodes_of_ws. cbn [app res_map]. apply andb_true_iff in Hi. destruct Hi as [Hr Ha].
      rewrite (entry_wacc_entry r alts false Hr Ha), IH. reflexivity.
    + change (nodes_of ENTRY (subst_node seg segs :: ?x)) with (nodes_of ENTRY x). rewrite nodes_of_ws. exact IH.
    + exact IH.
Qed.

Theorem wacc_rtree_of a f : wf_rfield a f = true -> wacc (rtree_of f) = Ok (field_wcontent f).
Proof.
  intros H. unfold wf_rfield in H. andb_split H.
  unfold wacc, relations_entries, r_entries, rnodes_of_kind, rtree_of. cbn [children].
  fold (nodes_of ENTRY (ws_elems (f_lead f) ++ items_elems (f_first f) (f_rest f))).
  rewrite nodes_of_app, nodes_of_ws. cbn [app].
  rewrite (field_wentries a (f_rest f) (f_first f) W0 W). reflexivity.
Qed.

Lemma field_subst_nodes more : forall i,
  nodes_of SUBSTVAR (items_elems i more) =
  map (fun s => subst_node (fst s) (snd s)) (flat_map item_subst (i :: map snd more)).
Proof.
  induction more as [|[w i'] more IH]; intros i; cbn [items_elems is_nil].
  - rewrite app_nil_r. destruct i as [r alts|seg segs trail|]; cbn [item_elems item_subst flat_map map app].
    + change (nodes_of SUBSTVAR (Node ENTRY ?c :: ?x)) with (nodes_of SUBSTVAR x). rewrite nodes_of_ws. reflexivity.
    + change (nodes_of SUBSTVAR (subst_node seg segs :: ?x)) with (subst_node seg segs :: nodes_of SUBSTVAR x).
      rewrite nodes_of_ws. reflexivity.
    + reflexivity.
  - specialize (IH i'). rewrite nodes_of_app. change (nodes_of SUBSTVAR (Tok COMMA [44%N] :: ?x)) with (nodes_of SUBSTVAR x).
    rewrite nodes_of_app, nodes_of_ws. cbn [app map snd flat_map] in IH |- *. rewrite map_app, <- IH.
    destruct i as [r alts|seg segs trail|]; cbn [item_elems item_subst app map].
    + change (nodes_of SUBSTVAR (Node ENTRY ?c :: ?x)) with (nodes_of SUBSTVAR x). rewrite nodes_of_ws. reflexivity.
    + change (nodes_of SUBSTVAR (subst_node seg segs :: ?x)) with (subst_node seg segs :: nodes_of SUBSTVAR x).
      rewrite nodes_of_ws. reflexivity.
    + reflexivity.
Qed.

Theorem substvar_nodes_rtree_of f :
  substvar_nodes (rtree_of f) = map (fun s => subst_node (fst s) (snd s)) (field_substs f).
Proof.
  unfold substvar_nodes, rnodes_of_kind, rtree_of. cbn [children].
  fold (nodes_of SUBSTVAR (ws_elems (f_lead f) ++ items_elems (f_first f) (f_rest f))).
  rewrite nodes_of_app, nodes_of_ws. cbn [app]. apply field_subst_nodes.
Qed.
