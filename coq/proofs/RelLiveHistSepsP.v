(* C11 on any well-formed (Policy-shaped) field, separators: the history theorems of RelLiveHistP.v
   and RelLiveParsedP.v once more, with what the history did to the slots of the field
   (RelEditSpec.tree_slots, RelLive.xslots_after / gslots_after). *)
From V.model Require Import Base RelLex RelParse RelAcc RelGrammar.
From V.model Require Import RelEdit RelEditSpec RelEditTree RelLive.
From V.proofs Require Import BaseP RelEditP RelEditStP RelEditHistP RelEditTreeP RelEditReplaceP RelEditParsedP RelGrammarAccP.
From V.proofs Require Import RelLiveP RelLiveStepP RelLiveWfP RelLiveNormP RelLiveHistP RelLiveParsedP RelSepsP RelLiveSepsP.

Theorem a_pop_slots b o l l' : lwf b l = true -> a_pop o l = Some l' ->
  tree_slots (ltree l') = psstep (tree_slots (ltree l)) o.
Proof.
  intros Hw H. destruct o; cbn [a_pop psstep] in *.
  - injection H as <-. unfold a_push. rewrite (insert_slots_l b l _ _ Hw). unfold s_insert, tree_slots.
    rewrite entry_slot_none; [reflexivity|exact (shape_ltree b l Hw)|].
    unfold ltree. cbn [children]. rewrite (nth_index_map rt is_entry is_re) by apply is_entry_rt. apply nthi_beyond. lia.
  - injection H as <-. apply (insert_slots_l b l i _ Hw).
  - unfold a_replace in H. destruct (nth_index is_re i l) as [ci|] eqn:E; [|discriminate]. injection H as <-.
    destruct (nth_index_re_split _ _ _ E) as (pre & e0 & post & -> & <- & _). apply (slots_replace_re _ _ e0). apply nth_error_app_len.
  - unfold a_on_entry in H. destruct (nth_entry l i) as [[ci e]|] eqn:E; [|discriminate]. injection H as <-.
    apply (slots_replace_re _ _ e). now apply (nth_error_entry l i).
  - destruct (nth_entry l i) as [[ci e]|] eqn:E; [|discriminate]. destruct (j <? n_rels e); [|discriminate]. injection H as <-.
    apply (slots_replace_re _ _ e). now apply (nth_error_entry l i).
Qed.
Theorem g_op_slots b o l l' : lwf b l = true -> g_op o l = Some l' ->
  tree_slots (ltree l') = gsstep (fst (lcontent l)) (tree_slots (ltree l)) o.
Proof. destruct o as [o|o]; cbn [g_op gsstep]; [apply a_op_slots|apply a_pop_slots]. Qed.

(* histories of the abstract operations *)
Theorem a_ops_slots b ops : forall l l', lwf b l = true -> forallb operands_ok ops = true ->
  xsteps_in_range (fst (lcontent l)) ops = true -> a_ops ops l = Some l' ->
  field_shape (ltree l') = true /\
  tree_slots (ltree l') = xslots_after ops (fst (lcontent l)) (tree_slots (ltree l)).
Proof.
  induction ops as [|o rest IH]; intros l l' H Ho Hr Ha.
  - injection Ha as <-. split; [now apply (shape_ltree b)|reflexivity].
  - cbn [forallb xsteps_in_range a_ops] in *. andb_hyps.
    destruct (live_step_tree b o l) as (l1 & Ha1 & _ & Hw1 & Hc1 & _); auto. rewrite Ha1 in Ha.
    pose proof (a_op_slots b o l l1 H Ha1) as Hs1.
    destruct (IH l1 l' Hw1) as [Hsh Hs]; auto.
    { rewrite Hc1. cbn [fst]. assumption. }
    split; [exact Hsh|]. rewrite Hs, Hs1, Hc1. reflexivity.
Qed.
Theorem g_ops_slots b ops : forall l l', lwf b l = true -> forallb goperands_ok ops = true ->
  gsteps_in_range (fst (lcontent l)) ops = true -> g_ops ops l = Some l' ->
  field_shape (ltree l') = true /\
  tree_slots (ltree l') = gslots_after ops (fst (lcontent l)) (tree_slots (ltree l)).
Proof.
  induction ops as [|o rest IH]; intros l l' H Ho Hr Ha.
  - injection Ha as <-. split; [now apply (shape_ltree b)|reflexivity].
  - cbn [forallb gsteps_in_range g_ops] in *. andb_hyps.
    assert (Hstep : exists l1, g_op o l = Some l1 /\ lwf b l1 = true /\ lcontent l1 = (gxstep (fst (lcontent l)) o, snd (lcontent l))).
    { destruct o as [o|o]; cbn [goperands_ok g_in_range g_op gxstep] in *.
      - destruct (live_step_tree b o l) as (l1 & Ha1 & _ & Hw1 & Hc1 & _); auto. exists l1. auto.
      - destruct (a_pop_lwf b o l) as (l1 & Ha1 & Hw1); auto. exists l1. destruct (pcontent_step o l l1 Ha1) as [Hc1 _]. auto. }
    destruct Hstep as (l1 & Ha1 & Hw1 & Hc1). rewrite Ha1 in Ha.
    pose proof (g_op_slots b o l l1 H Ha1) as Hs1.
    destruct (IH l1 l' Hw1) as [Hsh Hs]; auto.
    { rewrite Hc1. cbn [fst]. assumption. }
    split; [exact Hsh|]. rewrite Hs, Hs1, Hc1. reflexivity.
Qed.

(* ------------------------------------------------------------------ from a well-formed field *)
Theorem any_history_slots b ops f l' : wf_rfield b f = true -> forallb operands_ok ops = true ->
  xsteps_in_range (fst (rcontent f)) ops = true -> a_ops ops (live_of f) = Some l' ->
  field_shape (ltree l') = true /\
  tree_slots (ltree l') = xslots_after ops (fst (rcontent f)) (tree_slots (rtree_of f)).
Proof.
  intros H Ho Hr Ha. pose proof (lwf_live_of b f H) as Hl. rewrite <- lcontent_live_of in Hr.
  destruct (a_ops_slots b ops (live_of f) l' Hl Ho Hr Ha) as [H1 H2]. rewrite lcontent_live_of, ltree_live_of in H2. auto.
Qed.
Theorem any_mixed_history_slots b ops f l' : wf_rfield b f = true -> forallb goperands_ok ops = true ->
  gsteps_in_range (fst (rcontent f)) ops = true -> g_ops ops (live_of f) = Some l' ->
  field_shape (ltree l') = true /\
  tree_slots (ltree l') = gslots_after ops (fst (rcontent f)) (tree_slots (rtree_of f)).
Proof.
  intros H Ho Hr Ha. pose proof (lwf_live_of b f H) as Hl. rewrite <- lcontent_live_of in Hr.
  destruct (g_ops_slots b ops (live_of f) l' Hl Ho Hr Ha) as [H1 H2]. rewrite lcontent_live_of, ltree_live_of in H2. auto.
Qed.

(* the history theorem, whole *)
Theorem history_any_field_seps b ops f st : wf_rfield b f = true -> forallb operands_ok ops = true ->
  xsteps_in_range (fst (rcontent f)) ops = true -> holds st (rtree_of f) ->
  exists l' st',
    a_ops ops (live_of f) = Some l' /\
    run_ops fixed (compile_all ops) st = Ok st' /\
    root_tree st' = Ok (ltree l') /\ root_text st' = Ok (rrender (norm l')) /\
    wf_rfield b (norm l') = true /\
    rcontent (norm l') = (fold_left xstep ops (fst (rcontent f)), snd (rcontent f)) /\
    field_shape (ltree l') = true /\
    tree_slots (ltree l') = xslots_after ops (fst (rcontent f)) (tree_slots (rtree_of f)) /\
    exists a, parse_relaxed (rrender (norm l')) b = Ok (rtree_of (norm l'), 0) /\
              racc (rtree_of (norm l')) = Ok a /\
              racc_view a = (fold_left xstep ops (fst (rcontent f)), snd (rcontent f)).
Proof.
  intros H Ho Hr Hst. destruct (history_any_field b ops f st H Ho Hr Hst) as (l' & st' & Ha & R & RT & RX & Hw & Hc & a & Ra).
  destruct (any_history_slots b ops f l' H Ho Hr Ha) as [S1 S2]. exists l', st'. repeat (split; [assumption|]). exists a. exact Ra.
Qed.
Theorem g_history_any_field_seps b ops f st : wf_rfield b f = true -> forallb goperands_ok ops = true ->
  gsteps_in_range (fst (rcontent f)) ops = true -> holds st (rtree_of f) ->
  exists l' st',
    g_ops ops (live_of f) = Some l' /\
    run_ops fixed (gcompile_all ops) st = Ok st' /\
    root_tree st' = Ok (ltree l') /\ root_text st' = Ok (rrender (norm l')) /\
    wf_rfield b (norm l') = true /\
    rcontent (norm l') = (fold_left gxstep ops (fst (rcontent f)), snd (rcontent f)) /\
    field_shape (ltree l') = true /\
    tree_slots (ltree l') = gslots_after ops (fst (rcontent f)) (tree_slots (rtree_of f)) /\
    exists a, parse_relaxed (rrender (norm l')) b = Ok (rtree_of (norm l'), 0) /\
              racc (rtree_of (norm l')) = Ok a /\
              racc_view a = (fold_left gxstep ops (fst (rcontent f)), snd (rcontent f)).
Proof.
  intros H Ho Hr Hst. destruct (g_history_any_field b ops f st H Ho Hr Hst) as (l' & st' & Ha & R & RT & RX & Hw & Hc & a & Ra).
  destruct (any_mixed_history_slots b ops f l' H Ho Hr Ha) as [S1 S2]. exists l', st'. repeat (split; [assumption|]). exists a. exact Ra.
Qed.
