(* Instances and witnesses for C07: the comparators and formatters used by the streams satisfy
   the hypotheses of the theorems; the shipped code (and the code lacking any one repair)
   violates the property on concrete inputs. *)
From V.model Require Import Base Deb822Lex Deb822Parse Grammar Lossy LossySpec Deb822Edit LiveDoc Deb822Wrap WrapSpec.
From V.model Require Export WrapSpecInst.
From V.proofs Require Import BaseP GrammarLexP GrammarParseP GrammarAccP Deb822EditP LiveDocP LiveParaP Deb822WrapP.

(* ---------------------------------------------------------------- comparators *)
Lemma N_compare_gt_flip x y : N.compare x y = Gt -> N.compare y x = Lt.
Proof. intros H. rewrite N.compare_antisym, H. reflexivity. Qed.

Lemma str_cmp_consistent : cmp_consistent str_cmp.
Proof.
  intros a. induction a as [|x a IH]; intros b H; destruct b as [|y b]; cbn [str_cmp] in *; try discriminate.
  destruct (N.compare x y) eqn:E.
  - apply N.compare_eq in E. subst y. rewrite N.compare_refl. apply IH. exact H.
  - discriminate.
  - rewrite (N_compare_gt_flip x y E). discriminate.
Qed.

Lemma opt_cmp_consistent : cmp_consistent opt_cmp.
Proof.
  intros a b H. destruct a as [x|], b as [y|]; cbn [opt_cmp] in *; try discriminate. apply str_cmp_consistent. exact H.
Qed.

Lemma by_name_agrees : ecmp_agrees (Some by_name) (Some name_cmp).
Proof. intros f g. unfold by_name, name_cmp. rewrite !entry_key_field. reflexivity. Qed.
Lemma name_cmp_consistent : pair_cmp_consistent (Some name_cmp).
Proof. intros a b H. unfold name_cmp in *. apply str_cmp_consistent. exact H. Qed.

Lemma items_lpara its : items (lblock_tree (LPara its)) = flat_map item_pairs its.
Proof. cbn [lblock_tree]. apply pitems_item_elems. Qed.
Lemma by_first_value_agrees : pcmp_agrees (Some by_first_value) (Some first_value_cmp).
Proof. intros x y. unfold by_first_value, first_value_cmp, first_value. rewrite !items_lpara. reflexivity. Qed.
Lemma first_value_cmp_consistent : para_cmp_consistent (Some first_value_cmp).
Proof. intros a b H. unfold first_value_cmp in *. apply opt_cmp_consistent. exact H. Qed.

Lemma control_order_agrees : pcmp_agrees (Some control_order) (Some control_cmp).
Proof. intros x y. unfold control_order, control_cmp. rewrite !get_items, !items_lpara. reflexivity. Qed.
Lemma control_cmp_consistent : para_cmp_consistent (Some control_cmp).
Proof.
  intros a b. unfold control_cmp.
  destruct (is_some (spec_get a Lit.k_Source)), (is_some (spec_get b Lit.k_Source)); cbn [andb negb]; intros H; try discriminate.
  - apply opt_cmp_consistent. exact H.
  - apply opt_cmp_consistent. exact H.
Qed.
(* it looks at the first Source / Package field only: it does not depend on the order of the other
   fields, but it does on the order of fields of the same name *)




Lemma reread_refutes V c psort pcmp d :
  ind_ok c = true -> pcmp_agrees psort pcmp -> para_cmp_consistent pcmp -> wf_doc d = true ->
  reread_differs V c psort d -> ~ C07_full V.
Proof.
  intros Hi Hp Hc Hwf (t1 & t' & E1 & E2 & Hne) H.
  destruct (H c psort pcmp None None d Hi Hp I I Hc (fun a b => match pcmp with Some p => eq_refl | None => I end) Hwf)
    as (u & F1 & _ & _ & (u' & F2 & F3) & _).
  rewrite E1 in F1. injection F1 as <-. rewrite E2 in F2. injection F2 as <-. exact (Hne F3).
Qed.

Lemma second_refutes V c psort pcmp d :
  ind_ok c = true -> pcmp_agrees psort pcmp -> para_cmp_consistent pcmp -> wf_doc d = true ->
  second_differs V c psort d -> ~ C07_full V.
Proof.
  intros Hi Hp Hc Hwf (t1 & t2 & E1 & E2 & Hne) H.
  destruct (H c psort pcmp None None d Hi Hp I I Hc (fun a b => match pcmp with Some p => eq_refl | None => I end) Hwf)
    as (u & F1 & _ & _ & _ & _ & _ & F7).
  rewrite E1 in F1. injection F1 as <-. rewrite E2 in F7. injection F7 as ->. apply Hne. reflexivity.
Qed.

(* DESIGN §5 row 8: an in-paragraph comment loses its line end and swallows the next field *)
Lemma shipped_comment_swallows : reread_differs shipped W.c1 None W.d_comment.
Proof. eexists. eexists. split; [vm_compute; reflexivity|]. split; [vm_compute; reflexivity|]. vm_compute. discriminate. Qed.
Lemma no_para_nl_comment_swallows : reread_differs no_para_nl W.c1 None W.d_comment.
Proof. eexists. eexists. split; [vm_compute; reflexivity|]. split; [vm_compute; reflexivity|]. vm_compute. discriminate. Qed.

(* row 9: a second pass fuses a top-level comment with the following paragraph *)
Lemma shipped_second_pass_fuses : second_differs shipped W.c1 None W.d_top_comment.
Proof. eexists. eexists. split; [vm_compute; reflexivity|]. split; [vm_compute; reflexivity|]. vm_compute. discriminate. Qed.
Lemma no_doc_lines_second_pass_fuses : second_differs no_doc_lines W.c1 None W.d_top_comment.
Proof. eexists. eexists. split; [vm_compute; reflexivity|]. split; [vm_compute; reflexivity|]. vm_compute. discriminate. Qed.

(* new: with an immediate empty line a first line starting with '#' becomes a comment *)
Lemma shipped_hash_line_lost : reread_differs shipped W.c1e None W.d_hash.
Proof. eexists. eexists. split; [vm_compute; reflexivity|]. split; [vm_compute; reflexivity|]. vm_compute. discriminate. Qed.
Lemma no_hash_hash_line_lost : reread_differs no_hash W.c1e None W.d_hash.
Proof. eexists. eexists. split; [vm_compute; reflexivity|]. split; [vm_compute; reflexivity|]. vm_compute. discriminate. Qed.

Lemma shipped_moved_paragraph_fused :
  exists t1 t', sort_only shipped (Some by_first_value) (tree_of W.d_unterminated) = Ok t1 /\
                from_str (text t1) = Ok t' /\ length (doc_items t1) = 2 /\ length (doc_items t') = 1.
Proof. eexists. eexists. split; [vm_compute; reflexivity|]. split; [vm_compute; reflexivity|]. split; vm_compute; reflexivity. Qed.
Lemma no_terminate_moved_paragraph_fused :
  exists t1 t', sort_only no_terminate (Some by_first_value) (tree_of W.d_unterminated) = Ok t1 /\
                from_str (text t1) = Ok t' /\ length (doc_items t1) = 2 /\ length (doc_items t') = 1.
Proof. eexists. eexists. split; [vm_compute; reflexivity|]. split; [vm_compute; reflexivity|]. split; vm_compute; reflexivity. Qed.
Lemma fixed_moved_paragraph_kept :
  exists t1 t', sort_only fixed (Some by_first_value) (tree_of W.d_unterminated) = Ok t1 /\
                from_str (text t1) = Ok t' /\ doc_items t' = doc_items t1 /\ length (doc_items t1) = 2.
Proof. eexists. eexists. split; [vm_compute; reflexivity|]. split; [vm_compute; reflexivity|]. split; vm_compute; reflexivity. Qed.

Lemma shipped_formatter_lines : fmt_reports shipped = Ok W.semi_lexed.
Proof. vm_compute. reflexivity. Qed.
Lemma no_fmt_lines_formatter_lines : fmt_reports no_fmt_lines = Ok W.semi_lexed.
Proof. vm_compute. reflexivity. Qed.
Lemma fixed_formatter_lines : fmt_reports fixed = Ok W.semi_lines.
Proof. vm_compute. reflexivity. Qed.

(* row 10: Build-Conflicts-Arch is not passed to the relations formatter *)
Lemma shipped_typo rel v : format_field shipped rel W.bca v = Ok v.
Proof. reflexivity. Qed.
Lemma fixed_typo rel v : format_field fixed rel W.bca v = rel v.
Proof. reflexivity. Qed.

(* an indentation of zero columns panics (assert!(indentation > 0)) *)
Lemma zero_indent_panics V f iel mll fmt : entry_ws V (Spaces 0) iel mll fmt (field_tree f) = Panic 3.
Proof. unfold entry_ws. rewrite ews_scan_field. reflexivity. Qed.

Theorem C07_shipped_refuted_proof : ~ C07_full shipped.
Proof. apply (reread_refutes shipped W.c1 None None W.d_comment); try reflexivity; try exact I. exact shipped_comment_swallows. Qed.
Theorem C07_no_para_nl_refuted_proof : ~ C07_full no_para_nl.
Proof. apply (reread_refutes no_para_nl W.c1 None None W.d_comment); try reflexivity; try exact I. exact no_para_nl_comment_swallows. Qed.
Theorem C07_no_doc_lines_refuted_proof : ~ C07_full no_doc_lines.
Proof. apply (second_refutes no_doc_lines W.c1 None None W.d_top_comment); try reflexivity; try exact I. exact no_doc_lines_second_pass_fuses. Qed.
Theorem C07_no_hash_refuted_proof : ~ C07_full no_hash.
Proof. apply (reread_refutes no_hash W.c1e None None W.d_hash); try reflexivity; try exact I. exact no_hash_hash_line_lost. Qed.


Lemma split_lf_go_noeol l : forall X acc, no_eol l = true -> split_lf_go (l ++ X) acc = split_lf_go X (acc ++ l).
Proof.
  induction l as [|c r IH]; intros X acc H; [rewrite app_nil_r; reflexivity|]. cbn [no_eol forallb] in H.
  apply andb_true_iff in H. destruct H as [Hc Hr]. cbn [app split_lf_go].
  assert (E : (c =? 10)%N = false).
  { apply negb_true_iff in Hc. unfold is_newline in Hc. apply orb_false_iff in Hc. apply Hc. }
  rewrite E, (IH X (acc ++ [c]) Hr), <- app_assoc. reflexivity.
Qed.

Lemma split_lf_lines conts : forall first, no_eol first = true -> forallb no_eol conts = true ->
  split_lf (first ++ flat_map (fun t => LF :: t) conts) = first :: conts.
Proof.
  unfold split_lf. induction conts as [|t r IH]; intros first Hf Hc.
  - cbn [flat_map]. rewrite (split_lf_go_noeol first [] [] Hf). reflexivity.
  - cbn [forallb] in Hc. apply andb_true_iff in Hc. destruct Hc as [Ht Hr].
    cbn [flat_map]. rewrite (split_lf_go_noeol first _ [] Hf). cbn [app split_lf_go]. change (LF =? 10)%N with true. cbv iota.
    f_equal. apply (IH t Ht Hr).
Qed.

Lemma parse_value_of_text w first conts :
  ws_ok w = true -> first_ok first = true -> forallb canon_cont conts = true ->
  parse_value (value_text w first conts) = (w, first, conts).
Proof.
  intros Hw Hf Hc. unfold parse_value, value_text.
  assert (Hnf : no_eol first = true) by (unfold first_ok in Hf; apply andb_true_iff in Hf; apply Hf).
  assert (Hnc : forallb no_eol conts = true).
  { clear - Hc. induction conts as [|t r IH]; [reflexivity|]. cbn [forallb] in *. apply andb_true_iff in Hc. destruct Hc as [H1 H2].
    rewrite (IH H2), andb_true_r. apply (canon_cont_parts t H1). }
  rewrite span_app_stop; [rewrite (split_lf_lines conts first Hnf Hnc); reflexivity|exact Hw|].
  destruct first as [|x first'].
  - destruct conts; [exact I|reflexivity].
  - unfold first_ok in Hf. apply andb_true_iff in Hf. destruct Hf as [_ Hx]. apply negb_true_iff in Hx. exact Hx.
Qed.

Lemma a_ws_field_id c f m : wf_field f m = true ->
  a_ws_field c (Some fmt_id) f = a_ws_field c None f /\ fmt_shaped_on (Some fmt_id) f = true.
Proof.
  intros Hwf. destruct (wf_field_parts f m Hwf) as (_ & Hw & Hf & Hc).
  pose proof (parse_value_of_text (field_ws0 f) (f_first f) (map snd (f_cont f)) (ws_ok_field_ws0 f Hw) Hf Hc) as E.
  unfold a_ws_field, fmt_shaped_on, shaped, fmt_id. rewrite E. split; [reflexivity|].
  rewrite Hf, Hc. cbn [andb]. unfold field_ws0. destruct (f_first f); [|reflexivity]. destruct (f_cont f); reflexivity.
Qed.

Lemma a_ws_items_id c ecmp its more : wf_items its more = true ->
  a_ws_items c ecmp (Some fmt_id) its = a_ws_items c ecmp None its /\ items_shaped (Some fmt_id) its.
Proof.
  intros Hwf. split.
  - unfold a_ws_items. pose proof (group_items_In its []) as HIn. destruct (group_items its []) as [gs tr]. cbn [fst] in HIn.
    f_equal. apply map_ext_in. intros g Hg. apply sort_opt_In in Hg.
    destruct (wf_items_In its more (snd g) Hwf (HIn g Hg)) as [m Hm]. rewrite (proj1 (a_ws_field_id c (snd g) m Hm)). reflexivity.
  - intros f Hf. destruct (wf_items_In its more f Hwf Hf) as [m Hm]. apply (a_ws_field_id c f m Hm).
Qed.

Lemma a_ws_doc_ext pcmp pf pf' l : (forall its, In (LPara its) l -> pf its = pf' its) -> a_ws_doc pcmp pf l = a_ws_doc pcmp pf' l.
Proof.
  intros H. unfold a_ws_doc. pose proof (group_blocks_In l []) as HIn. destruct (group_blocks l []) as [gs tr]. cbn [fst] in HIn.
  f_equal. f_equal. f_equal. apply map_ext_in. intros g Hg. apply sort_opt_In in Hg. rewrite (H (snd g) (HIn g Hg)). reflexivity.
Qed.

(* with the identity formatter everything is as without a formatter, on every well-formed document *)
Theorem a_std_id c pcmp ecmp l : lwf l = true ->
  a_std c pcmp ecmp (Some fmt_id) l = a_std c pcmp ecmp None l /\ doc_shaped (Some fmt_id) l.
Proof.
  intros Hl. split.
  - unfold a_std. apply a_ws_doc_ext. intros its Hi. destruct (lwf_para_wf l its Hl Hi) as [m Hm].
    apply (a_ws_items_id c ecmp its m Hm).
  - intros its f Hi Hf. destruct (lwf_para_wf l its Hl Hi) as [m Hm]. apply (proj2 (a_ws_items_id c ecmp its m Hm) f Hf).
Qed.

(* ---------------------------------------------------------------- with a formatter *)
Lemma paras_of_lift_fields d its : In its (paras_of (lift d)) -> fields_of its <> [].
Proof.
  unfold paras_of, lift. intros H. apply in_flat_map in H. destruct H as (b & Hb & H).
  apply in_map_iff in Hb. destruct Hb as (b0 & <- & _). destruct b0; try contradiction. destruct H as [<-|[]]. discriminate.
Qed.

Lemma spec_para_nonempty ecmp fmt its : fields_of its <> [] -> spec_para ecmp fmt its <> [].
Proof.
  intros H. unfold spec_para. pose proof (Permutation.Permutation_length (sort_opt_perm (option_map on_pair ecmp) (fields_of its))) as Hl.
  destruct (sort_opt (option_map on_pair ecmp) (fields_of its)); [destruct (fields_of its); [congruence|discriminate]|discriminate].
Qed.

Theorem formatter_proof c psort pcmp esort ecmp g d :
  ind_ok c = true -> pcmp_agrees psort pcmp -> ecmp_agrees esort ecmp -> wf_doc d = true ->
  doc_shaped (Some g) (lift d) ->
  let l1 := a_ws_doc pcmp (a_ws_items c ecmp (Some g)) (lift d) in
  std_ws fixed c psort esort (Some (pure_fmt g)) (tree_of d) = Ok (ltree_of l1) /\
  doc_items (ltree_of l1) = map (spec_para ecmp (Some g)) (sort_opt (option_map on_items pcmp) (paras_of (lift d))) /\
  (exists t', from_str (text (ltree_of l1)) = Ok t' /\ doc_items t' = doc_items (ltree_of l1)) /\
  doc_indented c l1 = true /\ single_blanks SepStart l1 = true.
Proof.
  intros Hind Hp He Hwf Hsh l1.
  assert (Hl : lwf (lift d) = true) by (apply lwf_lift; exact Hwf).
  pose proof (lwf_fields_ok (Some g) (lift d) Hl Hsh) as Hok.
  assert (Hcontent : doc_items (ltree_of l1) = map (spec_para ecmp (Some g)) (sort_opt (option_map on_items pcmp) (paras_of (lift d)))).
  { subst l1. rewrite doc_items_ltree_of, a_ws_doc_content. apply map_ext_in. intros its Hi.
    apply a_ws_items_pairs. intros f Hf. apply (Hok its f); [|exact Hf].
    apply sort_opt_In in Hi. unfold paras_of in Hi. apply in_flat_map in Hi. destruct Hi as (b & Hb & Hi).
    destruct b; try contradiction. destruct Hi as [<-|[]]. exact Hb. }
  split; [|split; [exact Hcontent|split; [|split]]].
  - rewrite <- ltree_of_lift. apply (std_ws_commute c psort pcmp esort ecmp (Some g) Hind Hp He (lift d) Hok).
  - destruct (a_ws_doc_reread pcmp (a_ws_items c ecmp (Some g)) (lift d) Hl (pf_keeps_wf_items c ecmp (Some g) (lift d) Hind Hsh)) as (t' & E1 & E2).
    exists t'. split; [exact E1|]. rewrite E2. fold l1. rewrite <- doc_items_ltree_of, Hcontent.
    unfold nonempty_paras. apply filter_all_id. apply forallb_forall. intros q Hq. apply in_map_iff in Hq. destruct Hq as (its & <- & Hi).
    apply sort_opt_In in Hi. pose proof (spec_para_nonempty ecmp (Some g) its (paras_of_lift_fields d its Hi)) as Hn.
    destruct (spec_para ecmp (Some g) its); [congruence|reflexivity].
  - apply a_ws_doc_indented. intros its. apply a_ws_items_indented.
  - apply a_ws_doc_single_blanks.
Qed.

Theorem formatter_idem_proof c psort pcmp esort ecmp g d :
  ind_ok c = true -> pcmp_agrees psort pcmp -> ecmp_agrees esort ecmp -> wf_doc d = true ->
  doc_shaped (Some g) (lift d) -> stable_on c (Some g) (lift d) ->
  pair_cmp_consistent ecmp -> para_cmp_consistent pcmp ->
  ecmp_invariant_on ecmp (Some g) (lift d) -> pcmp_invariant_on pcmp ecmp (Some g) (lift d) ->
  let l1 := a_ws_doc pcmp (a_ws_items c ecmp (Some g)) (lift d) in
  std_ws fixed c psort esort (Some (pure_fmt g)) (ltree_of l1) = Ok (ltree_of l1).
Proof.
  intros Hind Hp He Hwf Hsh Hst Hce Hcp Hie Hip l1.
  assert (Hl : lwf (lift d) = true) by (apply lwf_lift; exact Hwf).
  pose proof (lwf_fields_ok (Some g) (lift d) Hl Hsh) as Hok.
  apply (std_ws_idem c psort pcmp esort ecmp (Some g) Hind Hp He (lift d) Hok Hst Hce Hcp Hie Hip).
Qed.

(* the identity formatter: as without a formatter, second application included *)
Theorem identity_formatter_proof c psort pcmp esort ecmp d :
  ind_ok c = true -> pcmp_agrees psort pcmp -> ecmp_agrees esort ecmp ->
  pair_cmp_consistent ecmp -> para_cmp_consistent pcmp ->
  (forall a b, match pcmp with Some p => p (sort_opt ecmp a) (sort_opt ecmp b) = p a b | None => True end) ->
  wf_doc d = true ->
  let l1 := a_ws_doc pcmp (a_ws_items c ecmp None) (lift d) in
  std_ws fixed c psort esort (Some (pure_fmt fmt_id)) (tree_of d) = Ok (ltree_of l1) /\
  std_ws fixed c psort esort (Some (pure_fmt fmt_id)) (ltree_of l1) = Ok (ltree_of l1).
Proof.
  intros Hind Hp He Hce Hcp Hpi Hwf l1.
  assert (Hl : lwf (lift d) = true) by (apply lwf_lift; exact Hwf).
  destruct (a_std_id c pcmp ecmp (lift d) Hl) as [Eid Hsh]. unfold a_std in Eid.
  pose proof (lwf_fields_ok (Some fmt_id) (lift d) Hl Hsh) as Hok.
  pose proof (lwf_fields_ok None (lift d) Hl (fun _ _ _ _ => eq_refl)) as Hok0.
  change (Some (pure_fmt fmt_id)) with (option_map pure_fmt (Some fmt_id)).
  split.
  - rewrite <- ltree_of_lift. rewrite (std_ws_commute c psort pcmp esort ecmp (Some fmt_id) Hind Hp He (lift d) Hok).
    unfold a_std. rewrite Eid. reflexivity.
  - (* the fields of the result are well-formed, so the identity formatter is shaped on them too *)
    assert (Hwf1 : forall x, In (LPara x) l1 -> exists m, wf_items x m = true).
    { intros x Hx. apply In_a_ws_doc in Hx. destruct Hx as (its & Hi & ->). destruct (lwf_para_wf (lift d) its Hl Hi) as [m Hm].
      exists true. apply (wf_terminate_last _ m). apply wf_a_ws_items; [exact Hind|exact Hm|intros f _; reflexivity]. }
    assert (Hok1 : doc_fields_ok (Some fmt_id) l1).
    { intros x f Hx Hf. destruct (Hwf1 x Hx) as [m Hm]. destruct (wf_items_In x m f Hm Hf) as [m' Hm'].
      apply (wf_field_ok (Some fmt_id) f m' Hm'). apply (a_ws_field_id c f m' Hm'). }
    rewrite (std_ws_commute c psort pcmp esort ecmp (Some fmt_id) Hind Hp He l1 Hok1). f_equal. f_equal.
    unfold a_std. rewrite (a_ws_doc_ext pcmp (a_ws_items c ecmp (Some fmt_id)) (a_ws_items c ecmp None) l1).
    + apply (a_std_idem c psort pcmp ecmp None Hp (lift d) Hok0 (stable_on_nofmt c (lift d) Hok0) Hce Hcp (ecmp_invariant_nofmt ecmp (lift d))).
      intros a b _ _. specialize (Hpi (flat_map item_pairs a) (flat_map item_pairs b)). destruct pcmp as [p|]; [|exact I].
      rewrite !spec_para_nofmt. exact Hpi.
    + intros x Hx. destruct (Hwf1 x Hx) as [m Hm]. apply (a_ws_items_id c ecmp x m Hm).
Qed.

(* ---------------------------------------------------------------- the control-file wrappers *)
Lemma res_map_ext {A B} (f g : A -> res B) l : (forall x, f x = g x) -> res_map f l = res_map g l.
Proof. intros H. induction l as [|x r IH]; [reflexivity|]. cbn [res_map]. rewrite H, IH. reflexivity. Qed.

Lemma entry_ws_ext V ind iel mll (f1 f2 : str -> str -> res str) e :
  (forall k v, f1 k v = f2 k v) -> entry_ws V ind iel mll (Some f1) e = entry_ws V ind iel mll (Some f2) e.
Proof.
  intros H. unfold entry_ws. destruct (ews_scan (children e) ind [] []) as [[[ind' built] content]| | |]; try reflexivity.
  cbn [bind]. destruct (_ =? 0)%N; [reflexivity|]. unfold entry_tokens.
  destruct (existsb is_err_or_comment (strip_trailing content)); [reflexivity|].
  destruct (entry_key e); [rewrite H|]; reflexivity.
Qed.

Lemma para_ws_ext V ind iel mll esort (f1 f2 : str -> str -> res str) p :
  (forall k v, f1 k v = f2 k v) -> para_ws V ind iel mll esort (Some f1) p = para_ws V ind iel mll esort (Some f2) p.
Proof.
  intros H. unfold para_ws. destruct (pws_scan V (children p) [] []) as [[ents tr]| | |]; try reflexivity. cbn [bind].
  rewrite (res_map_ext _ (fun pe : list tree * tree =>
             bind (res_map emit_token (fst pe)) (fun pre => bind (entry_ws V ind iel mll (Some f2) (snd pe)) (fun e' => Ok (pre ++ [e']))))).
  - reflexivity.
  - intros pe. destruct (res_map emit_token (fst pe)); try reflexivity. cbn [bind]. rewrite (entry_ws_ext V ind iel mll f1 f2 (snd pe) H). reflexivity.
Qed.

Lemma dws_emit_ext V (p1 p2 : tree -> res tree) ps : (forall t, p1 t = p2 t) -> forall first,
  dws_emit V (Some p1) first ps = dws_emit V (Some p2) first ps.
Proof.
  intros H. induction ps as [|[pre p] r IH]; intros first; [reflexivity|]. cbn [dws_emit]. rewrite H.
  destruct (res_map (emit_current V) pre); try reflexivity. cbn [bind]. destruct (p2 p); try reflexivity. cbn [bind].
  rewrite (IH false). reflexivity.
Qed.

Lemma format_field_pure r k v : format_field fixed (rel_arm fixed (fun x => Ok (r x))) k v = Ok (ctl_fmt r k v).
Proof. unfold format_field, ctl_fmt, rel_arm. cbn [v_typo v_upl_hash v_rel_keep fixed]. destruct (str_eqb k Lit.k_Uploaders); [reflexivity|]. destruct (existsb (str_eqb k) (Lit.relation_fields true)); reflexivity. Qed.

(* Control::wrap_and_sort is the deb822-level reformatting in control order, no field sort, with the control formatter *)
Theorem control_ws_is_std c r t :
  control_ws fixed (fun x => Ok (r x)) (c_ind c) (c_iel c) (c_mll c) t
  = std_ws fixed c (Some control_order) None (Some (pure_fmt (ctl_fmt r))) t.
Proof.
  unfold control_ws, std_ws, doc_ws. destruct (dws_scan fixed (children t) [] []) as [[ps tr]| | |]; try reflexivity. cbn [bind].
  rewrite (dws_emit_ext fixed _ (para_ws fixed (c_ind c) (c_iel c) (c_mll c) None (Some (pure_fmt (ctl_fmt r))))); [reflexivity|].
  intros p. unfold control_para_ws. apply para_ws_ext. intros k v. apply format_field_pure.
Qed.

Lemma uploaders_hash_piece :
  ctl_reports no_upl_hash WC.d_upl_hash = Ok (WC.upl_hash_reported, Ok WC.upl_hash_reread) /\
  ctl_reports fixed WC.d_upl_hash = Ok (WC.upl_hash_kept, Ok WC.upl_hash_kept).
Proof. split; vm_compute; reflexivity. Qed.
(* ... without C07-22; with it the field is left as it is *)
Lemma control_unparsable_relation_panics :
  control_ws no_rel_keep (fun _ => Panic 20) (Spaces 1) false None (tree_of WC.d_bad_relation) = Panic 20.
Proof. vm_compute. reflexivity. Qed.
Lemma control_unparsable_relation_kept_ex :
  control_ws fixed (fun _ => Panic 20) (Spaces 1) false None (tree_of WC.d_bad_relation) = Ok (tree_of WC.d_bad_relation).
Proof. vm_compute. reflexivity. Qed.
Lemma rel_arm_kept rel v : rel v = Panic 20 -> rel_arm fixed rel v = Ok v.
Proof. intros H. unfold rel_arm. cbn [v_rel_keep fixed]. rewrite H. reflexivity. Qed.
Lemma rel_arm_ok rel v o : rel v = Ok o -> rel_arm fixed rel v = Ok o.
Proof. intros H. unfold rel_arm. cbn [v_rel_keep fixed]. rewrite H. reflexivity. Qed.


Lemma span_indent_no_lead o : match o with [] => True | ch :: _ => lead_char ch = false end -> span is_indent o = ([], o).
Proof.
  destruct o as [|ch r]; [reflexivity|]. intros H. cbn [span]. unfold lead_char in H. apply orb_false_iff in H. destruct H as [H _].
  rewrite H. reflexivity.
Qed.

Lemma parse_value_no_lead o w first conts :
  match o with [] => True | ch :: _ => lead_char ch = false end -> parse_value o = (w, first, conts) ->
  w = [] /\ (first = [] -> conts = [] /\ o = []).
Proof.
  intros Hn Hp. pose proof (parse_value_text o w first conts Hp) as Ho.
  unfold parse_value in Hp. rewrite (span_indent_no_lead o Hn) in Hp.
  destruct (split_lf o) as [|l1 rest] eqn:El; [injection Hp as <- <- <-; split; [reflexivity|intros _; split; [reflexivity|]]|].
  - exfalso. apply (split_lf_go_nonempty o [] El).
  - injection Hp as <- <- <-. split; [reflexivity|]. intros ->. unfold value_text in Ho. cbn [app] in Ho.
    destruct rest as [|t r]; [split; [reflexivity|exact Ho]|]. exfalso. cbn [flat_map app] in Ho. subst o.
    unfold lead_char, LF in Hn. cbn in Hn. discriminate.
Qed.

Theorem absorbing_stable c g f : absorbing g -> no_lead g -> conts_nonempty f = true -> fmt_shaped_on (Some g) f = true ->
  field_stable c (Some g) f /\ fmt_lexes (Some g) (a_ws_field c (Some g) f).
Proof.
  intros Ha Hn Hcn Hs. pose proof (shaped_lexes (Some g) f Hs) as Hl.
  set (v := value_text (field_ws0 f) (f_first f) (map snd (f_cont f))) in *.
  set (o := g (f_name f) v) in *.
  assert (Hkey : g (f_name f) (value_text (field_ws0 (a_ws_field c (Some g) f)) (f_first (a_ws_field c (Some g) f))
                                   (map snd (f_cont (a_ws_field c (Some g) f)))) = o).
  { unfold a_ws_field. fold v. fold o. specialize (Hn (f_name f) v). fold o in Hn.
    cbn [fmt_lexes] in Hl. cbv zeta in Hl. fold v in Hl. fold o in Hl.
    destruct (parse_value o) as [[w first] conts] eqn:Ep. destruct Hl as [_ Hne].
    destruct (parse_value_no_lead o w first conts Hn Ep) as [-> Hfirst].
    pose proof (parse_value_text o [] first conts Ep) as Ho. unfold value_text in Ho. cbn [app] in Ho.
    unfold rebuild_field. destruct (fits c (f_name f) [] first && is_nil conts) eqn:Efit.
    - apply andb_true_iff in Efit. destruct Efit as [_ En]. destruct conts; [|discriminate].
      cbn [f_first f_cont f_ws map flat_map] in *. rewrite app_nil_r in Ho.
      replace (field_ws0 (mk_field (f_name f) [] first [] true)) with (@nil N) by (unfold field_ws0; cbn; destruct first; reflexivity).
      unfold value_text. cbn [app flat_map]. rewrite app_nil_r, <- Ho. apply (Ha (f_name f) v []). reflexivity.
    - destruct (value_lines first conts) as [|l1 rest] eqn:El.
      + assert (first = [] /\ conts = []) as [-> ->] by (unfold value_lines in El; destruct first; [split; [reflexivity|exact El]|discriminate]).
        cbn [flat_map app] in Ho. unfold field_ws0, value_text. cbn [f_first f_cont f_ws map flat_map app].
        rewrite <- Ho. apply (Ha (f_name f) v []). reflexivity.
      + assert (Hl1 : first = l1 /\ conts = rest).
        { unfold value_lines in El. destruct first as [|b first']; [|injection El as <- <-; split; reflexivity].
          destruct (Hfirst eq_refl) as [-> _]. discriminate. }
        destruct Hl1 as [-> ->].
        assert (Hl1ne : l1 <> []) by (apply (value_lines_head_nonempty l1 rest l1 rest Hne El)).
        destruct (c_iel c && negb (is_nil rest) && negb (starts_with_hash l1)).
        * unfold field_ws0, value_text. cbn [f_first f_cont f_ws]. rewrite map_snd_indent.
          replace (match indent_lines (width c (f_name f)) (l1 :: rest) with [] => [] | _ :: _ => @nil N end) with (@nil N) by reflexivity.
          cbn [app flat_map]. change (LF :: l1 ++ flat_map (fun t : str => LF :: t) rest) with ([LF] ++ (l1 ++ flat_map (fun t : str => LF :: t) rest)).
          rewrite <- Ho. apply (Ha (f_name f) v [LF]). reflexivity.
        * unfold value_text. cbn [f_first f_cont]. rewrite map_snd_indent.
          replace (field_ws0 (mk_field (f_name f) [32%N] l1 (indent_lines (width c (f_name f)) rest) true)) with [32%N]
            by (unfold field_ws0; cbn [f_first f_cont f_ws]; destruct l1; [contradiction|reflexivity]).
          rewrite <- Ho. apply (Ha (f_name f) v [32%N]). reflexivity. }
  assert (Hname : f_name (a_ws_field c (Some g) f) = f_name f).
  { unfold a_ws_field. destruct (parse_value _) as [[w first] conts]. apply rebuild_field_name. }
  split; [split|].
  - unfold a_ws_field at 1. rewrite Hname, Hkey. unfold a_ws_field. fold v. fold o. reflexivity.
  - apply a_ws_field_pair; [exact Hcn|exact Hl].
  - cbn [fmt_lexes]. cbv zeta. rewrite Hname, Hkey. exact Hl.
Qed.

(* ---------------------------------------------------------------- the Uploaders formatter absorbs *)
Definition no_char (d : N) (s : str) : bool := forallb (fun ch => negb (ch =? d)%N) s.

Lemma split_on_go_nochar d a : forall X acc, no_char d a = true ->
  split_on_go d acc (a ++ X) = split_on_go d (rev a ++ acc) X.
Proof.
  induction a as [|ch r IH]; intros X acc H; [reflexivity|]. cbn [no_char forallb] in H.
  apply andb_true_iff in H. destruct H as [Hc Hr]. apply negb_true_iff in Hc.
  cbn [app split_on_go rev]. rewrite Hc, (IH X (ch :: acc) Hr), <- app_assoc. reflexivity.
Qed.

Lemma split_on_single d a : no_char d a = true -> split_on d a = [a].
Proof.
  intros H. unfold split_on. pose proof (split_on_go_nochar d a [] [] H) as E. rewrite !app_nil_r in E. rewrite E. cbn [split_on_go].
  rewrite rev_involutive. reflexivity.
Qed.

Lemma split_on_cons d a X : no_char d a = true -> split_on d (a ++ d :: X) = a :: split_on d X.
Proof.
  intros H. unfold split_on. rewrite (split_on_go_nochar d a _ [] H), app_nil_r. cbn [split_on_go].
  rewrite N.eqb_refl, rev_involutive. reflexivity.
Qed.

Lemma split_on_go_pieces d s : forall acc p, no_char d acc = true -> In p (split_on_go d acc s) -> no_char d p = true.
Proof.
  induction s as [|ch r IH]; intros acc p Ha Hp; cbn [split_on_go] in Hp.
  - destruct Hp as [<-|[]]. unfold no_char in *. rewrite forallb_forall in *. intros x Hx. apply Ha. apply in_rev. exact Hx.
  - destruct (ch =? d)%N eqn:E.
    + destruct Hp as [<-|Hp]; [|apply (IH [] p eq_refl Hp)].
      unfold no_char in *. rewrite forallb_forall in *. intros x Hx. apply Ha. apply in_rev. exact Hx.
    + apply (IH (ch :: acc) p); [|exact Hp]. cbn [no_char forallb]. rewrite E. exact Ha.
Qed.
Lemma split_on_pieces d s p : In p (split_on d s) -> no_char d p = true.
Proof. apply (split_on_go_pieces d s [] p eq_refl). Qed.
Lemma split_on_nonempty d s : split_on d s <> [].
Proof.
  unfold split_on. generalize (@nil N) as acc. induction s as [|ch r IH]; intros acc; cbn [split_on_go]; [discriminate|].
  destruct (ch =? d)%N; [discriminate|apply IH].
Qed.

(* drop_while *)
Lemma drop_while_all {A} (p : A -> bool) a b : forallb p a = true -> drop_while p (a ++ b) = drop_while p b.
Proof. induction a as [|x r IH]; [reflexivity|]. cbn [forallb app drop_while]. intros H. apply andb_true_iff in H. destruct H as [H1 H2]. rewrite H1. apply IH. exact H2. Qed.
Lemma drop_while_stop {A} (p : A -> bool) l : match l with [] => True | x :: _ => p x = false end -> drop_while p l = l.
Proof. destruct l as [|x r]; [reflexivity|]. intros H. cbn [drop_while]. rewrite H. reflexivity. Qed.
Lemma drop_while_head {A} (p : A -> bool) l : match drop_while p l with [] => True | x :: _ => p x = false end.
Proof. induction l as [|x r IH]; [exact I|]. cbn [drop_while]. destruct (p x) eqn:E; [exact IH|exact E]. Qed.
Lemma drop_while_split {A} (p : A -> bool) l : exists a, forallb p a = true /\ l = a ++ drop_while p l.
Proof.
  induction l as [|x r IH]; [exists []; split; reflexivity|]. cbn [drop_while]. destruct (p x) eqn:E.
  - destruct IH as (a & Ha & Er). exists (x :: a). cbn [forallb app]. rewrite E, Ha. split; [reflexivity|]. f_equal. exact Er.
  - exists []. split; reflexivity.
Qed.
Lemma drop_while_sub {A} (p q : A -> bool) l : forallb q l = true -> forallb q (drop_while p l) = true.
Proof. induction l as [|x r IH]; [reflexivity|]. cbn [forallb drop_while]. intros H. apply andb_true_iff in H. destruct H as [H1 H2]. destruct (p x); [apply IH; exact H2|cbn [forallb]; rewrite H1, H2; reflexivity]. Qed.

(* trimmed: no whitespace at either end *)
Definition head_ok (s : str) : Prop := match s with [] => True | ch :: _ => is_whitespace ch = false end.
Definition trimmed (s : str) : Prop := head_ok s /\ head_ok (rev s).

Lemma trim_trimmed x : trimmed (trim x).
Proof.
  unfold trim, trimmed. set (y := drop_while is_whitespace x). set (z := drop_while is_whitespace (rev y)).
  split; [|rewrite rev_involutive; apply drop_while_head].
  destruct (drop_while_split is_whitespace (rev y)) as (a & Ha & E). fold z in E.
  assert (Ey : y = rev z ++ rev a) by (rewrite <- (rev_involutive y), E, rev_app_distr; reflexivity).
  pose proof (drop_while_head is_whitespace x) as Hy. fold y in Hy.
  destruct (rev z) as [|ch r] eqn:Ez; [exact I|]. rewrite Ey in Hy. exact Hy.
Qed.

Lemma trim_absorbs lead p : forallb is_whitespace lead = true -> trimmed p -> trim (lead ++ p) = p.
Proof.
  intros Hl [H1 H2]. unfold trim. rewrite (drop_while_all _ lead p Hl), (drop_while_stop _ p H1), (drop_while_stop _ (rev p) H2).
  apply rev_involutive.
Qed.

Lemma trim_no_char d x : no_char d x = true -> no_char d (trim x) = true.
Proof.
  intros H. unfold trim, no_char in *. rewrite forallb_forall. intros ch Hc. apply in_rev in Hc.
  assert (Hr : forallb (fun c => negb (c =? d)%N) (rev (drop_while is_whitespace x)) = true).
  { rewrite forallb_forall. intros y Hy. apply in_rev in Hy. pose proof (drop_while_sub is_whitespace _ x H) as Hs.
    rewrite forallb_forall in Hs. apply Hs. exact Hy. }
  pose proof (drop_while_sub is_whitespace _ _ Hr) as Hs. rewrite forallb_forall in Hs. apply Hs. exact Hc.
Qed.

Lemma lead_char_ws ch : lead_char ch = true -> is_whitespace ch = true /\ (ch =? 44)%N = false.
Proof.
  unfold lead_char, is_indent. intros H.
  destruct (ch =? 32)%N eqn:E1; [apply N.eqb_eq in E1; subst; split; reflexivity|].
  destruct (ch =? 9)%N eqn:E2; [apply N.eqb_eq in E2; subst; split; reflexivity|].
  destruct (ch =? 10)%N eqn:E3; [apply N.eqb_eq in E3; subst; split; reflexivity|]. discriminate.
Qed.

Lemma lead_all lead : forallb lead_char lead = true -> forallb is_whitespace lead = true /\ no_char 44 lead = true.
Proof.
  induction lead as [|ch r IH]; [split; reflexivity|]. cbn [forallb no_char]. intros H. apply andb_true_iff in H. destruct H as [H1 H2].
  destruct (lead_char_ws ch H1) as [Hw Hc]. destruct (IH H2) as [I1 I2]. rewrite Hw, Hc, I1. split; [reflexivity|exact I2].
Qed.

Definition sep : str := [44%N; 10%N].
Lemma join_cons2 p p2 r : join sep (p :: p2 :: r) = p ++ sep ++ join sep (p2 :: r).
Proof. reflexivity. Qed.

Lemma split_join ps : forall lead, ps <> [] -> no_char 44 lead = true -> Forall (fun p => no_char 44 p = true) ps ->
  split_on 44 (lead ++ join sep ps) =
  match ps with [] => [] | p :: rest => (lead ++ p) :: map (fun q => 10%N :: q) rest end.
Proof.
  induction ps as [|p r IH]; intros lead Hne Hl Hps; [congruence|]. inversion Hps as [|? ? Hp Hr]; subst.
  destruct r as [|p2 r2].
  - cbn [join map]. apply split_on_single. unfold no_char in *. rewrite forallb_app, Hl, Hp. reflexivity.
  - rewrite join_cons2. unfold sep at 1. cbn [app]. rewrite app_assoc, split_on_cons.
    + f_equal. change (10%N :: join sep (p2 :: r2)) with ([10%N] ++ join sep (p2 :: r2)).
      rewrite (IH [10%N] ltac:(discriminate) eq_refl Hr). reflexivity.
    + unfold no_char in *. rewrite forallb_app, Hl, Hp. reflexivity.
Qed.

Theorem uploaders_absorbing : absorbing (fun _ v => fmt_uploaders v).
Proof.
  intros _ v lead Hlead. destruct (lead_all lead Hlead) as [Hw Hc].
  unfold fmt_uploaders at 1. fold sep.
  set (ps := map trim (split_on 44 v)).
  assert (Hne : ps <> []) by (unfold ps; pose proof (split_on_nonempty 44 v); destruct (split_on 44 v); [congruence|discriminate]).
  assert (Hnc : Forall (fun p => no_char 44 p = true) ps).
  { unfold ps. apply Forall_forall. intros p Hp. apply in_map_iff in Hp. destruct Hp as (q & <- & Hq).
    apply trim_no_char. apply (split_on_pieces 44 v q Hq). }
  assert (Htr : Forall trimmed ps).
  { unfold ps. apply Forall_forall. intros p Hp. apply in_map_iff in Hp. destruct Hp as (q & <- & _). apply trim_trimmed. }
  change (fmt_uploaders v) with (join sep ps). rewrite (split_join ps lead Hne Hc Hnc).
  destruct ps as [|p rest]; [congruence|]. inversion Htr as [|? ? Hp Hrest]; subst. cbn [map].
  rewrite (trim_absorbs lead p Hw Hp). f_equal. f_equal. rewrite map_map.
  rewrite <- (map_id rest) at 2. apply map_ext_in. intros q Hq. rewrite Forall_forall in Hrest.
  apply (trim_absorbs [10%N] q eq_refl (Hrest q Hq)).
Qed.

Theorem uploaders_no_lead : no_lead (fun _ v => fmt_uploaders v).
Proof.
  intros _ v. unfold fmt_uploaders. fold sep.
  assert (Htr : Forall trimmed (map trim (split_on 44 v))).
  { apply Forall_forall. intros p Hp. apply in_map_iff in Hp. destruct Hp as (q & <- & _). apply trim_trimmed. }
  assert (Hnl : forall ch, is_whitespace ch = false -> lead_char ch = false).
  { intros ch Hc. destruct (lead_char ch) eqn:E; [|reflexivity]. destruct (lead_char_ws ch E) as [Hw _]. congruence. }
  destruct (map trim (split_on 44 v)) as [|p r]; [exact I|]. inversion Htr as [|? ? [Hp _] _]; subst.
  destruct r as [|p2 r2].
  - cbn [join]. destruct p as [|ch p']; [exact I|]. apply Hnl. exact Hp.
  - rewrite join_cons2. destruct p as [|ch p']; [reflexivity|]. cbn [app]. apply Hnl. exact Hp.
Qed.

(* ---- the Uploaders arm with C07-21 (a piece that starts with '#' stays on the line before it) ---- *)
Definition lch (q : str) : N := if starts_with_hash q then 32%N else 10%N.
Lemma upl_sep_lch q : upl_sep q = [44%N; lch q].
Proof. unfold upl_sep, lch. destruct (starts_with_hash q); reflexivity. Qed.
Lemma join_upl_cons2 p p2 r : join_upl (p :: p2 :: r) = p ++ upl_sep p2 ++ join_upl (p2 :: r).
Proof. reflexivity. Qed.

Lemma split_join_upl ps : forall lead, ps <> [] -> no_char 44 lead = true -> Forall (fun p => no_char 44 p = true) ps ->
  split_on 44 (lead ++ join_upl ps) =
  match ps with [] => [] | p :: rest => (lead ++ p) :: map (fun q => lch q :: q) rest end.
Proof.
  induction ps as [|p r IH]; intros lead Hne Hl Hps; [congruence|]. inversion Hps as [|? ? Hp Hr]; subst.
  destruct r as [|p2 r2].
  - cbn [join_upl map]. apply split_on_single. unfold no_char in *. rewrite forallb_app, Hl, Hp. reflexivity.
  - rewrite join_upl_cons2, upl_sep_lch. cbn [app]. rewrite app_assoc, split_on_cons.
    + f_equal. change (lch p2 :: join_upl (p2 :: r2)) with ([lch p2] ++ join_upl (p2 :: r2)).
      rewrite (IH [lch p2] ltac:(discriminate)); [reflexivity| |exact Hr]. unfold lch. destruct (starts_with_hash p2); reflexivity.
    + unfold no_char in *. rewrite forallb_app, Hl, Hp. reflexivity.
Qed.

Theorem uploaders_h_absorbing : absorbing (fun _ v => fmt_uploaders_h v).
Proof.
  intros _ v lead Hlead. destruct (lead_all lead Hlead) as [Hw Hc].
  unfold fmt_uploaders_h at 1.
  set (ps := map trim (split_on 44 v)).
  assert (Hne : ps <> []) by (unfold ps; pose proof (split_on_nonempty 44 v); destruct (split_on 44 v); [congruence|discriminate]).
  assert (Hnc : Forall (fun p => no_char 44 p = true) ps).
  { unfold ps. apply Forall_forall. intros p Hp. apply in_map_iff in Hp. destruct Hp as (q & <- & Hq).
    apply trim_no_char. apply (split_on_pieces 44 v q Hq). }
  assert (Htr : Forall trimmed ps).
  { unfold ps. apply Forall_forall. intros p Hp. apply in_map_iff in Hp. destruct Hp as (q & <- & _). apply trim_trimmed. }
  change (fmt_uploaders_h v) with (join_upl ps). rewrite (split_join_upl ps lead Hne Hc Hnc).
  destruct ps as [|p rest]; [congruence|]. inversion Htr as [|? ? Hp Hrest]; subst. cbn [map].
  rewrite (trim_absorbs lead p Hw Hp). f_equal. f_equal. rewrite map_map.
  rewrite <- (map_id rest) at 2. apply map_ext_in. intros q Hq. rewrite Forall_forall in Hrest.
  apply (trim_absorbs [lch q] q); [unfold lch; destruct (starts_with_hash q); reflexivity|exact (Hrest q Hq)].
Qed.

Theorem uploaders_h_no_lead : no_lead (fun _ v => fmt_uploaders_h v).
Proof.
  intros _ v. unfold fmt_uploaders_h.
  assert (Htr : Forall trimmed (map trim (split_on 44 v))).
  { apply Forall_forall. intros p Hp. apply in_map_iff in Hp. destruct Hp as (q & <- & _). apply trim_trimmed. }
  assert (Hnl : forall ch, is_whitespace ch = false -> lead_char ch = false).
  { intros ch Hc. destruct (lead_char ch) eqn:E; [|reflexivity]. destruct (lead_char_ws ch E) as [Hw _]. congruence. }
  destruct (map trim (split_on 44 v)) as [|p r]; [exact I|]. inversion Htr as [|? ? [Hp _] _]; subst.
  destruct r as [|p2 r2].
  - cbn [join_upl]. destruct p as [|ch p']; [exact I|]. apply Hnl. exact Hp.
  - rewrite join_upl_cons2, upl_sep_lch. destruct p as [|ch p']; [reflexivity|]. cbn [app]. apply Hnl. exact Hp.
Qed.

(* a second application changes nothing for an absorbing formatter, comparators on names *)
Theorem absorbing_idem_proof c psort pcmp esort ecmp g d :
  ind_ok c = true -> pcmp_agrees psort pcmp -> ecmp_agrees esort ecmp -> wf_doc d = true ->
  doc_shaped (Some g) (lift d) -> absorbing g -> no_lead g ->
  pair_cmp_consistent ecmp -> para_cmp_consistent pcmp ->
  match ecmp with Some e => forall a b a' b', fst a = fst a' -> fst b = fst b' -> e a b = e a' b' | None => True end ->
  pcmp_invariant_on pcmp ecmp (Some g) (lift d) ->
  let l1 := a_ws_doc pcmp (a_ws_items c ecmp (Some g)) (lift d) in
  std_ws fixed c psort esort (Some (pure_fmt g)) (ltree_of l1) = Ok (ltree_of l1).
Proof.
  intros Hind Hp He Hwf Hsh Ha Hn Hce Hcp Hnames Hip.
  assert (Hl : lwf (lift d) = true) by (apply lwf_lift; exact Hwf).
  pose proof (lwf_fields_ok (Some g) (lift d) Hl Hsh) as Hok.
  apply formatter_idem_proof; try assumption.
  - intros its f Hi Hf. destruct (Hok its f Hi Hf) as (_ & Hc & _). apply absorbing_stable; try assumption. apply (Hsh its f Hi Hf).
  - intros its f f' Hi Hf Hf'. destruct ecmp as [e|]; [|exact I]. apply Hnames; reflexivity.
Qed.
