(* Instances and witnesses for C07: the comparators and formatters used by the streams satisfy
   the hypotheses of the theorems; the shipped code (and the code lacking any one repair)
   violates the property on concrete inputs. *)
From V.model Require Import Base Deb822Lex Deb822Parse Grammar Lossy LossySpec Deb822Edit LiveDoc Deb822Wrap WrapSpec.
From V.proofs Require Import BaseP GrammarLexP GrammarParseP GrammarAccP Deb822EditP LiveDocP LiveParaP Deb822WrapP.
Set Default Timeout 60.

(* ---------------------------------------------------------------- comparators *)
Lemma N_compare_gt_flip x y : N.compare x y = Gt -> N.compare y x = Lt.
Proof. intros H. rewrite N.compare_antisym, H. reflexivity. Qed.

Lemma str_cmp_consistent : cmp_consistent str_cmp.
Proof.
  intros a. induction a as [|x a IH]; intros b H; destruct b as [|y b]; cbn [str_cmp] in *; try discriminate.
  destruct (N.compare x y) eqn:E.
  - apply N.compare_eq in E. subst y. rewrite N.compare_refl. apply IH. exact H.
  - discriminate.
  - rewrite (N_compare_gt_flip x y E). discriminate.
Qed.

Lemma opt_cmp_consistent : cmp_consistent opt_cmp.
Proof.
  intros a b H. destruct a as [x|], b as [y|]; cbn [opt_cmp] in *; try discriminate. apply str_cmp_consistent. exact H.
Qed.

(* |a, b| a.key().cmp(&b.key()) *)
Definition name_cmp : pair_cmp := fun a b => str_cmp (fst a) (fst b).
Lemma by_name_agrees : ecmp_agrees (Some by_name) (Some name_cmp).
Proof. intros f g. unfold by_name, name_cmp. rewrite !entry_key_field. reflexivity. Qed.
Lemma name_cmp_consistent : pair_cmp_consistent (Some name_cmp).
Proof. intros a b H. unfold name_cmp in *. apply str_cmp_consistent. exact H. Qed.

(* by the value of the first field *)
Definition first_value_of (p : list (str * str)) : option str := match p with (_, v) :: _ => Some v | [] => None end.
Definition first_value_cmp : para_cmp := fun a b => opt_cmp (first_value_of a) (first_value_of b).
Lemma items_lpara its : items (lblock_tree (LPara its)) = flat_map item_pairs its.
Proof. cbn [lblock_tree]. apply pitems_item_elems. Qed.
Lemma by_first_value_agrees : pcmp_agrees (Some by_first_value) (Some first_value_cmp).
Proof. intros x y. unfold by_first_value, first_value_cmp, first_value. rewrite !items_lpara. reflexivity. Qed.
Lemma first_value_cmp_consistent : para_cmp_consistent (Some first_value_cmp).
Proof. intros a b H. unfold first_value_cmp in *. apply opt_cmp_consistent. exact H. Qed.

(* the order of Control::wrap_and_sort *)
Definition control_cmp : para_cmp := fun a b =>
  let a_is_source := is_some (spec_get a Lit.k_Source) in
  let b_is_source := is_some (spec_get b Lit.k_Source) in
  if a_is_source && negb b_is_source then Lt
  else if negb a_is_source && b_is_source then Gt
  else if a_is_source && b_is_source then opt_cmp (spec_get a Lit.k_Source) (spec_get b Lit.k_Source)
  else opt_cmp (spec_get a Lit.k_Package) (spec_get b Lit.k_Package).
Lemma control_order_agrees : pcmp_agrees (Some control_order) (Some control_cmp).
Proof. intros x y. unfold control_order, control_cmp. rewrite !get_items, !items_lpara. reflexivity. Qed.
Lemma control_cmp_consistent : para_cmp_consistent (Some control_cmp).
Proof.
  intros a b. unfold control_cmp.
  destruct (is_some (spec_get a Lit.k_Source)), (is_some (spec_get b Lit.k_Source)); cbn [andb negb]; intros H; try discriminate.
  - apply opt_cmp_consistent. exact H.
  - apply opt_cmp_consistent. exact H.
Qed.
(* it looks at the first Source / Package field only: it does not depend on the order of the other
   fields, but it does on the order of fields of the same name *)

(* ---------------------------------------------------------------- witnesses: the code before the repairs *)
Module W.
  Import Coq.Strings.String.
  Local Open Scope string_scope.
  Definition s := Lit.s2l.
  Definition c1 : wcfg := mk_wcfg (Spaces 1) false None.
  Definition c1e : wcfg := mk_wcfg (Spaces 1) true None.
  Definition fA := mk_field (s "A") (s " ") (s "b") [] true.
  Definition fB := mk_field (s "B") (s " ") (s "c") [] true.
  (* "A: b\n# c\nB: c\n" *)
  Definition d_comment : doc := [BPara fA [IComment (s " c") true; IField fB]].
  (* "# c\nA: b\n" *)
  Definition d_top_comment : doc := [BComment (s " c") true; BPara fA []].
  (* "A: #x\n b\n" *)
  Definition d_hash : doc := [BPara (mk_field (s "A") (s " ") (s "#x") [(s " ", s "b")] true) []].
  (* "B: z\n\nA: d"  (no final newline) *)
  Definition d_unterminated : doc :=
    [BPara (mk_field (s "B") (s " ") (s "z") [] true) []; BBlank; BPara (mk_field (s "A") (s " ") (s "d") [] false) []].
  (* "A: b;B: c\n" *)
  Definition d_semi : doc := [BPara (mk_field (s "A") (s " ") (s "b;B: c") [] true) []].
  Definition semi_lexed : list (list (str * str)) := [[(s "A", (s "b" ++ [10%N] ++ s "c")%list)]].
  Definition semi_lines : list (list (str * str)) := [[(s "A", (s "b" ++ [10%N] ++ s "B: c")%list)]].
  Definition bca : str := Eval compute in s "Build-Conflicts-Arch".
End W.

Definition no_para_nl : variant := mk_variant false true true true true true.
Definition no_doc_lines : variant := mk_variant true false true true true true.
Definition no_fmt_lines : variant := mk_variant true true false true true true.
Definition no_hash : variant := mk_variant true true true false true true.
Definition no_terminate : variant := mk_variant true true true true false true.
Definition no_typo : variant := mk_variant true true true true true false.

(* the printed result does not re-read to what the returned object reports *)
Definition reread_differs (V : variant) (c : wcfg) psort (d : doc) : Prop :=
  exists t1 t', std_ws V c psort None None (tree_of d) = Ok t1 /\ from_str (text t1) = Ok t' /\ doc_items t' <> doc_items t1.
(* a second application changes the result *)
Definition second_differs (V : variant) (c : wcfg) psort (d : doc) : Prop :=
  exists t1 t2, std_ws V c psort None None (tree_of d) = Ok t1 /\ std_ws V c psort None None t1 = Ok t2 /\ text t2 <> text t1.

Lemma reread_refutes V c psort pcmp d :
  ind_ok c = true -> pcmp_agrees psort pcmp -> para_cmp_consistent pcmp -> wf_doc d = true ->
  reread_differs V c psort d -> ~ C07_full V.
Proof.
  intros Hi Hp Hc Hwf (t1 & t' & E1 & E2 & Hne) H.
  destruct (H c psort pcmp None None d Hi Hp I I Hc (fun a b => match pcmp with Some p => eq_refl | None => I end) Hwf)
    as (u & F1 & _ & _ & (u' & F2 & F3) & _).
  rewrite E1 in F1. injection F1 as <-. rewrite E2 in F2. injection F2 as <-. exact (Hne F3).
Qed.

Lemma second_refutes V c psort pcmp d :
  ind_ok c = true -> pcmp_agrees psort pcmp -> para_cmp_consistent pcmp -> wf_doc d = true ->
  second_differs V c psort d -> ~ C07_full V.
Proof.
  intros Hi Hp Hc Hwf (t1 & t2 & E1 & E2 & Hne) H.
  destruct (H c psort pcmp None None d Hi Hp I I Hc (fun a b => match pcmp with Some p => eq_refl | None => I end) Hwf)
    as (u & F1 & _ & _ & _ & _ & _ & F7).
  rewrite E1 in F1. injection F1 as <-. rewrite E2 in F7. injection F7 as ->. apply Hne. reflexivity.
Qed.

(* DESIGN §5 row 8: an in-paragraph comment loses its line end and swallows the next field *)
Lemma shipped_comment_swallows : reread_differs shipped W.c1 None W.d_comment.
Proof. eexists. eexists. split; [vm_compute; reflexivity|]. split; [vm_compute; reflexivity|]. vm_compute. discriminate. Qed.
Lemma no_para_nl_comment_swallows : reread_differs no_para_nl W.c1 None W.d_comment.
Proof. eexists. eexists. split; [vm_compute; reflexivity|]. split; [vm_compute; reflexivity|]. vm_compute. discriminate. Qed.

(* row 9: a second pass fuses a top-level comment with the following paragraph *)
Lemma shipped_second_pass_fuses : second_differs shipped W.c1 None W.d_top_comment.
Proof. eexists. eexists. split; [vm_compute; reflexivity|]. split; [vm_compute; reflexivity|]. vm_compute. discriminate. Qed.
Lemma no_doc_lines_second_pass_fuses : second_differs no_doc_lines W.c1 None W.d_top_comment.
Proof. eexists. eexists. split; [vm_compute; reflexivity|]. split; [vm_compute; reflexivity|]. vm_compute. discriminate. Qed.

(* new: with an immediate empty line a first line starting with '#' becomes a comment *)
Lemma shipped_hash_line_lost : reread_differs shipped W.c1e None W.d_hash.
Proof. eexists. eexists. split; [vm_compute; reflexivity|]. split; [vm_compute; reflexivity|]. vm_compute. discriminate. Qed.
Lemma no_hash_hash_line_lost : reread_differs no_hash W.c1e None W.d_hash.
Proof. eexists. eexists. split; [vm_compute; reflexivity|]. split; [vm_compute; reflexivity|]. vm_compute. discriminate. Qed.

(* new: a paragraph whose last line is unterminated is fused with the one it is moved in front of
   (here the paragraph function leaves the paragraphs as they are) *)
Definition sort_only (V : variant) (psort : option (tree -> tree -> comparison)) (t : tree) : res tree := doc_ws V psort None t.
Lemma shipped_moved_paragraph_fused :
  exists t1 t', sort_only shipped (Some by_first_value) (tree_of W.d_unterminated) = Ok t1 /\
                from_str (text t1) = Ok t' /\ length (doc_items t1) = 2 /\ length (doc_items t') = 1.
Proof. eexists. eexists. split; [vm_compute; reflexivity|]. split; [vm_compute; reflexivity|]. split; vm_compute; reflexivity. Qed.
Lemma no_terminate_moved_paragraph_fused :
  exists t1 t', sort_only no_terminate (Some by_first_value) (tree_of W.d_unterminated) = Ok t1 /\
                from_str (text t1) = Ok t' /\ length (doc_items t1) = 2 /\ length (doc_items t') = 1.
Proof. eexists. eexists. split; [vm_compute; reflexivity|]. split; [vm_compute; reflexivity|]. split; vm_compute; reflexivity. Qed.
Lemma fixed_moved_paragraph_kept :
  exists t1 t', sort_only fixed (Some by_first_value) (tree_of W.d_unterminated) = Ok t1 /\
                from_str (text t1) = Ok t' /\ doc_items t' = doc_items t1 /\ length (doc_items t1) = 2.
Proof. eexists. eexists. split; [vm_compute; reflexivity|]. split; [vm_compute; reflexivity|]. split; vm_compute; reflexivity. Qed.

(* row 28: the continuation lines of a formatter's output are lexed as field names: the returned
   object reports "b\nc" where the formatter returned "b\nB: c" (and the text re-reads as that) *)
Definition semi (k v : str) : str := map (fun ch => if (ch =? 59)%N then 10%N else ch) v.
Definition fmt_reports (V : variant) : res (list (list (str * str))) :=
  rmap doc_items (std_ws V W.c1 None None (Some (pure_fmt semi)) (tree_of W.d_semi)).
Lemma shipped_formatter_lines : fmt_reports shipped = Ok W.semi_lexed.
Proof. vm_compute. reflexivity. Qed.
Lemma no_fmt_lines_formatter_lines : fmt_reports no_fmt_lines = Ok W.semi_lexed.
Proof. vm_compute. reflexivity. Qed.
Lemma fixed_formatter_lines : fmt_reports fixed = Ok W.semi_lines.
Proof. vm_compute. reflexivity. Qed.

(* row 10: Build-Conflicts-Arch is not passed to the relations formatter *)
Lemma shipped_typo rel v : format_field shipped rel W.bca v = Ok v.
Proof. reflexivity. Qed.
Lemma fixed_typo rel v : format_field fixed rel W.bca v = rel v.
Proof. reflexivity. Qed.

(* an indentation of zero columns panics (assert!(indentation > 0)) *)
Lemma zero_indent_panics V f iel mll fmt : entry_ws V (Spaces 0) iel mll fmt (field_tree f) = Panic 3.
Proof. unfold entry_ws. rewrite ews_scan_field. reflexivity. Qed.

Theorem C07_shipped_refuted_proof : ~ C07_full shipped.
Proof. apply (reread_refutes shipped W.c1 None None W.d_comment); try reflexivity; try exact I. exact shipped_comment_swallows. Qed.
Theorem C07_no_para_nl_refuted_proof : ~ C07_full no_para_nl.
Proof. apply (reread_refutes no_para_nl W.c1 None None W.d_comment); try reflexivity; try exact I. exact no_para_nl_comment_swallows. Qed.
Theorem C07_no_doc_lines_refuted_proof : ~ C07_full no_doc_lines.
Proof. apply (second_refutes no_doc_lines W.c1 None None W.d_top_comment); try reflexivity; try exact I. exact no_doc_lines_second_pass_fuses. Qed.
Theorem C07_no_hash_refuted_proof : ~ C07_full no_hash.
Proof. apply (reread_refutes no_hash W.c1e None None W.d_hash); try reflexivity; try exact I. exact no_hash_hash_line_lost. Qed.
