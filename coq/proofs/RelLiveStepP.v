(* Lemmas about RelLive.v (C11), part 2: what an abstract operation does to the ENTRIES of a live
   layout.  [lentries l] are the entries of the layout, in order, as layouts; every operation is a
   list operation on them ([estep]): the entries it does not name stay the very same layouts
   (so keep their text), the substitution variables stay; and on contents [estep] is the list
   model [xstep].  Also: the positions an operation names exist iff it is defined. *)
From V.model Require Import Base RelLex RelParse RelAcc RelGrammar.
From V.model Require Import RelEdit RelEditSpec RelEditTree RelLive.
From V.proofs Require Import BaseP RelEditP RelEditStP RelEditTreeP RelLiveP.

Definition entry_of (x : relem) : list lentry := match x with RE e => [e] | _ => [] end.
Definition lentries (l : lroot) : list lentry := flat_map entry_of l.
Definition lsubsts (l : lroot) : list str := flat_map relem_substvars l.

Lemma lcontent_entries l : lcontent l = (map lentry_content (lentries l), lsubsts l).
Proof.
  unfold lcontent, lentries, lsubsts. f_equal.
  induction l as [|x r IH]; [reflexivity|]. cbn [flat_map]. rewrite map_app, <- IH. now destruct x.
Qed.
Lemma lentry_texts_entries l : lentry_texts l = map (fun e => text (lentry_tree e)) (lentries l).
Proof.
  unfold lentry_texts, lentries. induction l as [|x r IH]; [reflexivity|]. cbn [flat_map]. rewrite map_app, <- IH.
  now destruct x.
Qed.
Lemma lentries_app a b : lentries (a ++ b) = lentries a ++ lentries b.
Proof. apply flat_map_app. Qed.
Lemma lsubsts_app a b : lsubsts (a ++ b) = lsubsts a ++ lsubsts b.
Proof. apply flat_map_app. Qed.

(* both only look at the items *)
Lemma lentries_items l : lentries l = lentries (filter is_item l).
Proof.
  induction l as [|x r IH]; [reflexivity|]. destruct x; cbn [filter is_item]; try exact IH.
  change (lentries (RE e :: r)) with (e :: lentries r). change (lentries (RE e :: filter is_item r)) with (e :: lentries (filter is_item r)).
  now rewrite IH.
Qed.
Lemma lsubsts_items l : lsubsts l = lsubsts (filter is_item l).
Proof.
  induction l as [|x r IH]; [reflexivity|]. destruct x; cbn [filter is_item]; try exact IH.
  change (lsubsts (RS seg segs :: r)) with (subst_text seg segs :: lsubsts r).
  change (lsubsts (RS seg segs :: filter is_item r)) with (subst_text seg segs :: lsubsts (filter is_item r)).
  now rewrite IH.
Qed.

(* ------------------------------------------------------------------ positions *)
Lemma nth_index_re_split l : forall idx ci, nth_index is_re idx l = Some ci ->
  exists pre e post, l = pre ++ RE e :: post /\ length pre = ci /\ length (lentries pre) = idx.
Proof.
  induction l as [|x r IH]; intros idx ci H; [discriminate|]. cbn [nth_index] in H.
  destruct (is_re x) eqn:Ex.
  - destruct x as [| |e|]; try discriminate. destruct idx as [|idx].
    + injection H as <-. now exists [], e, r.
    + destruct (nth_index is_re idx r) as [c|] eqn:E; [|discriminate]. injection H as <-.
      destruct (IH _ _ E) as (pre & e' & post & -> & <- & <-). exists (RE e :: pre), e', post. repeat split.
  - destruct (nth_index is_re idx r) as [c|] eqn:E; [|discriminate]. injection H as <-.
    destruct (IH _ _ E) as (pre & e' & post & -> & <- & <-). exists (x :: pre), e', post. repeat split.
    cbn [length]. f_equal. unfold lentries. cbn [flat_map]. destruct x; try discriminate; reflexivity.
Qed.
Lemma nth_index_re_none l : forall idx, nth_index is_re idx l = None -> length (lentries l) <= idx.
Proof.
  induction l as [|x r IH]; intros idx H; [cbn; lia|]. cbn [nth_index] in H.
  destruct (is_re x) eqn:Ex.
  - destruct x as [| |e|]; try discriminate. destruct idx as [|idx]; [discriminate|].
    destruct (nth_index is_re idx r) eqn:E; [discriminate|]. apply IH in E.
    change (lentries (RE e :: r)) with (e :: lentries r). cbn [length]. lia.
  - destruct (nth_index is_re idx r) eqn:E; [discriminate|]. apply IH in E.
    destruct x; try discriminate; exact E.
Qed.
Lemma nth_index_re_at pre e post : nth_index is_re (length (lentries pre)) (pre ++ RE e :: post) = Some (length pre).
Proof.
  induction pre as [|x r IH]; [reflexivity|]. cbn [app nth_index]. destruct x; cbn [is_re].
  - change (lentries (RW w :: r)) with (lentries r). now rewrite IH.
  - change (lentries (RC :: r)) with (lentries r). now rewrite IH.
  - change (lentries (RE e0 :: r)) with (e0 :: lentries r). cbn [length]. now rewrite IH.
  - change (lentries (RS seg segs :: r)) with (lentries r). now rewrite IH.
Qed.
Lemma nth_entry_entries l i ci e : nth_entry l i = Some (ci, e) ->
  exists pre post, l = pre ++ RE e :: post /\ length pre = ci /\ length (lentries pre) = i.
Proof.
  unfold nth_entry. destruct (nth_index is_re i l) as [c|] eqn:E; [|discriminate].
  destruct (nth_index_re_split _ _ _ E) as (pre & e' & post & -> & <- & <-).
  rewrite nth_error_app_len. intros H0. assert (e' = e) by congruence. subst e'. exists pre, post. repeat split; congruence.
Qed.
Lemma nth_entry_at pre e post : nth_entry (pre ++ RE e :: post) (length (lentries pre)) = Some (length pre, e).
Proof. unfold nth_entry. now rewrite nth_index_re_at, nth_error_app_len. Qed.
Lemma lentries_split pre e post : lentries (pre ++ RE e :: post) = lentries pre ++ e :: lentries post.
Proof. now rewrite lentries_app. Qed.
Lemma nth_error_entries_some l i e : nth_error (lentries l) i = Some e ->
  exists pre post, l = pre ++ RE e :: post /\ length (lentries pre) = i.
Proof.
  revert i; induction l as [|x r IH]; intros i H; [destruct i; discriminate|].
  destruct x as [w| |e0|seg segs].
  - destruct (IH i H) as (pre & post & -> & <-). now exists (RW w :: pre), post.
  - destruct (IH i H) as (pre & post & -> & <-). now exists (RC :: pre), post.
  - change (lentries (RE e0 :: r)) with (e0 :: lentries r) in H. destruct i as [|i].
    + injection H as <-. now exists [], r.
    + cbn [nth_error] in H. destruct (IH i H) as (pre & post & -> & <-). now exists (RE e0 :: pre), post.
  - destruct (IH i H) as (pre & post & -> & <-). now exists (RS seg segs :: pre), post.
Qed.

(* ------------------------------------------------------------------ the list operation on the entries *)
Definition estep (es : list lentry) (o : aop) : list lentry :=
  match o with
  | APush e => match operand_lentry e with Some le => es ++ [le] | None => es end
  | AInsert i e => match operand_lentry e with Some le => l_insert i le es | None => es end
  | AReplace i e => match operand_lentry e with Some le => l_replace i le es | None => es end
  | ARemoveEntry i => l_remove i es
  | AEPush i r => upd_nth i (fun e => a_epush e (lrel_new r)) es
  | AEReplace i j r => upd_nth i (fun e => a_ereplace e j (lrel_new r)) es
  | ARemoveRelation i j =>
      match nth_error es i with
      | Some e => match a_remove_rel e j with Some e' => l_replace i e' es | None => l_remove i es end
      | None => es
      end
  | ASetVersion i j v => upd_nth i (fun e => upd_rel e j (a_set_version v)) es
  | ADropConstraint i j => upd_nth i (fun e => upd_rel e j (a_set_version None)) es
  | ASetArchqual i j q => upd_nth i (fun e => upd_rel e j (a_set_archqual q)) es
  | ASetArchs i j a => upd_nth i (fun e => upd_rel e j (a_set_archs a)) es
  | AAddProfile i j g => upd_nth i (fun e => upd_rel e j (a_add_profile g)) es
  end.
(* the positions an operation names exist, its operand is an entry *)
Definition e_in_range (es : list lentry) (o : aop) : bool :=
  match o with
  | APush e | AInsert _ e => has_more e
  | AReplace i e => has_more e && (i <? length es)
  | ARemoveEntry i | AEPush i _ => i <? length es
  | AEReplace i j _ | ARemoveRelation i j | ASetVersion i j _ | ADropConstraint i j
  | ASetArchqual i j _ | ASetArchs i j _ | AAddProfile i j _ =>
      match nth_error es i with Some e => j <? n_rels e | None => false end
  end.

Lemma l_insert_app_len {A} (a : list A) x b : l_insert (length a) x (a ++ b) = a ++ x :: b.
Proof. unfold l_insert. now rewrite firstn_app_len, skipn_app_len. Qed.
Lemma l_insert_beyond {A} i (x : A) l : length l <= i -> l_insert i x l = l ++ [x].
Proof. intros H. unfold l_insert. rewrite firstn_all2 by lia. now rewrite skipn_all2 by lia. Qed.

Lemma skipn_S_of {A} n : forall (l : list A) x r, skipn n l = x :: r -> skipn (S n) l = r.
Proof.
  induction n as [|n IH]; intros l x r H.
  - cbn in H. subst l. reflexivity.
  - destruct l as [|y l]; [discriminate|]. cbn [skipn] in H. apply IH in H. exact H.
Qed.

(* Entry::remove keeps every item but the entry *)
Lemma filter_item_skip_ws l : filter is_item (skipn (wlen l) l) = filter is_item l.
Proof. induction l as [|x r IH]; [reflexivity|]. destruct x; try reflexivity. cbn [wlen skipn filter is_item]. exact IH. Qed.
Lemma filter_item_after l k c : (match skipn (wlen l) l with
                                 | [] => Some (wlen l, false)
                                 | RC :: _ => Some (S (wlen l), true)
                                 | _ => None
                                 end) = Some (k, c) -> filter is_item (skipn k l) = filter is_item l.
Proof.
  intros H. rewrite <- (filter_item_skip_ws l). destruct (skipn (wlen l) l) as [|x r] eqn:E.
  - injection H as <- <-. now rewrite E.
  - destruct x; try discriminate. injection H as <- <-.
    now rewrite (skipn_S_of _ _ _ _ E).
Qed.
Lemma filter_rev {A} (p : A -> bool) l : filter p (rev l) = rev (filter p l).
Proof.
  induction l as [|x r IH]; [reflexivity|]. cbn [rev filter]. rewrite filter_app, IH. cbn [filter].
  destruct (p x); [reflexivity|now rewrite app_nil_r].
Qed.
Lemma firstn_as_rev {A} (l : list A) k : firstn (length l - k) l = rev (skipn k (rev l)).
Proof. rewrite skipn_rev, rev_involutive. reflexivity. Qed.

Lemma remove_at_items l ci l' : ci < length l -> a_remove_at l ci = Some l' ->
  filter is_item l' = filter is_item (firstn ci l) ++ filter is_item (skipn (S ci) l).
Proof.
  intros Hci. unfold a_remove_at. set (pre := firstn ci l). set (post := skipn (S ci) l).
  destruct (match skipn (wlen post) post with [] => Some (wlen post, false) | RC :: _ => Some (S (wlen post), true) | _ => None end)
    as [[k1 rc]|] eqn:E; [|discriminate].
  pose proof (filter_item_after post k1 rc E) as Hpost.
  destruct (negb (existsb is_item pre)).
  - intros [= <-]. rewrite filter_app, filter_item_skip_ws, Hpost. reflexivity.
  - intros [= <-]. rewrite filter_app, Hpost. f_equal.
    assert (Lp : length pre = ci) by (unfold pre; rewrite firstn_length; lia).
    rewrite <- Lp at 1. rewrite firstn_as_rev. set (rp := rev pre). rewrite filter_rev.
    rewrite <- (rev_involutive (filter is_item pre)). f_equal. rewrite <- filter_rev. fold rp.
    rewrite <- (filter_item_skip_ws rp).
    destruct (skipn (wlen rp) rp) as [|x r] eqn:E2.
    + now rewrite E2.
    + destruct x; try (now rewrite E2). destruct rc; [now rewrite E2|].
      now rewrite (skipn_S_of _ _ _ _ E2).
Qed.

Lemma remove_at_entries pre e post l' : a_remove_at (pre ++ RE e :: post) (length pre) = Some l' ->
  lentries l' = lentries pre ++ lentries post /\ lsubsts l' = lsubsts pre ++ lsubsts post.
Proof.
  intros H. apply remove_at_items in H; [|rewrite app_length; cbn; lia].
  rewrite firstn_app_len, skipn_S_app_len in H.
  split.
  - rewrite (lentries_items l'), H, lentries_app, <- !lentries_items. reflexivity.
  - rewrite (lsubsts_items l'), H, lsubsts_app, <- !lsubsts_items. reflexivity.
Qed.

(* replacing one entry *)
Lemma replace_entry_entries pre e post e' :
  lentries (replace_at (length pre) (RE e') (pre ++ RE e :: post)) = lentries pre ++ e' :: lentries post
  /\ lsubsts (replace_at (length pre) (RE e') (pre ++ RE e :: post)) = lsubsts (pre ++ RE e :: post).
Proof. rewrite replace_at_split. split; [apply lentries_split|]. now rewrite !lsubsts_app. Qed.

Lemma upd_nth_at {A} (f : A -> A) a x b : upd_nth (length a) f (a ++ x :: b) = a ++ f x :: b.
Proof. apply upd_nth_app_r. Qed.

Lemma nth_rel_lt e j r : nth_rel e j = Some r -> j <? n_rels e = true.
Proof.
  unfold n_rels. destruct j as [|j]; cbn [nth_rel]; [reflexivity|].
  destruct (nth_error (e_alts e) j) eqn:E; [|discriminate]. intros _. apply Nat.ltb_lt.
  assert (j < length (e_alts e)) by (apply nth_error_Some; congruence). lia.
Qed.

Theorem entries_step o l l' : a_op o l = Some l' ->
  lentries l' = estep (lentries l) o /\ lsubsts l' = lsubsts l /\ e_in_range (lentries l) o = true.
Proof.
  intros H. destruct o; cbn [a_op estep e_in_range] in *.
  - (* push *)
    destruct (operand_lentry e) as [le|] eqn:Eo; [|discriminate]. cbn [option_map] in H. injection H as <-.
    assert (He : has_more e = true) by (destruct e; [discriminate|reflexivity]). rewrite He.
    unfold a_push, a_insert. destruct (nth_index is_re (count_if is_re l) l) as [ci|] eqn:E.
    + exfalso. destruct (nth_index_re_split _ _ _ E) as (pre & e0 & post & -> & _ & L).
      assert (Hc : forall m, count_if is_re m = length (lentries m)).
      { intros m. unfold count_if. induction m as [|x r IH]; [reflexivity|]. destruct x; cbn [filter is_re]; try exact IH.
        change (lentries (RE e1 :: r)) with (e1 :: lentries r). cbn [length]. now rewrite IH. }
      rewrite Hc, lentries_split, app_length in L. cbn [length] in L. lia.
    + rewrite lentries_app, lsubsts_app.
      destruct (hd_error (skipn (wlen (rev l)) (rev l))) as [[| | |]|]; [| destruct (wlen (rev l)) | | |];
        (split; [|split; [|reflexivity]]); cbn; rewrite ?app_nil_r; reflexivity.
  - (* insert *)
    destruct (operand_lentry e) as [le|] eqn:Eo; [|discriminate]. cbn [option_map] in H. injection H as <-.
    assert (He : has_more e = true) by (destruct e; [discriminate|reflexivity]). rewrite He.
    unfold a_insert. destruct (nth_index is_re i l) as [ci|] eqn:E.
    + destruct (nth_index_re_split _ _ _ E) as (pre & e0 & post & -> & <- & <-).
      rewrite insert_at_app_len. cbn [app]. rewrite !lentries_split, l_insert_app_len.
      split; [|split; [|reflexivity]].
      * reflexivity.
      * rewrite !lsubsts_app. reflexivity.
    + apply nth_index_re_none in E. rewrite l_insert_beyond by exact E. rewrite lentries_app, lsubsts_app.
      destruct (hd_error (skipn (wlen (rev l)) (rev l))) as [[| | |]|]; [| destruct (wlen (rev l)) | | |];
        (split; [|split; [|reflexivity]]); cbn; rewrite ?app_nil_r; reflexivity.
  - (* replace *)
    destruct (operand_lentry e) as [le|] eqn:Eo; [|discriminate].
    assert (He : has_more e = true) by (destruct e; [discriminate|reflexivity]). rewrite He.
    unfold a_replace in H. destruct (nth_index is_re i l) as [ci|] eqn:E; [|discriminate]. injection H as <-.
    destruct (nth_index_re_split _ _ _ E) as (pre & e0 & post & -> & <- & <-).
    destruct (replace_entry_entries pre e0 post le) as [H1 H2]. rewrite H1, H2, lentries_split, l_replace_app_len.
    repeat split. rewrite app_length. cbn [length andb]. apply Nat.ltb_lt. lia.
  - (* remove_entry *)
    unfold a_remove_entry in H. destruct (nth_index is_re i l) as [ci|] eqn:E; [|discriminate].
    destruct (nth_index_re_split _ _ _ E) as (pre & e0 & post & -> & <- & <-).
    destruct (remove_at_entries _ _ _ _ H) as [H1 H2]. rewrite H1, H2, lentries_split, l_remove_app_len.
    repeat split; [now rewrite !lsubsts_app|]. rewrite app_length. cbn [length]. apply Nat.ltb_lt. lia.
  - (* Entry::push *)
    unfold a_on_entry in H. destruct (nth_entry l i) as [[ci e]|] eqn:He; [|discriminate]. injection H as <-.
    destruct (nth_entry_entries _ _ _ _ He) as (pre & post & -> & <- & <-).
    destruct (replace_entry_entries pre e post (a_epush e (lrel_new r))) as [H1 H2]. rewrite H1, H2, lentries_split, upd_nth_at.
    repeat split. rewrite app_length. cbn [length]. apply Nat.ltb_lt. lia.
  - (* Entry::replace *)
    destruct (nth_entry l i) as [[ci e]|] eqn:He; [|discriminate]. destruct (j <? n_rels e) eqn:Hj; [|discriminate].
    injection H as <-. destruct (nth_entry_entries _ _ _ _ He) as (pre & post & -> & <- & <-).
    destruct (replace_entry_entries pre e post (a_ereplace e j (lrel_new r))) as [H1 H2].
    rewrite H1, H2, lentries_split, upd_nth_at, nth_error_app_len. auto.
  - (* Relation::remove *)
    unfold a_remove_relation in H. destruct (nth_entry l i) as [[ci e]|] eqn:He; [|discriminate].
    destruct (j <? n_rels e) eqn:Hj; [|discriminate].
    destruct (nth_entry_entries _ _ _ _ He) as (pre & post & -> & <- & <-).
    rewrite lentries_split, nth_error_app_len, Hj. destruct (a_remove_rel e j) as [e'|].
    + injection H as <-. destruct (replace_entry_entries pre e post e') as [H1 H2]. rewrite H1, H2, l_replace_app_len. auto.
    + destruct (remove_at_entries _ _ _ _ H) as [H1 H2]. rewrite H1, H2, l_remove_app_len.
      repeat split. now rewrite !lsubsts_app.
  - unfold a_on_relation in H. destruct (nth_entry l i) as [[ci e]|] eqn:He; [|discriminate]. destruct (j <? n_rels e) eqn:Hj; [|discriminate].
    injection H as <-. destruct (nth_entry_entries _ _ _ _ He) as (pre & post & -> & <- & <-).
    destruct (replace_entry_entries pre e post (upd_rel e j (a_set_version v))) as [H1 H2].
    rewrite H1, H2, lentries_split, upd_nth_at, nth_error_app_len. auto.
  - unfold a_on_relation in H. destruct (nth_entry l i) as [[ci e]|] eqn:He; [|discriminate]. destruct (j <? n_rels e) eqn:Hj; [|discriminate].
    injection H as <-. destruct (nth_entry_entries _ _ _ _ He) as (pre & post & -> & <- & <-).
    destruct (replace_entry_entries pre e post (upd_rel e j (a_set_version None))) as [H1 H2].
    rewrite H1, H2, lentries_split, upd_nth_at, nth_error_app_len. auto.
  - unfold a_on_relation in H. destruct (nth_entry l i) as [[ci e]|] eqn:He; [|discriminate]. destruct (j <? n_rels e) eqn:Hj; [|discriminate].
    injection H as <-. destruct (nth_entry_entries _ _ _ _ He) as (pre & post & -> & <- & <-).
    destruct (replace_entry_entries pre e post (upd_rel e j (a_set_archqual q))) as [H1 H2].
    rewrite H1, H2, lentries_split, upd_nth_at, nth_error_app_len. auto.
  - unfold a_on_relation in H. destruct (nth_entry l i) as [[ci e]|] eqn:He; [|discriminate]. destruct (j <? n_rels e) eqn:Hj; [|discriminate].
    injection H as <-. destruct (nth_entry_entries _ _ _ _ He) as (pre & post & -> & <- & <-).
    destruct (replace_entry_entries pre e post (upd_rel e j (a_set_archs a))) as [H1 H2].
    rewrite H1, H2, lentries_split, upd_nth_at, nth_error_app_len. auto.
  - unfold a_on_relation in H. destruct (nth_entry l i) as [[ci e]|] eqn:He; [|discriminate]. destruct (j <? n_rels e) eqn:Hj; [|discriminate].
    injection H as <-. destruct (nth_entry_entries _ _ _ _ He) as (pre & post & -> & <- & <-).
    destruct (replace_entry_entries pre e post (upd_rel e j (a_add_profile g))) as [H1 H2].
    rewrite H1, H2, lentries_split, upd_nth_at, nth_error_app_len. auto.
Qed.

(* ------------------------------------------------------------------ contents: estep is the list model *)
Lemma lrel_content_new r : lrel_content (lrel_new r) = relx_new r.
Proof.
  destruct r as [n q v a p]. unfold lrel_content, lrel_new, relx_new.
  cbn [rr_name rr_ver l_name l_qual l_ver l_archs l_profs option_map map].
  destruct v as [[vc ver]|]; cbn [option_map fst snd]; [|reflexivity].
  unfold vtext, vclause_new. cbn [v_epoch v_ver v_more v_op flat_map app]. now rewrite app_nil_r.
Qed.
Lemma lentry_content_new r rs : lentry_content (lentry_new r rs) = map relx_new (r :: rs).
Proof.
  unfold lentry_content, lentry_new. cbn [e_first e_alts map]. rewrite lrel_content_new. f_equal.
  rewrite map_map. apply map_ext. intros x. apply lrel_content_new.
Qed.
Lemma operand_content e le : operand_lentry e = Some le -> lentry_content le = map relx_new e.
Proof. destruct e as [|r rs]; [discriminate|]. intros [= <-]. apply lentry_content_new. Qed.
Lemma length_content e : length (lentry_content e) = n_rels e.
Proof. unfold lentry_content, n_rels. cbn [length]. now rewrite map_length. Qed.

Lemma map_upd_nth_at {A B} (f : A -> B) (h : A -> A) (h' : B -> B) l i x :
  nth_error l i = Some x -> f (h x) = h' (f x) -> map f (upd_nth i h l) = upd_nth i h' (map f l).
Proof.
  intros Hn Hf. rewrite (upd_nth_split _ _ _ _ Hn). rewrite (upd_nth_split i h' (map f l) (f x)) by now apply map_nth_error.
  rewrite map_app. cbn [map]. now rewrite Hf, firstn_map, skipn_map.
Qed.
Lemma map_upd_nth {A B} (f : A -> B) (h : A -> A) (h' : B -> B) l i :
  (forall x, f (h x) = h' (f x)) -> map f (upd_nth i h l) = upd_nth i h' (map f l).
Proof. intros H. revert i; induction l as [|y r IH]; intros [|i]; cbn; auto. - now rewrite H. - now rewrite IH. Qed.
Lemma map_l_insert {A B} (f : A -> B) i x l : map f (l_insert i x l) = l_insert i (f x) (map f l).
Proof. unfold l_insert. rewrite map_app. cbn [map]. now rewrite firstn_map, skipn_map. Qed.
Lemma map_l_replace {A B} (f : A -> B) i x l : map f (l_replace i x l) = l_replace i (f x) (map f l).
Proof. unfold l_replace. rewrite map_app. cbn [map]. now rewrite firstn_map, skipn_map. Qed.
Lemma map_l_remove {A B} (f : A -> B) i l : map f (l_remove i l) = l_remove i (map f l).
Proof. unfold l_remove. rewrite map_app. now rewrite firstn_map, skipn_map. Qed.
Lemma upd_nth_const_replace {A} i (c : A) l : i < length l -> upd_nth i (fun _ => c) l = l_replace i c l.
Proof.
  intros H. destruct (nth_error l i) eqn:E; [|apply nth_error_None in E; lia].
  now rewrite (upd_nth_split _ _ _ _ E).
Qed.

Lemma content_upd_rel e j g g' : (forall r, lrel_content (g r) = g' (lrel_content r)) ->
  lentry_content (upd_rel e j g) = upd_nth j g' (lentry_content e).
Proof.
  intros H. destruct j as [|j]; unfold lentry_content; cbn [upd_rel e_first e_alts upd_nth]; [now rewrite H|].
  f_equal. apply map_upd_nth. intros [[w1 w2] r]. cbn [fst snd]. apply H.
Qed.
Lemma content_epush e r : lentry_content (a_epush e r) = lentry_content e ++ [lrel_content r].
Proof. unfold lentry_content, a_epush. cbn [e_first e_alts]. rewrite map_app. reflexivity. Qed.
Lemma content_ereplace e j r : j <? n_rels e = true ->
  lentry_content (a_ereplace e j r) = l_replace j (lrel_content r) (lentry_content e).
Proof.
  intros Hj. unfold a_ereplace. rewrite (content_upd_rel e j _ (fun _ => lrel_content r)) by reflexivity.
  apply upd_nth_const_replace. rewrite length_content. now apply Nat.ltb_lt.
Qed.
Lemma content_remove_rel e j :
  match a_remove_rel e j with
  | Some e' => lentry_content e' = l_remove j (lentry_content e)
  | None => l_remove j (lentry_content e) = []
  end.
Proof.
  destruct e as [r0 alts tr]. unfold a_remove_rel, lentry_content. cbn [e_first e_alts e_trail].
  destruct j as [|j].
  - destruct alts as [|[[w1 w2] r1] rest]; reflexivity.
  - cbn [e_first e_alts]. unfold l_remove. cbn [firstn app]. f_equal.
    change (skipn (S (S j)) (lrel_content r0 :: map (fun a => lrel_content (snd a)) alts))
      with (skipn (S j) (map (fun a => lrel_content (snd a)) alts)).
    unfold remove_nth. now rewrite map_app, firstn_map, skipn_map.
Qed.

Lemma term_arch_new a : forall i, map term_arch (terms_new i a) = map (fun s => (false, s)) a.
Proof. induction a as [|x r IH]; intros i; [reflexivity|]. cbn [terms_new map]. now rewrite IH. Qed.
Lemma term_profile_new g : forall i, map term_profile (pterms_new i g) = map bprofile_of g.
Proof. induction g as [|x r IH]; intros i; [reflexivity|]. cbn [pterms_new map]. rewrite IH. now destruct x. Qed.

Lemma content_set_version v r : lrel_content (a_set_version v r) = x_set_version v (lrel_content r).
Proof.
  unfold lrel_content, a_set_version, x_set_version. cbn [l_name l_qual l_ver l_archs l_profs x_name x_qual x_ver x_archs x_profs].
  f_equal. destruct v as [[vc ver]|]; [|reflexivity]. cbn [option_map fst snd].
  destruct (l_ver r) as [[w v0]|]; cbn [option_map fst snd]; unfold vtext, vclause_new; cbn [v_epoch v_ver v_more v_op flat_map app];
    now rewrite app_nil_r.
Qed.
Lemma content_set_archqual q r : lrel_content (a_set_archqual q r) = x_set_qual q (lrel_content r).
Proof.
  unfold lrel_content, a_set_archqual, x_set_qual. cbn [l_name l_qual l_ver l_archs l_profs x_name x_qual x_ver x_archs x_profs].
  f_equal. now destruct (l_qual r) as [[w q0]|].
Qed.
Lemma content_set_archs a r : lrel_content (a_set_archs a r) = x_set_archs a (lrel_content r).
Proof.
  unfold lrel_content, a_set_archs, x_set_archs. destruct r as [n oq ov oa ps tr]. cbn [l_name l_qual l_ver l_archs l_profs l_trail].
  destruct oa as [[w g0]|]; [|destruct ps as [|[w g] rest]];
    cbn [l_name l_qual l_ver l_archs l_profs x_name x_qual x_ver x_archs x_profs option_map fst snd map archs_new g_terms];
    now rewrite term_arch_new.
Qed.
Lemma content_add_profile g r : lrel_content (a_add_profile g r) = x_add_profile g (lrel_content r).
Proof.
  unfold lrel_content, a_add_profile, x_add_profile. destruct r as [n oq ov oa ps tr]. cbn [l_name l_qual l_ver l_archs l_profs l_trail].
  destruct ps as [|p0 ps'];
    cbn [l_name l_qual l_ver l_archs l_profs x_name x_qual x_ver x_archs x_profs option_map fst snd map profs_new g_terms app].
  - now rewrite term_profile_new.
  - rewrite map_app. cbn [map fst snd profs_new g_terms]. now rewrite term_profile_new.
Qed.

Definition operand_nonempty (o : aop) : bool :=
  match o with APush e | AInsert _ e | AReplace _ e => has_more e | _ => true end.
Lemma e_in_range_x es o : e_in_range es o = x_in_range (map lentry_content es) o && operand_nonempty o.
Proof.
  destruct o; cbn [e_in_range x_in_range operand_nonempty]; rewrite ?map_length, ?andb_true_r; try reflexivity.
  - apply andb_comm.
  - destruct (nth_error es i) as [e|] eqn:E; [rewrite (map_nth_error _ _ _ E), length_content; reflexivity|].
    apply nth_error_None in E. rewrite (proj2 (nth_error_None (map lentry_content es) i)) by (rewrite map_length; exact E). reflexivity.
  - destruct (nth_error es i) as [e|] eqn:E; [rewrite (map_nth_error _ _ _ E), length_content; reflexivity|].
    apply nth_error_None in E. rewrite (proj2 (nth_error_None (map lentry_content es) i)) by (rewrite map_length; exact E). reflexivity.
  - destruct (nth_error es i) as [e|] eqn:E; [rewrite (map_nth_error _ _ _ E), length_content; reflexivity|].
    apply nth_error_None in E. rewrite (proj2 (nth_error_None (map lentry_content es) i)) by (rewrite map_length; exact E). reflexivity.
  - destruct (nth_error es i) as [e|] eqn:E; [rewrite (map_nth_error _ _ _ E), length_content; reflexivity|].
    apply nth_error_None in E. rewrite (proj2 (nth_error_None (map lentry_content es) i)) by (rewrite map_length; exact E). reflexivity.
  - destruct (nth_error es i) as [e|] eqn:E; [rewrite (map_nth_error _ _ _ E), length_content; reflexivity|].
    apply nth_error_None in E. rewrite (proj2 (nth_error_None (map lentry_content es) i)) by (rewrite map_length; exact E). reflexivity.
  - destruct (nth_error es i) as [e|] eqn:E; [rewrite (map_nth_error _ _ _ E), length_content; reflexivity|].
    apply nth_error_None in E. rewrite (proj2 (nth_error_None (map lentry_content es) i)) by (rewrite map_length; exact E). reflexivity.
  - destruct (nth_error es i) as [e|] eqn:E; [rewrite (map_nth_error _ _ _ E), length_content; reflexivity|].
    apply nth_error_None in E. rewrite (proj2 (nth_error_None (map lentry_content es) i)) by (rewrite map_length; exact E). reflexivity.
Qed.

Ltac on_rel_content E Hc :=
  unfold l_on_relation; eapply map_upd_nth_at; [exact E|]; apply content_upd_rel; exact Hc.

Theorem estep_content es o : e_in_range es o = true ->
  map lentry_content (estep es o) = xstep (map lentry_content es) o.
Proof.
  intros H. destruct o; cbn [e_in_range estep xstep] in *.
  - destruct (operand_lentry e) as [le|] eqn:Eo; [|destruct e; discriminate].
    rewrite map_app. cbn [map]. now rewrite (operand_content _ _ Eo).
  - destruct (operand_lentry e) as [le|] eqn:Eo; [|destruct e; discriminate].
    now rewrite map_l_insert, (operand_content _ _ Eo).
  - destruct (operand_lentry e) as [le|] eqn:Eo; [|destruct e; discriminate].
    now rewrite map_l_replace, (operand_content _ _ Eo).
  - apply map_l_remove.
  - apply map_upd_nth. intros x. now rewrite content_epush, lrel_content_new.
  - destruct (nth_error es i) as [e|] eqn:E; [|discriminate].
    eapply map_upd_nth_at; [exact E|]. now rewrite content_ereplace, lrel_content_new.
  - destruct (nth_error es i) as [e|] eqn:E; [|discriminate].
    unfold l_remove_relation. rewrite (map_nth_error _ _ _ E).
    pose proof (content_remove_rel e j) as Hc. destruct (a_remove_rel e j) as [e'|].
    + rewrite <- Hc. destruct (lentry_content e') eqn:Ec; [discriminate|]. rewrite <- Ec. apply map_l_replace.
    + rewrite Hc. apply map_l_remove.
  - destruct (nth_error es i) as [e|] eqn:E; [|discriminate]. on_rel_content E (content_set_version v).
  - destruct (nth_error es i) as [e|] eqn:E; [|discriminate]. on_rel_content E (content_set_version None).
  - destruct (nth_error es i) as [e|] eqn:E; [|discriminate]. on_rel_content E (content_set_archqual q).
  - destruct (nth_error es i) as [e|] eqn:E; [|discriminate]. on_rel_content E (content_set_archs a).
  - destruct (nth_error es i) as [e|] eqn:E; [|discriminate]. on_rel_content E (content_add_profile g).
Qed.

(* the content of the layout after an operation is the list model's *)
Theorem content_step o l l' : a_op o l = Some l' ->
  lcontent l' = (xstep (fst (lcontent l)) o, snd (lcontent l)) /\ x_in_range (fst (lcontent l)) o = true.
Proof.
  intros H. destruct (entries_step o l l' H) as (He & Hs & Hr).
  rewrite !lcontent_entries. cbn [fst snd]. rewrite He, Hs, (estep_content _ _ Hr). split; [reflexivity|].
  rewrite e_in_range_x in Hr. now apply andb_prop in Hr.
Qed.
