(* C11 on any liberal live layout, operands obtained by PARSING any text Entry::from_str /
   Relation::from_str accept (model/RelLiveAllParsed.v): the layers of RelLiveAllHistP.v for [pop],
   histories that mix all kinds of operands ([gop]), from any text read without error; and the
   cover theorem: every text the two from_str accept is one of the operand texts. *)
From V.model Require Import Base RelLex RelParse RelAcc RelGrammar RelGrammarAll.
From V.model Require Import RelEdit RelEditSpec RelEditTree RelLiveAll RelLiveAllParsed.
From V.proofs Require Import BaseP RelEditP RelEditStP RelEditHistP RelEditTreeP RelEditReplaceP RelEditParsedP RelEditBuildP RelEditParsedAllP.
From V.proofs Require Import RelGrammarAllAccP RelGrammarAllParseP.
From V.proofs Require Import RelLiveAllP RelLiveAllStepP RelLiveAllWfP RelLiveAllNormP RelLiveAllHistP RelSepsP RelLiveAllSepsP.

(* ------------------------------------------------------------------ what a readable operand text gives *)
Lemma place_in e post : forall pre w, exists w', In (w', e) (place w pre e post).
Proof.
  induction pre as [|w1 pre' IH]; intros w; cbn [place].
  - exists w. now left.
  - destruct (IH w1) as (w' & H). exists w'. now right.
Qed.
Lemma arel_readable_eq r : arel_readable r = arel_opsok r.
Proof. unfold arel_readable, arel_opsok. now destruct (a_ver r). Qed.
Lemma ptext_field_item x r alts : awf false (ptext_field x r alts) = true ->
  aitem_ok false (AEntry r alts) = true /\ aitem_lexok (AEntry r alts) = true.
Proof.
  unfold awf. intros H. apply andb_prop in H as [Hsh Hlx]. pose proof (afield_lex _ Hlx) as Hl.
  unfold ashape in Hsh. unfold afield_lexok in Hl.
  apply andb_prop in Hsh as [Hsh Hs3]. apply andb_prop in Hsh as [_ Hs2].
  apply andb_prop in Hl as [Hl Hl3]. apply andb_prop in Hl as [_ Hl2].
  unfold ptext_field, entry_afield in *. destruct (p_pre x) as [|w pre']; cbn [af_first af_rest] in *.
  - auto.
  - destruct (place_in (AEntry r alts) (map emp (p_post x)) pre' w) as (w' & Hin).
    rewrite forallb_forall in Hs3, Hl3. specialize (Hs3 _ Hin). specialize (Hl3 _ Hin). unfold amore_ok in Hs3. cbn [fst snd] in *.
    apply andb_prop in Hs3 as [_ Hs3]. apply andb_prop in Hl3 as [_ Hl3]. auto.
Qed.
Lemma poperand_entry x r alts last : awf false (ptext_field x r alts) = true -> arel_readable r = true ->
  forallb (fun wr => arel_readable (snd wr)) alts = true ->
  arel_ok r = true /\ forallb aalt_ok alts = true /\ lentry_ok (lentry_of r alts last) = true /\ lrel_ok (lrel_of r last) = true.
Proof.
  intros Hw Hr Ha. destruct (ptext_field_item x r alts Hw) as [Hs Hl]. cbn [aitem_ok aitem_lexok] in *.
  apply andb_prop in Hs as [Hs1 Hs2]. apply andb_prop in Hl as [Hl1 Hl2]. rewrite arel_readable_eq in Hr.
  assert (Ha' : forallb aalt_opsok alts = true).
  { rewrite forallb_forall in Ha. rewrite forallb_forall. intros wr Hin. unfold aalt_opsok. rewrite <- arel_readable_eq. now apply Ha. }
  split; [exact Hs1|]. split; [exact Hs2|]. split; [now apply lentry_of_ok|now apply lrel_of_ok].
Qed.
Lemma poperands_entry o : poperands_ok o = true ->
  match o with
  | PPush x r alts | PInsert _ x r alts | PReplace _ x r alts =>
      arel_ok r = true /\ forallb aalt_ok alts = true /\ lentry_ok (lentry_of r alts (p_last x)) = true
  | PEPush _ x r | PEReplace _ _ x r => arel_ok r = true /\ lrel_ok (lrel_of r (p_last x)) = true
  end.
Proof.
  destruct o; cbn [poperands_ok]; intros H; apply andb_prop in H as [H H2].
  1-3: apply andb_prop in H as [H H1]; destruct (poperand_entry x r alts (p_last x) H H1 H2) as (A & B & C & _); auto.
  all: destruct (poperand_entry x r [] (p_last x) H H2 eq_refl) as (A & _ & _ & D); auto.
Qed.
Lemma popen_of o : poperands_ok o = true -> popen_ok o = true.
Proof.
  destruct o; cbn [poperands_ok popen_ok]; intros H; apply andb_prop in H as [H H2].
  1-3: apply andb_prop in H as [H H1]; exact H.
  all: exact H.
Qed.

(* ------------------------------------------------------------------ tree function -> abstract operation *)
Theorem a_pop_tree o l l' : poperands_ok o = true -> a_pop o l = Some l' -> tt_op (ptop o) (ltree l) = Ok (ltree l').
Proof.
  intros Ho H. pose proof (poperands_entry o Ho) as Hop. destruct o; cbn [a_pop ptop tt_op] in *.
  - injection H as <-. rewrite <- (lentry_tree_of r alts (p_last x)) by tauto. now rewrite push_commute.
  - injection H as <-. rewrite <- (lentry_tree_of r alts (p_last x)) by tauto. now rewrite insert_commute.
  - rewrite <- (lentry_tree_of r alts (p_last x)) by tauto. now apply replace_commute.
  - unfold a_on_entry in H. destruct (nth_entry l i) as [[ci e]|] eqn:He; [|discriminate]. injection H as <-.
    destruct (nth_entry_inv _ _ _ _ He) as (pre & post & -> & <- & Hi).
    rewrite entry_pos_ltree, Hi, <- (lrel_tree_of r (p_last x)) by tauto.
    now rewrite (upd_entry pre e post _ (a_epush e (lrel_of r (p_last x)))) by apply epush_commute.
  - destruct (nth_entry l i) as [[ci e]|] eqn:He; [|discriminate].
    destruct (j <? n_rels e) eqn:Hj; [|discriminate]. injection H as <-.
    destruct (rel_update_commute l i j (fun old => with_trail (l_trail old) (lrel_of r (p_last x)))
                (fun old => dressed old (arel_tree r (p_last x))) ci e) as (cj & Hp & Hu); auto.
    { intros r0. rewrite <- (lrel_tree_of r (p_last x)) by tauto. apply dressed_commute. }
    rewrite Hp, Hu. reflexivity.
Qed.

(* ------------------------------------------------------------------ entries, contents *)
Definition pestep (es : list lentry) (o : pop) : list lentry :=
  match o with
  | PPush x r alts => es ++ [lentry_of r alts (p_last x)]
  | PInsert i x r alts => l_insert i (lentry_of r alts (p_last x)) es
  | PReplace i x r alts => l_replace i (lentry_of r alts (p_last x)) es
  | PEPush i x r => upd_nth i (fun e => a_epush e (lrel_of r (p_last x))) es
  | PEReplace i j x r => upd_nth i (fun e => a_ereplace e j (lrel_of r (p_last x))) es
  end.
Definition pe_in_range (es : list lentry) (o : pop) : bool :=
  match o with
  | PPush _ _ _ | PInsert _ _ _ _ => true
  | PReplace i _ _ _ | PEPush i _ _ => i <? length es
  | PEReplace i j _ _ => match nth_error es i with Some e => j <? n_rels e | None => false end
  end.

Lemma insert_entries l i le : lentries (a_insert l i le) = l_insert i le (lentries l) /\ lsubsts (a_insert l i le) = lsubsts l.
Proof.
  unfold a_insert. destruct (nth_index is_re i l) as [ci|] eqn:E.
  - destruct (nth_index_re_split _ _ _ E) as (pre & e0 & post & -> & <- & <-).
    rewrite insert_at_app_len. cbn [app]. rewrite !lentries_split, l_insert_app_len. split; [reflexivity|].
    rewrite !lsubsts_app. reflexivity.
  - apply nth_index_re_none in E. rewrite l_insert_beyond by exact E. rewrite lentries_app, lsubsts_app.
    destruct (hd_error (skipn (wlen (rev l)) (rev l))) as [[| | |]|]; [| destruct (wlen (rev l)) | | |];
      (split; cbn; rewrite ?app_nil_r; reflexivity).
Qed.
Lemma push_entries l le : lentries (a_push l le) = lentries l ++ [le] /\ lsubsts (a_push l le) = lsubsts l.
Proof.
  unfold a_push. destruct (insert_entries l (count_if is_re l) le) as [H1 H2]. split; [|exact H2].
  rewrite H1. apply l_insert_beyond.
  assert (Hc : forall m, count_if is_re m = length (lentries m)).
  { intros m. unfold count_if. induction m as [|x r IH]; [reflexivity|]. destruct x; cbn [filter is_re]; try exact IH.
    change (lentries (RE e :: r)) with (e :: lentries r). cbn [length]. now rewrite IH. }
  rewrite Hc. lia.
Qed.

Theorem pentries_step o l l' : a_pop o l = Some l' ->
  lentries l' = pestep (lentries l) o /\ lsubsts l' = lsubsts l /\ pe_in_range (lentries l) o = true.
Proof.
  intros H. destruct o; cbn [a_pop pestep pe_in_range] in *.
  - injection H as <-. destruct (push_entries l (lentry_of r alts (p_last x))). auto.
  - injection H as <-. destruct (insert_entries l i (lentry_of r alts (p_last x))). auto.
  - unfold a_replace in H. destruct (nth_index is_re i l) as [ci|] eqn:E; [|discriminate]. injection H as <-.
    destruct (nth_index_re_split _ _ _ E) as (pre & e0 & post & -> & <- & <-).
    destruct (replace_entry_entries pre e0 post (lentry_of r alts (p_last x))) as [H1 H2]. rewrite H1, H2, lentries_split, l_replace_app_len.
    repeat split. rewrite app_length. cbn [length]. apply Nat.ltb_lt. lia.
  - unfold a_on_entry in H. destruct (nth_entry l i) as [[ci e]|] eqn:He; [|discriminate]. injection H as <-.
    destruct (nth_entry_entries _ _ _ _ He) as (pre & post & -> & <- & <-).
    destruct (replace_entry_entries pre e post (a_epush e (lrel_of r (p_last x)))) as [H1 H2]. rewrite H1, H2, lentries_split, upd_nth_at.
    repeat split. rewrite app_length. cbn [length]. apply Nat.ltb_lt. lia.
  - destruct (nth_entry l i) as [[ci e]|] eqn:He; [|discriminate]. destruct (j <? n_rels e) eqn:Hj; [|discriminate].
    injection H as <-. destruct (nth_entry_entries _ _ _ _ He) as (pre & post & -> & <- & <-).
    destruct (replace_entry_entries pre e post (a_ereplace e j (lrel_of r (p_last x)))) as [H1 H2].
    rewrite H1, H2, lentries_split, upd_nth_at, nth_error_app_len. auto.
Qed.

Lemma entry_content_of r alts : forall last, lentry_content (lentry_of r alts last) = entry_content r alts.
Proof. intros last. apply lentry_content_of. Qed.
Theorem pestep_content es o : pe_in_range es o = true ->
  map lentry_content (pestep es o) = pxstep (map lentry_content es) o.
Proof.
  intros H. destruct o; cbn [pe_in_range pestep pxstep] in *.
  - rewrite map_app. cbn [map]. now rewrite entry_content_of.
  - now rewrite map_l_insert, entry_content_of.
  - now rewrite map_l_replace, entry_content_of.
  - apply map_upd_nth. intros x0. now rewrite content_epush, lrel_content_of.
  - destruct (nth_error es i) as [e|] eqn:E; [|discriminate].
    eapply map_upd_nth_at; [exact E|]. now rewrite content_ereplace, lrel_content_of.
Qed.
Lemma pe_in_range_x es o : pe_in_range es o = p_in_range (map lentry_content es) o.
Proof.
  destruct o; cbn [pe_in_range p_in_range]; rewrite ?map_length; try reflexivity.
  destruct (nth_error es i) as [e|] eqn:E; [rewrite (map_nth_error _ _ _ E), length_content; reflexivity|].
  apply nth_error_None in E. rewrite (proj2 (nth_error_None (map lentry_content es) i)) by (rewrite map_length; exact E). reflexivity.
Qed.
Theorem pcontent_step o l l' : a_pop o l = Some l' ->
  lcontent l' = (pxstep (fst (lcontent l)) o, snd (lcontent l)) /\ p_in_range (fst (lcontent l)) o = true.
Proof.
  intros H. destruct (pentries_step o l l' H) as (He & Hs & Hr).
  rewrite !lcontent_entries. cbn [fst snd]. rewrite He, Hs, (pestep_content _ _ Hr). split; [reflexivity|].
  now rewrite <- pe_in_range_x.
Qed.

(* ------------------------------------------------------------------ defined, well-formed *)
Theorem a_pop_lwf b o l : lwf b l = true -> poperands_ok o = true -> p_in_range (fst (lcontent l)) o = true ->
  exists l', a_pop o l = Some l' /\ lwf b l' = true.
Proof.
  intros H Ho Hr. rewrite lcontent_entries in Hr. cbn [fst] in Hr.
  destruct o; cbn [a_pop p_in_range] in *; rewrite ?map_length in Hr;
    pose proof (poperands_entry _ Ho) as Hop; cbn iota in Hop.
  - eexists. split; [reflexivity|]. apply insert_lwf; tauto.
  - eexists. split; [reflexivity|]. apply insert_lwf; tauto.
  - apply Nat.ltb_lt in Hr. destruct (nth_index_re_lt l i Hr) as (ci & Hci). unfold a_replace. rewrite Hci.
    eexists. split; [reflexivity|]. destruct (nth_index_re_split _ _ _ Hci) as (pre & e0 & post & -> & <- & _).
    apply replace_entry_lwf; tauto.
  - apply Nat.ltb_lt in Hr. destruct (nth_error (lentries l) i) as [e|] eqn:E; [|apply nth_error_None in E; lia].
    destruct (nth_error_entries_some _ _ _ E) as (pre & post & -> & <-).
    unfold a_on_entry. rewrite nth_entry_at. eexists. split; [reflexivity|].
    apply replace_entry_lwf; [|exact H]. destruct (lwf_split _ _ H) as (Hok & _).
    apply epush_ok; [tauto|now apply (entry_at_ok b pre e post)].
  - destruct (nth_error (lentries l) i) as [e|] eqn:E.
    2:{ rewrite (proj2 (nth_error_None (map lentry_content (lentries l)) i)) in Hr; [discriminate|]. rewrite map_length. now apply nth_error_None. }
    rewrite (map_nth_error _ _ _ E), length_content in Hr.
    destruct (nth_error_entries_some _ _ _ E) as (pre & post & -> & <-). rewrite nth_entry_at, Hr.
    eexists. split; [reflexivity|]. apply replace_entry_lwf; [|exact H]. destruct (lwf_split _ _ H) as (Hok & _).
    apply ereplace_ok; [tauto|now apply (entry_at_ok b pre e post)].
Qed.

(* ------------------------------------------------------------------ one operation, histories *)
Lemma preplace_ready_ltree o l : preplace_ready o (ltree l).
Proof. destruct o; cbn [preplace_ready]; auto. exact (ereplace_ready_ltree (AEReplace i j (mk_relrec [] None None None [])) l). Qed.

Theorem g_step b o l st : lwf b l = true -> goperands_ok o = true ->
  g_in_range (fst (lcontent l)) o = true -> holds st (ltree l) ->
  exists l' st', g_op o l = Some l' /\
                 run_ops fixed (gcompile o) st = Ok st' /\ holds st' (ltree l') /\
                 lwf b l' = true /\
                 lcontent l' = (gxstep (fst (lcontent l)) o, snd (lcontent l)).
Proof.
  intros H Ho Hr Hst. destruct o as [o|o]; cbn [goperands_ok g_in_range g_op gcompile gxstep] in *.
  - destruct (live_step b o l st H Ho Hr Hst) as (l' & st' & Ha & R & Hst' & Hw & Hc & _). exists l', st'. auto.
  - destruct (a_pop_lwf b o l H Ho Hr) as (l' & Ha & Hw).
    pose proof (a_pop_tree o l l' Ho Ha) as Ht.
    destruct (pop_step_tree o (ltree l) (ltree l') st (popen_of o Ho) eq_refl (preplace_ready_ltree o l) Hst Ht) as (st' & R & Hst').
    exists l', st'. destruct (pcontent_step o l l' Ha) as [Hc _]. auto.
Qed.

Theorem g_history b ops : forall l st, lwf b l = true -> forallb goperands_ok ops = true ->
  gsteps_in_range (fst (lcontent l)) ops = true -> holds st (ltree l) ->
  exists l' st', g_ops ops l = Some l' /\
                 run_ops fixed (gcompile_all ops) st = Ok st' /\ holds st' (ltree l') /\
                 lwf b l' = true /\
                 lcontent l' = (fold_left gxstep ops (fst (lcontent l)), snd (lcontent l)).
Proof.
  induction ops as [|o rest IH]; intros l st H Ho Hr Hst.
  - exists l, st. cbn. repeat split; auto; now destruct (lcontent l).
  - cbn [forallb gsteps_in_range] in *. andb_hyps.
    destruct (g_step b o l st) as (l1 & st1 & Ha & R1 & Hst1 & Hw1 & Hc1); auto.
    destruct (IH l1 st1) as (l' & st' & Ha' & R' & Hst' & Hw' & Hc'); auto.
    { rewrite Hc1. cbn [fst]. assumption. }
    exists l', st'. cbn [g_ops gcompile_all flat_map fold_left]. rewrite Ha.
    split; [exact Ha'|]. split; [eapply run_ops_app; [exact R1|exact R']|]. split; [exact Hst'|]. split; [exact Hw'|].
    rewrite Hc', Hc1. reflexivity.
Qed.


(* ------------------------------------------------------------------ C11 in full, operands of all kinds *)
Theorem g_history_full (s : str) (t0 : rtree) (f0 : lfield) (ops : list gop) :
  parse_relaxed s true = Ok (t0, 0) -> structure t0 = Ok f0 ->
  gsteps_in_range f0 ops = true -> forallb goperands_ok ops = true ->
  exists st', run_ops fixed (gcompile_all ops) (start_state t0) = Ok st' /\
  exists t', root_tree st' = Ok t' /\
    structure t' = Ok (fold_left gxstep ops f0) /\
    substvar_texts t' = substvar_texts t0 /\
    exists t'', parse_relaxed (text t') true = Ok (t'', 0) /\
                structure t'' = Ok (fold_left gxstep ops f0).
Proof.
  intros Hp Hs Hr Ho.
  destruct (start_layout true s t0 f0 Hp Hs) as (l0 & <- & Hw & <-).
  destruct (g_history true ops l0 (start_state (ltree l0)) Hw Ho Hr (holds_start _)) as (l' & st' & Ha & R & Hst' & Hw' & Hc').
  exists st'. split; [exact R|]. destruct (holds_root_tree _ _ Hst') as [RT _]. exists (ltree l'). split; [exact RT|].
  destruct (structure_live true l' Hw') as [S1 S2]. destruct (structure_live true l0 Hw) as [_ S0].
  rewrite Hc' in S1, S2. cbn [fst snd] in S1, S2. split; [exact S1|]. split; [now rewrite S2, S0|].
  destruct (live_reread true l' Hw') as (t'' & P & _ & S'' & _). exists t''. split; [exact P|]. rewrite S'', Hc'. reflexivity.
Qed.

(* ------------------------------------------------------------------ the operand texts are ALL the texts from_str accepts *)
Lemma comma_ws_not_entry w : Forall (fun x => is_entry x = false) (Tok COMMA [44%N] :: elems w).
Proof. constructor; [reflexivity|apply elems_not_entry]. Qed.
Lemma option_map_none {A B} (f : A -> B) o : option_map f o = None -> o = None.
Proof. now destruct o. Qed.
Lemma items_no_entry : forall more i, aitem_ok false i = true -> forallb (amore_ok false) more = true ->
  nth_index is_entry 0 (aitems_elems i more) = None -> i = AEmpty /\ exists post, more = map emp post.
Proof.
  induction more as [|[w i'] more' IH]; intros i Hi Hm Hn; (destruct i as [r alts|body tr|]; [rewrite aitems_elems_eq in Hn; discriminate Hn|discriminate Hi|]).
  - split; [reflexivity|]. now exists [].
  - change (aitems_elems AEmpty ((w, i') :: more')) with ((Tok COMMA [44%N] :: elems w) ++ aitems_elems i' more') in Hn.
    rewrite nth_index_skip_false in Hn by apply comma_ws_not_entry. apply option_map_none in Hn.
    cbn [forallb] in Hm. apply andb_prop in Hm as [Hm1 Hm2]. unfold amore_ok in Hm1. cbn [fst snd] in Hm1. apply andb_prop in Hm1 as [_ Hm1].
    destruct (IH i' Hm1 Hm2 Hn) as (-> & post & ->). split; [reflexivity|]. now exists (w :: post).
Qed.
Lemma items_one_entry : forall more i, aitem_ok false i = true -> forallb (amore_ok false) more = true ->
  nth_index is_entry 0 (aitems_elems i more) <> None -> nth_index is_entry 1 (aitems_elems i more) = None ->
  (exists r alts post, i = AEntry r alts /\ more = map emp post) \/
  (i = AEmpty /\ exists w pre r alts post, more = place w pre (AEntry r alts) (map emp post)).
Proof.
  induction more as [|[w i'] more' IH]; intros i Hi Hm H0 H1; (destruct i as [r alts|body tr|]; [|discriminate Hi|]).
  - left. exists r, alts, []. auto.
  - exfalso. apply H0. reflexivity.
  - left. cbn [forallb] in Hm. apply andb_prop in Hm as [Hm1 Hm2]. unfold amore_ok in Hm1. cbn [fst snd] in Hm1. apply andb_prop in Hm1 as [_ Hm1].
    rewrite aitems_elems_eq in H1. cbn [aitem_elems more_elems is_nil app] in H1.
    cbn [nth_index] in H1. change (is_entry (Node ENTRY (arels_elems r alts false))) with true in H1. cbn iota in H1.
    apply option_map_none in H1. rewrite nth_index_skip_false in H1 by apply elems_not_entry. apply option_map_none in H1.
    change (Tok COMMA [44%N] :: elems w ++ aitems_elems i' more') with ((Tok COMMA [44%N] :: elems w) ++ aitems_elems i' more') in H1.
    rewrite nth_index_skip_false in H1 by apply comma_ws_not_entry.
    apply option_map_none in H1. destruct (items_no_entry more' i' Hm1 Hm2 H1) as (-> & post & ->).
    exists r, alts, (w :: post). auto.
  - right. split; [reflexivity|]. cbn [forallb] in Hm. apply andb_prop in Hm as [Hm1 Hm2]. unfold amore_ok in Hm1. cbn [fst snd] in Hm1. apply andb_prop in Hm1 as [_ Hm1].
    change (aitems_elems AEmpty ((w, i') :: more')) with ((Tok COMMA [44%N] :: elems w) ++ aitems_elems i' more') in H0, H1.
    rewrite nth_index_skip_false in H0, H1 by apply comma_ws_not_entry. apply option_map_none in H1.
    assert (H0' : nth_index is_entry 0 (aitems_elems i' more') <> None) by (intros E; apply H0; now rewrite E).
    destruct (IH i' Hm1 Hm2 H0' H1) as [(r & alts & post & -> & ->)|(-> & w' & pre & r & alts & post & ->)].
    + exists w, [], r, alts, post. reflexivity.
    + exists w, (w' :: pre), r, alts, post. reflexivity.
Qed.
Lemma from_str_ok s t : relations_from_str s = Ok t -> parse_relaxed s false = Ok (t, 0).
Proof.
  unfold relations_from_str, parse_relaxed. destruct (RelParse.parse s false) as [[t' n]| | |]; try discriminate.
  destruct n; [|discriminate]. now intros [= ->].
Qed.
(* Entry::from_str accepts s (the strict parser reports no error, the tree has exactly one entry):
   s is one of the operand texts, and the handle points where parse_entry_runs says *)
Theorem entry_text_cover s t k : relations_from_str s = Ok t ->
  nth_index is_entry 0 (children t) = Some k -> nth_index is_entry 1 (children t) = None ->
  exists x r alts, s = ptext_text x r alts /\ awf false (ptext_field x r alts) = true /\
                   t = atree_of (ptext_field x r alts) /\ k = entry_at (p_lead x) (p_pre x).
Proof.
  intros Hp H0 H1. destruct (reader_image s false t (from_str_ok s t Hp)) as (g & Hw & <- & <- & _).
  assert (Hsh : ashape false g = true) by (unfold awf in Hw; now apply andb_prop in Hw as [Hw _]).
  unfold ashape in Hsh. apply andb_prop in Hsh as [Hsh Hs3]. apply andb_prop in Hsh as [_ Hs2].
  destruct g as [lead first rest]. cbn [af_lead af_first af_rest] in *.
  assert (E0 : nth_index is_entry 0 (aitems_elems first rest) <> None).
  { intros E. unfold atree_of in H0. cbn [children af_lead af_first af_rest] in H0.
    rewrite nth_index_skip_false, E in H0 by apply elems_not_entry. discriminate. }
  assert (E1 : nth_index is_entry 1 (aitems_elems first rest) = None).
  { unfold atree_of in H1. cbn [children af_lead af_first af_rest] in H1.
    rewrite nth_index_skip_false in H1 by apply elems_not_entry. now apply option_map_none in H1. }
  assert (X : exists pre r alts post, mk_afield lead first rest = entry_afield lead pre r alts post).
  { destruct (items_one_entry rest first Hs2 Hs3 E0 E1) as [(r & alts & post & -> & ->)|(-> & w & pre & r & alts & post & ->)].
    - now exists [], r, alts, post.
    - now exists (w :: pre), r, alts, post. }
  destruct X as (pre & r & alts & post & X). exists (mk_ptext lead pre post), r, alts.
  unfold ptext_text, ptext_field. cbn [p_lead p_pre p_post]. rewrite <- X. split; [reflexivity|]. split; [exact Hw|]. split; [reflexivity|].
  rewrite X in H0. destruct (entry_afield_positions lead pre r alts post) as (P0 & _). congruence.
Qed.
(* Relation::from_str accepts s: moreover the entry has exactly one relation *)
Lemma arels_two r w r' alts last : nth_index is_relation 1 (arels_elems r ((w, r') :: alts) last) <> None.
Proof.
  cbn [arels_elems nth_index]. change (is_relation (arel_tree r false)) with true. cbn iota.
  change (elems (arel_left r false) ++ Tok PIPE [124%N] :: elems w ++ arels_elems r' alts last)
    with (elems (arel_left r false) ++ (Tok PIPE [124%N] :: elems w) ++ arels_elems r' alts last).
  rewrite nth_index_skip_false by apply elems_not_relation.
  rewrite nth_index_skip_false by (constructor; [reflexivity|apply elems_not_relation]).
  destruct alts as [|[w2 r2] alts']; cbn [arels_elems nth_index];
    match goal with |- context [is_relation (arel_tree ?a ?b)] => change (is_relation (arel_tree a b)) with true end; discriminate.
Qed.
Theorem relation_text_cover s t k e : relations_from_str s = Ok t ->
  nth_index is_entry 0 (children t) = Some k -> nth_index is_entry 1 (children t) = None ->
  nth_error (children t) k = Some e -> nth_index is_relation 1 (children e) = None ->
  exists x r, s = ptext_text x r [] /\ awf false (ptext_field x r []) = true /\
              t = atree_of (ptext_field x r []) /\ k = entry_at (p_lead x) (p_pre x) /\
              nth_index is_relation 0 (children e) = Some 0.
Proof.
  intros Hp H0 H1 He Hr. destruct (entry_text_cover s t k Hp H0 H1) as (x & r & alts & -> & Hw & -> & ->).
  unfold ptext_field in He. destruct (entry_afield_positions (p_lead x) (p_pre x) r alts (p_post x)) as (_ & _ & PE).
  rewrite PE in He. injection He as <-. cbn [children] in *.
  destruct alts as [|[w r'] alts']; [|now apply arels_two in Hr].
  exists x, r. auto.
Qed.

(* ------------------------------------------------------------------ what the accessors read from a parsed operand *)
Lemma entry_structure e : forallb rel_acc_ok (rels e) = true ->
  mapM relrec_of (relations (lentry_tree e)) = if forallb rel_ops (rels e) then Ok (lentry_content e) else Panic 51%N.
Proof.
  intros H. rewrite relations_lentry, lentry_content_rels. rewrite forallb_forall in H.
  revert H. induction (rels e) as [|r rs IH]; intros H; [reflexivity|]. cbn [map mapM forallb].
  rewrite (relrec_of_lrel r (H r (or_introl eq_refl))). destruct (rel_ops r); [|reflexivity].
  rewrite IH by (intros y Hy; apply H; now right). cbn [andb]. destruct (forallb rel_ops rs); reflexivity.
Qed.
Lemma ptext_entry_acc x r alts : awf false (ptext_field x r alts) = true ->
  arel_ok r = true /\ forallb aalt_ok alts = true /\ arel_accok r = true /\ forallb (fun wr => arel_accok (snd wr)) alts = true.
Proof.
  intros Hw. destruct (ptext_field_item x r alts Hw) as [Hs Hl]. cbn [aitem_ok aitem_lexok] in *.
  apply andb_prop in Hs as [Hs1 Hs2]. apply andb_prop in Hl as [Hl1 Hl2].
  split; [exact Hs1|]. split; [exact Hs2|]. split; [now apply arel_accok_of|].
  rewrite forallb_forall in Hs2, Hl2. rewrite forallb_forall. intros [w r'] Hin. cbn [snd].
  specialize (Hs2 _ Hin). specialize (Hl2 _ Hin). unfold aalt_ok in Hs2. unfold aalt_lexok in Hl2. cbn [fst snd] in *.
  apply andb_prop in Hs2 as [_ Hs2]. apply andb_prop in Hl2 as [_ Hl2]. now apply arel_accok_of.
Qed.
Theorem ptext_entry_read x r alts : awf false (ptext_field x r alts) = true ->
  mapM relrec_of (relations (Node ENTRY (arels_elems r alts (p_last x)))) =
  if arel_readable r && forallb (fun wr => arel_readable (snd wr)) alts then Ok (entry_content r alts) else Panic 51%N.
Proof.
  intros Hw. destruct (ptext_entry_acc x r alts Hw) as (Hr & Ha & Hc1 & Hc2).
  rewrite <- (lentry_tree_of r alts (p_last x) Hr Ha). rewrite entry_structure.
  - rewrite (forall_rels_of rel_ops arel_readable r alts (p_last x)).
    + now rewrite entry_content_of.
    + intros r0 fl. unfold rel_ops, lrel_of, arel_readable. cbn [l_ver]. destruct (a_ver r0); reflexivity.
  - rewrite (forall_rels_of rel_acc_ok arel_accok r alts (p_last x)).
    + now rewrite Hc1, Hc2.
    + intros r0 fl. unfold rel_acc_ok, lrel_of, arel_accok. cbn [l_qual l_ver]. destruct (a_qual r0), (a_ver r0); reflexivity.
Qed.
Theorem ptext_relation_read x r : awf false (ptext_field x r []) = true ->
  relrec_of (arel_tree r (p_last x)) = if arel_readable r then Ok (arel_content r) else Panic 51%N.
Proof.
  intros Hw. destruct (ptext_entry_acc x r [] Hw) as (Hr & _ & Hc1 & _).
  rewrite <- (lrel_tree_of r (p_last x) Hr). rewrite relrec_of_lrel.
  - rewrite lrel_content_of. unfold rel_ops, lrel_of, arel_readable. cbn [l_ver]. destruct (a_ver r); reflexivity.
  - unfold rel_acc_ok, lrel_of. cbn [l_qual l_ver]. unfold arel_accok in Hc1. destruct (a_qual r), (a_ver r); exact Hc1.
Qed.

(* ------------------------------------------------------------------ separators *)
Theorem a_pop_slots b o l l' : lwf b l = true -> a_pop o l = Some l' ->
  tree_slots (ltree l') = psstep (tree_slots (ltree l)) o.
Proof.
  intros Hw H. destruct o; cbn [a_pop psstep] in *.
  - injection H as <-. unfold a_push. rewrite (insert_slots_l b l _ _ Hw). unfold s_insert, tree_slots.
    rewrite entry_slot_none; [reflexivity|exact (shape_ltree b l Hw)|].
    unfold ltree. cbn [children]. rewrite (nth_index_map rt is_entry is_re) by apply is_entry_rt. apply nthi_beyond. lia.
  - injection H as <-. apply (insert_slots_l b l i _ Hw).
  - unfold a_replace in H. destruct (nth_index is_re i l) as [ci|] eqn:E; [|discriminate]. injection H as <-.
    destruct (nth_index_re_split _ _ _ E) as (pre & e0 & post & -> & <- & _). apply (slots_replace_re _ _ e0). apply nth_error_app_len.
  - unfold a_on_entry in H. destruct (nth_entry l i) as [[ci e]|] eqn:E; [|discriminate]. injection H as <-.
    apply (slots_replace_re _ _ e). now apply (nth_error_entry l i).
  - destruct (nth_entry l i) as [[ci e]|] eqn:E; [|discriminate]. destruct (j <? n_rels e); [|discriminate]. injection H as <-.
    apply (slots_replace_re _ _ e). now apply (nth_error_entry l i).
Qed.
Theorem g_op_slots b o l l' : lwf b l = true -> g_op o l = Some l' ->
  tree_slots (ltree l') = gsstep (fst (lcontent l)) (tree_slots (ltree l)) o.
Proof. destruct o as [o|o]; cbn [g_op gsstep]; [apply a_op_slots|apply a_pop_slots]. Qed.

Theorem g_history_seps b ops : forall l st, lwf b l = true -> forallb goperands_ok ops = true ->
  gsteps_in_range (fst (lcontent l)) ops = true -> holds st (ltree l) ->
  exists l' st', g_ops ops l = Some l' /\
                 run_ops fixed (gcompile_all ops) st = Ok st' /\ holds st' (ltree l') /\
                 lwf b l' = true /\
                 lcontent l' = (fold_left gxstep ops (fst (lcontent l)), snd (lcontent l)) /\
                 field_shape (ltree l') = true /\
                 tree_slots (ltree l') = gslots_after ops (fst (lcontent l)) (tree_slots (ltree l)).
Proof.
  induction ops as [|o rest IH]; intros l st H Ho Hr Hst.
  - exists l, st. cbn [g_ops gcompile_all flat_map run_ops fold_left]. split; [reflexivity|]. split; [reflexivity|]. split; [exact Hst|]. split; [exact H|].
    split; [now destruct (lcontent l)|]. split; [now apply (shape_ltree b)|reflexivity].
  - cbn [forallb gsteps_in_range] in *. andb_hyps.
    destruct (g_step b o l st) as (l1 & st1 & Ha & R1 & Hst1 & Hw1 & Hc1); auto.
    pose proof (g_op_slots b o l l1 H Ha) as Hs1.
    destruct (IH l1 st1) as (l' & st' & Ha' & R' & Hst' & Hw' & Hc' & Hsh' & Hs'); auto.
    { rewrite Hc1. cbn [fst]. assumption. }
    exists l', st'. cbn [g_ops gcompile_all flat_map fold_left]. rewrite Ha.
    split; [exact Ha'|]. split; [eapply run_ops_app; [exact R1|exact R']|]. split; [exact Hst'|]. split; [exact Hw'|].
    split; [rewrite Hc', Hc1; reflexivity|]. split; [exact Hsh'|].
    rewrite Hs', Hs1, Hc1. reflexivity.
Qed.

(* C11 in full (texts as written), operands of all kinds, with the separators *)
Theorem g_history_full_seps (s : str) (t0 : rtree) (f0 : lfield) (ops : list gop) :
  parse_relaxed s true = Ok (t0, 0) -> structure t0 = Ok f0 ->
  gsteps_in_range f0 ops = true -> forallb goperands_ok ops = true ->
  exists st', run_ops fixed (gcompile_all ops) (start_state t0) = Ok st' /\
  exists t', root_tree st' = Ok t' /\
    structure t' = Ok (fold_left gxstep ops f0) /\
    substvar_texts t' = substvar_texts t0 /\
    field_shape t' = true /\ tree_slots t' = gslots_after ops f0 (tree_slots t0) /\
    exists t'', parse_relaxed (text t') true = Ok (t'', 0) /\
                structure t'' = Ok (fold_left gxstep ops f0).
Proof.
  intros Hp Hs Hr Ho.
  destruct (start_layout true s t0 f0 Hp Hs) as (l0 & <- & Hw & <-).
  destruct (g_history_seps true ops l0 (start_state (ltree l0)) Hw Ho Hr (holds_start _)) as (l' & st' & Ha & R & Hst' & Hw' & Hc' & Hsh' & Hsl').
  exists st'. split; [exact R|]. destruct (holds_root_tree _ _ Hst') as [RT _]. exists (ltree l'). split; [exact RT|].
  destruct (structure_live true l' Hw') as [S1 S2]. destruct (structure_live true l0 Hw) as [_ S0].
  rewrite Hc' in S1, S2. cbn [fst snd] in S1, S2. split; [exact S1|]. split; [now rewrite S2, S0|].
  split; [exact Hsh'|]. split; [exact Hsl'|].
  destruct (live_reread true l' Hw') as (t'' & P & _ & S'' & _). exists t''. split; [exact P|]. rewrite S'', Hc'. reflexivity.
Qed.
