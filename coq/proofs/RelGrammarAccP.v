(* The accessors on the tree of a well-formed relationship field:
   racc (rtree_of f) = Ok (rcontent_acc f), and the readers' text. *)
From Coq Require Import DecimalN DecimalFacts.
From V.model Require Import Base RelLex RelParse RelAcc RelGrammar.
From V.proofs Require Import BaseP RelLexP RelParseP RelGrammarLexP RelGrammarParseP.

(* ---- searching among children ---- *)
Lemma first_node_app k a b :
  first_node_of_kind k (a ++ b) = match first_node_of_kind k a with Some x => Some x | None => first_node_of_kind k b end.
Proof.
  induction a as [|x r IH]; [reflexivity|]. cbn [app first_node_of_kind].
  destruct x as [k' s|k' l]; [exact IH|]. destruct (rkind_eqb k' k); [reflexivity|exact IH].
Qed.

Lemma first_node_elems k l : first_node_of_kind k (elems l) = None.
Proof. induction l as [|[k' s] t IH]; [reflexivity|exact IH]. Qed.

Lemma first_tok_app k a b :
  first_tok_of_kind k (a ++ b) = match first_tok_of_kind k a with Some x => Some x | None => first_tok_of_kind k b end.
Proof.
  induction a as [|x r IH]; [reflexivity|]. cbn [app first_tok_of_kind].
  destruct x as [k' s|k' l]; [|exact IH]. destruct (rkind_eqb k' k); [reflexivity|exact IH].
Qed.

Lemma first_tok_ws k w : is_ws_kind k = false -> first_tok_of_kind k (ws_elems w) = None.
Proof.
  intros Hk. unfold ws_elems. pose proof (ws_toks_kinds w) as H.
  induction (ws_toks w) as [|[k' s] t IH]; [reflexivity|]. inversion H as [|? ? Hk' Ht]; subst. cbn [fst] in Hk'.
  cbn [elems map tk fst snd first_tok_of_kind].
  replace (rkind_eqb k' k) with false; [apply IH, Ht|].
  destruct k'; try discriminate; destruct k; try discriminate; reflexivity.
Qed.

Definition nodes_of (k : rkind) (l : list rtree) : list rtree :=
  filter (fun e => is_node e && rkind_eqb (ekind e) k) l.

Lemma nodes_of_elems k l : nodes_of k (elems l) = [].
Proof. induction l as [|[k' s] t IH]; [reflexivity|exact IH]. Qed.

Lemma nodes_of_app k a b : nodes_of k (a ++ b) = nodes_of k a ++ nodes_of k b.
Proof. apply filter_app. Qed.

Lemma tok_texts_app k a b : tok_texts_of_kind k (a ++ b) = tok_texts_of_kind k a ++ tok_texts_of_kind k b.
Proof. apply flat_map_app. Qed.

Lemma tok_texts_ws k w : is_ws_kind k = false -> tok_texts_of_kind k (ws_elems w) = [].
Proof.
  intros Hk. unfold ws_elems. pose proof (ws_toks_kinds w) as H.
  induction (ws_toks w) as [|[k' s] t IH]; [reflexivity|]. inversion H as [|? ? Hk' Ht]; subst. cbn [fst] in Hk'.
  cbn [elems map tk fst snd tok_texts_of_kind flat_map].
  replace (rkind_eqb k' k) with false; [apply IH, Ht|].
  destruct k'; try discriminate; destruct k; try discriminate; reflexivity.
Qed.

Lemma version_text_app a b : version_text_of (a ++ b) = version_text_of a ++ version_text_of b.
Proof. apply flat_map_app. Qed.

Lemma version_text_ws w : version_text_of (ws_elems w) = [].
Proof.
  unfold ws_elems. pose proof (ws_toks_kinds w) as H.
  induction (ws_toks w) as [|[k' s] t IH]; [reflexivity|]. inversion H as [|? ? Hk' Ht]; subst. cbn [fst] in Hk'.
  change (version_text_of (elems ((k', s) :: t))) with
    ((if rkind_eqb k' IDENT || rkind_eqb k' COLON then s else []) ++ version_text_of (elems t)).
  rewrite (IH Ht), app_nil_r. destruct k'; try discriminate; reflexivity.
Qed.

(* ---- components of a relation tree, by kind ---- *)
Lemma fn_ws k w : first_node_of_kind k (ws_elems w) = None.
Proof. apply first_node_elems. Qed.

Lemma fn_profs k ps : k <> PROFILES -> first_node_of_kind k (flat_map prof_elems ps) = None.
Proof.
  intros Hk. induction ps as [|g r IH]; [reflexivity|]. cbn [flat_map]. unfold prof_elems at 1.
  rewrite !first_node_app, fn_ws, IH. cbn. destruct k; try reflexivity. congruence.
Qed.

Lemma fn_vclause k v :
  first_node_of_kind k (vclause_elems v) = if rkind_eqb VERSION k then Some (vnode v) else None.
Proof. unfold vclause_elems. rewrite first_node_app, fn_ws. cbn [first_node_of_kind vnode]. destruct (rkind_eqb VERSION k); reflexivity. Qed.
Lemma fn_arch k g :
  first_node_of_kind k (arch_elems g) = if rkind_eqb ARCHITECTURES k then Some (arch_node g) else None.
Proof. unfold arch_elems. rewrite first_node_app, fn_ws. cbn [first_node_of_kind arch_node group_node]. destruct (rkind_eqb ARCHITECTURES k); reflexivity. Qed.
Lemma fn_qual k q :
  first_node_of_kind k (qual_elems q) = if rkind_eqb ARCHQUAL k then Some (qual_node q) else None.
Proof. unfold qual_elems. rewrite first_node_app, fn_ws. cbn [first_node_of_kind qual_node]. destruct (rkind_eqb ARCHQUAL k); reflexivity. Qed.

(* the first node of kind k among the children of a relation tree, k one of ARCHQUAL, VERSION, ARCHITECTURES *)
Lemma fn_rel k r last : k <> PROFILES ->
  first_node_of_kind k (children (rel_tree r last)) =
  match (if rkind_eqb ARCHQUAL k then option_map qual_node (r_qual r) else None) with
  | Some x => Some x
  | None =>
    match (if rkind_eqb VERSION k then option_map vnode (r_ver r) else None) with
    | Some x => Some x
    | None => if rkind_eqb ARCHITECTURES k then option_map arch_node (r_archs r) else None
    end
  end.
Proof.
  intros Hk. unfold rel_tree. cbn [children first_node_of_kind]. rewrite !first_node_app.
  rewrite (fn_profs k (r_profs r) Hk).
  assert (E : first_node_of_kind k (if owns_trail r last then ws_elems (r_trail r) else []) = None)
    by (destruct (owns_trail r last); [apply fn_ws|reflexivity]).
  rewrite E.
  destruct (r_qual r) as [q|]; destruct (r_ver r) as [v|]; destruct (r_archs r) as [g|];
    cbn [opt_elems option_map first_node_of_kind]; rewrite ?fn_qual, ?fn_vclause, ?fn_arch;
    destruct (rkind_eqb ARCHQUAL k); destruct (rkind_eqb VERSION k); destruct (rkind_eqb ARCHITECTURES k); reflexivity.
Qed.

(* ---- name, qualifier ---- *)
Lemma acc_name r last : relation_name (rel_tree r last) = Ok (r_name r).
Proof. reflexivity. Qed.

Lemma acc_qual r last : relation_archqual (rel_tree r last) = option_map q_name (r_qual r).
Proof.
  unfold relation_archqual. rewrite fn_rel by discriminate. cbn [rkind_eqb rkind_code N.eqb Pos.eqb].
  destruct (r_qual r) as [q|]; cbn [option_map]; [|reflexivity].
  cbn [qual_node children first_tok_of_kind rkind_eqb rkind_code N.eqb Pos.eqb].
  rewrite first_tok_app, first_tok_ws by reflexivity. reflexivity.
Qed.

(* ---- debversion round trip on the versions of the grammar ---- *)
Lemma digit_cases c : is_digit c = true ->
  c = 48%N \/ c = 49%N \/ c = 50%N \/ c = 51%N \/ c = 52%N \/ c = 53%N \/ c = 54%N \/ c = 55%N \/ c = 56%N \/ c = 57%N.
Proof. unfold is_digit. intros H. apply andb_true_iff in H. destruct H as [H1 H2]. apply N.leb_le in H1, H2. lia. Qed.

Lemma digits_uint_digits e : forallb is_digit e = true -> digits_of_uint (uint_of_digits e) = e.
Proof.
  induction e as [|c r IH]; [reflexivity|]. cbn [forallb]. intros H. apply andb_true_iff in H. destruct H as [Hc Hr].
  cbn [uint_of_digits].
  destruct (digit_cases c Hc) as [->|[->|[->|[->|[->|[->|[->|[->|[->| ->]]]]]]]]];
    cbn [N.sub Pos.sub Pos.sub_mask Pos.pred_double Pos.succ_double_mask Pos.double_mask Pos.double_pred_mask digits_of_uint];
    rewrite (IH Hr); reflexivity.
Qed.

Lemma unorm_canonical e : forallb is_digit e = true -> e <> [] ->
  match e with c :: _ :: _ => negb (c =? 48)%N | _ => true end = true ->
  Decimal.unorm (uint_of_digits e) = uint_of_digits e.
Proof.
  intros Hd Hne Hc. destruct e as [|c r]; [congruence|]. cbn [forallb] in Hd. apply andb_true_iff in Hd. destruct Hd as [Hc0 Hr].
  destruct r as [|c' r'].
  - cbn [uint_of_digits]. destruct (digit_cases c Hc0) as [->|[->|[->|[->|[->|[->|[->|[->|[->| ->]]]]]]]]]; reflexivity.
  - apply negb_true_iff in Hc. apply N.eqb_neq in Hc.
    change (uint_of_digits (c :: c' :: r')) with
      (let u := uint_of_digits (c' :: r') in
       match (c - 48)%N with
       | 0 => Decimal.D0 u | 1 => Decimal.D1 u | 2 => Decimal.D2 u | 3 => Decimal.D3 u
       | 4 => Decimal.D4 u | 5 => Decimal.D5 u | 6 => Decimal.D6 u | 7 => Decimal.D7 u
       | 8 => Decimal.D8 u | _ => Decimal.D9 u
       end%N).
    cbv zeta.
    destruct (digit_cases c Hc0) as [->|[->|[->|[->|[->|[->|[->|[->|[->| ->]]]]]]]]]; try congruence; reflexivity.
Qed.

Lemma ident_version_char c : is_ident_char c = true -> is_version_char c = true.
Proof.
  unfold is_ident_char, is_version_char. intros H.
  destruct (is_ascii_alnum c); [reflexivity|]. cbn [orb] in *.
  destruct (c =? 45)%N; [rewrite !orb_true_r; reflexivity|].
  destruct (c =? 46)%N; [reflexivity|]. destruct (c =? 43)%N; [reflexivity|].
  destruct (c =? 126)%N; [rewrite !orb_true_r; reflexivity|]. discriminate.
Qed.

Lemma ident_all_version s : forallb is_ident_char s = true -> forallb is_version_char s = true.
Proof.
  induction s as [|c r IH]; [reflexivity|]. cbn [forallb]. intros H. apply andb_true_iff in H.
  rewrite (ident_version_char c), IH by apply H. reflexivity.
Qed.

Lemma ident_not_colon c : is_ident_char c = true -> (c =? 58)%N = false.
Proof. intros H. destruct (N.eqb_spec c 58) as [->|]; [discriminate|reflexivity]. Qed.

Lemma roundtrip_plain s : ident_ok s = true -> debversion_roundtrip s = Ok s.
Proof.
  intros H. destruct (ident_ok_inv s H) as (c & w & -> & Hc & Hw).
  unfold debversion_roundtrip.
  assert (Hall : forallb is_ident_char (c :: w) = true) by (cbn [forallb]; rewrite Hc, Hw; reflexivity).
  rewrite (ident_all_version _ Hall). cbn [negb].
  destruct (span is_digit (c :: w)) as [d r] eqn:Es.
  pose proof (span_app _ _ _ _ Es) as Hd.
  destruct d as [|d0 d']; [reflexivity|]. destruct r as [|x [|y r']]; try reflexivity.
  assert (Hx : is_ident_char x = true).
  { rewrite <- Hd in Hall. rewrite forallb_app in Hall. apply andb_true_iff in Hall. destruct Hall as [_ Hr].
    cbn [forallb] in Hr. apply andb_true_iff in Hr. apply Hr. }
  rewrite (ident_not_colon x Hx). reflexivity.
Qed.

Lemma roundtrip_epoch e c w : epoch_ok e = true -> forallb is_version_char (c :: w) = true ->
  debversion_roundtrip (e ++ 58%N :: c :: w) = Ok (e ++ 58%N :: c :: w).
Proof.
  intros He Hs. pose proof (epoch_ident e He) as Hei.
  unfold epoch_ok in He. andb_split He.
  destruct (ident_ok_inv e Hei) as (e0 & e' & Ee & He0 & He'). subst e.
  unfold debversion_roundtrip. cbn [app].
  assert (Hall : forallb is_version_char ((e0 :: e') ++ 58%N :: c :: w) = true).
  { rewrite forallb_app. rewrite (ident_all_version (e0 :: e')) by (cbn [forallb]; rewrite He0, He'; reflexivity).
    cbn [andb]. change (forallb is_version_char (58%N :: c :: w)) with (is_version_char 58 && forallb is_version_char (c :: w)).
    rewrite Hs. reflexivity. }
  change (e0 :: e' ++ 58%N :: c :: w) with ((e0 :: e') ++ 58%N :: c :: w).
  rewrite Hall. cbn [negb].
  rewrite (span_app_stop is_digit (e0 :: e') (58%N :: c :: w) W1 eq_refl).
  cbn [N.eqb Pos.eqb]. rewrite W.
  rewrite DecimalN.Unsigned.to_of. rewrite unorm_canonical; [|exact W1|discriminate|exact W0].
  rewrite digits_uint_digits by exact W1. reflexivity.
Qed.

Lemma pieces_version_chars ps : forallb ident_ok ps = true ->
  forallb is_version_char (flat_map (fun p => 58%N :: p) ps) = true.
Proof.
  induction ps as [|p r IH]; [reflexivity|]. cbn [forallb flat_map]. intros H. apply andb_true_iff in H. destruct H as [Hp Hr].
  destruct (ident_ok_inv p Hp) as (c & w & -> & Hc & Hw).
  change ((58%N :: c :: w) ++ flat_map (fun p => 58%N :: p) r) with (58%N :: (c :: w) ++ flat_map (fun p => 58%N :: p) r).
  cbn [forallb]. change (is_version_char 58) with true. cbn [andb]. rewrite forallb_app, (IH Hr), andb_true_r.
  apply ident_all_version. cbn [forallb]. rewrite Hc, Hw. reflexivity.
Qed.

Lemma roundtrip_vtext v : vclause_ok v = true -> debversion_roundtrip (vtext v) = Ok (vtext v).
Proof.
  intros H. destruct (vclause_ok_inv v H) as (_ & _ & _ & _ & He & Hv & Hm & Hnone).
  unfold vtext. destruct (v_epoch v) as [e|]; cbn [opt_ok] in He.
  - destruct (ident_ok_inv _ Hv) as (c & w & E & Hc & Hw). rewrite E. rewrite <- app_assoc. cbn [app].
    apply roundtrip_epoch; [exact He|].
    change (c :: w ++ flat_map (fun p => 58%N :: p) (v_more v)) with ((c :: w) ++ flat_map (fun p => 58%N :: p) (v_more v)).
    rewrite forallb_app, (pieces_version_chars _ Hm), andb_true_r. apply ident_all_version. cbn [forallb]. rewrite Hc, Hw. reflexivity.
  - rewrite (Hnone eq_refl). cbn [app flat_map]. rewrite app_nil_r. apply roundtrip_plain, Hv.
Qed.

Lemma vtext_nonempty v : ident_ok (v_ver v) = true -> vtext v <> [].
Proof.
  intros Hv. destruct (ident_ok_inv _ Hv) as (c & w & E & _). unfold vtext. rewrite E.
  destruct (v_epoch v) as [e|]; [destruct e; discriminate|discriminate].
Qed.

Lemma version_text_vtoks v : version_text_of (elems (vtext_toks v)) = vtext v.
Proof.
  assert (Hp : forall ps, version_text_of (elems (flat_map (fun p => [(COLON, [58%N]); (IDENT, p)]) ps)) = flat_map (fun p => 58%N :: p) ps).
  { induction ps as [|p r IH]; [reflexivity|]. cbn [flat_map app]. 
    change (elems ((COLON, [58%N]) :: (IDENT, p) :: ?x)) with (Tok COLON [58%N] :: Tok IDENT p :: elems x).
    change (version_text_of (Tok COLON [58%N] :: Tok IDENT p :: ?x)) with ([58%N] ++ p ++ version_text_of x).
    rewrite IH. reflexivity. }
  unfold vtext_toks, vtext. destruct (v_epoch v) as [e|]; cbn [app].
  - change (elems ((IDENT, e) :: (COLON, [58%N]) :: (IDENT, v_ver v) :: ?x)) with (Tok IDENT e :: Tok COLON [58%N] :: Tok IDENT (v_ver v) :: elems x).
    change (version_text_of (Tok IDENT e :: Tok COLON [58%N] :: Tok IDENT (v_ver v) :: ?x)) with (e ++ [58%N] ++ v_ver v ++ version_text_of x).
    rewrite Hp, <- app_assoc. reflexivity.
  - change (elems ((IDENT, v_ver v) :: ?x)) with (Tok IDENT (v_ver v) :: elems x).
    change (version_text_of (Tok IDENT (v_ver v) :: ?x)) with (v_ver v ++ version_text_of x).
    rewrite Hp. reflexivity.
Qed.

Lemma acc_ver r last : wf_rel r = true ->
  relation_version (rel_tree r last) = Ok (option_map (fun v => (v_op v, vtext v)) (r_ver r)).
Proof.
  intros H. unfold wf_rel in H. andb_split H.
  unfold relation_version. rewrite fn_rel by discriminate. cbn [rkind_eqb rkind_code N.eqb Pos.eqb].
  destruct (r_ver r) as [v|]; cbn [option_map]; [|reflexivity].
  cbn [opt_ok] in W2. pose proof W2 as Hvok. destruct (vclause_ok_inv v W2) as (_ & _ & _ & _ & _ & W4 & _ & _).
  cbn [vnode children first_node_of_kind]. rewrite first_node_app, fn_ws.
  cbn [app first_node_of_kind rkind_eqb rkind_code N.eqb Pos.eqb].
  assert (E : version_text_of
      (Tok L_PARENS [40%N] :: ws_elems (v_ws1 v) ++ Node CONSTRAINT (elems (vop_toks (v_op v)))
        :: ws_elems (v_ws2 v) ++ elems (vtext_toks v) ++ ws_elems (v_ws3 v) ++ [Tok R_PARENS [41%N]]) = vtext v).
  { change (version_text_of (Tok L_PARENS [40%N] :: ?x)) with (version_text_of x).
    rewrite version_text_app, version_text_ws. cbn [app].
    change (version_text_of (Node CONSTRAINT ?l :: ?x)) with (version_text_of x).
    rewrite !version_text_app, !version_text_ws, version_text_vtoks. cbn [app]. rewrite app_nil_r. reflexivity. }
  rewrite E.
  destruct (vtext v) as [|c0 w0] eqn:Ev; [destruct (vtext_nonempty v W4 Ev)|]. rewrite <- Ev.
  replace (vop_of_text (text (Node CONSTRAINT (elems (vop_toks (v_op v)))))) with (Some (v_op v))
    by (destruct (v_op v); reflexivity).
  rewrite (roundtrip_vtext v Hvok). reflexivity.
Qed.

(* ---- architectures ---- *)
Lemma arch_fold_ws w : forall X b, arch_fold (ws_elems w ++ X) b = arch_fold X b.
Proof.
  unfold ws_elems. pose proof (ws_toks_kinds w) as H.
  induction (ws_toks w) as [|[k s] t IH]; intros X b; [reflexivity|].
  inversion H as [|? ? Hk Ht]; subst. cbn [fst] in Hk.
  cbn [elems map tk fst snd app arch_fold]. change (map tk t) with (elems t).
  destruct k; try discriminate; cbn [rkind_eqb rkind_code N.eqb Pos.eqb]; apply IH, Ht.
Qed.

Lemma arch_fold_terms terms : forall X,
  arch_fold (elems (flat_map term_toks terms) ++ X) false = map (fun t => arch_acc_text (term_arch t)) terms ++ arch_fold X false.
Proof.
  induction terms as [|t r IH]; intros X; [reflexivity|]. cbn [flat_map map]. rewrite elems_app, <- app_assoc.
  unfold term_toks at 1. rewrite !elems_app, <- !app_assoc. fold (ws_elems (t_ws t)). rewrite arch_fold_ws.
  unfold arch_acc_text, term_arch. cbn [fst snd].
  destruct (t_neg t); cbn [neg_toks neg_text elems map tk fst snd app arch_fold rkind_eqb rkind_code N.eqb Pos.eqb];
    rewrite IH; reflexivity.
Qed.

Lemma acc_archs r last :
  relation_architectures (rel_tree r last) =
  option_map (fun g => map (fun t => arch_acc_text (term_arch t)) (g_terms g)) (r_archs r).
Proof.
  unfold relation_architectures. rewrite fn_rel by discriminate. cbn [rkind_eqb rkind_code N.eqb Pos.eqb].
  destruct (r_archs r) as [g|]; cbn [option_map]; [|reflexivity]. f_equal.
  unfold arch_node, group_node, group_body_toks. cbn [children].
  change (elems ((L_BRACKET, [91%N]) :: ?x)) with (Tok L_BRACKET [91%N] :: elems x).
  cbn [arch_fold rkind_eqb rkind_code N.eqb Pos.eqb].
  rewrite elems_app, arch_fold_terms, elems_app. fold (ws_elems (g_ws1 g)). rewrite arch_fold_ws.
  cbn. rewrite app_nil_r. reflexivity.
Qed.

(* ---- profiles ---- *)
Definition flush (cur : list str) (ret : list bprofile) : list bprofile :=
  match cur with [] => ret | _ => ret ++ [bprofile_of_text (concat cur)] end.
Definition pending (t : term) : list str := (if t_neg t then [[33%N]] else []) ++ [t_name t].

Lemma profile_fold_ws l : forall Y cur ret, Forall (fun t => is_ws_kind (fst t) = true) l -> l <> [] ->
  profile_fold (elems l ++ Y) cur ret = profile_fold Y [] (flush cur ret).
Proof.
  induction l as [|[k s] t IH]; intros Y cur ret Hl Hne; [congruence|].
  inversion Hl as [|? ? Hk Ht]; subst. cbn [fst] in Hk.
  cbn [elems map tk fst snd app profile_fold ekind]. rewrite Hk.
  destruct t as [|t0 t'].
  - cbn [map app]. destruct cur; reflexivity.
  - change (map tk (t0 :: t')) with (elems (t0 :: t')).
    destruct cur as [|c0 cur']; rewrite IH by (assumption || discriminate); reflexivity.
Qed.

Lemma profile_fold_ws_opt w Y cur ret :
  profile_fold (ws_elems w ++ Y) cur ret =
  match w with [] => profile_fold Y cur ret | _ => profile_fold Y [] (flush cur ret) end.
Proof.
  destruct w as [|c r]; [reflexivity|]. unfold ws_elems.
  apply profile_fold_ws; [apply ws_toks_kinds|apply ws_toks_nonempty].
Qed.

Lemma bprofile_pending t : ident_ok (t_name t) = true -> bprofile_of_text (concat (pending t)) = term_profile t.
Proof.
  intros H. destruct (ident_ok_inv _ H) as (c & w & E & Hc & _). unfold pending, term_profile. rewrite E.
  destruct (t_neg t); cbn; rewrite app_nil_r; [reflexivity|].
  destruct (N.eqb_spec c 33) as [->|]; [discriminate|]. reflexivity.
Qed.

Lemma pending_nonempty t : pending t <> [].
Proof. unfold pending. destruct (t_neg t); discriminate. Qed.

Lemma flush_pending t ret : ident_ok (t_name t) = true -> flush (pending t) ret = ret ++ [term_profile t].
Proof.
  intros H. unfold flush. pose proof (pending_nonempty t). destruct (pending t) eqn:E; [congruence|].
  rewrite <- E, bprofile_pending by exact H. reflexivity.
Qed.

(* the tokens of one term, starting with nothing pending *)
Lemma profile_fold_term_body t Y ret :
  profile_fold (elems (neg_toks (t_neg t) ++ [(IDENT, t_name t)]) ++ Y) [] ret = profile_fold Y (pending t) ret.
Proof. unfold pending. destruct (t_neg t); reflexivity. Qed.

Lemma profile_fold_terms terms : forall t x w1 ret,
  forallb (term_ok false) terms = true -> ident_ok (t_name t) = true -> ws_ok w1 = true ->
  profile_fold (elems (flat_map term_toks terms) ++ ws_elems w1 ++ [Tok R_ANGLE x]) (pending t) ret =
  ret ++ map term_profile (t :: terms).
Proof.
  induction terms as [|t' r IH]; intros t x w1 ret Hts Ht Hw.
  - cbn [flat_map elems map app]. rewrite profile_fold_ws_opt.
    destruct w1; cbn [profile_fold ekind is_ws_kind is_angle]; [apply flush_pending, Ht|].
    rewrite flush_pending by exact Ht. reflexivity.
  - cbn [forallb] in Hts. apply andb_true_iff in Hts. destruct Hts as [Ht' Hr].
    unfold term_ok in Ht'. andb_split Ht'. cbn [orb] in W0.
    cbn [flat_map]. unfold term_toks at 1. rewrite !elems_app, <- !app_assoc.
    fold (ws_elems (t_ws t')). rewrite profile_fold_ws_opt.
    destruct (t_ws t') as [|c0 w0] eqn:Ew; [discriminate|].
    rewrite flush_pending by exact Ht.
    rewrite app_assoc, <- elems_app. rewrite profile_fold_term_body.
    rewrite IH by assumption. cbn [map]. rewrite <- app_assoc. reflexivity.
Qed.

Lemma profile_fold_group g : group_ok g = true ->
  profile_fold (children (prof_node g)) [] [] = map term_profile (g_terms g).
Proof.
  intros H. unfold group_ok in H. andb_split H. unfold terms_ok in W0.
  destruct (g_terms g) as [|t r] eqn:Et; [discriminate|]. apply andb_true_iff in W0. destruct W0 as [Ht Hr].
  unfold term_ok in Ht. andb_split Ht.
  unfold prof_node, group_node, group_body_toks. cbn [children]. rewrite Et.
  change (elems ((L_ANGLE, [60%N]) :: ?x)) with (Tok L_ANGLE [60%N] :: elems x).
  cbn [profile_fold ekind is_ws_kind is_angle].
  cbn [flat_map]. unfold term_toks at 1. rewrite !elems_app, <- !app_assoc.
  fold (ws_elems (t_ws t)). fold (ws_elems (g_ws1 g)). rewrite profile_fold_ws_opt.
  assert (E : forall cur, cur = [] -> flush cur [] = [] /\ True) by (intros ? ->; split; reflexivity).
  assert (Hgo : profile_fold
     (elems (neg_toks (t_neg t)) ++ elems [(IDENT, t_name t)] ++ elems (flat_map term_toks r) ++ ws_elems (g_ws1 g) ++ elems [(R_ANGLE, [62%N])]) [] [] =
     map term_profile (t :: r)).
  { rewrite app_assoc, <- elems_app. rewrite profile_fold_term_body.
    change (elems [(R_ANGLE, [62%N])]) with [Tok R_ANGLE [62%N]].
    rewrite profile_fold_terms by assumption. reflexivity. }
  destruct (t_ws t); exact Hgo.
Qed.

Lemma nodes_profs ps : nodes_of PROFILES (flat_map prof_elems ps) = map prof_node ps.
Proof.
  induction ps as [|g r IH]; [reflexivity|]. cbn [flat_map map]. unfold prof_elems at 1.
  rewrite !nodes_of_app, IH. unfold ws_elems. rewrite nodes_of_elems. reflexivity.
Qed.

Lemma acc_profs r last : wf_rel r = true ->
  relation_profiles (rel_tree r last) = map (fun g => map term_profile (g_terms g)) (r_profs r).
Proof.
  intros H. unfold wf_rel in H. andb_split H.
  unfold relation_profiles, rnodes_of_kind. fold (nodes_of PROFILES (children (rel_tree r last))).
  unfold rel_tree. cbn [children]. change (nodes_of PROFILES (Tok IDENT (r_name r) :: ?x)) with (nodes_of PROFILES x).
  rewrite !nodes_of_app, nodes_profs.
  assert (E1 : nodes_of PROFILES (opt_elems qual_elems (r_qual r)) = [])
    by (destruct (r_qual r) as [q|]; [unfold opt_elems, qual_elems; rewrite nodes_of_app; unfold ws_elems; rewrite nodes_of_elems|]; reflexivity).
  assert (E2 : nodes_of PROFILES (opt_elems vclause_elems (r_ver r)) = [])
    by (destruct (r_ver r) as [v|]; [unfold opt_elems, vclause_elems; rewrite nodes_of_app; unfold ws_elems; rewrite nodes_of_elems|]; reflexivity).
  assert (E3 : nodes_of PROFILES (opt_elems arch_elems (r_archs r)) = [])
    by (destruct (r_archs r) as [g|]; [unfold opt_elems, arch_elems; rewrite nodes_of_app; unfold ws_elems; rewrite nodes_of_elems|]; reflexivity).
  assert (E4 : nodes_of PROFILES (if owns_trail r last then ws_elems (r_trail r) else []) = [])
    by (destruct (owns_trail r last); [unfold ws_elems; apply nodes_of_elems|reflexivity]).
  rewrite E1, E2, E3, E4, app_nil_r. cbn [app]. rewrite map_map.
  apply map_ext_in. intros g Hg. apply profile_fold_group.
  rewrite forallb_forall in W0. apply W0, Hg.
Qed.

(* ---- a relation, an entry, the field ---- *)
Lemma relation_acc_rel r last : wf_rel r = true ->
  relation_acc (rel_tree r last) = Ok (relx_acc (rel_content r)).
Proof.
  intros H. unfold relation_acc. rewrite acc_name, (acc_ver r last H), acc_qual, acc_archs, (acc_profs r last H).
  unfold relx_acc, rel_content. cbn [x_name x_qual x_ver x_archs x_profs]. f_equal. f_equal.
  destruct (r_archs r) as [g|]; cbn [option_map]; [|reflexivity]. rewrite map_map. reflexivity.
Qed.



Lemma nodes_of_ws k w : nodes_of k (ws_elems w) = [].
Proof. apply nodes_of_elems. Qed.

Lemma entry_acc_rels alts : forall r last, wf_rel r = true -> forallb wf_alt alts = true ->
  res_all relation_acc (nodes_of RELATION (rels_elems r alts last)) =
  Ok (relx_acc (rel_content r) :: map (fun wr => relx_acc (rel_content (snd wr))) alts).
Proof.
  induction alts as [|[w r'] alts IH]; intros r last Hr Ha; cbn [rels_elems].
  - change (nodes_of RELATION (rel_tree r last :: ?x)) with (rel_tree r last :: nodes_of RELATION x).
    assert (E : nodes_of RELATION (if last then ws_elems (rel_left r last) else []) = [])
      by (destruct last; [apply nodes_of_ws|reflexivity]).
    rewrite E. cbn [res_all map]. rewrite (relation_acc_rel r last Hr). reflexivity.
  - cbn [forallb] in Ha. apply andb_true_iff in Ha. destruct Ha as [Hwr Ha]. unfold wf_alt in Hwr. cbn [fst snd] in Hwr.
    apply andb_true_iff in Hwr. destruct Hwr as [_ Hr'].
    change (nodes_of RELATION (rel_tree r false :: ?x)) with (rel_tree r false :: nodes_of RELATION x).
    rewrite nodes_of_app, nodes_of_ws. cbn [app].
    change (nodes_of RELATION (Tok PIPE [124%N] :: ?x)) with (nodes_of RELATION x).
    rewrite nodes_of_app, nodes_of_ws. cbn [app res_all map snd].
    rewrite (relation_acc_rel r false Hr), (IH r' last Hr' Ha). reflexivity.
Qed.

Lemma entry_acc_entry r alts last : wf_rel r = true -> forallb wf_alt alts = true ->
  entry_acc (Node ENTRY (rels_elems r alts last)) =
  Ok (relx_acc (rel_content r) :: map (fun wr => relx_acc (rel_content (snd wr))) alts).
Proof. intros Hr Ha. exact (entry_acc_rels alts r last Hr Ha). Qed.

Lemma texts_elems l : texts (elems l) = rttext l.
Proof.
  induction l as [|[k s] t IH]; [reflexivity|]. change (elems ((k, s) :: t)) with (Tok k s :: elems t).
  rewrite texts_cons, text_tok, IH. reflexivity.
Qed.

Lemma text_subst_node seg segs : text (subst_node seg segs) = subst_text seg segs.
Proof.
  unfold subst_node. rewrite text_node, texts_elems. unfold subst_toks, subst_text, subst_inner_toks, rttext.
  cbn [map concat snd app]. do 2 f_equal. rewrite map_app, concat_app. cbn [map concat snd app]. rewrite ?app_nil_r.
  f_equal. f_equal. induction segs as [|s r IH]; [reflexivity|]. cbn [flat_map map concat snd app]. rewrite IH.
  reflexivity.
Qed.

Lemma field_entries a more : forall i, wf_item a i = true -> forallb (wf_more a) more = true ->
  res_all entry_acc (nodes_of ENTRY (items_elems i more)) =
  Ok (map (map relx_acc) (flat_map item_entries (i :: map snd more))).
Proof.
  induction more as [|[w i'] more IH]; intros i Hi Hm; cbn [items_elems is_nil].
  - rewrite app_nil_r. destruct i as [r alts|seg segs trail|]; cbn [item_elems item_entries flat_map map app wf_item] in *.
    + change (nodes_of ENTRY (Node ENTRY ?c :: ?x)) with (Node ENTRY c :: nodes_of ENTRY x).
      rewrite nodes_of_ws. cbn [res_all]. apply andb_true_iff in Hi. destruct Hi as [Hr Ha].
      rewrite (entry_acc_entry r alts true Hr Ha). rewrite map_map. reflexivity.
    + change (nodes_of ENTRY (subst_node seg segs :: ?x)) with (nodes_of ENTRY x). rewrite nodes_of_ws. reflexivity.
    + reflexivity.
  - cbn [forallb] in Hm. apply andb_true_iff in Hm. destruct Hm as [Hwi Hm]. unfold wf_more in Hwi. cbn [fst snd] in Hwi.
    apply andb_true_iff in Hwi. destruct Hwi as [_ Hi']. specialize (IH i' Hi' Hm).
    rewrite nodes_of_app. change (nodes_of ENTRY (Tok COMMA [44%N] :: ?x)) with (nodes_of ENTRY x).
    rewrite nodes_of_app, nodes_of_ws. cbn [app map snd flat_map] in IH |- *.
    destruct i as [r alts|seg segs trail|]; cbn [item_elems item_entries app map wf_item] in *.
    + change (nodes_of ENTRY (Node ENTRY ?c :: ?x)) with (Node ENTRY c :: nodes_of ENTRY x).
      rewrite nodes_of_ws. cbn [app res_all]. apply andb_true_iff in Hi. destruct Hi as [Hr Ha].
      rewrite (entry_acc_entry r alts false Hr Ha), IH. rewrite map_map. reflexivity.
    + change (nodes_of ENTRY (subst_node seg segs :: ?x)) with (nodes_of ENTRY x). rewrite nodes_of_ws. exact IH.
    + exact IH.
Qed.

Lemma field_substvars more : forall i,
  map text (nodes_of SUBSTVAR (items_elems i more)) = flat_map item_substvars (i :: map snd more).
Proof.
  induction more as [|[w i'] more IH]; intros i; cbn [items_elems is_nil].
  - rewrite app_nil_r. destruct i as [r alts|seg segs trail|]; cbn [item_elems item_substvars flat_map map app].
    + change (nodes_of SUBSTVAR (Node ENTRY ?c :: ?x)) with (nodes_of SUBSTVAR x). rewrite nodes_of_ws. reflexivity.
    + change (nodes_of SUBSTVAR (subst_node seg segs :: ?x)) with (subst_node seg segs :: nodes_of SUBSTVAR x).
      rewrite nodes_of_ws. cbn [map]. rewrite text_subst_node. reflexivity.
    + reflexivity.
  - specialize (IH i'). rewrite nodes_of_app. change (nodes_of SUBSTVAR (Tok COMMA [44%N] :: ?x)) with (nodes_of SUBSTVAR x).
    rewrite nodes_of_app, nodes_of_ws. cbn [app map snd flat_map] in IH |- *. rewrite map_app, IH.
    destruct i as [r alts|seg segs trail|]; cbn [item_elems item_substvars app map].
    + change (nodes_of SUBSTVAR (Node ENTRY ?c :: ?x)) with (nodes_of SUBSTVAR x). rewrite nodes_of_ws. reflexivity.
    + change (nodes_of SUBSTVAR (subst_node seg segs :: ?x)) with (subst_node seg segs :: nodes_of SUBSTVAR x).
      rewrite nodes_of_ws. cbn [map app]. rewrite text_subst_node. reflexivity.
    + reflexivity.
Qed.

Theorem racc_rtree_of a f : wf_rfield a f = true -> racc (rtree_of f) = Ok (rcontent_acc f).
Proof.
  intros H. unfold wf_rfield in H. andb_split H.
  unfold racc, relations_entries, relations_substvars, r_entries, rnodes_of_kind, rtree_of. cbn [children].
  fold (nodes_of ENTRY (ws_elems (f_lead f) ++ items_elems (f_first f) (f_rest f))).
  fold (nodes_of SUBSTVAR (ws_elems (f_lead f) ++ items_elems (f_first f) (f_rest f))).
  rewrite !nodes_of_app, !nodes_of_ws. cbn [app].
  rewrite (field_entries a (f_rest f) (f_first f) W0 W), field_substvars. reflexivity.
Qed.

(* ---- the whole reader ---- *)
Theorem text_rtree_of a f : wf_rfield a f = true -> text (rtree_of f) = rrender f.
Proof.
  intros H. destruct (rparse_total (rrender f) a) as (t & n & E & Ht).
  rewrite (parse_rrender a f H) in E. injection E as <- _. exact Ht.
Qed.

Lemma wf_rfield_allow f : wf_rfield false f = true -> wf_rfield true f = true.
Proof.
  unfold wf_rfield. intros H. andb_split H. rewrite H. cbn [andb].
  assert (Hi : forall i, wf_item false i = true -> wf_item true i = true).
  { intros i Hi. destruct i as [r alts|seg segs trail|]; cbn [wf_item] in *; [exact Hi|discriminate|exact Hi]. }
  rewrite (Hi _ W0). cbn [andb]. clear -W Hi. induction (f_rest f) as [|[w i] r IH]; [reflexivity|].
  cbn [forallb] in *. apply andb_true_iff in W. destruct W as [Hwi Hr]. rewrite (IH Hr), andb_true_r.
  unfold wf_more in *. cbn [fst snd] in *. apply andb_true_iff in Hwi. destruct Hwi as [Hw Hi']. rewrite Hw, (Hi _ Hi'). reflexivity.
Qed.

Theorem C10_lossless_all a f : wf_rfield a f = true ->
  rlex (rrender f) = Ok (rtoks f) /\
  parse_tokens a (rtoks f) = Ok (rtree_of f, 0) /\
  parse_relaxed (rrender f) a = Ok (rtree_of f, 0) /\
  text (rtree_of f) = rrender f /\
  racc (rtree_of f) = Ok (rcontent_acc f).
Proof.
  intros H. split; [apply (rlex_rrender a), H|]. split; [apply parse_rtoks, H|].
  split; [apply parse_rrender, H|]. split; [apply (text_rtree_of a), H|apply (racc_rtree_of a), H].
Qed.

(* the strict reader (Relations::from_str = parse with allow_substvar = false, no errors) *)
Theorem from_str_rrender f : wf_rfield false f = true -> relations_from_str (rrender f) = Ok (rtree_of f).
Proof. intros H. unfold relations_from_str. rewrite (parse_rrender false f H). reflexivity. Qed.

(* ---- the accessor result read back as content ---- *)
Lemma arch_view_text t : ident_ok (t_name t) = true -> arch_of_text (arch_acc_text (term_arch t)) = term_arch t.
Proof.
  intros H. destruct (ident_ok_inv _ H) as (c & w & E & Hc & _). unfold arch_acc_text, term_arch, arch_of_text. cbn [fst snd].
  rewrite E. destruct (t_neg t); cbn [neg_text app N.eqb Pos.eqb]; [reflexivity|].
  destruct (N.eqb_spec c 33) as [->|]; [discriminate|reflexivity].
Qed.

Lemma relc_view_rel r : wf_rel r = true -> relc_view (relx_acc (rel_content r)) = rel_content r.
Proof.
  intros H. unfold wf_rel in H. andb_split H.
  unfold relc_view, relx_acc, rel_content. cbn [x_name x_qual x_ver x_archs x_profs c_name c_qual c_ver c_archs c_profs].
  f_equal. destruct (r_archs r) as [g|]; cbn [option_map opt_ok] in *; [|reflexivity]. f_equal.
  unfold group_ok in W1. apply andb_true_iff in W1. destruct W1 as [W1 _]. apply andb_true_iff in W1. destruct W1 as [_ Htm].
  unfold terms_ok in Htm.
  destruct (g_terms g) as [|t0 ts]; [discriminate|]. apply andb_true_iff in Htm. destruct Htm as [Ht0 Hts].
  assert (Hall : forall t, In t (t0 :: ts) -> ident_ok (t_name t) = true).
  { intros t [<-|Hin]; [unfold term_ok in Ht0; andb_split Ht0; assumption|].
    rewrite forallb_forall in Hts. specialize (Hts t Hin). unfold term_ok in Hts. andb_split Hts. assumption. }
  rewrite !map_map. apply map_ext_in. intros t Hin. apply arch_view_text, Hall, Hin.
Qed.

Theorem racc_view_content a f : wf_rfield a f = true -> racc_view (rcontent_acc f) = rcontent f.
Proof.
  intros H. unfold wf_rfield in H. andb_split H.
  unfold racc_view, rcontent_acc, rcontent. cbn [fst snd]. f_equal. unfold f_items.
  assert (Hi : forall i, wf_item a i = true -> map (map relc_view) (map (map relx_acc) (item_entries i)) = item_entries i).
  { intros i Hw. destruct i as [r alts|seg segs trail|]; cbn [item_entries map]; try reflexivity.
    cbn [wf_item] in Hw. apply andb_true_iff in Hw. destruct Hw as [Hr Ha].
    rewrite (relc_view_rel r Hr). do 2 f_equal.
    induction alts as [|[w r1] alts IH]; [reflexivity|]. cbn [forallb] in Ha. apply andb_true_iff in Ha. destruct Ha as [Hwr Ha].
    unfold wf_alt in Hwr. cbn [fst snd] in Hwr. apply andb_true_iff in Hwr. destruct Hwr as [_ Hr1].
    cbn [map snd]. rewrite (relc_view_rel r1 Hr1), (IH Ha). reflexivity. }
  cbn [flat_map]. rewrite !map_app, (Hi _ W0). f_equal.
  clear -W Hi. induction (f_rest f) as [|[w i] r IH]; [reflexivity|].
  cbn [forallb] in W. apply andb_true_iff in W. destruct W as [Hwi Hr]. unfold wf_more in Hwi. cbn [fst snd] in Hwi.
  apply andb_true_iff in Hwi. destruct Hwi as [_ Hi'].
  cbn [map snd flat_map]. rewrite !map_app, (Hi _ Hi'), (IH Hr). reflexivity.
Qed.
