(* C04 (4) for EVERY rename: Entry::new of an empty value holds an empty VALUE token, which no
   layout has.  The live tree is then the layout's tree up to such tokens (LiveTree.live_tree);
   every edit respects that relation, which keeps text, content and the tree with the empty
   VALUE tokens dropped. *)
From V.model Require Import Base Deb822Lex Deb822Parse Grammar Lossy LossySpec Deb822Edit LiveDoc LiveTree.
From V.proofs Require Import BaseP GrammarLexP GrammarParseP GrammarAccP LossyRtP Deb822EditP LiveDocP.

(* ---- the two shapes of a new entry with the empty value ---- *)
Definition ev_entry (k : str) : tree :=
  Node ENTRY [Tok KEY k; Tok COLON [58%N]; Tok WHITESPACE [32%N]; Tok VALUE []; Tok NEWLINE [10%N]].
Definition cl_entry (k : str) : tree :=
  Node ENTRY [Tok KEY k; Tok COLON [58%N]; Tok WHITESPACE [32%N]; Tok NEWLINE [10%N]].
Lemma entry_new_empty k : entry_new k [] = ev_entry k.
Proof. reflexivity. Qed.
Lemma field_tree_new_empty k : field_tree (new_field k []) = cl_entry k.
Proof. reflexivity. Qed.

Inductive esim : tree -> tree -> Prop :=
| esim_refl e : esim e e
| esim_ev k : esim (ev_entry k) (cl_entry k).
Definition psim (cs cs' : list tree) : Prop := Forall2 esim cs cs'.
Inductive bsim : tree -> tree -> Prop :=
| bsim_refl b : bsim b b
| bsim_para cs cs' : psim cs cs' -> bsim (Node PARAGRAPH cs) (Node PARAGRAPH cs').
Definition tsim (t u : tree) : Prop :=
  exists rs rs', t = Node ROOT rs /\ u = Node ROOT rs' /\ Forall2 bsim rs rs'.

(* ---- generic Forall2 facts ---- *)
Lemma Forall2_refl_of {A} (R : A -> A -> Prop) : (forall x, R x x) -> forall l, Forall2 R l l.
Proof. intros HR l. induction l as [|x r IH]; constructor; [apply HR|exact IH]. Qed.
Lemma Forall2_trans_of {A} (R : A -> A -> Prop) :
  (forall x y z, R x y -> R y z -> R x z) -> forall a b c, Forall2 R a b -> Forall2 R b c -> Forall2 R a c.
Proof.
  intros HR a b c H1. revert c. induction H1 as [|x y a b Hxy Hab IH]; intros c H2.
  - inversion H2; subst. constructor.
  - inversion H2 as [|y' z b' c' Hyz Hbc]; subst. constructor; [eapply HR; eassumption|apply IH; exact Hbc].
Qed.

Lemma psim_refl cs : psim cs cs.
Proof. apply Forall2_refl_of. exact esim_refl. Qed.

Lemma esim_trans a b c : esim a b -> esim b c -> esim a c.
Proof.
  intros H1 H2. destruct H1 as [e|k]; [exact H2|].
  remember (cl_entry k) as b eqn:Eb. destruct H2 as [e|k']; [subst e; constructor|].
  unfold ev_entry, cl_entry in Eb. discriminate Eb.
Qed.
Lemma psim_trans a b c : psim a b -> psim b c -> psim a c.
Proof. apply Forall2_trans_of. exact esim_trans. Qed.
Lemma bsim_trans a b c : bsim a b -> bsim b c -> bsim a c.
Proof.
  intros H1 H2. destruct H1 as [x|cs cs' Hp]; [exact H2|].
  remember (Node PARAGRAPH cs') as b eqn:Eb. destruct H2 as [x|ds ds' Hq].
  - subst x. constructor. exact Hp.
  - injection Eb as ->. constructor. eapply psim_trans; eassumption.
Qed.
Lemma tsim_refl rs : tsim (Node ROOT rs) (Node ROOT rs).
Proof. exists rs, rs. split; [reflexivity|]. split; [reflexivity|]. apply Forall2_refl_of. exact bsim_refl. Qed.
Lemma tsim_trans a b c : tsim a b -> tsim b c -> tsim a c.
Proof.
  intros (r1 & r2 & -> & -> & H1) (r2' & r3 & E & -> & H2). injection E as <-.
  exists r1, r3. split; [reflexivity|]. split; [reflexivity|].
  eapply Forall2_trans_of; [exact bsim_trans|exact H1|exact H2].
Qed.

(* ---- what related entries share ---- *)
Lemma esim_has_key k e e' : esim e e' -> entry_has_key k e = entry_has_key k e'.
Proof. intros [x|k0]; reflexivity. Qed.
Lemma esim_value e e' : esim e e' -> entry_value e = entry_value e'.
Proof. intros [x|k0]; reflexivity. Qed.
Lemma esim_key e e' : esim e e' -> entry_key e = entry_key e'.
Proof. intros [x|k0]; reflexivity. Qed.
Lemma esim_is_entry e e' : esim e e' -> is_entry e = is_entry e'.
Proof. intros [x|k0]; reflexivity. Qed.
Lemma esim_text e e' : esim e e' -> text e = text e'.
Proof. intros [x|k0]; reflexivity. Qed.
Lemma esim_ensure_nl e e' : esim e e' -> esim (ensure_nl e) (ensure_nl e').
Proof. intros [x|k0]; [constructor|]. change (ensure_nl (ev_entry k0)) with (ev_entry k0). change (ensure_nl (cl_entry k0)) with (cl_entry k0). constructor. Qed.

Lemma psim_app a a' b b' : psim a a' -> psim b b' -> psim (a ++ b) (a' ++ b').
Proof. apply Forall2_app. Qed.

Lemma psim_texts cs cs' : psim cs cs' -> texts cs = texts cs'.
Proof.
  intros H. induction H as [|x y a b Hxy Hab IH]; [reflexivity|].
  rewrite !texts_cons, IH, (esim_text x y Hxy). reflexivity.
Qed.

Lemma psim_pitems cs cs' : psim cs cs' -> pitems cs = pitems cs'.
Proof.
  intros H. induction H as [|x y a b Hxy Hab IH]; [reflexivity|].
  pose proof (esim_is_entry x y Hxy) as Ee. destruct (is_entry y) eqn:Ey.
  - rewrite !pitems_cons_entry by congruence. rewrite IH, (esim_key x y Hxy), (esim_value x y Hxy). reflexivity.
  - rewrite !pitems_cons_other by congruence. exact IH.
Qed.

(* ---- ensure_trailing_newline ---- *)
Lemma ensure_nl_list_one x :
  ensure_nl_list [x] = match x with
                       | Tok NEWLINE _ => [x]
                       | Tok _ _ => [x; Tok NEWLINE [10%N]]
                       | Node _ _ => [ensure_nl x]
                       end.
Proof. reflexivity. Qed.
Lemma ensure_nl_list_cons2 x y r : ensure_nl_list (x :: y :: r) = x :: ensure_nl_list (y :: r).
Proof. reflexivity. Qed.

Lemma psim_ensure_nl_list cs cs' : psim cs cs' -> psim (ensure_nl_list cs) (ensure_nl_list cs').
Proof.
  intros H. induction H as [|x y a b Hxy Hab IH]; [constructor|].
  destruct Hab as [|x2 y2 a2 b2 Hxy2 Hab2].
  - rewrite !ensure_nl_list_one. destruct Hxy as [e|k0].
    + apply psim_refl.
    + constructor; [|constructor]. apply (esim_ensure_nl _ _ (esim_ev k0)).
  - rewrite !ensure_nl_list_cons2. constructor; [exact Hxy|exact IH].
Qed.

(* ---- replace_first / filter ---- *)
Lemma psim_replace_first k g g' cs cs' :
  (forall e e', esim e e' -> esim (g e) (g' e')) -> psim cs cs' ->
  match replace_first (entry_has_key k) g cs, replace_first (entry_has_key k) g' cs' with
  | Some a, Some b => psim a b
  | None, None => True
  | _, _ => False
  end.
Proof.
  intros Hg H. induction H as [|x y a b Hxy Hab IH]; [exact I|].
  cbn [replace_first]. rewrite <- (esim_has_key k x y Hxy). destruct (entry_has_key k x).
  - constructor; [apply Hg; exact Hxy|exact Hab].
  - destruct (replace_first (entry_has_key k) g a), (replace_first (entry_has_key k) g' b); try exact IH.
    constructor; [exact Hxy|exact IH].
Qed.

Lemma psim_filter_key k cs cs' : psim cs cs' ->
  psim (filter (fun e => negb (entry_has_key k e)) cs) (filter (fun e => negb (entry_has_key k e)) cs').
Proof.
  intros H. induction H as [|x y a b Hxy Hab IH]; [constructor|].
  cbn [filter]. rewrite <- (esim_has_key k x y Hxy). destruct (entry_has_key k x); cbn [negb]; [exact IH|].
  constructor; [exact Hxy|exact IH].
Qed.

(* ---- every paragraph edit respects the relation ---- *)
Lemma psim_insert cs cs' k v : psim cs cs' -> psim (para_insert cs k v) (para_insert cs' k v).
Proof. intros H. unfold para_insert. apply psim_app; [apply psim_ensure_nl_list; exact H|apply psim_refl]. Qed.

Lemma psim_set cs cs' k v : psim cs cs' -> psim (para_set cs k v) (para_set cs' k v).
Proof.
  intros H. unfold para_set.
  pose proof (psim_replace_first k (fun _ => entry_new k v) (fun _ => entry_new k v) cs cs' (fun _ _ _ => esim_refl _) H) as G.
  destruct (replace_first (entry_has_key k) (fun _ => entry_new k v) cs),
           (replace_first (entry_has_key k) (fun _ => entry_new k v) cs'); try contradiction.
  - exact G.
  - apply psim_insert. exact H.
Qed.

Lemma psim_remove cs cs' k : psim cs cs' -> psim (para_remove cs k) (para_remove cs' k).
Proof. apply psim_filter_key. Qed.

Lemma psim_rename cs cs' old new : psim cs cs' ->
  psim (fst (para_rename cs old new)) (fst (para_rename cs' old new)).
Proof.
  intros H. unfold para_rename.
  assert (Hg : forall e e', esim e e' -> esim (entry_new new (entry_value e)) (entry_new new (entry_value e'))).
  { intros e e' He. rewrite (esim_value e e' He). constructor. }
  pose proof (psim_replace_first old _ _ cs cs' Hg H) as G.
  destruct (replace_first (entry_has_key old) (fun e => entry_new new (entry_value e)) cs),
           (replace_first (entry_has_key old) (fun e => entry_new new (entry_value e)) cs'); try contradiction; cbn [fst].
  - exact G.
  - exact H.
Qed.

(* ---- document level ---- *)
Lemma bsim_is_paragraph b b' : bsim b b' -> is_paragraph b = is_paragraph b'.
Proof. intros [x|cs cs' H]; reflexivity. Qed.
Lemma bsim_children b b' : bsim b b' -> psim (children b) (children b').
Proof. intros [x|cs cs' H]; [apply psim_refl|exact H]. Qed.

Lemma map_nth_para_sim f f' rs rs' :
  (forall cs cs', psim cs cs' -> psim (f cs) (f' cs')) -> Forall2 bsim rs rs' ->
  forall n, Forall2 bsim (map_nth_para n f rs) (map_nth_para n f' rs').
Proof.
  intros Hf H. induction H as [|x y a b Hxy Hab IH]; intros n; [constructor|].
  cbn [map_nth_para]. rewrite <- (bsim_is_paragraph x y Hxy). destruct (is_paragraph x).
  - destruct n as [|n'].
    + constructor; [|exact Hab]. apply bsim_para. apply Hf. apply bsim_children. exact Hxy.
    + constructor; [exact Hxy|apply IH].
  - constructor; [exact Hxy|apply IH].
Qed.

Lemma on_para_sim f f' t u n :
  (forall cs cs', psim cs cs' -> psim (f cs) (f' cs')) -> tsim t u -> tsim (on_para t n f) (on_para u n f').
Proof.
  intros Hf (rs & rs' & -> & -> & H). unfold on_para. cbn [children].
  eexists _, _. split; [reflexivity|]. split; [reflexivity|]. apply map_nth_para_sim; assumption.
Qed.

Theorem tstep_sim t u o : tsim t u -> tsim (tstep t o) (tstep u o).
Proof.
  intros H. destruct o as [n k v|n k v|n k|n old new]; cbn [tstep]; apply on_para_sim; try exact H; intros cs cs' Hp.
  - apply psim_set. exact Hp.
  - apply psim_insert. exact Hp.
  - apply psim_remove. exact Hp.
  - apply psim_rename. exact Hp.
Qed.

(* ---- what related documents share ---- *)
Lemma bsim_text b b' : bsim b b' -> text b = text b'.
Proof. intros [x|cs cs' H]; [reflexivity|]. rewrite !text_node. apply psim_texts. exact H. Qed.

Lemma tsim_text t u : tsim t u -> text t = text u.
Proof.
  intros (rs & rs' & -> & -> & H). rewrite !text_node.
  induction H as [|x y a b Hxy Hab IH]; [reflexivity|]. rewrite !texts_cons, IH, (bsim_text x y Hxy). reflexivity.
Qed.

Lemma bsim_items b b' : bsim b b' -> items b = items b'.
Proof. intros [x|cs cs' H]; [reflexivity|]. apply (psim_pitems cs cs' H). Qed.

Lemma tsim_doc_items t u : tsim t u -> doc_items t = doc_items u.
Proof.
  intros (rs & rs' & -> & -> & H). unfold doc_items, paragraphs, node_children_of_kind. cbn [children].
  change (fun e : tree => is_node e && is_kind PARAGRAPH e) with is_paragraph.
  induction H as [|x y a b Hxy Hab IH]; [reflexivity|].
  cbn [filter]. rewrite <- (bsim_is_paragraph x y Hxy). destruct (is_paragraph x); [|exact IH].
  cbn [map]. rewrite IH, (bsim_items x y Hxy). reflexivity.
Qed.

(* ---- dropping the empty VALUE tokens ---- *)
Fixpoint drop_list (l : list tree) : list tree :=
  match l with
  | [] => []
  | x :: r => if is_empty_value x then drop_list r else drop_empty_values x :: drop_list r
  end.
Lemma drop_node k cs : drop_empty_values (Node k cs) = Node k (drop_list cs).
Proof. reflexivity. Qed.
Lemma drop_list_app a b : drop_list (a ++ b) = drop_list a ++ drop_list b.
Proof. induction a as [|x r IH]; [reflexivity|]. cbn [app drop_list]. rewrite IH. destruct (is_empty_value x); reflexivity. Qed.

Lemma esim_drop e e' : esim e e' -> is_empty_value e = is_empty_value e' /\ drop_empty_values e = drop_empty_values e'.
Proof. intros [x|k0]; split; reflexivity. Qed.
Lemma psim_drop cs cs' : psim cs cs' -> drop_list cs = drop_list cs'.
Proof.
  intros H. induction H as [|x y a b Hxy Hab IH]; [reflexivity|]. cbn [drop_list].
  destruct (esim_drop x y Hxy) as [E1 E2]. rewrite E1, E2, IH. reflexivity.
Qed.
Lemma bsim_drop b b' : bsim b b' -> is_empty_value b = is_empty_value b' /\ drop_empty_values b = drop_empty_values b'.
Proof. intros [x|cs cs' H]; split; try reflexivity. rewrite !drop_node. f_equal. apply psim_drop. exact H. Qed.
Lemma tsim_drop t u : tsim t u -> drop_empty_values t = drop_empty_values u.
Proof.
  intros (rs & rs' & -> & -> & H). rewrite !drop_node. f_equal.
  induction H as [|x y a b Hxy Hab IH]; [reflexivity|]. cbn [drop_list].
  destruct (bsim_drop x y Hxy) as [E1 E2]. rewrite E1, E2, IH. reflexivity.
Qed.

(* a well-formed layout's tree holds no empty VALUE token *)
Definition plain_tok (x : tree) : Prop := is_node x = false /\ is_empty_value x = false.
Lemma drop_list_plain l : Forall plain_tok l -> drop_list l = l.
Proof.
  intros H. induction H as [|x r [Hn He] Hr IH]; [reflexivity|]. cbn [drop_list]. rewrite He, IH.
  destruct x as [k s|k cs]; [reflexivity|discriminate].
Qed.
Lemma plain_opt_elem k s : Forall plain_tok (opt_elem k s).
Proof. destruct s as [|c w]; [constructor|]. constructor; [|constructor]. split; [reflexivity|]. destruct k; reflexivity. Qed.
Lemma plain_nl_elem b : Forall plain_tok (nl_elem b).
Proof. destruct b; [|constructor]. constructor; [|constructor]. split; reflexivity. Qed.
Lemma plain_cont_elems cs : forallb cont_ok cs = true -> Forall plain_tok (flat_map cont_elems cs).
Proof.
  induction cs as [|[i t] r IH]; intros H; [constructor|]. cbn [forallb] in H. apply andb_true_iff in H. destruct H as [Hc Hr].
  cbn [flat_map cont_elems fst snd app]. constructor; [split; reflexivity|]. constructor; [split; reflexivity|].
  constructor; [|apply IH; exact Hr]. split; [reflexivity|].
  unfold cont_ok in Hc. apply andb_true_iff in Hc. destruct Hc as [_ Ht]. destruct t as [|x w]; [discriminate|reflexivity].
Qed.

Lemma drop_field_tree f m : wf_field f m = true -> drop_empty_values (field_tree f) = field_tree f.
Proof.
  unfold wf_field. intros H. repeat (apply andb_true_iff in H; let X := fresh "W" in destruct H as [H X]).
  unfold field_tree. rewrite drop_node. f_equal. apply drop_list_plain.
  constructor; [split; reflexivity|]. constructor; [split; reflexivity|].
  apply Forall_app. split; [apply plain_opt_elem|]. apply Forall_app. split; [apply plain_opt_elem|].
  apply Forall_app. split; [apply plain_cont_elems; exact W0|apply plain_nl_elem].
Qed.

Lemma drop_items its more : wf_items its more = true -> drop_list (flat_map item_elems its) = flat_map item_elems its.
Proof.
  induction its as [|it r IH]; intros H; [reflexivity|]. rewrite wf_items_cons in H.
  apply andb_true_iff in H. destruct H as [Hi Hr]. cbn [flat_map]. rewrite drop_list_app, (IH Hr). f_equal.
  destruct it as [f|c nl]; cbn [item_elems wf_item] in *.
  - cbn [drop_list]. change (is_empty_value (field_tree f)) with false. cbv iota. rewrite (drop_field_tree f _ Hi). reflexivity.
  - unfold comment_elems. destruct nl; reflexivity.
Qed.

Lemma drop_ltree_of d : lwf d = true -> drop_empty_values (ltree_of d) = ltree_of d.
Proof.
  intros H. unfold ltree_of. rewrite drop_node. f_equal.
  induction d as [|b r IH]; [reflexivity|]. cbn [lwf] in H. apply andb_true_iff in H. destruct H as [Hb Hr].
  cbn [map drop_list]. rewrite (IH Hr).
  destruct b as [|c nl|its]; cbn [lblock_tree].
  - reflexivity.
  - unfold comment_elems. destruct nl; reflexivity.
  - change (is_empty_value (Node PARAGRAPH (flat_map item_elems its))) with false. cbv iota.
    apply andb_true_iff in Hb. destruct Hb as [Hits _]. rewrite drop_node, (drop_items its _ Hits). reflexivity.
Qed.

(* ================= rename, whatever value the field carries ================= *)
Lemma not_renamable_empty f m : wf_field f m = true -> renamable f = false -> field_value f = [].
Proof.
  unfold wf_field, renamable, field_value. intros H Hr.
  repeat (apply andb_true_iff in H; let X := fresh "W" in destruct H as [H X]).
  assert (Hnl : forall x, negb (is_newline x) = true -> (x =? 10)%N = false).
  { intros x Hx. apply negb_true_iff in Hx. unfold is_newline in Hx. apply orb_false_iff in Hx. apply Hx. }
  destruct (f_first f) as [|x fx] eqn:Ef; cbn [app] in *.
  - destruct (f_cont f) as [|[i t] cs]; [reflexivity|]. exfalso. cbn [map snd forallb] in *.
    apply andb_true_iff in W0. destruct W0 as [Hc _]. unfold cont_ok in Hc.
    apply andb_true_iff in Hc. destruct Hc as [Hc Ht]. apply andb_true_iff in Hc. destruct Hc as [_ Hn].
    destruct t as [|y w]; [discriminate|]. cbn [no_eol forallb] in Hn. apply andb_true_iff in Hn. destruct Hn as [Hy _].
    assert (Ej : exists w', join [LF] ((y :: w) :: map snd cs) = y :: w').
    { cbn [join]. destruct (map snd cs); [eexists; reflexivity|eexists; cbn [app]; reflexivity]. }
    destruct Ej as [w' Ej]. rewrite Ej in Hr. rewrite (Hnl y Hy) in Hr. discriminate.
  - exfalso. unfold first_ok in W1. apply andb_true_iff in W1. destruct W1 as [F1 _].
    cbn [no_eol forallb] in F1. apply andb_true_iff in F1. destruct F1 as [Hx _].
    assert (Ej : exists w', join [LF] ((x :: fx) :: map snd (f_cont f)) = x :: w').
    { cbn [join]. destruct (map snd (f_cont f)); [eexists; reflexivity|eexists; cbn [app]; reflexivity]. }
    destruct Ej as [w' Ej]. rewrite Ej in Hr. rewrite (Hnl x Hx) in Hr. discriminate.
Qed.

Lemma rename_field_sim f m new : wf_field f m = true -> valid_name new = true ->
  esim (entry_new new (field_value f)) (field_tree (new_field new (field_value f))).
Proof.
  intros Hw Hn. destruct (renamable f) eqn:R.
  - rewrite (entry_new_layout new (field_value f) (canon_kv_rename f m new Hw R Hn)). constructor.
  - rewrite (not_renamable_empty f m Hw R), entry_new_empty, field_tree_new_empty. constructor.
Qed.

Lemma wf_rename_field f m new m' : wf_field f m = true -> valid_name new = true ->
  wf_field (new_field new (field_value f)) m' = true.
Proof.
  intros Hw Hn. destruct (renamable f) eqn:R.
  - apply wf_new_field. exact (canon_kv_rename f m new Hw R Hn).
  - rewrite (not_renamable_empty f m Hw R). unfold new_field. apply wf_layout_field.
    unfold canon_field. cbn [fst snd]. rewrite Hn. reflexivity.
Qed.

Lemma commute_rename_sim its old new more : wf_items its more = true -> valid_name new = true ->
  psim (fst (para_rename (flat_map item_elems its) old new)) (flat_map item_elems (a_rename its old new)).
Proof.
  intros H Hn. unfold para_rename, a_rename.
  assert (G : match replace_first (entry_has_key old) (fun e => entry_new new (entry_value e)) (flat_map item_elems its),
                    a_replace_first old (fun f => new_field new (field_value f)) its with
              | Some cs, Some r => psim cs (flat_map item_elems r)
              | None, None => True
              | _, _ => False
              end).
  { revert H. induction its as [|it r IH]; intros H; [exact I|]. rewrite wf_items_cons in H.
    apply andb_true_iff in H. destruct H as [Hi Hr]. specialize (IH Hr).
    destruct it as [f|c nl]; cbn [flat_map item_elems a_replace_first app wf_item] in *.
    - cbn [replace_first]. rewrite entry_has_key_field. destruct (str_eqb (f_name f) old).
      + cbn [flat_map item_elems app]. constructor; [|apply psim_refl].
        rewrite entry_value_field. eapply rename_field_sim; eassumption.
      + destruct (replace_first (entry_has_key old) _ (flat_map item_elems r)),
                 (a_replace_first old _ r); try exact IH.
        cbn [flat_map item_elems app]. constructor; [constructor|exact IH].
    - unfold comment_elems. destruct nl; cbn [nl_elem app replace_first entry_has_key is_node andb];
        destruct (replace_first (entry_has_key old) _ (flat_map item_elems r)),
                 (a_replace_first old _ r); try exact IH;
        cbn [flat_map item_elems comment_elems nl_elem app]; repeat (constructor; [constructor|]); exact IH. }
  destruct (replace_first (entry_has_key old) (fun e => entry_new new (entry_value e)) (flat_map item_elems its)),
           (a_replace_first old (fun f => new_field new (field_value f)) its); try contradiction; cbn [fst].
  - exact G.
  - apply psim_refl.
Qed.

Lemma wf_a_rename_every its old new more : valid_name new = true -> wf_items its more = true ->
  wf_items (a_rename its old new) more = true.
Proof.
  intros Hn H. unfold a_rename.
  destruct (a_replace_first old (fun f => new_field new (field_value f)) its) as [r|] eqn:E; [|exact H].
  eapply wf_a_replace_first_named; [|exact H|exact E].
  intros f Hf m. destruct (first_named_In _ _ _ Hf) as [Hin _].
  destruct (wf_items_In _ _ _ H Hin) as [m' Hw]. eapply wf_rename_field; eassumption.
Qed.

Lemma nth_para_wf d : lwf d = true -> forall n its, nth_para d n = Some its -> exists more, wf_items its more = true.
Proof.
  intros Hwf. induction d as [|b r IH]; intros n its E; [discriminate|]. cbn [lwf] in Hwf.
  apply andb_true_iff in Hwf. destruct Hwf as [Hb Hr]. destruct b as [|c nl|its0]; cbn [nth_para] in E; try (eapply IH; eassumption).
  destruct n; [inversion E; subst; apply andb_true_iff in Hb; destruct Hb as [Hi _]; eexists; exact Hi|eapply IH; eassumption].
Qed.

Lemma commute_on_para_sim d : forall n f g,
  (forall its, nth_para d n = Some its -> psim (f (flat_map item_elems its)) (flat_map item_elems (g its))) ->
  tsim (on_para (ltree_of d) n f) (ltree_of (a_on_para n g d)).
Proof.
  unfold on_para, ltree_of. cbn [children]. intros n f g H.
  eexists _, _. split; [reflexivity|]. split; [reflexivity|]. revert n H.
  induction d as [|b r IH]; intros n H; [constructor|].
  destruct b as [|c nl|its]; cbn [map map_nth_para lblock_tree a_on_para nth_para] in *.
  - change (is_paragraph (Node EMPTY_LINE [Tok NEWLINE [LF]])) with false. cbv iota. constructor; [constructor|]. apply IH. exact H.
  - change (is_paragraph (Node EMPTY_LINE (comment_elems c nl))) with false. cbv iota. constructor; [constructor|]. apply IH. exact H.
  - change (is_paragraph (Node PARAGRAPH (flat_map item_elems its))) with true. cbv iota.
    destruct n as [|n'].
    + cbn [map lblock_tree children]. constructor; [|apply Forall2_refl_of; exact bsim_refl].
      apply bsim_para. apply (H its eq_refl).
    + cbn [map lblock_tree]. constructor; [constructor|]. apply IH. exact H.
Qed.

(* ================= C04 (4), every rename ================= *)
(* the domain of the arguments: it no longer depends on the document *)
Definition op_dom (o : fop) : Prop :=
  match o with
  | OSet _ k v | OInsert _ k v => canon_kv k v = true
  | ORemove _ _ => True
  | ORename _ _ new => valid_name new = true
  end.

Theorem tstep_live_every d o t : lwf d = true -> op_dom o -> tsim t (ltree_of d) ->
  tsim (tstep t o) (ltree_of (astep d o)) /\ lwf (astep d o) = true.
Proof.
  intros Hwf Hok Hs. pose proof (tstep_sim t (ltree_of d) o Hs) as S1.
  destruct o as [n k v|n k v|n k|n old new].
  - destruct (tstep_live d (OSet n k v) Hwf Hok) as [E W]. rewrite E in S1. split; assumption.
  - destruct (tstep_live d (OInsert n k v) Hwf Hok) as [E W]. rewrite E in S1. split; assumption.
  - destruct (tstep_live d (ORemove n k) Hwf Hok) as [E W]. rewrite E in S1. split; assumption.
  - cbn [op_dom] in Hok. split.
    + eapply tsim_trans; [exact S1|]. cbn [tstep astep]. apply commute_on_para_sim.
      intros its E. destruct (nth_para_wf d Hwf n its E) as [more Hm]. eapply commute_rename_sim; eassumption.
    + cbn [astep]. apply lwf_on_para; [|exact Hwf]. intros its more _ Hm. apply wf_a_rename_every; assumption.
Qed.

Theorem history_sim ops : forall t d, lwf d = true -> Forall op_dom ops -> tsim t (ltree_of d) ->
  tsim (fold_left tstep ops t) (ltree_of (fold_left astep ops d)) /\ lwf (fold_left astep ops d) = true.
Proof.
  induction ops as [|o r IH]; intros t d Hwf Hok Hs; cbn [fold_left].
  - split; assumption.
  - inversion Hok as [|o' r' Ho Hr]; subst. destruct (tstep_live_every d o t Hwf Ho Hs) as [S W].
    apply IH; assumption.
Qed.

Theorem C04_history_every ops : forall d, lwf d = true -> Forall op_dom ops ->
  let t' := fold_left tstep ops (ltree_of d) in
  let d' := fold_left astep ops d in
  live_tree t' d' /\ lwf d' = true /\
  doc_items t' = fold_left sstep ops (doc_items (ltree_of d)) /\
  exists t'', from_str (text t') = Ok t'' /\ doc_items t'' = nonempty_paras (doc_items t').
Proof.
  intros d Hwf Hok. cbv zeta.
  destruct (history_sim ops (ltree_of d) d Hwf Hok (tsim_refl _)) as [S W].
  split; [unfold live_tree; rewrite (tsim_drop _ _ S); apply drop_ltree_of; exact W|].
  split; [exact W|]. split; [apply tsteps_refine|].
  rewrite (tsim_text _ _ S), (tsim_doc_items _ _ S). apply live_reread. exact W.
Qed.

(* on histories without an empty VALUE token the two readings coincide: a tree without such
   tokens that is a live tree of d IS ltree_of d (the older, exact statement is C04_history_all) *)
Lemma live_tree_exact d : lwf d = true -> live_tree (ltree_of d) d.
Proof. apply drop_ltree_of. Qed.
