(* The image of the strict reader.

   XGrammar.v describes layouts [d : xdoc]: Grammar.v's documents plus every layout choice the
   reader tolerates (LF or CR after every line, blanks before the colon, comment lines and
   empty lines inside a value, values that begin on a continuation line).  This file proves
   that the trees [xtree_of d] of the well-formed ones are EXACTLY what Deb822Parse.from_str
   returns:

     parse_image_accept    xwf_doc d = true -> lex (xrender d) = Ok (xdoc_toks d) /\
                           from_str (xrender d) = Ok (xtree_of d) /\ text (xtree_of d) = xrender d /\
                           doc_items (xtree_of d) = xcontent d
     parse_image_complete  from_str s = Ok t -> exists d, xwf_doc d = true /\ xrender d = s /\ xtree_of d = t

   so the strict reader is the inverse of [text] on its own image ([in_image], [image_reread]),
   and a tree built by other means is shown to be readable by exhibiting its layout.
   (C03_accept_all is the special case of Grammar.v's layouts: xdoc_of.) *)
From V.model Require Import Base Deb822Lex Deb822Parse Grammar XGrammar.
From V.proofs Require Import BaseP Deb822LexP Deb822ParseP GrammarLexP GrammarParseP GrammarAccP LexInvP.

(* ---------------------------------------------------------------- texts *)
Lemma tstr_ttext ts : tstr ts = ttext ts.
Proof. reflexivity. Qed.
Lemma tstr_cons k s r : tstr ((k, s) :: r) = s ++ tstr r.
Proof. reflexivity. Qed.
Lemma tstr_app a b : tstr (a ++ b) = tstr a ++ tstr b.
Proof. unfold tstr. rewrite map_app, concat_app. reflexivity. Qed.
Lemma tstr_opt k s : tstr (opt_tok k s) = s.
Proof. destruct s; [reflexivity|]. cbn. rewrite app_nil_r. reflexivity. Qed.
Lemma tstr_nil : tstr [] = [].
Proof. reflexivity. Qed.

Lemma texts_telems ts : texts (telems ts) = tstr ts.
Proof.
  induction ts as [|[k s] r IH]; [reflexivity|]. cbn [telems map fst snd]. rewrite texts_cons, text_tok, tstr_cons.
  f_equal. exact IH.
Qed.
Lemma telems_app a b : telems (a ++ b) = telems a ++ telems b.
Proof. apply map_app. Qed.
Lemma telems_cons k s r : telems ((k, s) :: r) = Tok k s :: telems r.
Proof. reflexivity. Qed.
Lemma telems_opt k s : telems (opt_tok k s) = opt_elem k s.
Proof. destruct s; reflexivity. Qed.

(* ---------------------------------------------------------------- the lexer: lines that end with LF or CR *)
Definition at_eol' (rest : str) : Prop := match rest with [] => True | x :: _ => is_newline x = true end.

Lemma at_eol'_stops_noeol rest : at_eol' rest -> stops (fun x => negb (is_newline x)) rest.
Proof. destruct rest as [|x r]; [trivial|]. cbn. intros ->. reflexivity. Qed.
Lemma newline_not_indent x : is_newline x = true -> is_indent x = false.
Proof.
  unfold is_newline, is_indent. intros H. apply orb_true_iff in H. destruct H as [H|H]; apply N.eqb_eq in H; subst; reflexivity.
Qed.
Lemma newline_not_key x : is_newline x = true -> is_valid_key_char x = false.
Proof.
  unfold is_newline. intros H. apply orb_true_iff in H. destruct H as [H|H]; apply N.eqb_eq in H; subst; reflexivity.
Qed.
Lemma newline_not_colon x : is_newline x = true -> (x =? 58)%N = false.
Proof.
  unfold is_newline. intros H. apply orb_true_iff in H. destruct H as [H|H]; apply N.eqb_eq in H; subst; reflexivity.
Qed.
Lemma indent_not_newline x : is_indent x = true -> is_newline x = false.
Proof.
  unfold is_indent. intros H. apply orb_true_iff in H. destruct H as [H|H]; apply N.eqb_eq in H; subst; reflexivity.
Qed.
Lemma indent_not_colon x : is_indent x = true -> (x =? 58)%N = false.
Proof.
  unfold is_indent. intros H. apply orb_true_iff in H. destruct H as [H|H]; apply N.eqb_eq in H; subst; reflexivity.
Qed.
Lemma indent_not_key x : is_indent x = true -> is_valid_key_char x = false.
Proof.
  unfold is_indent. intros H. apply orb_true_iff in H. destruct H as [H|H]; apply N.eqb_eq in H; subst; reflexivity.
Qed.
Lemma at_eol'_stops_indent rest : at_eol' rest -> stops is_indent rest.
Proof. destruct rest as [|x r]; [trivial|]. cbn. apply newline_not_indent. Qed.

(* NEWLINE (LF or CR) from any state *)
Lemma lexf_newline st c rest ts : is_newline c = true ->
  lexf st_init rest = Ok ts -> lexf st (c :: rest) = Ok ((NEWLINE, [c]) :: ts).
Proof.
  intros Hc Hr. rewrite lexf_cons. unfold lex_step. rewrite (newline_not_colon c Hc), Hc. cbn [andb]. fold st_init. rewrite Hr. reflexivity.
Qed.

(* an optional final newline character *)
Lemma lexf_onl st o rest ts : match o with Some c => is_newline c = true | None => rest = [] end ->
  lexf st_init rest = Ok ts -> lexf st (tstr (onl_toks o) ++ rest) = Ok (onl_toks o ++ ts).
Proof.
  intros Ho Hr. destruct o as [c|]; cbn [onl_toks].
  - rewrite tstr_cons, tstr_nil. cbn [app]. apply lexf_newline; assumption.
  - subst rest. rewrite lexf_nil in Hr. cbn [tstr map concat app]. rewrite lexf_nil. exact Hr.
Qed.

(* a VALUE token *)
Lemma lexf_value' st t rest ts :
  value_state st -> no_eol t = true ->
  match t with x :: _ => is_indent x = false /\ (st = st_ind -> (x =? 35)%N = false) | [] => True end ->
  at_eol' rest ->
  lexf st rest = Ok ts -> lexf st (t ++ rest) = Ok (opt_tok VALUE t ++ ts).
Proof.
  intros Hst Hne Hx Hs Hr. destruct t as [|c w]; [exact Hr|]. destruct Hx as [Hin H35].
  cbn [no_eol forallb] in Hne. apply andb_true_iff in Hne. destruct Hne as [Hc Hw].
  apply negb_true_iff in Hc. cbn [app opt_tok].
  pose proof (span_app_stop _ w rest Hw (at_eol'_stops_noeol _ Hs)) as Hsp.
  destruct Hst as [-> | ->]; rewrite lexf_cons; unfold lex_step; cbn [sol colon ind st_val st_ind negb andb orb].
  - rewrite andb_false_r, Hc, Hin. rewrite !andb_false_r. cbn [andb orb]. rewrite Hsp. cbv beta iota. rewrite Hr. reflexivity.
  - rewrite andb_false_r, Hc, Hin, (H35 eq_refl). cbn [andb]. rewrite !andb_false_r. cbn [andb orb].
    rewrite Hsp. cbv beta iota. rewrite Hr. reflexivity.
Qed.

(* a COMMENT token, at the start of a line or after the indentation of a continuation line *)
Lemma lexf_comment' st c rest ts :
  st = st_init \/ st = st_ind -> no_eol c = true -> at_eol' rest ->
  lexf st rest = Ok ts -> lexf st (35%N :: c ++ rest) = Ok ((COMMENT, 35%N :: c) :: ts).
Proof.
  intros Hst Hc Hs Hr. rewrite lexf_cons. unfold lex_step.
  destruct Hst as [-> | ->]; cbn; rewrite (span_app_stop _ c rest Hc (at_eol'_stops_noeol _ Hs)).
  - fold st_init. rewrite Hr. reflexivity.
  - fold st_ind. rewrite Hr. reflexivity.
Qed.

(* blanks between the name and the colon *)
Lemma lexf_ws_key ws rest ts :
  ws_ok ws = true -> stops is_indent rest ->
  lexf st_key rest = Ok ts -> lexf st_key (ws ++ rest) = Ok (opt_tok WHITESPACE ws ++ ts).
Proof.
  intros Hw Hs Hr. destruct ws as [|c w]; [exact Hr|]. cbn [ws_ok forallb] in Hw.
  apply andb_true_iff in Hw. destruct Hw as [Hc Hw]. cbn [app opt_tok]. rewrite lexf_cons. unfold lex_step.
  cbn [sol colon ind st_key negb andb orb].
  rewrite (indent_not_colon c Hc), (indent_not_newline c Hc), Hc. cbn [andb].
  rewrite (span_app_stop _ w rest Hw Hs). cbv beta iota. rewrite Hr. reflexivity.
Qed.

(* blanks after the colon (lexf_ws), before a value or a line end *)

(* ---- what follows the first line of a field ---- *)
Definition xtail (cs : list xcont) (o : option N) : list token := flat_map xcont_toks cs ++ onl_toks o.
Definition onl_good (o : option N) (rest : str) : Prop :=
  match o with Some c => is_newline c = true | None => rest = [] end.

Lemma onl_ok_good o more rest : onl_ok o more = true -> (more = false -> rest = []) -> onl_good o rest.
Proof.
  destruct o as [c|]; cbn; [trivial|]. intros H Hm. apply negb_true_iff in H. exact (Hm H).
Qed.

Lemma xtail_cons c cs o :
  xtail (c :: cs) o = (NEWLINE, [xc_nl c]) :: (INDENT, xc_ind c) :: pay_toks (xc_pay c) ++ xtail cs o.
Proof. unfold xtail. cbn [flat_map xcont_toks app]. rewrite <- app_assoc. reflexivity. Qed.

Lemma xtail_at_eol cs o rest : forallb xcont_ok cs = true -> onl_good o rest -> at_eol' (tstr (xtail cs o) ++ rest).
Proof.
  intros Hcs Ho. unfold xtail. destruct cs as [|c cs]; cbn [flat_map app].
  - destruct o as [x|]; cbn in *; [exact Ho|]. subst rest. exact I.
  - cbn [forallb] in Hcs. apply andb_true_iff in Hcs. destruct Hcs as [Hc _]. unfold xcont_ok in Hc.
    repeat (apply andb_true_iff in Hc; destruct Hc as [Hc ?]). unfold xcont_toks. cbn. exact Hc.
Qed.

Lemma pay_ok_stops p X : pay_ok p = true -> at_eol' X -> stops is_indent (tstr (pay_toks p) ++ X).
Proof.
  intros Hp HX. destruct p as [t|c|]; cbn [pay_toks].
  - cbn [pay_ok] in Hp. apply andb_true_iff in Hp. destruct Hp as [_ Hp]. destruct t as [|x t]; [discriminate|].
    apply andb_true_iff in Hp. destruct Hp as [Hp _]. apply negb_true_iff in Hp. cbn. exact Hp.
  - cbn. reflexivity.
  - cbn [tstr map concat app]. apply at_eol'_stops_indent, HX.
Qed.

Lemma lexf_xtail cs : forall st o rest ts,
  forallb xcont_ok cs = true -> onl_good o rest ->
  lexf st_init rest = Ok ts ->
  lexf st (tstr (xtail cs o) ++ rest) = Ok (xtail cs o ++ ts).
Proof.
  induction cs as [|c cs IH]; intros st o rest ts Hcs Ho Hr.
  - unfold xtail. cbn [flat_map app]. apply lexf_onl; assumption.
  - pose proof (xtail_at_eol cs o rest) as Hte.
    cbn [forallb] in Hcs. apply andb_true_iff in Hcs. destruct Hcs as [Hc Hcs]. specialize (Hte Hcs Ho).
    unfold xcont_ok in Hc. apply andb_true_iff in Hc. destruct Hc as [Hc Hp]. apply andb_true_iff in Hc. destruct Hc as [Hc Hiw].
    apply andb_true_iff in Hc. destruct Hc as [Hnl Hine].
    rewrite xtail_cons.
    rewrite !tstr_cons, tstr_app. cbn [app]. rewrite <- !app_assoc. cbn [app].
    apply lexf_newline; [exact Hnl|].
    apply lexf_indent; [destruct (xc_ind c); [discriminate|congruence]|exact Hiw|apply pay_ok_stops; assumption|].
    destruct (xc_pay c) as [t|cm|]; cbn [pay_toks].
    + rewrite tstr_cons, tstr_nil, app_nil_r. cbn [pay_ok] in Hp. apply andb_true_iff in Hp. destruct Hp as [Hne Hx].
      change ((VALUE, t) :: xtail cs o ++ ts) with (opt_tok VALUE t ++ xtail cs o ++ ts) || idtac.
      destruct t as [|x t']; [discriminate|].
      apply andb_true_iff in Hx. destruct Hx as [Hx1 Hx2]. apply negb_true_iff in Hx1. apply negb_true_iff in Hx2.
      apply (lexf_value' st_ind (x :: t') (tstr (xtail cs o) ++ rest) (xtail cs o ++ ts)).
      * right; reflexivity.
      * exact Hne.
      * split; [exact Hx1|intros _; exact Hx2].
      * exact Hte.
      * apply IH; assumption.
    + rewrite tstr_cons, tstr_nil, app_nil_r. cbn [pay_ok] in Hp. cbn [app].
      apply lexf_comment'; [right; reflexivity|exact Hp|exact Hte|]. apply IH; assumption.
    + cbn [tstr map concat app]. apply IH; assumption.
Qed.

Lemma xfield_toks_text f rest :
  tstr (xfield_toks f) ++ rest =
  x_name f ++ x_w0 f ++ 58%N :: x_w1 f ++ x_first f ++ tstr (xtail (x_cont f) (x_nl f)) ++ rest.
Proof.
  unfold xfield_toks. rewrite tstr_cons, tstr_app, tstr_opt, tstr_cons, tstr_app, tstr_opt, tstr_app, tstr_opt.
  fold (xtail (x_cont f) (x_nl f)). rewrite <- ?app_assoc. cbn [app]. rewrite <- ?app_assoc. reflexivity.
Qed.

Lemma lexf_xfield f more rest ts :
  xwf_field f more = true -> (more = false -> rest = []) ->
  lexf st_init rest = Ok ts -> lexf st_init (tstr (xfield_toks f) ++ rest) = Ok (xfield_toks f ++ ts).
Proof.
  intros Hwf Hm Hr. unfold xwf_field in Hwf.
  repeat (apply andb_true_iff in Hwf; let H := fresh "W" in destruct Hwf as [Hwf H]).
  pose proof (onl_ok_good _ _ rest W Hm) as Ho.
  pose proof (xtail_at_eol (x_cont f) (x_nl f) rest W0 Ho) as Hte.
  rewrite xfield_toks_text. unfold xfield_toks. fold (xtail (x_cont f) (x_nl f)). rewrite <- ?app_assoc. cbn [app]. rewrite <- ?app_assoc.
  apply lexf_key; [exact Hwf| |].
  { destruct (x_w0 f) as [|x w]; cbn [app stops]; [reflexivity|]. cbn [ws_ok forallb] in W3.
    apply andb_true_iff in W3. destruct W3 as [W3 _]. apply indent_not_key, W3. }
  apply lexf_ws_key; [exact W3|reflexivity|]. cbn [app]. rewrite <- ?app_assoc.
  apply lexf_colon.
  unfold first_ok in W1. apply andb_true_iff in W1. destruct W1 as [F1 F2].
  apply lexf_ws; [exact W2| |].
  { destruct (x_first f) as [|x t]; cbn [app]; [apply at_eol'_stops_indent; exact Hte|].
    cbn. apply negb_true_iff in F2. exact F2. }
  apply lexf_value'; [left; reflexivity|exact F1| |exact Hte|].
  { destruct (x_first f) as [|x t]; [exact I|]. apply negb_true_iff in F2. split; [exact F2|discriminate]. }
  apply lexf_xtail; assumption.
Qed.

Lemma lexf_xcomment c nl more rest ts :
  xwf_comment c nl more = true -> (more = false -> rest = []) ->
  lexf st_init rest = Ok ts -> lexf st_init (tstr (xcomment_toks c nl) ++ rest) = Ok (xcomment_toks c nl ++ ts).
Proof.
  intros Hwf Hm Hr. unfold xwf_comment in Hwf. apply andb_true_iff in Hwf. destruct Hwf as [Hc Hn].
  pose proof (onl_ok_good _ _ rest Hn Hm) as Ho.
  unfold xcomment_toks. rewrite tstr_cons. cbn [app]. rewrite <- app_assoc.
  apply lexf_comment'; [left; reflexivity|exact Hc| |].
  - apply (xtail_at_eol [] nl rest eq_refl Ho).
  - apply lexf_onl; assumption.
Qed.

Lemma lexf_xitems its more rest ts :
  xwf_items its more = true -> (more = false -> rest = []) ->
  lexf st_init rest = Ok ts ->
  lexf st_init (tstr (flat_map xitem_toks its) ++ rest) = Ok (flat_map xitem_toks its ++ ts).
Proof.
  revert rest ts. induction its as [|it r IH]; intros rest ts Hwf Hm Hr; [exact Hr|].
  cbn [xwf_items] in Hwf. apply andb_true_iff in Hwf. destruct Hwf as [Hit Hr'].
  cbn [flat_map]. rewrite tstr_app, <- !app_assoc.
  assert (Hm' : (match r with [] => more | _ => true end) = false -> tstr (flat_map xitem_toks r) ++ rest = []).
  { destruct r; [intros E; rewrite (Hm E); reflexivity|discriminate]. }
  specialize (IH rest ts Hr' Hm Hr).
  destruct it as [f|c nl]; cbn [xitem_toks].
  - eapply lexf_xfield; eassumption.
  - eapply lexf_xcomment; eassumption.
Qed.

Theorem lexf_xdoc d : xwf_doc d = true -> lexf st_init (tstr (xdoc_toks d)) = Ok (xdoc_toks d).
Proof.
  induction d as [|b r IH]; intros Hwf; [reflexivity|].
  cbn [xwf_doc] in Hwf. apply andb_true_iff in Hwf. destruct Hwf as [Hb Hr].
  specialize (IH Hr). unfold xdoc_toks in *. cbn [flat_map]. rewrite tstr_app.
  assert (Hm : (match r with [] => false | _ => true end) = false -> tstr (flat_map xblock_toks r) = []).
  { destruct r; [reflexivity|discriminate]. }
  destruct b as [nl|c nl|f its]; cbn [xblock_toks].
  - rewrite tstr_cons, tstr_nil. cbn [app]. apply lexf_newline; [exact Hb|exact IH].
  - eapply lexf_xcomment; eassumption.
  - apply andb_true_iff in Hb. destruct Hb as [Hb _]. apply andb_true_iff in Hb. destruct Hb as [Hf Hits].
    rewrite tstr_app, <- !app_assoc.
    eapply lexf_xfield; [exact Hf| |].
    + destruct its; [exact (fun E => ltac:(rewrite (Hm E); reflexivity))|discriminate].
    + eapply lexf_xitems; eassumption.
Qed.

Theorem lex_xrender d : xwf_doc d = true -> lex (xrender d) = Ok (xdoc_toks d).
Proof. intros H. rewrite lex_is_lexf. apply lexf_xdoc. exact H. Qed.

(* ---------------------------------------------------------------- the parser *)
Definition all_kind (k : kind) (ts : list token) : bool := forallb (fun t => kind_eqb (fst t) k) ts.

Lemma bump_while_all p k vs X : p k = true -> all_kind k vs = true ->
  match X with [] => True | (k', _) :: _ => p k' = false end ->
  bump_while p (vs ++ X) = (telems vs, X).
Proof.
  intros Hk Hvs HX. induction vs as [|[k' s] r IH]; cbn [app].
  - apply bump_while_stop. exact HX.
  - cbn [all_kind forallb fst] in Hvs. apply andb_true_iff in Hvs. destruct Hvs as [Hk' Hr].
    assert (k' = k) by (destruct k', k; try discriminate; reflexivity). subst k'.
    cbn [bump_while]. rewrite Hk, (IH Hr). reflexivity.
Qed.

Lemma all_kind_opt k s : all_kind k (opt_tok k s) = true.
Proof. destruct s; [reflexivity|]. cbn. destruct k; reflexivity. Qed.

Lemma xtail_head cs o rest : (o = None -> rest = []) ->
  match xtail cs o ++ rest with [] => True | (k, _) :: _ => k = NEWLINE end.
Proof.
  intros Ho. destruct cs as [|c cs]; [|rewrite xtail_cons; reflexivity].
  unfold xtail. cbn [flat_map app]. destruct o; cbn; [reflexivity|]. rewrite (Ho eq_refl). exact I.
Qed.

Lemma xtail_len cs o : length cs <= length (xtail cs o).
Proof.
  induction cs as [|c cs IH]; [cbn; lia|]. rewrite xtail_cons. cbn [length]. rewrite app_length. lia.
Qed.

Lemma pe_lines_xtail cs : forall fuel vs o rest,
  length cs < fuel -> all_kind VALUE vs = true -> (o = None -> rest = []) -> cur rest <> Some INDENT ->
  pe_lines fuel (vs ++ xtail cs o ++ rest) = Ok (telems (vs ++ xtail cs o), rest, 0).
Proof.
  induction cs as [|c cs IH]; intros fuel vs o rest Hf Hvs Ho Hi;
    (destruct fuel as [|f]; [cbn in Hf; lia|]); cbn [pe_lines].
  - rewrite (bump_while_all is_ws_or_value VALUE vs (xtail [] o ++ rest) eq_refl Hvs).
    2:{ pose proof (xtail_head [] o rest Ho) as H. destruct (xtail [] o ++ rest) as [|[k s] r]; [exact I|]. subst k. reflexivity. }
    unfold xtail. cbn [flat_map app]. destruct o as [x|]; cbn [onl_toks app].
    + rewrite telems_app. destruct rest as [|[k s] r]; [reflexivity|]. destruct k; try reflexivity. cbn in Hi. congruence.
    + rewrite (Ho eq_refl), !app_nil_r. reflexivity.
  - rewrite (bump_while_all is_ws_or_value VALUE vs (xtail (c :: cs) o ++ rest) eq_refl Hvs); [|rewrite xtail_cons; reflexivity].
    rewrite xtail_cons. cbn [app]. rewrite <- app_assoc.
    pose proof (xtail_head cs o rest Ho) as Hh.
    assert (E : forall vs', all_kind VALUE vs' = true ->
              pe_lines f (vs' ++ xtail cs o ++ rest) = Ok (telems (vs' ++ xtail cs o), rest, 0))
      by (intros vs' Hv'; apply IH; [cbn in Hf; lia|exact Hv'|exact Ho|exact Hi]).
    destruct (xc_pay c) as [t|cm|]; cbn [pay_toks app].
    + unfold skip_ws. cbn [bump_while is_ws_or_comment].
      change ((VALUE, t) :: xtail cs o ++ rest) with ([(VALUE, t)] ++ xtail cs o ++ rest). rewrite (E [(VALUE, t)] eq_refl).
      rewrite !telems_app. cbn [telems map fst snd app Nat.add]. rewrite <- ?app_assoc. reflexivity.
    + unfold skip_ws. cbn [bump_while is_ws_or_comment].
      rewrite (bump_while_stop is_ws_or_comment (xtail cs o ++ rest)).
      2:{ destruct (xtail cs o ++ rest) as [|[k s] r]; [exact I|]. subst k. reflexivity. }
      rewrite (E [] eq_refl : pe_lines f (xtail cs o ++ rest) = _). rewrite !telems_app. cbn [telems map fst snd app Nat.add]. rewrite <- ?app_assoc. reflexivity.
    + unfold skip_ws.
      rewrite (bump_while_stop is_ws_or_comment (xtail cs o ++ rest)).
      2:{ destruct (xtail cs o ++ rest) as [|[k s] r]; [exact I|]. subst k. reflexivity. }
      rewrite (E [] eq_refl : pe_lines f (xtail cs o ++ rest) = _). rewrite !telems_app. cbn [telems map fst snd app Nat.add]. rewrite <- ?app_assoc. reflexivity.
Qed.

(* parse_entry on the tokens of one field *)
Lemma parse_entry_xfield f more rest :
  xwf_field f more = true -> (more = false -> rest = []) -> cur rest <> Some INDENT ->
  parse_entry (xfield_toks f ++ rest) = Ok ([xfield_tree f], rest, 0).
Proof.
  intros Hwf Hm Hi. unfold xwf_field in Hwf.
  repeat (apply andb_true_iff in Hwf; let H := fresh "W" in destruct Hwf as [Hwf H]).
  assert (Hb : x_nl f = None -> rest = []).
  { intros E. rewrite E in W. cbn in W. apply negb_true_iff in W. exact (Hm W). }
  unfold parse_entry, xfield_toks. fold (xtail (x_cont f) (x_nl f)). cbn [app pe_comments cur].
  cbn [pe_expect kind_eqb kind_code N.eqb Pos.eqb].
  rewrite <- !app_assoc. cbn [app]. rewrite <- ?app_assoc.
  unfold skip_ws.
  rewrite (bump_while_all is_ws_or_comment WHITESPACE (opt_tok WHITESPACE (x_w0 f)) _ eq_refl (all_kind_opt _ _)); [|reflexivity].
  cbn [pe_expect kind_eqb kind_code N.eqb Pos.eqb]. unfold skip_ws.
  pose proof (xtail_head (x_cont f) (x_nl f) rest Hb) as Hh.
  rewrite (bump_while_all is_ws_or_comment WHITESPACE (opt_tok WHITESPACE (x_w1 f)) _ eq_refl (all_kind_opt _ _)).
  2:{ destruct (x_first f) as [|x t]; cbn [opt_tok app]; [|reflexivity].
      destruct (xtail (x_cont f) (x_nl f) ++ rest) as [|[k s] r]; [exact I|]. subst k. reflexivity. }
  rewrite pe_lines_xtail.
  - unfold xfield_tree, xfield_toks. fold (xtail (x_cont f) (x_nl f)). cbn [app Nat.add].
    repeat (rewrite telems_cons || rewrite telems_app). cbn [app]. rewrite <- ?app_assoc. reflexivity.
  - pose proof (xtail_len (x_cont f) (x_nl f)) as HL. rewrite !app_length. lia.
  - apply all_kind_opt.
  - exact Hb.
  - exact Hi.
Qed.

Lemma xitems_starts_line its rest : starts_line rest -> starts_line (flat_map xitem_toks its ++ rest).
Proof.
  intros H. destruct its as [|it r]; [exact H|]. cbn [flat_map].
  destruct it as [f|c nl]; cbn; [left; reflexivity|right; left; reflexivity].
Qed.

Lemma pp_xitems its : forall fuel more rest,
  length its <= fuel -> xwf_items its more = true -> (more = false -> rest = []) -> para_end rest ->
  pp_entries fuel (flat_map xitem_toks its ++ rest) = Ok (flat_map xitem_elems its, rest, 0).
Proof.
  induction its as [|it r IH]; intros fuel more rest Hf Hwf Hm He.
  - cbn [flat_map app]. unfold para_end in He. destruct fuel; cbn [pp_entries];
      destruct (cur rest) as [k|]; try reflexivity; destruct k; try contradiction; reflexivity.
  - destruct fuel as [|f]; [cbn in Hf; lia|].
    cbn [xwf_items] in Hwf. apply andb_true_iff in Hwf. destruct Hwf as [Hit Hr].
    cbn [flat_map]. rewrite <- app_assoc.
    assert (Hm' : (match r with [] => more | _ => true end) = false -> flat_map xitem_toks r ++ rest = []).
    { destruct r; [intros E; rewrite (Hm E); reflexivity|discriminate]. }
    assert (Hsl : starts_line (flat_map xitem_toks r ++ rest)) by (apply xitems_starts_line, para_end_starts_line, He).
    destruct it as [fl|c nl]; cbn [xitem_toks xitem_elems].
    + assert (Ec : cur (xfield_toks fl ++ flat_map xitem_toks r ++ rest) = Some KEY) by reflexivity.
      cbn [pp_entries]. rewrite Ec.
      rewrite (parse_entry_xfield fl _ _ Hit Hm' (starts_line_not_indent _ Hsl)).
      rewrite (IH f more rest); [reflexivity|cbn in Hf; lia|exact Hr|exact Hm|exact He].
    + unfold xwf_comment in Hit. apply andb_true_iff in Hit. destruct Hit as [Hc Hn].
      destruct nl as [x|].
      * unfold xcomment_toks. cbn [onl_toks telems map fst snd app].
        rewrite pp_entries_comment. rewrite (IH (S f) more rest); [reflexivity|cbn in Hf; lia|exact Hr|exact Hm|exact He].
      * cbn in Hn. apply negb_true_iff in Hn. specialize (Hm' Hn).
        unfold xcomment_toks. cbn [onl_toks telems map fst snd app]. rewrite Hm'.
        apply app_eq_nil in Hm'. destruct Hm' as [Hr0 Hrest]. subst rest.
        destruct r; [|destruct x; discriminate].
        cbn [pp_entries cur parse_entry pe_comments flat_map]. destruct f; reflexivity.
Qed.

Lemma xfield_toks_nonempty f : xfield_toks f <> [].
Proof. unfold xfield_toks. discriminate. Qed.

Lemma xitems_len its : length its <= length (flat_map xitem_toks its).
Proof.
  induction its as [|it r IH]; cbn [flat_map length]; [lia|]. rewrite app_length.
  destruct it as [f|c nl]; cbn; lia.
Qed.

Lemma parse_paragraph_xpara f its more rest :
  xwf_field f (match its with [] => more | _ => true end) = true -> xwf_items its more = true ->
  (more = false -> rest = []) -> para_end rest ->
  parse_paragraph (xfield_toks f ++ flat_map xitem_toks its ++ rest) =
  Ok ([Node PARAGRAPH (xfield_tree f :: flat_map xitem_elems its)], rest, 0).
Proof.
  intros Hf Hits Hm He. unfold parse_paragraph.
  assert (E : xfield_toks f ++ flat_map xitem_toks its ++ rest = flat_map xitem_toks (XField f :: its) ++ rest).
  { cbn [flat_map xitem_toks]. rewrite <- app_assoc. reflexivity. }
  rewrite E. rewrite (pp_xitems (XField f :: its) _ more rest).
  - reflexivity.
  - pose proof (xitems_len (XField f :: its)). rewrite app_length. lia.
  - cbn [xwf_items]. rewrite Hf, Hits. reflexivity.
  - exact Hm.
  - exact He.
Qed.

(* ---- blank / comment blocks at the top level ---- *)
Definition xblankish (b : xblock) : bool := match b with XPara _ _ => false | _ => true end.

Fixpoint xblanks_ok (l : list xblock) (rest : list token) : Prop :=
  match l with
  | [] => True
  | XBComment _ None :: r => r = [] /\ rest = []
  | _ :: r => xblanks_ok r rest
  end.

Lemma skip_wsnl_xblanks bs : forall fuel rest,
  length bs <= fuel -> forallb xblankish bs = true -> xblanks_ok bs rest ->
  starts_blank rest = false ->
  skip_wsnl fuel (flat_map xblock_toks bs ++ rest) = Ok (map xblock_tree bs, rest).
Proof.
  induction bs as [|b r IH]; intros fuel rest Hf Hbl Hok Hsb.
  - cbn [flat_map app map]. destruct fuel; cbn [skip_wsnl]; rewrite Hsb; reflexivity.
  - destruct fuel as [|f]; [cbn in Hf; lia|].
    cbn [forallb] in Hbl. apply andb_true_iff in Hbl. destruct Hbl as [Hb Hbl].
    cbn [flat_map map]. rewrite <- app_assoc.
    destruct b as [nl|c nl|fl its]; [| |discriminate].
    + cbn [xblock_toks xblock_tree app skip_wsnl starts_blank cur empty_line].
      rewrite (IH f rest); [reflexivity|cbn in Hf; lia|exact Hbl|exact Hok|exact Hsb].
    + destruct nl as [x|].
      * cbn [xblock_toks xblock_tree xcomment_toks onl_toks telems map fst snd app skip_wsnl starts_blank cur empty_line].
        rewrite (IH f rest); [reflexivity|cbn in Hf; lia|exact Hbl|exact Hok|exact Hsb].
      * destruct Hok as [-> ->].
        cbn [xblock_toks xblock_tree xcomment_toks onl_toks telems fst snd app flat_map map skip_wsnl starts_blank cur empty_line].
        destruct f; reflexivity.
Qed.

Lemma xwf_doc_tail b r : xwf_doc (b :: r) = true -> xwf_doc r = true.
Proof. cbn [xwf_doc]. intros H. apply andb_true_iff in H. apply H. Qed.

Lemma xwf_doc_suffix a b : xwf_doc (a ++ b) = true -> xwf_doc b = true.
Proof. induction a as [|x a IH]; [trivial|]. cbn [app]. intros H. apply IH. eapply xwf_doc_tail. exact H. Qed.

Lemma xdoc_toks_app a b : xdoc_toks (a ++ b) = xdoc_toks a ++ xdoc_toks b.
Proof. unfold xdoc_toks. apply flat_map_app. Qed.

Lemma xblock_toks_nonempty b : xblock_toks b <> [].
Proof. destruct b as [nl|c nl|f its]; cbn; discriminate. Qed.

Lemma xdoc_len d : length d <= length (xdoc_toks d).
Proof.
  induction d as [|b r IH]; [cbn; lia|]. unfold xdoc_toks in *. cbn [flat_map length]. rewrite app_length.
  pose proof (xblock_toks_nonempty b). destruct (xblock_toks b); [congruence|cbn; lia].
Qed.

Lemma xblanks_ok_wf bl d2 : forallb xblankish bl = true -> xwf_doc (bl ++ d2) = true -> xblanks_ok bl (xdoc_toks d2).
Proof.
  induction bl as [|b r IH]; intros Hb Hwf; [exact I|].
  cbn [forallb] in Hb. apply andb_true_iff in Hb. destruct Hb as [_ Hb].
  pose proof (IH Hb (xwf_doc_tail _ _ Hwf)) as Hr.
  destruct b as [nl|c nl|f its]; cbn [xblanks_ok]; try exact Hr.
  destruct nl as [x|]; [exact Hr|].
  cbn [app xwf_doc] in Hwf. apply andb_true_iff in Hwf. destruct Hwf as [Hc _].
  unfold xwf_comment in Hc. apply andb_true_iff in Hc. destruct Hc as [_ Hm]. cbn in Hm.
  destruct (r ++ d2) eqn:E; [|discriminate]. apply app_eq_nil in E. destruct E as [-> ->]. split; reflexivity.
Qed.

Lemma parse_root_xdoc n : forall d fuel, length d <= n -> length d <= fuel -> xwf_doc d = true ->
  parse_root fuel (xdoc_toks d) = Ok (map xblock_tree d, 0).
Proof.
  induction n as [|n IH]; intros d fuel Hn Hf Hwf.
  - destruct d; [|cbn in Hn; lia]. destruct fuel; reflexivity.
  - destruct d as [|b0 r0]; [destruct fuel; reflexivity|].
    destruct fuel as [|f]; [cbn in Hf; lia|].
    remember (b0 :: r0) as d eqn:Ed.
    destruct (span xblankish d) as [bl d2] eqn:Es.
    pose proof (span_app _ _ _ _ Es) as Hd. pose proof (span_all _ _ _ _ Es) as Hbl.
    pose proof (span_stop _ _ _ _ Es) as Hst.
    assert (Hne : xdoc_toks d <> []).
    { subst d. unfold xdoc_toks. cbn [flat_map]. pose proof (xblock_toks_nonempty b0).
      destruct (xblock_toks b0); [congruence|discriminate]. }
    cbn [parse_root]. destruct (xdoc_toks d) as [|t0 ts0] eqn:Et; [congruence|]. rewrite <- Et. clear Hne.
    rewrite <- Hd in Hwf. rewrite <- Hd. rewrite xdoc_toks_app.
    assert (Hsb : starts_blank (xdoc_toks d2) = false).
    { destruct d2 as [|b2 r2]; [reflexivity|]. destruct b2 as [nl|c nl|f2 its2]; try discriminate. reflexivity. }
    rewrite (skip_wsnl_xblanks bl _ (xdoc_toks d2)).
    + destruct d2 as [|b2 d3].
      * cbn [xdoc_toks flat_map]. rewrite app_nil_r. reflexivity.
      * destruct b2 as [nl|c nl|f2 its2]; try discriminate.
        pose proof (xwf_doc_suffix _ _ Hwf) as Hwf2.
        cbn [xwf_doc] in Hwf2. apply andb_true_iff in Hwf2. destruct Hwf2 as [Hp Hwf3].
        apply andb_true_iff in Hp. destruct Hp as [Hp Hnext]. apply andb_true_iff in Hp. destruct Hp as [Hfld Hits].
        assert (Etoks : xdoc_toks (XPara f2 its2 :: d3) = xfield_toks f2 ++ flat_map xitem_toks its2 ++ xdoc_toks d3).
        { unfold xdoc_toks. cbn [flat_map xblock_toks]. rewrite <- app_assoc. reflexivity. }
        rewrite Etoks.
        assert (Hnn : xfield_toks f2 ++ flat_map xitem_toks its2 ++ xdoc_toks d3 <> []) by (unfold xfield_toks; discriminate).
        destruct (xfield_toks f2 ++ flat_map xitem_toks its2 ++ xdoc_toks d3) as [|t1 r1] eqn:Er1; [congruence|]. rewrite <- Er1. clear Hnn.
        rewrite (parse_paragraph_xpara f2 its2 (match d3 with [] => false | _ => true end) (xdoc_toks d3) Hfld Hits).
        -- rewrite (IH d3 f).
           ++ rewrite map_app. cbn [map app Nat.add]. reflexivity.
           ++ assert (length d = length bl + S (length d3)) by (rewrite <- Hd, app_length; reflexivity). lia.
           ++ assert (length d = length bl + S (length d3)) by (rewrite <- Hd, app_length; reflexivity). lia.
           ++ exact Hwf3.
        -- destruct d3; [reflexivity|discriminate].
        -- unfold para_end. destruct d3 as [|b3 d4]; [exact I|]. destruct b3; try discriminate. exact I.
    + rewrite app_length. pose proof (xdoc_len bl). lia.
    + exact Hbl.
    + apply xblanks_ok_wf; assumption.
    + exact Hsb.
Qed.

Theorem parse_xdoc_toks d : xwf_doc d = true -> parse_tokens (xdoc_toks d) = Ok (xtree_of d, 0).
Proof.
  intros Hwf. unfold parse_tokens. rewrite (parse_root_xdoc (length d) d); [reflexivity|lia| |exact Hwf].
  apply xdoc_len.
Qed.

(* ---------------------------------------------------------------- the content of the tree *)
Definition ktexts (k : kind) (ts : list token) : list str :=
  flat_map (fun t => if kind_eqb (fst t) k then [snd t] else []) ts.

Lemma ttk_telems k k' ts : token_texts_of_kind k (Node k' (telems ts)) = ktexts k ts.
Proof.
  unfold token_texts_of_kind. cbn [children]. induction ts as [|[a s] r IH]; [reflexivity|].
  cbn [telems map fst snd flat_map ktexts]. f_equal. exact IH.
Qed.
Lemma ktexts_app k a b : ktexts k (a ++ b) = ktexts k a ++ ktexts k b.
Proof. apply flat_map_app. Qed.
Lemma ktexts_opt_other k k' s : kind_eqb k' k = false -> ktexts k (opt_tok k' s) = [].
Proof. intros H. destruct s; [reflexivity|]. cbn. rewrite H. reflexivity. Qed.

Lemma xtail_values cs o : ktexts VALUE (xtail cs o) = flat_map (fun c => pay_values (xc_pay c)) cs.
Proof.
  induction cs as [|c cs IH]; [destruct o; reflexivity|]. rewrite xtail_cons. cbn [flat_map].
  change (ktexts VALUE ((NEWLINE, [xc_nl c]) :: (INDENT, xc_ind c) :: pay_toks (xc_pay c) ++ xtail cs o))
    with (ktexts VALUE (pay_toks (xc_pay c) ++ xtail cs o)).
  rewrite ktexts_app, IH. f_equal. destruct (xc_pay c); reflexivity.
Qed.

Lemma entry_key_xfield f : entry_key (xfield_tree f) = Some (x_name f).
Proof. reflexivity. Qed.

Lemma entry_value_xfield f : entry_value (xfield_tree f) = xfield_value f.
Proof.
  unfold entry_value, xfield_tree, xfield_value. rewrite ttk_telems. f_equal. unfold xfield_toks.
  fold (xtail (x_cont f) (x_nl f)).
  change (ktexts VALUE ((KEY, x_name f) :: opt_tok WHITESPACE (x_w0 f) ++ (COLON, [58%N]) :: opt_tok WHITESPACE (x_w1 f) ++ opt_tok VALUE (x_first f) ++ xtail (x_cont f) (x_nl f)))
    with (ktexts VALUE (opt_tok WHITESPACE (x_w0 f) ++ (COLON, [58%N]) :: opt_tok WHITESPACE (x_w1 f) ++ opt_tok VALUE (x_first f) ++ xtail (x_cont f) (x_nl f))).
  rewrite ktexts_app, (ktexts_opt_other VALUE WHITESPACE _ eq_refl). cbn [app].
  change (ktexts VALUE ((COLON, [58%N]) :: opt_tok WHITESPACE (x_w1 f) ++ opt_tok VALUE (x_first f) ++ xtail (x_cont f) (x_nl f)))
    with (ktexts VALUE (opt_tok WHITESPACE (x_w1 f) ++ opt_tok VALUE (x_first f) ++ xtail (x_cont f) (x_nl f))).
  rewrite ktexts_app, (ktexts_opt_other VALUE WHITESPACE _ eq_refl), ktexts_app, xtail_values. cbn [app]. f_equal.
  destruct (x_first f); reflexivity.
Qed.

Lemma xcomment_no_entries c nl : filter (fun e => is_node e && is_kind ENTRY e) (telems (xcomment_toks c nl)) = [].
Proof. destruct nl; reflexivity. Qed.

Lemma items_xpara f its :
  items (Node PARAGRAPH (xfield_tree f :: flat_map xitem_elems its)) = xfield_pair f :: flat_map xitem_pairs its.
Proof.
  unfold items, entries, node_children_of_kind. cbn [children filter].
  change (is_node (xfield_tree f) && is_kind ENTRY (xfield_tree f)) with true. cbn [flat_map].
  rewrite entry_key_xfield, entry_value_xfield. cbn [app]. unfold xfield_pair. f_equal.
  induction its as [|it r IH]; [reflexivity|]. cbn [flat_map]. rewrite filter_app, flat_map_app, IH. f_equal.
  destruct it as [g|c nl]; cbn [xitem_elems xitem_pairs].
  - cbn [filter]. change (is_node (xfield_tree g) && is_kind ENTRY (xfield_tree g)) with true. cbn [flat_map].
    rewrite entry_key_xfield, entry_value_xfield. reflexivity.
  - rewrite xcomment_no_entries. reflexivity.
Qed.

Lemma doc_items_xtree_of d : doc_items (xtree_of d) = xcontent d.
Proof.
  unfold doc_items, paragraphs, node_children_of_kind, xtree_of, xcontent. cbn [children].
  induction d as [|b r IH]; [reflexivity|]. cbn [map filter flat_map].
  destruct b as [nl|c nl|f its]; cbn [xblock_tree xblock_content app].
  - exact IH.
  - exact IH.
  - change (is_node (Node PARAGRAPH (xfield_tree f :: flat_map xitem_elems its)) &&
            is_kind PARAGRAPH (Node PARAGRAPH (xfield_tree f :: flat_map xitem_elems its))) with true.
    cbn [map]. rewrite items_xpara, IH. reflexivity.
Qed.

(* ---------------------------------------------------------------- ACCEPTANCE: every well-formed layout is read back exactly *)
Theorem parse_image_accept d : xwf_doc d = true ->
  lex (xrender d) = Ok (xdoc_toks d) /\
  from_str (xrender d) = Ok (xtree_of d) /\ text (xtree_of d) = xrender d /\ doc_items (xtree_of d) = xcontent d.
Proof.
  intros Hwf.
  assert (E : parse (xrender d) = Ok (xtree_of d, 0)).
  { unfold parse. rewrite (lex_xrender d Hwf). apply parse_xdoc_toks. exact Hwf. }
  split; [apply lex_xrender, Hwf|].
  split; [unfold from_str; rewrite E; reflexivity|]. split; [eapply parse_text; exact E|apply doc_items_xtree_of].
Qed.

(* ================================================================ COMPLETENESS: whatever the strict reader returns is such a tree *)
(* ---------------------------------------------------------------- the lexer's tokens, with their texts *)
(* LexInvP's automaton over token kinds, with what is known about the text of every token *)
Definition shape (q : lstate) (k : kind) (s : str) : bool :=
  match k with
  | KEY => valid_name s
  | WHITESPACE | INDENT => nonempty s && ws_ok s
  | COLON => match s with [c] => (c =? 58)%N | _ => false end
  | NEWLINE => match s with [c] => is_newline c | _ => false end
  | COMMENT => match s with c :: w => (c =? 35)%N && no_eol w | [] => false end
  | VALUE => no_eol s && match s with
                         | c :: _ => negb (is_indent c) && match q with AI => negb (c =? 35)%N | _ => true end
                         | [] => false
                         end
  | _ => true
  end.

Fixpoint lexinv2 (q : lstate) (ts : list token) : Prop :=
  match ts with
  | [] => True
  | (k, s) :: r => match lnext q k with
                   | Some q' => (q = JUNK \/ shape q k s = true) /\ lexinv2 q' r
                   | None => False
                   end
  end.

Lemma shape_value c r w rr q0 : is_newline c = false -> is_indent c = false ->
  match q0 with AI => (c =? 35)%N = false | _ => True end ->
  span (fun x => negb (is_newline x)) r = (w, rr) -> shape q0 VALUE (c :: w) = true.
Proof.
  intros Enl Ein E35 Es. cbn [shape]. unfold no_eol. cbn [forallb]. rewrite Enl, Ein, (span_all _ _ _ _ Es). cbn [negb andb].
  destruct q0; try reflexivity. rewrite E35. reflexivity.
Qed.
Lemma shape_ws c r w rr : is_indent c = true -> span is_indent r = (w, rr) -> nonempty (c :: w) && ws_ok (c :: w) = true.
Proof. intros Ein Es. cbn [nonempty ws_ok forallb andb]. rewrite Ein, (span_all _ _ _ _ Es). reflexivity. Qed.
Lemma shape_comment q c r w rr : (c =? 35)%N = true -> span (fun x => negb (is_newline x)) r = (w, rr) -> shape q COMMENT (c :: w) = true.
Proof. intros E35 Es. cbn [shape]. rewrite E35. exact (span_all _ _ _ _ Es). Qed.
Lemma shape_colon q c : (c =? 58)%N = true -> shape q COLON [c] = true.
Proof. intros E. apply N.eqb_eq in E. subst c. reflexivity. Qed.

Lemma lex_step_shape q st c r k t st' r' :
  conc q st (c :: r) -> lex_step st c r = Ok ((k, t), st', r') -> q = JUNK \/ shape q k t = true.
Proof.
  intros Hc H. unfold lex_step in H.
  destruct q; cbn [conc] in Hc; try (left; reflexivity); right.
  - (* LS *) subst st. cbn [sol colon ind st_init negb andb orb] in H.
    destruct (c =? 58)%N eqn:E58; [inversion H; subst; apply shape_colon; assumption|]. cbn [andb] in H.
    destruct (is_newline c) eqn:Enl; [inversion H; subst; assumption|].
    destruct (is_indent c) eqn:Ein.
    { destruct (span is_indent r) as [w rr] eqn:Es. inversion H; subst. exact (shape_ws _ _ _ _ Ein Es). }
    destruct (c =? 35)%N eqn:E35; cbn [andb] in H.
    { destruct (span (fun x => negb (is_newline x)) r) as [w rr] eqn:Es. inversion H; subst. exact (shape_comment _ _ _ _ _ E35 Es). }
    destruct (is_valid_initial_key_char c) eqn:Ek; cbn [andb] in H.
    { destruct (span is_valid_key_char r) as [w rr] eqn:Es. inversion H; subst. cbn [shape valid_name].
      rewrite Ek, E35, (span_all _ _ _ _ Es). reflexivity. }
    cbn [orb] in H. inversion H; subst. reflexivity.
  - (* AK *) destruct Hc as [-> Hh]. cbn [sol colon ind st_key negb andb orb] in H.
    destruct (c =? 58)%N eqn:E58; [inversion H; subst; apply shape_colon; assumption|]. cbn [andb] in H.
    destruct (is_newline c) eqn:Enl; [inversion H; subst; assumption|].
    destruct (is_indent c) eqn:Ein.
    { destruct (span is_indent r) as [w rr] eqn:Es. inversion H; subst. exact (shape_ws _ _ _ _ Ein Es). }
    rewrite !andb_false_r in H. cbn [orb] in H.
    destruct (span (fun x => negb (is_newline x)) r) as [w rr] eqn:Es. inversion H; subst. exact (shape_value _ _ _ _ AK Enl Ein I Es).
  - (* AKW *) destruct Hc as [-> Hh]. cbn [sol colon ind st_key negb andb orb] in H. cbn [head_not] in Hh.
    destruct (c =? 58)%N eqn:E58; [inversion H; subst; apply shape_colon; assumption|]. cbn [andb] in H.
    destruct (is_newline c) eqn:Enl; [inversion H; subst; assumption|].
    rewrite Hh in H. rewrite !andb_false_r in H. cbn [orb] in H.
    destruct (span (fun x => negb (is_newline x)) r) as [w rr] eqn:Es. inversion H; subst. exact (shape_value _ _ _ _ AKW Enl Hh I Es).
  - (* AC *) subst st. cbn [sol colon ind st_val negb andb orb] in H. rewrite andb_false_r in H.
    destruct (is_newline c) eqn:Enl; [inversion H; subst; assumption|].
    destruct (is_indent c) eqn:Ein.
    { destruct (span is_indent r) as [w rr] eqn:Es. inversion H; subst. exact (shape_ws _ _ _ _ Ein Es). }
    rewrite !andb_false_r in H. cbn [orb] in H.
    destruct (span (fun x => negb (is_newline x)) r) as [w rr] eqn:Es. inversion H; subst. exact (shape_value _ _ _ _ AC Enl Ein I Es).
  - (* ACW *) destruct Hc as [-> Hh]. cbn [sol colon ind st_val negb andb orb] in H. rewrite andb_false_r in H. cbn [head_not] in Hh.
    destruct (is_newline c) eqn:Enl; [inversion H; subst; assumption|].
    rewrite Hh in H. rewrite !andb_false_r in H. cbn [orb] in H.
    destruct (span (fun x => negb (is_newline x)) r) as [w rr] eqn:Es. inversion H; subst. exact (shape_value _ _ _ _ ACW Enl Hh I Es).
  - (* EOLN *) cbn [head_not] in Hc. apply negb_false_iff in Hc.
    rewrite (newline_not_colon c Hc) in H. cbn [andb] in H. rewrite Hc in H. inversion H; subst. exact Hc.
  - (* AI *) destruct Hc as [-> Hh]. cbn [sol colon ind st_ind negb andb orb] in H. rewrite andb_false_r in H. cbn [head_not] in Hh.
    destruct (is_newline c) eqn:Enl; [inversion H; subst; assumption|].
    rewrite Hh in H.
    destruct (c =? 35)%N eqn:E35; cbn [andb] in H.
    { destruct (span (fun x => negb (is_newline x)) r) as [w rr] eqn:Es. inversion H; subst. exact (shape_comment _ _ _ _ _ E35 Es). }
    rewrite !andb_false_r in H. cbn [orb] in H.
    destruct (span (fun x => negb (is_newline x)) r) as [w rr] eqn:Es. inversion H; subst. exact (shape_value _ _ _ _ AI Enl Hh E35 Es).
Qed.

Lemma lex_go_inv2 fuel : forall q st s ts, conc q st s -> lex_go fuel st s = Ok ts -> lexinv2 q ts.
Proof.
  induction fuel as [|f IH]; intros q st s ts Hc H; destruct s as [|c r]; cbn [lex_go] in H; try discriminate.
  - injection H as <-. exact I.
  - injection H as <-. exact I.
  - destruct (lex_step st c r) as [[[[k t] st'] r']| | |] eqn:E; try discriminate.
    destruct (lex_go f st' r') as [ts'| | |] eqn:E2; try discriminate. injection H as <-.
    destruct (lex_step_conc _ _ _ _ _ _ _ _ Hc E) as (q' & Hq & _ & Hc').
    cbn [lexinv2]. rewrite Hq. split; [exact (lex_step_shape _ _ _ _ _ _ _ _ Hc E)|]. exact (IH _ _ _ _ Hc' E2).
Qed.

Theorem lex_inv2 s ts : lex s = Ok ts -> lexinv2 LS ts.
Proof. unfold lex, lex_. apply lex_go_inv2. reflexivity. Qed.

(* ---------------------------------------------------------------- the parser, read backwards *)
Definition more_of (r : list token) : bool := match r with [] => false | _ => true end.
Definition vstate (q : lstate) : Prop := match q with AC | ACW | AI | EOLN => True | _ => False end.

Lemma shape_newline q s : q <> JUNK -> (q = JUNK \/ shape q NEWLINE s = true) -> exists c, s = [c] /\ is_newline c = true.
Proof.
  intros Hq [H|H]; [congruence|]. cbn [shape] in H. destruct s as [|c [|? ?]]; try discriminate. exists c. split; [reflexivity|exact H].
Qed.

Lemma pe_lines_value f s ts' : match ts' with [] => True | (k, _) :: _ => is_ws_or_value k = false end ->
  pe_lines (S f) ((VALUE, s) :: ts') = prefix3 [Tok VALUE s] (pe_lines (S f) ts').
Proof.
  intros Hh. cbn [pe_lines bump_while is_ws_or_value]. rewrite (bump_while_stop is_ws_or_value ts' Hh).
  destruct ts' as [|[k s'] r2]; [reflexivity|].
  destruct (match k with NEWLINE => ([Tok k s'], 0) | _ => ([Node ERROR [Tok k s']], 1) end) as [e2 n2].
  destruct r2 as [|[k2 s2] r3]; [reflexivity|].
  destruct k2; try reflexivity.
  destruct (skip_ws r3) as [e3 r4]. destruct (pe_lines f r4) as [[[e5 r5] n5]| | |]; reflexivity.
Qed.

(* after the indentation of a continuation line: a comment, or nothing to skip *)
Lemma skip_ws_AI r3 : lexinv2 AI r3 ->
  (skip_ws r3 = ([], r3) /\ cur r3 <> Some COMMENT) \/
  (exists c' r4, r3 = (COMMENT, 35%N :: c') :: r4 /\ no_eol c' = true /\ skip_ws r3 = ([Tok COMMENT (35%N :: c')], r4) /\ lexinv2 EOLN r4).
Proof.
  intros H. destruct r3 as [|[k s] r4]; [left; split; [reflexivity|discriminate]|].
  cbn [lexinv2] in H. destruct k; cbn [lnext] in H; try contradiction.
  - left. split; [reflexivity|discriminate].
  - left. split; [reflexivity|discriminate].
  - right. destruct H as [[H|H] H2]; [discriminate|]. cbn [shape] in H. destruct s as [|c w]; [discriminate|].
    apply andb_true_iff in H. destruct H as [H35 Hw]. apply N.eqb_eq in H35. subst c.
    exists w, r4. split; [reflexivity|]. split; [exact Hw|]. split; [|exact H2].
    unfold skip_ws. cbn [bump_while is_ws_or_comment]. rewrite bump_while_stop; [reflexivity|].
    destruct r4 as [|[k s] r5]; [exact I|]. cbn [lexinv2] in H2. destruct k; cbn [lnext] in H2; try contradiction. reflexivity.
Qed.

Lemma pe_lines_image fuel : forall ts q e r,
  lexinv2 q ts -> vstate q -> (q = AC -> cur ts <> Some WHITESPACE) ->
  pe_lines fuel ts = Ok (e, r, 0) ->
  exists v cs o, ts = opt_tok VALUE v ++ xtail cs o ++ r /\ e = telems (opt_tok VALUE v ++ xtail cs o) /\
    (v = [] \/ shape q VALUE v = true) /\ (q = EOLN -> v = []) /\ forallb xcont_ok cs = true /\
    match o with Some nl => is_newline nl = true /\ lexinv2 LS r | None => r = [] end.
Proof.
  induction fuel as [|f IH]; intros ts q e r Hinv Hq Hws H; [discriminate|].
  (* the case where no VALUE comes first *)
  assert (Hnv : forall ts q e r, lexinv2 q ts -> vstate q ->
            match ts with [] => True | (k, _) :: _ => is_ws_or_value k = false end ->
            pe_lines (S f) ts = Ok (e, r, 0) ->
            exists cs o, ts = xtail cs o ++ r /\ e = telems (xtail cs o) /\ forallb xcont_ok cs = true /\
              match o with Some nl => is_newline nl = true /\ lexinv2 LS r | None => r = [] end).
  { clear ts q e r Hinv Hq Hws H. intros ts q e r Hinv Hq Hh H.
    cbn [pe_lines] in H. rewrite (bump_while_stop is_ws_or_value ts Hh) in H.
    destruct ts as [|[k s] r2].
    { injection H as <- <-. exists [], None. repeat split. }
    cbn [lexinv2] in Hinv.
    assert (Hk : k = NEWLINE).
    { destruct k; try reflexivity; exfalso;
        (destruct r2 as [|[k2 s2] r3]; [cbn in H; discriminate|]);
        (destruct k2; try (cbn in H; discriminate));
        (destruct (skip_ws r3) as [e3 r4]; destruct (pe_lines f r4) as [[[e5 r5] n5]| | |]; cbn in H; discriminate). }
    subst k. assert (Hl : lnext q NEWLINE = Some LS) by (destruct q; try contradiction; reflexivity).
    rewrite Hl in Hinv. destruct Hinv as [Hs Hinv].
    destruct (shape_newline q s) as (c & -> & Hc); [destruct q; try contradiction; discriminate|exact Hs|].
    assert (Hstop : forall r2', r2 = r2' -> cur r2' <> Some INDENT -> Ok ([] ++ [Tok NEWLINE [c]], r2', 0) = Ok (e, r, 0) ->
              exists cs o, (NEWLINE, [c]) :: r2' = xtail cs o ++ r /\ e = telems (xtail cs o) /\ forallb xcont_ok cs = true /\
              match o with Some nl => is_newline nl = true /\ lexinv2 LS r | None => r = [] end).
    { intros r2' E _ H'. injection H' as <- <-. exists [], (Some c). subst r2'. repeat split; assumption. }
    destruct r2 as [|[k2 s2] r3]; [apply (Hstop [] eq_refl); [discriminate|exact H]|].
    destruct k2; try (apply (Hstop _ eq_refl); [discriminate|exact H]).
    (* a continuation line *)
    cbn [lexinv2 lnext] in Hinv. destruct Hinv as [[Hi|Hi] Hinv]; [discriminate|]. cbn [shape] in Hi.
    destruct (skip_ws_AI r3 Hinv) as [[Esk Hnc]|(c' & r4 & -> & Hc' & Esk & Hinv4)]; rewrite Esk in H.
    - destruct (pe_lines f r3) as [[[e5 r5] n5]| | |] eqn:E5; try discriminate.
      injection H as <- <- ->.
      destruct (IH r3 AI e5 r5 Hinv I ltac:(discriminate) E5) as (v' & cs' & o' & Ets & Ee & Hv' & _ & Hcs' & Ho').
      exists (mk_xcont c s2 (match v' with [] => PNone | _ => PVal v' end) :: cs'), o'.
      rewrite xtail_cons. cbn [xc_nl xc_ind xc_pay].
      assert (Ep : pay_toks (match v' with [] => PNone | _ => PVal v' end) = opt_tok VALUE v') by (destruct v'; reflexivity).
      rewrite Ep. split; [cbn [app]; rewrite <- app_assoc, <- Ets; reflexivity|].
      split; [rewrite Ee; cbn [app]; repeat (rewrite telems_cons || rewrite telems_app); reflexivity|].
      split; [|exact Ho']. cbn [forallb]. rewrite Hcs', andb_true_r. unfold xcont_ok. cbn [xc_nl xc_ind xc_pay].
      rewrite Hc. cbn [andb]. rewrite Hi. cbn [andb].
      destruct Hv' as [->|Hv']; [reflexivity|]. destruct v' as [|x v'']; [reflexivity|]. exact Hv'.
    - destruct (pe_lines f r4) as [[[e5 r5] n5]| | |] eqn:E5; try discriminate.
      injection H as <- <- ->.
      destruct (IH r4 EOLN e5 r5 Hinv4 I ltac:(discriminate) E5) as (v' & cs' & o' & Ets & Ee & _ & Hv0 & Hcs' & Ho').
      rewrite (Hv0 eq_refl) in *. cbn [opt_tok app] in Ets, Ee.
      exists (mk_xcont c s2 (PCom c') :: cs'), o'.
      rewrite xtail_cons. cbn [xc_nl xc_ind xc_pay pay_toks].
      split; [cbn [app]; rewrite <- Ets; reflexivity|].
      split; [rewrite Ee; cbn [app]; repeat (rewrite telems_cons || rewrite telems_app); reflexivity|].
      split; [|exact Ho']. cbn [forallb]. rewrite Hcs', andb_true_r. unfold xcont_ok. cbn [xc_nl xc_ind xc_pay pay_ok].
      rewrite Hc. cbn [andb]. rewrite Hi, Hc'. reflexivity. }
  destruct ts as [|[k s] ts'].
  { destruct (Hnv [] q e r Hinv Hq I H) as (cs & o & A & B & C & D). exists [], cs, o. cbn [opt_tok app].
    split; [exact A|]. split; [exact B|]. split; [left; reflexivity|]. split; [reflexivity|]. split; assumption. }
  destruct (is_ws_or_value k) eqn:Ek.
  - (* a VALUE (a WHITESPACE cannot come here) *)
    assert (k = VALUE).
    { destruct k; try discriminate; [reflexivity|]. exfalso. cbn [lexinv2] in Hinv.
      destruct q; cbn [lnext] in Hinv; try contradiction. apply (Hws eq_refl). reflexivity. }
    subst k. cbn [lexinv2] in Hinv.
    assert (Hl : lnext q VALUE = Some EOLN /\ q <> EOLN /\ q <> JUNK) by (destruct q; try contradiction; repeat split; discriminate).
    destruct Hl as (Hl & Hne & Hnj). rewrite Hl in Hinv. destruct Hinv as [[Hs|Hs] Hinv]; [congruence|].
    assert (Hh : match ts' with [] => True | (k, _) :: _ => is_ws_or_value k = false end).
    { destruct ts' as [|[k s'] r2]; [exact I|]. cbn [lexinv2] in Hinv. destruct k; cbn [lnext] in Hinv; try contradiction. reflexivity. }
    rewrite (pe_lines_value f s ts' Hh) in H.
    destruct (pe_lines (S f) ts') as [[[e' r'] n']| | |] eqn:E'; try discriminate. cbn [prefix3] in H. injection H as <- <- ->.
    destruct (Hnv ts' EOLN e' r' Hinv I Hh E') as (cs & o & A & B & C & D).
    assert (Hsne : s <> []) by (intros ->; cbn in Hs; discriminate).
    exists s, cs, o. assert (Eo : opt_tok VALUE s = [(VALUE, s)]) by (destruct s; [congruence|reflexivity]). rewrite Eo.
    split; [cbn [app]; rewrite A; reflexivity|]. split; [cbn [app]; rewrite B; reflexivity|].
    split; [right; exact Hs|]. split; [intros E; congruence|]. split; assumption.
  - destruct (Hnv _ q e r Hinv Hq Ek H) as (cs & o & A & B & C & D). exists [], cs, o. cbn [opt_tok app].
    split; [exact A|]. split; [exact B|]. split; [left; reflexivity|]. split; [reflexivity|]. split; assumption.
Qed.

(* ---- well-formedness of item lists, composed ---- *)
Lemma xwf_items_app a b more :
  xwf_items (a ++ b) more = xwf_items a (match b with [] => more | _ => true end) && xwf_items b more.
Proof.
  induction a as [|it r IH]; [reflexivity|]. cbn [app xwf_items]. rewrite IH, andb_assoc. f_equal. f_equal.
  destruct r as [|it' r']; [cbn [app]; destruct b; reflexivity|reflexivity].
Qed.

Lemma onl_ok_mono o more : onl_ok o true = true -> onl_ok o more = true.
Proof. destruct o; [trivial|discriminate]. Qed.
Lemma xwf_items_mono its more : xwf_items its true = true -> xwf_items its more = true.
Proof.
  induction its as [|it r IH]; [reflexivity|]. cbn [xwf_items]. intros H. apply andb_true_iff in H. destruct H as [H1 H2].
  rewrite (IH H2), andb_true_r. destruct r; [|exact H1].
  destruct it as [f|c nl]; [unfold xwf_field in *|unfold xwf_comment in *];
    apply andb_true_iff in H1; destruct H1 as [A B]; rewrite A, (onl_ok_mono _ more B); reflexivity.
Qed.

Lemma more_of_app a b : more_of (a ++ b) = more_of a || more_of b.
Proof. destruct a; [reflexivity|reflexivity]. Qed.
Lemma xitem_toks_more it : more_of (xitem_toks it) = true.
Proof. destruct it; reflexivity. Qed.
Lemma xitems_toks_more its : more_of (flat_map xitem_toks its) = match its with [] => false | _ => true end.
Proof. destruct its as [|it r]; [reflexivity|]. cbn [flat_map]. rewrite more_of_app, xitem_toks_more. reflexivity. Qed.

(* ---- comment lines in front of an entry ---- *)
Definition is_xcomment (it : xitem) : bool := match it with XComment _ _ => true | _ => false end.

Lemma pe_comments_image m : forall ts e r b, length ts <= m -> lexinv2 LS ts -> pe_comments ts = (e, r, 0, b) ->
  exists its, forallb is_xcomment its = true /\ ts = flat_map xitem_toks its ++ r /\ e = flat_map xitem_elems its /\
    xwf_items its (more_of r) = true /\ (if b then r = [] else lexinv2 LS r /\ cur r <> Some COMMENT).
Proof.
  induction m as [|m IH]; intros ts e r b Hm Hinv H.
  - destruct ts; [|cbn in Hm; lia]. cbn in H. injection H as <- <- <-. exists []. repeat split. discriminate.
  - destruct ts as [|[k s] r0].
    { cbn in H. injection H as <- <- <-. exists []. repeat split. discriminate. }
    assert (Hstop : k <> COMMENT -> exists its, forallb is_xcomment its = true /\ (k, s) :: r0 = flat_map xitem_toks its ++ r /\ e = flat_map xitem_elems its /\
              xwf_items its (more_of r) = true /\ (if b then r = [] else lexinv2 LS r /\ cur r <> Some COMMENT)).
    { intros Hk. assert (E : pe_comments ((k, s) :: r0) = ([], (k, s) :: r0, 0, false)) by (destruct k; try reflexivity; congruence).
      rewrite E in H. injection H as <- <- <-. exists []. repeat split; [exact Hinv|cbn; congruence]. }
    destruct k; try (apply Hstop; discriminate). clear Hstop.
    cbn [lexinv2 lnext] in Hinv. destruct Hinv as [[Hs|Hs] Hinv]; [discriminate|]. cbn [shape] in Hs.
    destruct s as [|c0 w]; [discriminate|]. apply andb_true_iff in Hs. destruct Hs as [H35 Hw]. apply N.eqb_eq in H35. subst c0.
    destruct r0 as [|[g s'] r'].
    + cbn in H. injection H as <- <- <-. exists [XComment w None]. cbn [forallb is_xcomment flat_map xitem_toks xitem_elems xcomment_toks onl_toks app].
      repeat split. cbn. unfold xwf_comment. rewrite Hw. reflexivity.
    + cbn [lexinv2] in Hinv. destruct g; cbn [lnext] in Hinv; try contradiction.
      destruct Hinv as [Hs' Hinv]. destruct (shape_newline EOLN s' ltac:(discriminate) Hs') as (c & -> & Hc).
      cbn [pe_comments] in H. destruct (pe_comments r') as [[[e' rest] n] early] eqn:E'. injection H as <- <- -> <-.
      destruct (IH r' e' rest early ltac:(cbn in Hm; lia) Hinv E') as (its & A & B & C & D & F).
      exists (XComment w (Some c) :: its). cbn [forallb is_xcomment flat_map xitem_toks xitem_elems xcomment_toks onl_toks app telems map fst snd].
      split; [exact A|]. split; [rewrite B; reflexivity|]. split; [rewrite C; reflexivity|]. split; [|exact F].
      cbn [xwf_items]. rewrite D, andb_true_r. unfold xwf_comment. rewrite Hw. exact Hc.
Qed.

(* ---- optional blanks after the field name and after the colon ---- *)
Lemma skip_ws_opt q q' ts : (q = AK /\ q' = AKW) \/ (q = AC /\ q' = ACW) -> lexinv2 q ts ->
  exists w r, ts = opt_tok WHITESPACE w ++ r /\ skip_ws ts = (telems (opt_tok WHITESPACE w), r) /\ ws_ok w = true /\
    lexinv2 (match w with [] => q | _ => q' end) r /\ (w = [] -> cur r <> Some WHITESPACE).
Proof.
  intros Hq Hinv. destruct ts as [|[k s] r0].
  { exists [], []. repeat split. discriminate. }
  assert (Hstop : k <> WHITESPACE -> exists w r, (k, s) :: r0 = opt_tok WHITESPACE w ++ r /\ skip_ws ((k, s) :: r0) = (telems (opt_tok WHITESPACE w), r) /\ ws_ok w = true /\
            lexinv2 (match w with [] => q | _ => q' end) r /\ (w = [] -> cur r <> Some WHITESPACE)).
  { intros Hk. exists [], ((k, s) :: r0). cbn [opt_tok app telems map]. split; [reflexivity|]. split.
    - unfold skip_ws. apply bump_while_stop. cbn [lexinv2] in Hinv.
      destruct Hq as [[-> ->]|[-> ->]]; destruct k; cbn [lnext] in Hinv; try contradiction; try congruence; reflexivity.
    - split; [reflexivity|]. split; [exact Hinv|]. intros _. cbn. congruence. }
  destruct k; try (apply Hstop; discriminate). clear Hstop.
  cbn [lexinv2] in Hinv.
  assert (Hl : lnext q WHITESPACE = Some q' /\ q <> JUNK) by (destruct Hq as [[-> ->]|[-> ->]]; split; [reflexivity|discriminate|reflexivity|discriminate]).
  destruct Hl as [Hl Hnj]. rewrite Hl in Hinv. destruct Hinv as [[Hs|Hs] Hinv]; [congruence|]. cbn [shape] in Hs.
  apply andb_true_iff in Hs. destruct Hs as [Hne Hw]. destruct s as [|c w]; [discriminate|].
  exists (c :: w), r0. cbn [opt_tok app]. split; [reflexivity|]. split.
  - unfold skip_ws. cbn [bump_while is_ws_or_comment]. rewrite bump_while_stop; [reflexivity|].
    destruct r0 as [|[k s] r1]; [exact I|]. cbn [lexinv2] in Hinv.
    destruct Hq as [[-> ->]|[-> ->]]; destruct k; cbn [lnext] in Hinv; try contradiction; reflexivity.
  - split; [exact Hw|]. split; [exact Hinv|]. discriminate.
Qed.

Lemma pe_expect_ok k ts e r : pe_expect k ts = (e, r, 0) ->
  exists s r0, ts = (k, s) :: r0 /\ e = Tok k s :: fst (skip_ws r0) /\ r = snd (skip_ws r0).
Proof.
  unfold pe_expect. destruct ts as [|[k' s] r0]; [discriminate|]. destruct (kind_eqb k' k) eqn:Ek; [|discriminate].
  assert (k' = k) by (destruct k', k; try discriminate; reflexivity). subst k'.
  destruct (skip_ws r0) as [e' r'] eqn:E. intros H. injection H as <- <-. exists s, r0. rewrite E. repeat split.
Qed.

(* ---- one round of parse_entry: comment lines, then perhaps a field ---- *)
Lemma parse_entry_image ts e r : lexinv2 LS ts -> parse_entry ts = Ok (e, r, 0) ->
  exists its, ts = flat_map xitem_toks its ++ r /\ e = flat_map xitem_elems its /\ xwf_items its (more_of r) = true /\ lexinv2 LS r.
Proof.
  intros Hinv H. unfold parse_entry in H.
  destruct (pe_comments ts) as [[[e0 r0] n0] early] eqn:E0.
  assert (Hcm : n0 = 0 -> exists its, forallb is_xcomment its = true /\ ts = flat_map xitem_toks its ++ r0 /\ e0 = flat_map xitem_elems its /\
            xwf_items its (more_of r0) = true /\ (if early then r0 = [] else lexinv2 LS r0 /\ cur r0 <> Some COMMENT)).
  { intros ->. exact (pe_comments_image (length ts) ts e0 r0 early (le_n _) Hinv E0). }
  destruct early.
  { injection H as <- <- ->. destruct (Hcm eq_refl) as (its & _ & A & B & C & D). exists its. subst r0. repeat split; assumption. }
  assert (Hret : Ok (e0, r0, n0) = Ok (e, r, 0) -> exists its, ts = flat_map xitem_toks its ++ r /\ e = flat_map xitem_elems its /\ xwf_items its (more_of r) = true /\ lexinv2 LS r).
  { intros H'. injection H' as <- <- ->. destruct (Hcm eq_refl) as (its & _ & A & B & C & D & _). exists its. repeat split; assumption. }
  destruct (cur r0) as [k0|] eqn:Ec; [|exact (Hret H)].
  destruct (pe_expect KEY r0) as [[e1 r1] n1] eqn:E1. destruct (pe_expect COLON r1) as [[e2 r2] n2] eqn:E2.
  assert (Hent : match pe_lines (S (length r2)) r2 with
                 | Ok (e3, r3, n3) => Ok (e0 ++ [Node ENTRY (e1 ++ e2 ++ e3)], r3, n0 + n1 + n2 + n3)
                 | Err x => Err x | Panic x => Panic x | OutOfFuel => OutOfFuel end = Ok (e, r, 0) ->
          exists its, ts = flat_map xitem_toks its ++ r /\ e = flat_map xitem_elems its /\ xwf_items its (more_of r) = true /\ lexinv2 LS r).
  { clear H Hret. intros H. destruct (pe_lines (S (length r2)) r2) as [[[e3 r3] n3]| | |] eqn:E3; try discriminate.
    injection H as <- <- Hsum. assert (n0 = 0 /\ n1 = 0 /\ n2 = 0 /\ n3 = 0) by lia. clear Hsum. destruct H as (-> & -> & -> & ->).
    destruct (Hcm eq_refl) as (its0 & _ & A & B & C & D & _).
    destruct (pe_expect_ok _ _ _ _ E1) as (name & r0' & -> & -> & ->).
    cbn [lexinv2 lnext] in D. destruct D as [[Hn|Hn] D]; [discriminate|]. cbn [shape] in Hn.
    destruct (skip_ws_opt AK AKW r0' (or_introl (conj eq_refl eq_refl)) D) as (w0 & r1 & -> & Es1 & Hw0 & D1 & _).
    rewrite Es1 in *. cbn [fst snd] in *.
    destruct (pe_expect_ok _ _ _ _ E2) as (cl & r1' & -> & -> & ->).
    assert (Hcl : cl = [58%N] /\ lexinv2 AC r1').
    { assert (Hx : shape AK COLON cl = true /\ lexinv2 AC r1').
      { destruct w0; cbn [lexinv2 lnext] in D1; destruct D1 as [[Hx|Hx] D1]; try discriminate; split; assumption. }
      destruct Hx as [Hx D1']. cbn [shape] in Hx. destruct cl as [|c0 cl']; [discriminate|]. destruct cl'; [|discriminate].
      apply N.eqb_eq in Hx. subst c0. split; [reflexivity|assumption]. }
    destruct Hcl as [-> D2].
    destruct (skip_ws_opt AC ACW r1' (or_intror (conj eq_refl eq_refl)) D2) as (w1 & r2 & -> & Es2 & Hw1 & D3 & Hnw).
    rewrite Es2 in *. cbn [fst snd] in *.
    destruct (pe_lines_image _ r2 (match w1 with [] => AC | _ => ACW end) e3 r3 D3
                ltac:(destruct w1; exact I) ltac:(destruct w1; [intros _; apply Hnw; reflexivity|discriminate]) E3)
      as (v & cs & o & -> & -> & Hv & _ & Hcs & Ho).
    set (f := mk_xfield name w0 w1 v cs o).
    exists (its0 ++ [XField f]). rewrite !flat_map_app. cbn [flat_map xitem_toks xitem_elems]. rewrite !app_nil_r.
    split; [rewrite A; rewrite <- app_assoc; f_equal; unfold xfield_toks, f; cbn [x_name x_w0 x_w1 x_first x_cont x_nl];
            fold (xtail cs o); cbn [app]; rewrite <- ?app_assoc; cbn [app]; rewrite <- ?app_assoc; reflexivity|].
    split; [rewrite B; f_equal; unfold xfield_tree, xfield_toks, f; cbn [x_name x_w0 x_w1 x_first x_cont x_nl];
            fold (xtail cs o); repeat (rewrite telems_cons || rewrite telems_app); cbn [app]; rewrite <- ?app_assoc; reflexivity|].
    split.
    - rewrite xwf_items_app. apply andb_true_iff. split.
      + apply xwf_items_mono. cbn [more_of app] in C. exact C.
      + cbn [xwf_items]. rewrite andb_true_r. unfold xwf_field, f. cbn [x_name x_w0 x_w1 x_first x_cont x_nl].
        rewrite Hn, Hw0, Hw1, Hcs. cbn [andb].
        assert (Hf : first_ok v = true).
        { destruct Hv as [->|Hv]; [reflexivity|]. unfold first_ok. cbn [shape] in Hv. apply andb_true_iff in Hv. destruct Hv as [Hv1 Hv2].
          rewrite Hv1. destruct v as [|x v']; [reflexivity|]. apply andb_true_iff in Hv2. destruct Hv2 as [Hv2 _]. exact Hv2. }
        rewrite Hf. cbn [andb]. destruct o as [nl|]; [exact (proj1 Ho)|]. subst r3. reflexivity.
    - destruct o as [nl|]; [exact (proj2 Ho)|]. subst r3. exact I. }
  destruct k0; try exact (Hent H). exact (Hret H).
Qed.

(* ---- the entries of a paragraph ---- *)
Lemma pp_entries_image fuel : forall ts e r, lexinv2 LS ts -> pp_entries fuel ts = Ok (e, r, 0) ->
  exists its, ts = flat_map xitem_toks its ++ r /\ e = flat_map xitem_elems its /\ xwf_items its (more_of r) = true /\
    para_end r /\ lexinv2 LS r.
Proof.
  induction fuel as [|f IH]; intros ts e r Hinv H.
  - cbn [pp_entries] in H. destruct (cur ts) as [k|] eqn:Ec.
    + destruct k; try discriminate. injection H as <- <-. exists []. unfold para_end. rewrite Ec. repeat split. exact Hinv.
    + injection H as <- <-. exists []. unfold para_end. rewrite Ec. repeat split. exact Hinv.
  - cbn [pp_entries] in H.
    assert (Hend : para_end ts -> Ok ([], ts, 0) = Ok (e, r, 0) -> exists its, ts = flat_map xitem_toks its ++ r /\ e = flat_map xitem_elems its /\
              xwf_items its (more_of r) = true /\ para_end r /\ lexinv2 LS r).
    { intros He H'. injection H' as <- <-. exists []. repeat split; assumption. }
    assert (Hgo : match parse_entry ts with
                  | Ok (e1, r1, n1) => match pp_entries f r1 with
                                       | Ok (e2, r2, n2) => Ok (e1 ++ e2, r2, n1 + n2)
                                       | Err x => Err x | Panic x => Panic x | OutOfFuel => OutOfFuel end
                  | Err x => Err x | Panic x => Panic x | OutOfFuel => OutOfFuel end = Ok (e, r, 0) ->
            exists its, ts = flat_map xitem_toks its ++ r /\ e = flat_map xitem_elems its /\
              xwf_items its (more_of r) = true /\ para_end r /\ lexinv2 LS r).
    { clear H Hend. intros H. destruct (parse_entry ts) as [[[e1 r1] n1]| | |] eqn:E1; try discriminate.
      destruct (pp_entries f r1) as [[[e2 r2] n2]| | |] eqn:E2; try discriminate.
      injection H as <- <- Hs. assert (n1 = 0 /\ n2 = 0) by lia. destruct H as [-> ->]. clear Hs.
      destruct (parse_entry_image ts e1 r1 Hinv E1) as (its1 & A1 & B1 & C1 & D1).
      destruct (IH r1 e2 r2 D1 E2) as (its2 & A2 & B2 & C2 & He & D2).
      exists (its1 ++ its2). rewrite !flat_map_app. split; [rewrite A1, A2, app_assoc; reflexivity|].
      split; [rewrite B1, B2; reflexivity|]. split; [|split; assumption].
      rewrite xwf_items_app, C2, andb_true_r. destruct its2 as [|it2 r2']; [cbn [flat_map app] in A2; subst r1; exact C1|].
      rewrite A2 in C1. rewrite more_of_app, xitems_toks_more in C1. exact C1. }
    destruct (cur ts) as [k|] eqn:Ec; [|apply Hend; [unfold para_end; rewrite Ec; exact I|exact H]].
    destruct k; try exact (Hgo H). apply Hend; [unfold para_end; rewrite Ec; exact I|exact H].
Qed.

(* ---- well-formedness of the blank and comment lines in front of a paragraph, composed ---- *)
Fixpoint blanks_wf (a : xdoc) (more : bool) : bool :=
  match a with
  | [] => true
  | x :: r =>
    let m := match r with [] => more | _ => true end in
    match x with
    | XBlank nl => is_newline nl
    | XBComment c nl => xwf_comment c nl m
    | XPara _ _ => false
    end && blanks_wf r more
  end.

Lemma xwf_doc_blanks a b : blanks_wf a (match b with [] => false | _ => true end) = true -> xwf_doc b = true -> xwf_doc (a ++ b) = true.
Proof.
  intros Ha Hb. induction a as [|x r IH]; [exact Hb|]. cbn [blanks_wf] in Ha. apply andb_true_iff in Ha. destruct Ha as [Hx Hr].
  cbn [app xwf_doc]. rewrite (IH Hr), andb_true_r.
  assert (E : match r ++ b with [] => false | _ => true end = match r with [] => match b with [] => false | _ => true end | _ => true end)
    by (destruct r; reflexivity).
  destruct x as [nl|c nl|f its]; [exact Hx| |discriminate]. rewrite E. exact Hx.
Qed.

Lemma more_of_xdoc_toks d : more_of (xdoc_toks d) = match d with [] => false | _ => true end.
Proof.
  destruct d as [|b r]; [reflexivity|]. unfold xdoc_toks. cbn [flat_map]. rewrite more_of_app.
  pose proof (xblock_toks_nonempty b). destruct (xblock_toks b); [congruence|reflexivity].
Qed.

Lemma skip_wsnl_image fuel : forall ts e r, lexinv2 LS ts -> skip_wsnl fuel ts = Ok (e, r) ->
  exists bl, ts = xdoc_toks bl ++ r /\ e = map xblock_tree bl /\ blanks_wf bl (more_of r) = true /\
    lexinv2 LS r /\ starts_blank r = false.
Proof.
  induction fuel as [|f IH]; intros ts e r Hinv H; cbn [skip_wsnl] in H.
  - destruct (starts_blank ts) eqn:Es; [discriminate|]. injection H as <- <-. exists []. repeat split; assumption.
  - destruct (starts_blank ts) eqn:Es.
    2:{ injection H as <- <-. exists []. repeat split; assumption. }
    destruct ts as [|[k s] r0]; [discriminate|]. cbn [lexinv2] in Hinv.
    destruct k; try discriminate; cbn [lnext] in Hinv; try contradiction.
    + (* a blank line *)
      destruct Hinv as [Hs Hinv]. destruct (shape_newline LS s ltac:(discriminate) Hs) as (c & -> & Hc).
      cbn [empty_line] in H. destruct (skip_wsnl f r0) as [[e2 r2]| | |] eqn:E2; try discriminate. injection H as <- <-.
      destruct (IH r0 e2 r2 Hinv E2) as (bl & A & B & C & D & F).
      exists (XBlank c :: bl). unfold xdoc_toks in *. cbn [flat_map xblock_toks app map xblock_tree].
      split; [rewrite A; reflexivity|]. split; [rewrite B; reflexivity|]. split; [|split; assumption].
      cbn [blanks_wf]. rewrite Hc, C. reflexivity.
    + (* a comment line *)
      destruct Hinv as [[Hs|Hs] Hinv]; [discriminate|]. cbn [shape] in Hs.
      destruct s as [|c0 w]; [discriminate|]. apply andb_true_iff in Hs. destruct Hs as [H35 Hw]. apply N.eqb_eq in H35. subst c0.
      destruct r0 as [|[g s'] r'].
      * cbn [empty_line] in H. destruct f; cbn [skip_wsnl starts_blank cur] in H; injection H as <- <-;
          exists [XBComment w None]; repeat split; cbn; unfold xwf_comment; rewrite Hw; reflexivity.
      * cbn [lexinv2] in Hinv. destruct g; cbn [lnext] in Hinv; try contradiction.
        destruct Hinv as [Hs' Hinv]. destruct (shape_newline EOLN s' ltac:(discriminate) Hs') as (c & -> & Hc).
        cbn [empty_line] in H. destruct (skip_wsnl f r') as [[e2 r2]| | |] eqn:E2; try discriminate. injection H as <- <-.
        destruct (IH r' e2 r2 Hinv E2) as (bl & A & B & C & D & F).
        exists (XBComment w (Some c) :: bl). unfold xdoc_toks in *. cbn [flat_map xblock_toks xcomment_toks onl_toks app map xblock_tree telems fst snd].
        split; [rewrite A; reflexivity|]. split; [rewrite B; reflexivity|]. split; [|split; assumption].
        cbn [blanks_wf]. rewrite C, andb_true_r. unfold xwf_comment. rewrite Hw. exact Hc.
Qed.

(* ---- the whole token list ---- *)
Lemma parse_root_image fuel : forall ts e, lexinv2 LS ts -> parse_root fuel ts = Ok (e, 0) ->
  exists d, xwf_doc d = true /\ xdoc_toks d = ts /\ map xblock_tree d = e.
Proof.
  induction fuel as [|f IH]; intros ts e Hinv H.
  - destruct ts; [|discriminate]. injection H as <-. exists []. repeat split.
  - destruct ts as [|t0 ts0]; [injection H as <-; exists []; repeat split|].
    cbn [parse_root] in H. remember (t0 :: ts0) as ts eqn:Ets.
    destruct (skip_wsnl (length ts) ts) as [[e1 r1]| | |] eqn:E1; try discriminate.
    destruct (skip_wsnl_image _ ts e1 r1 Hinv E1) as (bl & A & B & C & D & F).
    destruct r1 as [|t1 r1'].
    + injection H as <-. exists bl. rewrite app_nil_r in A. split; [|split; [symmetry; exact A|symmetry; exact B]].
      rewrite <- (app_nil_r bl). apply xwf_doc_blanks; [exact C|reflexivity].
    + remember (t1 :: r1') as r1 eqn:Er1.
      destruct (parse_paragraph r1) as [[[e2 r2] n2]| | |] eqn:E2; try discriminate.
      destruct (parse_root f r2) as [[e3 n3]| | |] eqn:E3; try discriminate.
      injection H as <- Hs. assert (n2 = 0 /\ n3 = 0) by lia. destruct H as [-> ->]. clear Hs.
      unfold parse_paragraph in E2. destruct (pp_entries (length r1) r1) as [[[e2' r2'] n2']| | |] eqn:E2'; try discriminate.
      injection E2 as <- -> ->.
      destruct (pp_entries_image _ r1 e2' r2 D E2') as (its & A2 & B2 & C2 & He & D2).
      destruct (IH r2 e3 D2 E3) as (d3 & W3 & T3 & M3).
      (* the paragraph starts with a field *)
      assert (Hfirst : exists fl its', its = XField fl :: its').
      { destruct its as [|[fl|c nl] its'].
        - exfalso. cbn [flat_map app] in A2. subst r2. rewrite Er1 in He, F. unfold para_end in He.
          destruct t1 as [k1 s1]. cbn in He, F. destruct k1; try contradiction; discriminate.
        - exists fl, its'. reflexivity.
        - exfalso. rewrite A2 in F. discriminate. }
      destruct Hfirst as (fl & its' & ->).
      exists (bl ++ XPara fl its' :: d3). split; [|split].
      * apply xwf_doc_blanks.
        { rewrite Er1 in C. exact C. }
        cbn [xwf_doc]. rewrite W3, andb_true_r.
        rewrite <- T3, more_of_xdoc_toks in C2. cbn [xwf_items] in C2. rewrite C2. cbn [andb].
        unfold para_end in He. rewrite <- T3 in He. destruct d3 as [|b3 d4]; [reflexivity|].
        destruct b3 as [nl|c nl|f3 its3]; [reflexivity| |]; cbn in He; contradiction.
      * rewrite xdoc_toks_app, A. f_equal. unfold xdoc_toks at 1. cbn [flat_map xblock_toks]. fold (xdoc_toks d3). rewrite T3, A2.
        cbn [flat_map xitem_toks]. rewrite <- !app_assoc. reflexivity.
      * rewrite map_app, B. cbn [map xblock_tree]. rewrite M3, B2. reflexivity.
Qed.

(* ---------------------------------------------------------------- COMPLETENESS *)
Theorem parse_image_complete s t : from_str s = Ok t ->
  exists d, xwf_doc d = true /\ xrender d = s /\ xtree_of d = t.
Proof.
  intros H. unfold from_str, parse in H. destruct (lex s) as [ts| | |] eqn:El; try discriminate.
  destruct (parse_tokens ts) as [[t' n]| | |] eqn:Ep; try discriminate. destruct n; [|discriminate]. injection H as ->.
  unfold parse_tokens in Ep. destruct (parse_root (length ts) ts) as [[e n]| | |] eqn:Er; try discriminate. injection Ep as <- ->.
  destruct (parse_root_image _ ts e (lex_inv2 s ts El) Er) as (d & W & T & M).
  exists d. split; [exact W|]. split; [|unfold xtree_of; rewrite M; reflexivity].
  unfold xrender. rewrite T. exact (proj1 (lex_partition true s ts El)).
Qed.

(* ---------------------------------------------------------------- the image, as a predicate on trees *)
Theorem in_image_iff t : in_image t <-> exists s, from_str s = Ok t.
Proof.
  split.
  - intros (d & W & ->). exists (xrender d). exact (proj1 (proj2 (parse_image_accept d W))).
  - intros (s & H). destruct (parse_image_complete s t H) as (d & W & _ & E). exists d. split; [exact W|symmetry; exact E].
Qed.

(* the leaves of the tree of a layout are its tokens *)
Lemma leaves_node k cs : leaves (Node k cs) = flat_map leaves cs.
Proof. cbn [leaves]. induction cs as [|x r IH]; [reflexivity|]. cbn [flat_map]. rewrite IH. reflexivity. Qed.
Lemma leaves_telems ts : flat_map leaves (telems ts) = ts.
Proof. induction ts as [|[k s] r IH]; [reflexivity|]. cbn [telems map fst snd flat_map leaves app]. f_equal. exact IH. Qed.
Lemma leaves_xtree_of d : leaves (xtree_of d) = xdoc_toks d.
Proof.
  unfold xtree_of, xdoc_toks. rewrite leaves_node. induction d as [|b r IH]; [reflexivity|]. cbn [map flat_map]. rewrite IH. f_equal.
  destruct b as [nl|c nl|f its]; cbn [xblock_tree xblock_toks]; rewrite leaves_node.
  - reflexivity.
  - apply leaves_telems.
  - cbn [flat_map]. unfold xfield_tree. rewrite leaves_node, leaves_telems. f_equal.
    induction its as [|it r' IH']; [reflexivity|]. cbn [flat_map]. rewrite flat_map_app, IH'. f_equal.
    destruct it as [g|c nl]; cbn [xitem_elems xitem_toks flat_map].
    + unfold xfield_tree. rewrite leaves_node, leaves_telems, app_nil_r. reflexivity.
    + apply leaves_telems.
Qed.

(* the strict reader is the inverse of [text] on its image: the lexer gives back the leaves, the
   parser the tree (so the same content) *)
Theorem image_reread t : in_image t -> lex (text t) = Ok (leaves t) /\ from_str (text t) = Ok t.
Proof.
  intros (d & W & ->). destruct (parse_image_accept d W) as (A & B & C & _). rewrite C, leaves_xtree_of. split; assumption.
Qed.

(* Grammar.v's well-formed documents are among the layouts *)
Lemma xdoc_of_wf d : wf_doc d = true -> xwf_doc (xdoc_of d) = true.
Proof.
  assert (Hnl : forall b more, (b || negb more) = onl_ok (xnl_of b) more) by (intros [|] more; reflexivity).
  assert (Hf : forall f more, wf_field f more = true -> xwf_field (xfield_of f) more = true).
  { intros f more H. unfold wf_field in H. repeat (apply andb_true_iff in H; let W := fresh "W" in destruct H as [H W]).
    unfold xwf_field, xfield_of. cbn [x_name x_w0 x_w1 x_first x_cont x_nl]. rewrite H, W2, W1, <- Hnl, W. cbn [ws_ok forallb andb].
    rewrite andb_true_r. clear - W0. induction (f_cont f) as [|[i t] cs IH]; [reflexivity|]. cbn [forallb map] in *.
    apply andb_true_iff in W0. destruct W0 as [Hc Hcs]. rewrite (IH Hcs), andb_true_r. unfold cont_ok in Hc. unfold xcont_ok, xcont_of.
    cbn [xc_nl xc_ind xc_pay fst snd pay_ok]. apply andb_true_iff in Hc. destruct Hc as [Hc Ht]. apply andb_true_iff in Hc. destruct Hc as [Hi Hne].
    rewrite Hne, Ht. destruct i; [discriminate|]. cbn [nonempty]. rewrite Hi. reflexivity. }
  assert (Hits : forall its more, wf_items its more = true -> xwf_items (map xitem_of its) more = true).
  { induction its as [|it r IH]; intros more H; [reflexivity|]. cbn [wf_items] in H. apply andb_true_iff in H. destruct H as [H1 H2].
    cbn [map xwf_items]. rewrite (IH more H2), andb_true_r.
    assert (E : match map xitem_of r with [] => more | _ => true end = match r with [] => more | _ => true end) by (destruct r; reflexivity).
    rewrite E. destruct it as [f|c nl]; cbn [xitem_of]; [apply Hf, H1|]. unfold wf_comment in H1. unfold xwf_comment. rewrite <- Hnl. exact H1. }
  induction d as [|b r IH]; intros H; [reflexivity|]. cbn [wf_doc] in H. apply andb_true_iff in H. destruct H as [Hb Hr].
  cbn [xdoc_of map xwf_doc]. fold (xdoc_of r). rewrite (IH Hr), andb_true_r.
  assert (E : match xdoc_of r with [] => false | _ => true end = match r with [] => false | _ => true end) by (destruct r; reflexivity).
  rewrite E. destruct b as [|c nl|f its]; cbn [xblock_of].
  - reflexivity.
  - unfold wf_comment in Hb. unfold xwf_comment. rewrite <- Hnl. exact Hb.
  - apply andb_true_iff in Hb. destruct Hb as [Hb Hn]. apply andb_true_iff in Hb. destruct Hb as [Hfl Hit].
    rewrite (Hits its _ Hit), andb_true_r.
    assert (E2 : match map xitem_of its with [] => match r with [] => false | _ => true end | _ => true end
                 = match its with [] => match r with [] => false | _ => true end | _ => true end) by (destruct its; reflexivity).
    rewrite E2, (Hf f _ Hfl). cbn [andb]. destruct r as [|b2 r2]; [reflexivity|]. destruct b2; try discriminate. reflexivity.
Qed.

Lemma telems_map_conts cs : telems (flat_map xcont_toks (map xcont_of cs)) = flat_map cont_elems cs.
Proof. induction cs as [|[i t] r IH]; [reflexivity|]. cbn [map flat_map]. rewrite telems_app, IH. reflexivity. Qed.
Lemma tstr_map_conts cs : tstr (flat_map xcont_toks (map xcont_of cs)) = flat_map cont_text cs.
Proof. induction cs as [|[i t] r IH]; [reflexivity|]. cbn [map flat_map]. rewrite tstr_app, IH. unfold xcont_of, cont_text. cbn. rewrite app_nil_r. reflexivity. Qed.
Lemma xfield_of_tree f : xfield_tree (xfield_of f) = field_tree f.
Proof.
  unfold xfield_tree, field_tree, xfield_toks, xfield_of. cbn [x_name x_w0 x_w1 x_first x_cont x_nl opt_tok app].
  repeat (rewrite telems_cons || rewrite telems_app). rewrite !telems_opt, telems_map_conts. destruct (f_nl f); reflexivity.
Qed.
Lemma xfield_of_text f : tstr (xfield_toks (xfield_of f)) = field_text f.
Proof.
  unfold field_text, xfield_toks, xfield_of. cbn [x_name x_w0 x_w1 x_first x_cont x_nl opt_tok app].
  rewrite tstr_cons, tstr_cons, !tstr_app, !tstr_opt, tstr_map_conts. cbn [app]. destruct (f_nl f); cbn; rewrite ?app_nil_r; reflexivity.
Qed.
Lemma xitems_of_elems its : flat_map xitem_elems (map xitem_of its) = flat_map item_elems its.
Proof.
  induction its as [|it r IH]; [reflexivity|]. cbn [map flat_map]. rewrite IH. f_equal. destruct it as [f|c nl]; cbn [xitem_of xitem_elems item_elems].
  - rewrite xfield_of_tree. reflexivity.
  - destruct nl; reflexivity.
Qed.
Lemma xitems_of_text its : tstr (flat_map xitem_toks (map xitem_of its)) = flat_map item_text its.
Proof.
  induction its as [|it r IH]; [reflexivity|]. cbn [map flat_map]. rewrite tstr_app, IH. f_equal. destruct it as [f|c nl]; cbn [xitem_of xitem_toks item_text].
  - apply xfield_of_text.
  - unfold xcomment_toks, comment_text. destruct nl; cbn; rewrite ?app_nil_r; reflexivity.
Qed.

(* C03's documents: the same text, the same tree, well-formed as layouts *)
Theorem grammar_in_image d : wf_doc d = true ->
  xwf_doc (xdoc_of d) = true /\ xrender (xdoc_of d) = render d /\ xtree_of (xdoc_of d) = tree_of d.
Proof.
  intros H. split; [apply xdoc_of_wf, H|]. clear H. split.
  - unfold xrender, render, xdoc_toks, xdoc_of. induction d as [|b r IH]; [reflexivity|]. cbn [map flat_map]. rewrite tstr_app, IH. f_equal.
    destruct b as [|c nl|f its]; cbn [xblock_of xblock_toks block_text].
    + reflexivity.
    + unfold xcomment_toks, comment_text. destruct nl; cbn; rewrite ?app_nil_r; reflexivity.
    + rewrite tstr_app, xfield_of_text, xitems_of_text. reflexivity.
  - unfold xtree_of, tree_of, xdoc_of. f_equal. rewrite map_map. apply map_ext. intros b.
    destruct b as [|c nl|f its]; cbn [xblock_of xblock_tree block_tree].
    + reflexivity.
    + destruct nl; reflexivity.
    + rewrite xfield_of_tree, xitems_of_elems. reflexivity.
Qed.
