(* The image of the strict reader.

   XGrammar.v describes layouts [d : xdoc]: Grammar.v's documents plus every layout choice the
   reader tolerates (LF or CR after every line, blanks before the colon, comment lines and
   empty lines inside a value, values that begin on a continuation line).  This file proves
   that the trees [xtree_of d] of the well-formed ones are EXACTLY what Deb822Parse.from_str
   returns:

     parse_image_accept    xwf_doc d = true -> lex (xrender d) = Ok (xdoc_toks d) /\
                           from_str (xrender d) = Ok (xtree_of d) /\ text (xtree_of d) = xrender d /\
                           doc_items (xtree_of d) = xcontent d
     parse_image_complete  from_str s = Ok t -> exists d, xwf_doc d = true /\ xrender d = s /\ xtree_of d = t

   so the strict reader is the inverse of [text] on its own image ([in_image], [image_reread]),
   and a tree built by other means is shown to be readable by exhibiting its layout.
   (C03_accept_all is the special case of Grammar.v's layouts: xdoc_of.) *)
From V.model Require Import Base Deb822Lex Deb822Parse Grammar XGrammar.
From V.proofs Require Import BaseP Deb822LexP Deb822ParseP GrammarLexP GrammarParseP GrammarAccP LexInvP.
Set Default Timeout 60.

(* ---------------------------------------------------------------- texts *)
Lemma tstr_ttext ts : tstr ts = ttext ts.
Proof. reflexivity. Qed.
Lemma tstr_cons k s r : tstr ((k, s) :: r) = s ++ tstr r.
Proof. reflexivity. Qed.
Lemma tstr_app a b : tstr (a ++ b) = tstr a ++ tstr b.
Proof. unfold tstr. rewrite map_app, concat_app. reflexivity. Qed.
Lemma tstr_opt k s : tstr (opt_tok k s) = s.
Proof. destruct s; [reflexivity|]. cbn. rewrite app_nil_r. reflexivity. Qed.
Lemma tstr_nil : tstr [] = [].
Proof. reflexivity. Qed.

Lemma texts_telems ts : texts (telems ts) = tstr ts.
Proof.
  induction ts as [|[k s] r IH]; [reflexivity|]. cbn [telems map fst snd]. rewrite texts_cons, text_tok, tstr_cons.
  f_equal. exact IH.
Qed.
Lemma telems_app a b : telems (a ++ b) = telems a ++ telems b.
Proof. apply map_app. Qed.
Lemma telems_cons k s r : telems ((k, s) :: r) = Tok k s :: telems r.
Proof. reflexivity. Qed.
Lemma telems_opt k s : telems (opt_tok k s) = opt_elem k s.
Proof. destruct s; reflexivity. Qed.

(* ---------------------------------------------------------------- the lexer: lines that end with LF or CR *)
Definition at_eol' (rest : str) : Prop := match rest with [] => True | x :: _ => is_newline x = true end.

Lemma at_eol'_stops_noeol rest : at_eol' rest -> stops (fun x => negb (is_newline x)) rest.
Proof. destruct rest as [|x r]; [trivial|]. cbn. intros ->. reflexivity. Qed.
Lemma newline_not_indent x : is_newline x = true -> is_indent x = false.
Proof.
  unfold is_newline, is_indent. intros H. apply orb_true_iff in H. destruct H as [H|H]; apply N.eqb_eq in H; subst; reflexivity.
Qed.
Lemma newline_not_key x : is_newline x = true -> is_valid_key_char x = false.
Proof.
  unfold is_newline. intros H. apply orb_true_iff in H. destruct H as [H|H]; apply N.eqb_eq in H; subst; reflexivity.
Qed.
Lemma newline_not_colon x : is_newline x = true -> (x =? 58)%N = false.
Proof.
  unfold is_newline. intros H. apply orb_true_iff in H. destruct H as [H|H]; apply N.eqb_eq in H; subst; reflexivity.
Qed.
Lemma indent_not_newline x : is_indent x = true -> is_newline x = false.
Proof.
  unfold is_indent. intros H. apply orb_true_iff in H. destruct H as [H|H]; apply N.eqb_eq in H; subst; reflexivity.
Qed.
Lemma indent_not_colon x : is_indent x = true -> (x =? 58)%N = false.
Proof.
  unfold is_indent. intros H. apply orb_true_iff in H. destruct H as [H|H]; apply N.eqb_eq in H; subst; reflexivity.
Qed.
Lemma indent_not_key x : is_indent x = true -> is_valid_key_char x = false.
Proof.
  unfold is_indent. intros H. apply orb_true_iff in H. destruct H as [H|H]; apply N.eqb_eq in H; subst; reflexivity.
Qed.
Lemma at_eol'_stops_indent rest : at_eol' rest -> stops is_indent rest.
Proof. destruct rest as [|x r]; [trivial|]. cbn. apply newline_not_indent. Qed.

(* NEWLINE (LF or CR) from any state *)
Lemma lexf_newline st c rest ts : is_newline c = true ->
  lexf st_init rest = Ok ts -> lexf st (c :: rest) = Ok ((NEWLINE, [c]) :: ts).
Proof.
  intros Hc Hr. rewrite lexf_cons. unfold lex_step. rewrite (newline_not_colon c Hc), Hc. cbn [andb]. fold st_init. rewrite Hr. reflexivity.
Qed.

(* an optional final newline character *)
Lemma lexf_onl st o rest ts : match o with Some c => is_newline c = true | None => rest = [] end ->
  lexf st_init rest = Ok ts -> lexf st (tstr (onl_toks o) ++ rest) = Ok (onl_toks o ++ ts).
Proof.
  intros Ho Hr. destruct o as [c|]; cbn [onl_toks].
  - rewrite tstr_cons, tstr_nil. cbn [app]. apply lexf_newline; assumption.
  - subst rest. rewrite lexf_nil in Hr. cbn [tstr map concat app]. rewrite lexf_nil. exact Hr.
Qed.

(* a VALUE token *)
Lemma lexf_value' st t rest ts :
  value_state st -> no_eol t = true ->
  match t with x :: _ => is_indent x = false /\ (st = st_ind -> (x =? 35)%N = false) | [] => True end ->
  at_eol' rest ->
  lexf st rest = Ok ts -> lexf st (t ++ rest) = Ok (opt_tok VALUE t ++ ts).
Proof.
  intros Hst Hne Hx Hs Hr. destruct t as [|c w]; [exact Hr|]. destruct Hx as [Hin H35].
  cbn [no_eol forallb] in Hne. apply andb_true_iff in Hne. destruct Hne as [Hc Hw].
  apply negb_true_iff in Hc. cbn [app opt_tok].
  pose proof (span_app_stop _ w rest Hw (at_eol'_stops_noeol _ Hs)) as Hsp.
  destruct Hst as [-> | ->]; rewrite lexf_cons; unfold lex_step; cbn [sol colon ind st_val st_ind negb andb orb].
  - rewrite andb_false_r, Hc, Hin. rewrite !andb_false_r. cbn [andb orb]. rewrite Hsp. cbv beta iota. rewrite Hr. reflexivity.
  - rewrite andb_false_r, Hc, Hin, (H35 eq_refl). cbn [andb]. rewrite !andb_false_r. cbn [andb orb].
    rewrite Hsp. cbv beta iota. rewrite Hr. reflexivity.
Qed.

(* a COMMENT token, at the start of a line or after the indentation of a continuation line *)
Lemma lexf_comment' st c rest ts :
  st = st_init \/ st = st_ind -> no_eol c = true -> at_eol' rest ->
  lexf st rest = Ok ts -> lexf st (35%N :: c ++ rest) = Ok ((COMMENT, 35%N :: c) :: ts).
Proof.
  intros Hst Hc Hs Hr. rewrite lexf_cons. unfold lex_step.
  destruct Hst as [-> | ->]; cbn; rewrite (span_app_stop _ c rest Hc (at_eol'_stops_noeol _ Hs)).
  - fold st_init. rewrite Hr. reflexivity.
  - fold st_ind. rewrite Hr. reflexivity.
Qed.

(* blanks between the name and the colon *)
Lemma lexf_ws_key ws rest ts :
  ws_ok ws = true -> stops is_indent rest ->
  lexf st_key rest = Ok ts -> lexf st_key (ws ++ rest) = Ok (opt_tok WHITESPACE ws ++ ts).
Proof.
  intros Hw Hs Hr. destruct ws as [|c w]; [exact Hr|]. cbn [ws_ok forallb] in Hw.
  apply andb_true_iff in Hw. destruct Hw as [Hc Hw]. cbn [app opt_tok]. rewrite lexf_cons. unfold lex_step.
  cbn [sol colon ind st_key negb andb orb].
  rewrite (indent_not_colon c Hc), (indent_not_newline c Hc), Hc. cbn [andb].
  rewrite (span_app_stop _ w rest Hw Hs). cbv beta iota. rewrite Hr. reflexivity.
Qed.

(* blanks after the colon (lexf_ws), before a value or a line end *)

(* ---- what follows the first line of a field ---- *)
Definition xtail (cs : list xcont) (o : option N) : list token := flat_map xcont_toks cs ++ onl_toks o.
Definition onl_good (o : option N) (rest : str) : Prop :=
  match o with Some c => is_newline c = true | None => rest = [] end.

Lemma onl_ok_good o more rest : onl_ok o more = true -> (more = false -> rest = []) -> onl_good o rest.
Proof.
  destruct o as [c|]; cbn; [trivial|]. intros H Hm. apply negb_true_iff in H. exact (Hm H).
Qed.

Lemma xtail_cons c cs o :
  xtail (c :: cs) o = (NEWLINE, [xc_nl c]) :: (INDENT, xc_ind c) :: pay_toks (xc_pay c) ++ xtail cs o.
Proof. unfold xtail. cbn [flat_map xcont_toks app]. rewrite <- app_assoc. reflexivity. Qed.

Lemma xtail_at_eol cs o rest : forallb xcont_ok cs = true -> onl_good o rest -> at_eol' (tstr (xtail cs o) ++ rest).
Proof.
  intros Hcs Ho. unfold xtail. destruct cs as [|c cs]; cbn [flat_map app].
  - destruct o as [x|]; cbn in *; [exact Ho|]. subst rest. exact I.
  - cbn [forallb] in Hcs. apply andb_true_iff in Hcs. destruct Hcs as [Hc _]. unfold xcont_ok in Hc.
    repeat (apply andb_true_iff in Hc; destruct Hc as [Hc ?]). unfold xcont_toks. cbn. exact Hc.
Qed.

Lemma pay_ok_stops p X : pay_ok p = true -> at_eol' X -> stops is_indent (tstr (pay_toks p) ++ X).
Proof.
  intros Hp HX. destruct p as [t|c|]; cbn [pay_toks].
  - cbn [pay_ok] in Hp. apply andb_true_iff in Hp. destruct Hp as [_ Hp]. destruct t as [|x t]; [discriminate|].
    apply andb_true_iff in Hp. destruct Hp as [Hp _]. apply negb_true_iff in Hp. cbn. exact Hp.
  - cbn. reflexivity.
  - cbn [tstr map concat app]. apply at_eol'_stops_indent, HX.
Qed.

Lemma lexf_xtail cs : forall st o rest ts,
  forallb xcont_ok cs = true -> onl_good o rest ->
  lexf st_init rest = Ok ts ->
  lexf st (tstr (xtail cs o) ++ rest) = Ok (xtail cs o ++ ts).
Proof.
  induction cs as [|c cs IH]; intros st o rest ts Hcs Ho Hr.
  - unfold xtail. cbn [flat_map app]. apply lexf_onl; assumption.
  - pose proof (xtail_at_eol cs o rest) as Hte.
    cbn [forallb] in Hcs. apply andb_true_iff in Hcs. destruct Hcs as [Hc Hcs]. specialize (Hte Hcs Ho).
    unfold xcont_ok in Hc. apply andb_true_iff in Hc. destruct Hc as [Hc Hp]. apply andb_true_iff in Hc. destruct Hc as [Hc Hiw].
    apply andb_true_iff in Hc. destruct Hc as [Hnl Hine].
    rewrite xtail_cons.
    rewrite !tstr_cons, tstr_app. cbn [app]. rewrite <- !app_assoc. cbn [app].
    apply lexf_newline; [exact Hnl|].
    apply lexf_indent; [destruct (xc_ind c); [discriminate|congruence]|exact Hiw|apply pay_ok_stops; assumption|].
    destruct (xc_pay c) as [t|cm|]; cbn [pay_toks].
    + rewrite tstr_cons, tstr_nil, app_nil_r. cbn [pay_ok] in Hp. apply andb_true_iff in Hp. destruct Hp as [Hne Hx].
      change ((VALUE, t) :: xtail cs o ++ ts) with (opt_tok VALUE t ++ xtail cs o ++ ts) || idtac.
      destruct t as [|x t']; [discriminate|].
      apply andb_true_iff in Hx. destruct Hx as [Hx1 Hx2]. apply negb_true_iff in Hx1. apply negb_true_iff in Hx2.
      apply (lexf_value' st_ind (x :: t') (tstr (xtail cs o) ++ rest) (xtail cs o ++ ts)).
      * right; reflexivity.
      * exact Hne.
      * split; [exact Hx1|intros _; exact Hx2].
      * exact Hte.
      * apply IH; assumption.
    + rewrite tstr_cons, tstr_nil, app_nil_r. cbn [pay_ok] in Hp. cbn [app].
      apply lexf_comment'; [right; reflexivity|exact Hp|exact Hte|]. apply IH; assumption.
    + cbn [tstr map concat app]. apply IH; assumption.
Qed.

Lemma xfield_toks_text f rest :
  tstr (xfield_toks f) ++ rest =
  x_name f ++ x_w0 f ++ 58%N :: x_w1 f ++ x_first f ++ tstr (xtail (x_cont f) (x_nl f)) ++ rest.
Proof.
  unfold xfield_toks. rewrite tstr_cons, tstr_app, tstr_opt, tstr_cons, tstr_app, tstr_opt, tstr_app, tstr_opt.
  fold (xtail (x_cont f) (x_nl f)). rewrite <- ?app_assoc. cbn [app]. rewrite <- ?app_assoc. reflexivity.
Qed.

Lemma lexf_xfield f more rest ts :
  xwf_field f more = true -> (more = false -> rest = []) ->
  lexf st_init rest = Ok ts -> lexf st_init (tstr (xfield_toks f) ++ rest) = Ok (xfield_toks f ++ ts).
Proof.
  intros Hwf Hm Hr. unfold xwf_field in Hwf.
  repeat (apply andb_true_iff in Hwf; let H := fresh "W" in destruct Hwf as [Hwf H]).
  pose proof (onl_ok_good _ _ rest W Hm) as Ho.
  pose proof (xtail_at_eol (x_cont f) (x_nl f) rest W0 Ho) as Hte.
  rewrite xfield_toks_text. unfold xfield_toks. fold (xtail (x_cont f) (x_nl f)). rewrite <- ?app_assoc. cbn [app]. rewrite <- ?app_assoc.
  apply lexf_key; [exact Hwf| |].
  { destruct (x_w0 f) as [|x w]; cbn [app stops]; [reflexivity|]. cbn [ws_ok forallb] in W3.
    apply andb_true_iff in W3. destruct W3 as [W3 _]. apply indent_not_key, W3. }
  apply lexf_ws_key; [exact W3|reflexivity|]. cbn [app]. rewrite <- ?app_assoc.
  apply lexf_colon.
  unfold first_ok in W1. apply andb_true_iff in W1. destruct W1 as [F1 F2].
  apply lexf_ws; [exact W2| |].
  { destruct (x_first f) as [|x t]; cbn [app]; [apply at_eol'_stops_indent; exact Hte|].
    cbn. apply negb_true_iff in F2. exact F2. }
  apply lexf_value'; [left; reflexivity|exact F1| |exact Hte|].
  { destruct (x_first f) as [|x t]; [exact I|]. apply negb_true_iff in F2. split; [exact F2|discriminate]. }
  apply lexf_xtail; assumption.
Qed.

Lemma lexf_xcomment c nl more rest ts :
  xwf_comment c nl more = true -> (more = false -> rest = []) ->
  lexf st_init rest = Ok ts -> lexf st_init (tstr (xcomment_toks c nl) ++ rest) = Ok (xcomment_toks c nl ++ ts).
Proof.
  intros Hwf Hm Hr. unfold xwf_comment in Hwf. apply andb_true_iff in Hwf. destruct Hwf as [Hc Hn].
  pose proof (onl_ok_good _ _ rest Hn Hm) as Ho.
  unfold xcomment_toks. rewrite tstr_cons. cbn [app]. rewrite <- app_assoc.
  apply lexf_comment'; [left; reflexivity|exact Hc| |].
  - apply (xtail_at_eol [] nl rest eq_refl Ho).
  - apply lexf_onl; assumption.
Qed.

Lemma lexf_xitems its more rest ts :
  xwf_items its more = true -> (more = false -> rest = []) ->
  lexf st_init rest = Ok ts ->
  lexf st_init (tstr (flat_map xitem_toks its) ++ rest) = Ok (flat_map xitem_toks its ++ ts).
Proof.
  revert rest ts. induction its as [|it r IH]; intros rest ts Hwf Hm Hr; [exact Hr|].
  cbn [xwf_items] in Hwf. apply andb_true_iff in Hwf. destruct Hwf as [Hit Hr'].
  cbn [flat_map]. rewrite tstr_app, <- !app_assoc.
  assert (Hm' : (match r with [] => more | _ => true end) = false -> tstr (flat_map xitem_toks r) ++ rest = []).
  { destruct r; [intros E; rewrite (Hm E); reflexivity|discriminate]. }
  specialize (IH rest ts Hr' Hm Hr).
  destruct it as [f|c nl]; cbn [xitem_toks].
  - eapply lexf_xfield; eassumption.
  - eapply lexf_xcomment; eassumption.
Qed.

Theorem lexf_xdoc d : xwf_doc d = true -> lexf st_init (tstr (xdoc_toks d)) = Ok (xdoc_toks d).
Proof.
  induction d as [|b r IH]; intros Hwf; [reflexivity|].
  cbn [xwf_doc] in Hwf. apply andb_true_iff in Hwf. destruct Hwf as [Hb Hr].
  specialize (IH Hr). unfold xdoc_toks in *. cbn [flat_map]. rewrite tstr_app.
  assert (Hm : (match r with [] => false | _ => true end) = false -> tstr (flat_map xblock_toks r) = []).
  { destruct r; [reflexivity|discriminate]. }
  destruct b as [nl|c nl|f its]; cbn [xblock_toks].
  - rewrite tstr_cons, tstr_nil. cbn [app]. apply lexf_newline; [exact Hb|exact IH].
  - eapply lexf_xcomment; eassumption.
  - apply andb_true_iff in Hb. destruct Hb as [Hb _]. apply andb_true_iff in Hb. destruct Hb as [Hf Hits].
    rewrite tstr_app, <- !app_assoc.
    eapply lexf_xfield; [exact Hf| |].
    + destruct its; [exact (fun E => ltac:(rewrite (Hm E); reflexivity))|discriminate].
    + eapply lexf_xitems; eassumption.
Qed.

Theorem lex_xrender d : xwf_doc d = true -> lex (xrender d) = Ok (xdoc_toks d).
Proof. intros H. rewrite lex_is_lexf. apply lexf_xdoc. exact H. Qed.

(* ---------------------------------------------------------------- the parser *)
Definition all_kind (k : kind) (ts : list token) : bool := forallb (fun t => kind_eqb (fst t) k) ts.

Lemma bump_while_all p k vs X : p k = true -> all_kind k vs = true ->
  match X with [] => True | (k', _) :: _ => p k' = false end ->
  bump_while p (vs ++ X) = (telems vs, X).
Proof.
  intros Hk Hvs HX. induction vs as [|[k' s] r IH]; cbn [app].
  - apply bump_while_stop. exact HX.
  - cbn [all_kind forallb fst] in Hvs. apply andb_true_iff in Hvs. destruct Hvs as [Hk' Hr].
    assert (k' = k) by (destruct k', k; try discriminate; reflexivity). subst k'.
    cbn [bump_while]. rewrite Hk, (IH Hr). reflexivity.
Qed.

Lemma all_kind_opt k s : all_kind k (opt_tok k s) = true.
Proof. destruct s; [reflexivity|]. cbn. destruct k; reflexivity. Qed.

Lemma xtail_head cs o rest : (o = None -> rest = []) ->
  match xtail cs o ++ rest with [] => True | (k, _) :: _ => k = NEWLINE end.
Proof.
  intros Ho. destruct cs as [|c cs]; [|rewrite xtail_cons; reflexivity].
  unfold xtail. cbn [flat_map app]. destruct o; cbn; [reflexivity|]. rewrite (Ho eq_refl). exact I.
Qed.

Lemma xtail_len cs o : length cs <= length (xtail cs o).
Proof.
  induction cs as [|c cs IH]; [cbn; lia|]. rewrite xtail_cons. cbn [length]. rewrite app_length. lia.
Qed.

Lemma pe_lines_xtail cs : forall fuel vs o rest,
  length cs < fuel -> all_kind VALUE vs = true -> (o = None -> rest = []) -> cur rest <> Some INDENT ->
  pe_lines fuel (vs ++ xtail cs o ++ rest) = Ok (telems (vs ++ xtail cs o), rest, 0).
Proof.
  induction cs as [|c cs IH]; intros fuel vs o rest Hf Hvs Ho Hi;
    (destruct fuel as [|f]; [cbn in Hf; lia|]); cbn [pe_lines].
  - rewrite (bump_while_all is_ws_or_value VALUE vs (xtail [] o ++ rest) eq_refl Hvs).
    2:{ pose proof (xtail_head [] o rest Ho) as H. destruct (xtail [] o ++ rest) as [|[k s] r]; [exact I|]. subst k. reflexivity. }
    unfold xtail. cbn [flat_map app]. destruct o as [x|]; cbn [onl_toks app].
    + rewrite telems_app. destruct rest as [|[k s] r]; [reflexivity|]. destruct k; try reflexivity. cbn in Hi. congruence.
    + rewrite (Ho eq_refl), !app_nil_r. reflexivity.
  - rewrite (bump_while_all is_ws_or_value VALUE vs (xtail (c :: cs) o ++ rest) eq_refl Hvs); [|rewrite xtail_cons; reflexivity].
    rewrite xtail_cons. cbn [app]. rewrite <- app_assoc.
    pose proof (xtail_head cs o rest Ho) as Hh.
    assert (E : forall vs', all_kind VALUE vs' = true ->
              pe_lines f (vs' ++ xtail cs o ++ rest) = Ok (telems (vs' ++ xtail cs o), rest, 0))
      by (intros vs' Hv'; apply IH; [cbn in Hf; lia|exact Hv'|exact Ho|exact Hi]).
    destruct (xc_pay c) as [t|cm|]; cbn [pay_toks app].
    + unfold skip_ws. cbn [bump_while is_ws_or_comment].
      change ((VALUE, t) :: xtail cs o ++ rest) with ([(VALUE, t)] ++ xtail cs o ++ rest). rewrite (E [(VALUE, t)] eq_refl).
      rewrite !telems_app. cbn [telems map fst snd app Nat.add]. rewrite <- ?app_assoc. reflexivity.
    + unfold skip_ws. cbn [bump_while is_ws_or_comment].
      rewrite (bump_while_stop is_ws_or_comment (xtail cs o ++ rest)).
      2:{ destruct (xtail cs o ++ rest) as [|[k s] r]; [exact I|]. subst k. reflexivity. }
      rewrite (E [] eq_refl : pe_lines f (xtail cs o ++ rest) = _). rewrite !telems_app. cbn [telems map fst snd app Nat.add]. rewrite <- ?app_assoc. reflexivity.
    + unfold skip_ws.
      rewrite (bump_while_stop is_ws_or_comment (xtail cs o ++ rest)).
      2:{ destruct (xtail cs o ++ rest) as [|[k s] r]; [exact I|]. subst k. reflexivity. }
      rewrite (E [] eq_refl : pe_lines f (xtail cs o ++ rest) = _). rewrite !telems_app. cbn [telems map fst snd app Nat.add]. rewrite <- ?app_assoc. reflexivity.
Qed.

(* parse_entry on the tokens of one field *)
Lemma parse_entry_xfield f more rest :
  xwf_field f more = true -> (more = false -> rest = []) -> cur rest <> Some INDENT ->
  parse_entry (xfield_toks f ++ rest) = Ok ([xfield_tree f], rest, 0).
Proof.
  intros Hwf Hm Hi. unfold xwf_field in Hwf.
  repeat (apply andb_true_iff in Hwf; let H := fresh "W" in destruct Hwf as [Hwf H]).
  assert (Hb : x_nl f = None -> rest = []).
  { intros E. rewrite E in W. cbn in W. apply negb_true_iff in W. exact (Hm W). }
  unfold parse_entry, xfield_toks. fold (xtail (x_cont f) (x_nl f)). cbn [app pe_comments cur].
  cbn [pe_expect kind_eqb kind_code N.eqb Pos.eqb].
  rewrite <- !app_assoc. cbn [app]. rewrite <- ?app_assoc.
  unfold skip_ws.
  rewrite (bump_while_all is_ws_or_comment WHITESPACE (opt_tok WHITESPACE (x_w0 f)) _ eq_refl (all_kind_opt _ _)); [|reflexivity].
  cbn [pe_expect kind_eqb kind_code N.eqb Pos.eqb]. unfold skip_ws.
  pose proof (xtail_head (x_cont f) (x_nl f) rest Hb) as Hh.
  rewrite (bump_while_all is_ws_or_comment WHITESPACE (opt_tok WHITESPACE (x_w1 f)) _ eq_refl (all_kind_opt _ _)).
  2:{ destruct (x_first f) as [|x t]; cbn [opt_tok app]; [|reflexivity].
      destruct (xtail (x_cont f) (x_nl f) ++ rest) as [|[k s] r]; [exact I|]. subst k. reflexivity. }
  rewrite pe_lines_xtail.
  - unfold xfield_tree, xfield_toks. fold (xtail (x_cont f) (x_nl f)). cbn [app Nat.add].
    repeat (rewrite telems_cons || rewrite telems_app). cbn [app]. rewrite <- ?app_assoc. reflexivity.
  - pose proof (xtail_len (x_cont f) (x_nl f)) as HL. rewrite !app_length. lia.
  - apply all_kind_opt.
  - exact Hb.
  - exact Hi.
Qed.

Lemma xitems_starts_line its rest : starts_line rest -> starts_line (flat_map xitem_toks its ++ rest).
Proof.
  intros H. destruct its as [|it r]; [exact H|]. cbn [flat_map].
  destruct it as [f|c nl]; cbn; [left; reflexivity|right; left; reflexivity].
Qed.

Lemma pp_xitems its : forall fuel more rest,
  length its <= fuel -> xwf_items its more = true -> (more = false -> rest = []) -> para_end rest ->
  pp_entries fuel (flat_map xitem_toks its ++ rest) = Ok (flat_map xitem_elems its, rest, 0).
Proof.
  induction its as [|it r IH]; intros fuel more rest Hf Hwf Hm He.
  - cbn [flat_map app]. unfold para_end in He. destruct fuel; cbn [pp_entries];
      destruct (cur rest) as [k|]; try reflexivity; destruct k; try contradiction; reflexivity.
  - destruct fuel as [|f]; [cbn in Hf; lia|].
    cbn [xwf_items] in Hwf. apply andb_true_iff in Hwf. destruct Hwf as [Hit Hr].
    cbn [flat_map]. rewrite <- app_assoc.
    assert (Hm' : (match r with [] => more | _ => true end) = false -> flat_map xitem_toks r ++ rest = []).
    { destruct r; [intros E; rewrite (Hm E); reflexivity|discriminate]. }
    assert (Hsl : starts_line (flat_map xitem_toks r ++ rest)) by (apply xitems_starts_line, para_end_starts_line, He).
    destruct it as [fl|c nl]; cbn [xitem_toks xitem_elems].
    + assert (Ec : cur (xfield_toks fl ++ flat_map xitem_toks r ++ rest) = Some KEY) by reflexivity.
      cbn [pp_entries]. rewrite Ec.
      rewrite (parse_entry_xfield fl _ _ Hit Hm' (starts_line_not_indent _ Hsl)).
      rewrite (IH f more rest); [reflexivity|cbn in Hf; lia|exact Hr|exact Hm|exact He].
    + unfold xwf_comment in Hit. apply andb_true_iff in Hit. destruct Hit as [Hc Hn].
      destruct nl as [x|].
      * unfold xcomment_toks. cbn [onl_toks telems map fst snd app].
        rewrite pp_entries_comment. rewrite (IH (S f) more rest); [reflexivity|cbn in Hf; lia|exact Hr|exact Hm|exact He].
      * cbn in Hn. apply negb_true_iff in Hn. specialize (Hm' Hn).
        unfold xcomment_toks. cbn [onl_toks telems map fst snd app]. rewrite Hm'.
        apply app_eq_nil in Hm'. destruct Hm' as [Hr0 Hrest]. subst rest.
        destruct r; [|destruct x; discriminate].
        cbn [pp_entries cur parse_entry pe_comments flat_map]. destruct f; reflexivity.
Qed.

Lemma xfield_toks_nonempty f : xfield_toks f <> [].
Proof. unfold xfield_toks. discriminate. Qed.

Lemma xitems_len its : length its <= length (flat_map xitem_toks its).
Proof.
  induction its as [|it r IH]; cbn [flat_map length]; [lia|]. rewrite app_length.
  destruct it as [f|c nl]; cbn; lia.
Qed.

Lemma parse_paragraph_xpara f its more rest :
  xwf_field f (match its with [] => more | _ => true end) = true -> xwf_items its more = true ->
  (more = false -> rest = []) -> para_end rest ->
  parse_paragraph (xfield_toks f ++ flat_map xitem_toks its ++ rest) =
  Ok ([Node PARAGRAPH (xfield_tree f :: flat_map xitem_elems its)], rest, 0).
Proof.
  intros Hf Hits Hm He. unfold parse_paragraph.
  assert (E : xfield_toks f ++ flat_map xitem_toks its ++ rest = flat_map xitem_toks (XField f :: its) ++ rest).
  { cbn [flat_map xitem_toks]. rewrite <- app_assoc. reflexivity. }
  rewrite E. rewrite (pp_xitems (XField f :: its) _ more rest).
  - reflexivity.
  - pose proof (xitems_len (XField f :: its)). rewrite app_length. lia.
  - cbn [xwf_items]. rewrite Hf, Hits. reflexivity.
  - exact Hm.
  - exact He.
Qed.

(* ---- blank / comment blocks at the top level ---- *)
Definition xblankish (b : xblock) : bool := match b with XPara _ _ => false | _ => true end.

Fixpoint xblanks_ok (l : list xblock) (rest : list token) : Prop :=
  match l with
  | [] => True
  | XBComment _ None :: r => r = [] /\ rest = []
  | _ :: r => xblanks_ok r rest
  end.

Lemma skip_wsnl_xblanks bs : forall fuel rest,
  length bs <= fuel -> forallb xblankish bs = true -> xblanks_ok bs rest ->
  starts_blank rest = false ->
  skip_wsnl fuel (flat_map xblock_toks bs ++ rest) = Ok (map xblock_tree bs, rest).
Proof.
  induction bs as [|b r IH]; intros fuel rest Hf Hbl Hok Hsb.
  - cbn [flat_map app map]. destruct fuel; cbn [skip_wsnl]; rewrite Hsb; reflexivity.
  - destruct fuel as [|f]; [cbn in Hf; lia|].
    cbn [forallb] in Hbl. apply andb_true_iff in Hbl. destruct Hbl as [Hb Hbl].
    cbn [flat_map map]. rewrite <- app_assoc.
    destruct b as [nl|c nl|fl its]; [| |discriminate].
    + cbn [xblock_toks xblock_tree app skip_wsnl starts_blank cur empty_line].
      rewrite (IH f rest); [reflexivity|cbn in Hf; lia|exact Hbl|exact Hok|exact Hsb].
    + destruct nl as [x|].
      * cbn [xblock_toks xblock_tree xcomment_toks onl_toks telems map fst snd app skip_wsnl starts_blank cur empty_line].
        rewrite (IH f rest); [reflexivity|cbn in Hf; lia|exact Hbl|exact Hok|exact Hsb].
      * destruct Hok as [-> ->].
        cbn [xblock_toks xblock_tree xcomment_toks onl_toks telems fst snd app flat_map map skip_wsnl starts_blank cur empty_line].
        destruct f; reflexivity.
Qed.

Lemma xwf_doc_tail b r : xwf_doc (b :: r) = true -> xwf_doc r = true.
Proof. cbn [xwf_doc]. intros H. apply andb_true_iff in H. apply H. Qed.

Lemma xwf_doc_suffix a b : xwf_doc (a ++ b) = true -> xwf_doc b = true.
Proof. induction a as [|x a IH]; [trivial|]. cbn [app]. intros H. apply IH. eapply xwf_doc_tail. exact H. Qed.

Lemma xdoc_toks_app a b : xdoc_toks (a ++ b) = xdoc_toks a ++ xdoc_toks b.
Proof. unfold xdoc_toks. apply flat_map_app. Qed.

Lemma xblock_toks_nonempty b : xblock_toks b <> [].
Proof. destruct b as [nl|c nl|f its]; cbn; discriminate. Qed.

Lemma xdoc_len d : length d <= length (xdoc_toks d).
Proof.
  induction d as [|b r IH]; [cbn; lia|]. unfold xdoc_toks in *. cbn [flat_map length]. rewrite app_length.
  pose proof (xblock_toks_nonempty b). destruct (xblock_toks b); [congruence|cbn; lia].
Qed.

Lemma xblanks_ok_wf bl d2 : forallb xblankish bl = true -> xwf_doc (bl ++ d2) = true -> xblanks_ok bl (xdoc_toks d2).
Proof.
  induction bl as [|b r IH]; intros Hb Hwf; [exact I|].
  cbn [forallb] in Hb. apply andb_true_iff in Hb. destruct Hb as [_ Hb].
  pose proof (IH Hb (xwf_doc_tail _ _ Hwf)) as Hr.
  destruct b as [nl|c nl|f its]; cbn [xblanks_ok]; try exact Hr.
  destruct nl as [x|]; [exact Hr|].
  cbn [app xwf_doc] in Hwf. apply andb_true_iff in Hwf. destruct Hwf as [Hc _].
  unfold xwf_comment in Hc. apply andb_true_iff in Hc. destruct Hc as [_ Hm]. cbn in Hm.
  destruct (r ++ d2) eqn:E; [|discriminate]. apply app_eq_nil in E. destruct E as [-> ->]. split; reflexivity.
Qed.

Lemma parse_root_xdoc n : forall d fuel, length d <= n -> length d <= fuel -> xwf_doc d = true ->
  parse_root fuel (xdoc_toks d) = Ok (map xblock_tree d, 0).
Proof.
  induction n as [|n IH]; intros d fuel Hn Hf Hwf.
  - destruct d; [|cbn in Hn; lia]. destruct fuel; reflexivity.
  - destruct d as [|b0 r0]; [destruct fuel; reflexivity|].
    destruct fuel as [|f]; [cbn in Hf; lia|].
    remember (b0 :: r0) as d eqn:Ed.
    destruct (span xblankish d) as [bl d2] eqn:Es.
    pose proof (span_app _ _ _ _ Es) as Hd. pose proof (span_all _ _ _ _ Es) as Hbl.
    pose proof (span_stop _ _ _ _ Es) as Hst.
    assert (Hne : xdoc_toks d <> []).
    { subst d. unfold xdoc_toks. cbn [flat_map]. pose proof (xblock_toks_nonempty b0).
      destruct (xblock_toks b0); [congruence|discriminate]. }
    cbn [parse_root]. destruct (xdoc_toks d) as [|t0 ts0] eqn:Et; [congruence|]. rewrite <- Et. clear Hne.
    rewrite <- Hd in Hwf. rewrite <- Hd. rewrite xdoc_toks_app.
    assert (Hsb : starts_blank (xdoc_toks d2) = false).
    { destruct d2 as [|b2 r2]; [reflexivity|]. destruct b2 as [nl|c nl|f2 its2]; try discriminate. reflexivity. }
    rewrite (skip_wsnl_xblanks bl _ (xdoc_toks d2)).
    + destruct d2 as [|b2 d3].
      * cbn [xdoc_toks flat_map]. rewrite app_nil_r. reflexivity.
      * destruct b2 as [nl|c nl|f2 its2]; try discriminate.
        pose proof (xwf_doc_suffix _ _ Hwf) as Hwf2.
        cbn [xwf_doc] in Hwf2. apply andb_true_iff in Hwf2. destruct Hwf2 as [Hp Hwf3].
        apply andb_true_iff in Hp. destruct Hp as [Hp Hnext]. apply andb_true_iff in Hp. destruct Hp as [Hfld Hits].
        assert (Etoks : xdoc_toks (XPara f2 its2 :: d3) = xfield_toks f2 ++ flat_map xitem_toks its2 ++ xdoc_toks d3).
        { unfold xdoc_toks. cbn [flat_map xblock_toks]. rewrite <- app_assoc. reflexivity. }
        rewrite Etoks.
        assert (Hnn : xfield_toks f2 ++ flat_map xitem_toks its2 ++ xdoc_toks d3 <> []) by (unfold xfield_toks; discriminate).
        destruct (xfield_toks f2 ++ flat_map xitem_toks its2 ++ xdoc_toks d3) as [|t1 r1] eqn:Er1; [congruence|]. rewrite <- Er1. clear Hnn.
        rewrite (parse_paragraph_xpara f2 its2 (match d3 with [] => false | _ => true end) (xdoc_toks d3) Hfld Hits).
        -- rewrite (IH d3 f).
           ++ rewrite map_app. cbn [map app Nat.add]. reflexivity.
           ++ assert (length d = length bl + S (length d3)) by (rewrite <- Hd, app_length; reflexivity). lia.
           ++ assert (length d = length bl + S (length d3)) by (rewrite <- Hd, app_length; reflexivity). lia.
           ++ exact Hwf3.
        -- destruct d3; [reflexivity|discriminate].
        -- unfold para_end. destruct d3 as [|b3 d4]; [exact I|]. destruct b3; try discriminate. exact I.
    + rewrite app_length. pose proof (xdoc_len bl). lia.
    + exact Hbl.
    + apply xblanks_ok_wf; assumption.
    + exact Hsb.
Qed.

Theorem parse_xdoc_toks d : xwf_doc d = true -> parse_tokens (xdoc_toks d) = Ok (xtree_of d, 0).
Proof.
  intros Hwf. unfold parse_tokens. rewrite (parse_root_xdoc (length d) d); [reflexivity|lia| |exact Hwf].
  apply xdoc_len.
Qed.

(* ---------------------------------------------------------------- the content of the tree *)
Definition ktexts (k : kind) (ts : list token) : list str :=
  flat_map (fun t => if kind_eqb (fst t) k then [snd t] else []) ts.

Lemma ttk_telems k k' ts : token_texts_of_kind k (Node k' (telems ts)) = ktexts k ts.
Proof.
  unfold token_texts_of_kind. cbn [children]. induction ts as [|[a s] r IH]; [reflexivity|].
  cbn [telems map fst snd flat_map ktexts]. f_equal. exact IH.
Qed.
Lemma ktexts_app k a b : ktexts k (a ++ b) = ktexts k a ++ ktexts k b.
Proof. apply flat_map_app. Qed.
Lemma ktexts_opt_other k k' s : kind_eqb k' k = false -> ktexts k (opt_tok k' s) = [].
Proof. intros H. destruct s; [reflexivity|]. cbn. rewrite H. reflexivity. Qed.

Lemma xtail_values cs o : ktexts VALUE (xtail cs o) = flat_map (fun c => pay_values (xc_pay c)) cs.
Proof.
  induction cs as [|c cs IH]; [destruct o; reflexivity|]. rewrite xtail_cons. cbn [flat_map].
  change (ktexts VALUE ((NEWLINE, [xc_nl c]) :: (INDENT, xc_ind c) :: pay_toks (xc_pay c) ++ xtail cs o))
    with (ktexts VALUE (pay_toks (xc_pay c) ++ xtail cs o)).
  rewrite ktexts_app, IH. f_equal. destruct (xc_pay c); reflexivity.
Qed.

Lemma entry_key_xfield f : entry_key (xfield_tree f) = Some (x_name f).
Proof. reflexivity. Qed.

Lemma entry_value_xfield f : entry_value (xfield_tree f) = xfield_value f.
Proof.
  unfold entry_value, xfield_tree, xfield_value. rewrite ttk_telems. f_equal. unfold xfield_toks.
  fold (xtail (x_cont f) (x_nl f)).
  change (ktexts VALUE ((KEY, x_name f) :: opt_tok WHITESPACE (x_w0 f) ++ (COLON, [58%N]) :: opt_tok WHITESPACE (x_w1 f) ++ opt_tok VALUE (x_first f) ++ xtail (x_cont f) (x_nl f)))
    with (ktexts VALUE (opt_tok WHITESPACE (x_w0 f) ++ (COLON, [58%N]) :: opt_tok WHITESPACE (x_w1 f) ++ opt_tok VALUE (x_first f) ++ xtail (x_cont f) (x_nl f))).
  rewrite ktexts_app, (ktexts_opt_other VALUE WHITESPACE _ eq_refl). cbn [app].
  change (ktexts VALUE ((COLON, [58%N]) :: opt_tok WHITESPACE (x_w1 f) ++ opt_tok VALUE (x_first f) ++ xtail (x_cont f) (x_nl f)))
    with (ktexts VALUE (opt_tok WHITESPACE (x_w1 f) ++ opt_tok VALUE (x_first f) ++ xtail (x_cont f) (x_nl f))).
  rewrite ktexts_app, (ktexts_opt_other VALUE WHITESPACE _ eq_refl), ktexts_app, xtail_values. cbn [app]. f_equal.
  destruct (x_first f); reflexivity.
Qed.

Lemma xcomment_no_entries c nl : filter (fun e => is_node e && is_kind ENTRY e) (telems (xcomment_toks c nl)) = [].
Proof. destruct nl; reflexivity. Qed.

Lemma items_xpara f its :
  items (Node PARAGRAPH (xfield_tree f :: flat_map xitem_elems its)) = xfield_pair f :: flat_map xitem_pairs its.
Proof.
  unfold items, entries, node_children_of_kind. cbn [children filter].
  change (is_node (xfield_tree f) && is_kind ENTRY (xfield_tree f)) with true. cbn [flat_map].
  rewrite entry_key_xfield, entry_value_xfield. cbn [app]. unfold xfield_pair. f_equal.
  induction its as [|it r IH]; [reflexivity|]. cbn [flat_map]. rewrite filter_app, flat_map_app, IH. f_equal.
  destruct it as [g|c nl]; cbn [xitem_elems xitem_pairs].
  - cbn [filter]. change (is_node (xfield_tree g) && is_kind ENTRY (xfield_tree g)) with true. cbn [flat_map].
    rewrite entry_key_xfield, entry_value_xfield. reflexivity.
  - rewrite xcomment_no_entries. reflexivity.
Qed.

Lemma doc_items_xtree_of d : doc_items (xtree_of d) = xcontent d.
Proof.
  unfold doc_items, paragraphs, node_children_of_kind, xtree_of, xcontent. cbn [children].
  induction d as [|b r IH]; [reflexivity|]. cbn [map filter flat_map].
  destruct b as [nl|c nl|f its]; cbn [xblock_tree xblock_content app].
  - exact IH.
  - exact IH.
  - change (is_node (Node PARAGRAPH (xfield_tree f :: flat_map xitem_elems its)) &&
            is_kind PARAGRAPH (Node PARAGRAPH (xfield_tree f :: flat_map xitem_elems its))) with true.
    cbn [map]. rewrite items_xpara, IH. reflexivity.
Qed.

(* ---------------------------------------------------------------- ACCEPTANCE: every well-formed layout is read back exactly *)
Theorem parse_image_accept d : xwf_doc d = true ->
  lex (xrender d) = Ok (xdoc_toks d) /\
  from_str (xrender d) = Ok (xtree_of d) /\ text (xtree_of d) = xrender d /\ doc_items (xtree_of d) = xcontent d.
Proof.
  intros Hwf.
  assert (E : parse (xrender d) = Ok (xtree_of d, 0)).
  { unfold parse. rewrite (lex_xrender d Hwf). apply parse_xdoc_toks. exact Hwf. }
  split; [apply lex_xrender, Hwf|].
  split; [unfold from_str; rewrite E; reflexivity|]. split; [eapply parse_text; exact E|apply doc_items_xtree_of].
Qed.
